import os, sys, json, shutil, subprocess, tempfile
from concurrent.futures import ThreadPoolExecutor
V="/verif"
names=sys.argv[1:]
byprop={}
for n in names:
    m=json.load(open(f"{V}/seeded/{n}/meta.json")); byprop.setdefault(m["property"],[]).append((n,m))
def run_prop(prop):
    for n,m in byprop[prop]:
        d=f"{V}/seeded/{n}"
        t=tempfile.mkdtemp(prefix="refresh-")
        shutil.copy(d+"/patch.diff",t+"/seed1.diff")
        if os.path.isdir(d+"/demo"): shutil.copytree(d+"/demo",t+"/demo1")
        else: shutil.copy(d+"/demo_test.go",t+"/demo1_test.go")
        bak=tempfile.mkdtemp(prefix="refreshbak-"); shutil.copytree(d,bak+"/s")
        p=subprocess.run(["python3","vlib/seedtest.py",prop,t,"1",n,m.get("needs","")],cwd=V,stdout=subprocess.PIPE,stderr=subprocess.STDOUT,text=True)
        s=p.stdout
        try:
            i=s.index('{\n "property"'); r=json.loads(s[i:])
        except Exception:
            r={"error":"unparsed"}
        if not r.get("confirmed"):
            shutil.rmtree(d,ignore_errors=True); shutil.copytree(bak+"/s",d)
        print(n, r.get("confirmed"), (r.get("check") or {}).get("verdict"), flush=True)
        shutil.rmtree(t,ignore_errors=True); shutil.rmtree(bak,ignore_errors=True)
with ThreadPoolExecutor(3) as ex: list(ex.map(run_prop, sorted(byprop)))
