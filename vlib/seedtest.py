#!/usr/bin/env python3
"""Confirm a seeded change and run the check against it.

  python3 vlib/seedtest.py <property> <seed dir> <n> <name> ["what it needs to manifest"]

<seed dir> holds seed<n>.diff and demo<n>_test.go (+ optional line 'package dir' in demo<n>.where) or demo<n>/main.go,
as left by a seeding sub-agent.  Steps (all in a scratch git worktree of /repo, removed afterwards):
  1. patch applies, tree builds, pinned suite passes with the change;
  2. demonstration fails with the change and passes without it;
  3. `./check <property> --tier quick` with VERIF_REPO=<worktree> -> detected (exit 1) / missed (exit 0) / infra (2).
The seed is stored as /verif/seeded/<name>/ (patch.diff, demo, meta.json) only if 1 and 2 hold.
"""
import sys, os, json, subprocess, shutil, tempfile, glob, time

VERIF = os.path.dirname(os.path.dirname(os.path.abspath(__file__)))
ENV = dict(os.environ, GOFLAGS="-mod=mod", GOPROXY="off", GOSUMDB="off", GOTOOLCHAIN="local")


def sh(cmd, cwd, timeout=900, env=None):
    p = subprocess.run(cmd, cwd=cwd, shell=True, env=env or ENV, stdout=subprocess.PIPE, stderr=subprocess.STDOUT, text=True, timeout=timeout)
    return p.returncode, p.stdout


def suite(wt):
    rc1, o1 = sh("go build ./... && go test -vet=off -count=1 ./...", wt)
    rc2, o2 = sh("go test -vet=off -count=1 ./...", os.path.join(wt, "cmd/arcaflow-codegen"))
    return rc1 == 0 and rc2 == 0, (o1 + o2)[-1500:]


def place_demo(seed_dir, n, wt):
    """returns (command, cwd) to run the demonstration inside worktree wt"""
    d = os.path.join(seed_dir, "demo%d" % n)
    t = os.path.join(seed_dir, "demo%d_test.go" % n)
    if os.path.isdir(d):
        shutil.copytree(d, os.path.join(wt, "zz_demo%d" % n))
        if os.path.exists(os.path.join(d, "go.mod")):
            return "go run .", os.path.join(wt, "zz_demo%d" % n)
        return "go run ./zz_demo%d" % n, wt
    if os.path.exists(t):
        where = "schema"
        wf = os.path.join(seed_dir, "demo%d.where" % n)
        if os.path.exists(wf):
            where = open(wf).read().strip()
        else:
            head = open(t).read(4000)
            for cand, pk in (("atp", "package atp"), ("schema", "package schema"), ("cmd/arcaflow-codegen", "package main")):
                if pk in head:
                    where = cand
                    break
        shutil.copy(t, os.path.join(wt, where, "zz_demo%d_test.go" % n))
        import re
        tag = re.search(r"//go:build (\w+)", open(t).read(300))
        tags = ("-tags %s " % tag.group(1)) if tag else ""
        run = re.findall(r"func (Test\w+)\(", open(t).read())
        sel = "-run '^(%s)$' " % "|".join(run) if run else ""
        return "go test -vet=off -count=1 %s%s./%s/ 2>&1 | tail -40; exit ${PIPESTATUS[0]}" % (tags, sel, where) if where != "cmd/arcaflow-codegen" \
            else "go test -vet=off -count=1 %s./... 2>&1 | tail -40; exit ${PIPESTATUS[0]}" % tags, (wt if where != "cmd/arcaflow-codegen" else os.path.join(wt, where))
    raise SystemExit("no demonstration found for seed %d in %s" % (n, seed_dir))


def main():
    prop, seed_dir, n, name = sys.argv[1], sys.argv[2], int(sys.argv[3]), sys.argv[4]
    needs = sys.argv[5] if len(sys.argv) > 5 else ""
    patch = os.path.join(seed_dir, "seed%d.diff" % n)
    wt = tempfile.mkdtemp(prefix="seedwt-")
    os.rmdir(wt)
    meta = dict(property=prop, name=name, needs=needs, ran=[])
    try:
        rc, out = sh("git -C /repo worktree add -q %s HEAD" % wt, "/repo")
        if rc:
            raise SystemExit("worktree: " + out)
        # demonstration without the change
        cmd, cwd = place_demo(seed_dir, n, wt)
        rc0, o0 = sh("bash -c '%s'" % cmd.replace("'", "'\\''"), cwd)
        meta["ran"].append("demo without change: rc=%d" % rc0)
        rc, out = sh("git apply %s" % patch, wt)
        if rc:
            meta["error"] = "patch does not apply to the current tree: " + out[-400:]
            print(json.dumps(meta, indent=1))
            return 3
        rc1, o1 = sh("bash -c '%s'" % cmd.replace("'", "'\\''"), cwd)
        meta["ran"].append("demo with change: rc=%d" % rc1)
        # the pinned suite with the change (the demo file is not part of it)
        for f in glob.glob(os.path.join(wt, "*", "zz_demo*_test.go")) + glob.glob(os.path.join(wt, "cmd", "*", "zz_demo*_test.go")):
            os.remove(f)
        shutil.rmtree(os.path.join(wt, "zz_demo%d" % n), ignore_errors=True)
        ok, so = suite(wt)
        meta["ran"].append("pinned suite with change: %s" % ("pass" if ok else "FAIL"))
        meta["confirmed"] = bool(rc0 == 0 and rc1 != 0 and ok)
        if not meta["confirmed"]:
            meta["detail"] = dict(demo_without=o0[-600:], demo_with=o1[-600:], suite=so[-600:])
        # the check
        t = time.time()
        p = subprocess.run(["./check", prop, "--tier", "quick"], cwd=VERIF, env=dict(os.environ, VERIF_REPO=wt),
                           stdout=subprocess.PIPE, stderr=subprocess.STDOUT, text=True, timeout=3000)
        lines = [l for l in p.stdout.splitlines() if l.startswith("VIOLATION") or l.strip().startswith("signature:") or l.startswith("INFRA")]
        meta["check"] = dict(cmd="VERIF_REPO=<worktree with the change> ./check %s --tier quick" % prop, rc=p.returncode,
                             verdict={0: "missed", 1: "detected", 2: "infra"}.get(p.returncode, "?"),
                             wall_s=round(time.time() - t, 1), lines=lines[:12])
        if meta["confirmed"]:
            dst = os.path.join(VERIF, "seeded", name)
            shutil.rmtree(dst, ignore_errors=True)
            os.makedirs(dst)
            shutil.copy(patch, os.path.join(dst, "patch.diff"))
            d = os.path.join(seed_dir, "demo%d" % n)
            if os.path.isdir(d):
                shutil.copytree(d, os.path.join(dst, "demo"))
            else:
                shutil.copy(os.path.join(seed_dir, "demo%d_test.go" % n), os.path.join(dst, "demo_test.go"))
            with open(os.path.join(dst, "meta.json"), "w") as f:
                json.dump(meta, f, indent=1)
        print(json.dumps(meta, indent=1))
        return 0
    finally:
        sh("git -C /repo worktree remove --force %s" % wt, "/repo")
        shutil.rmtree(wt, ignore_errors=True)


if __name__ == "__main__":
    sys.exit(main())
