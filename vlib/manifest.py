#!/usr/bin/env python3
"""Regenerates /verif/MANIFEST.json from the registry below (python3 vlib/manifest.py)."""
import json, os, subprocess

HERE = os.path.dirname(os.path.dirname(os.path.abspath(__file__)))

TRUST = ("Trusted: TLC 2026.09.04 (tla2tools 1.8.0) and the CommunityModules Json/CSV/IOUtils overrides; the harness's "
         "concretisation of abstract vectors into Go values; the supervised worker (harness/sup). ")

CLAIMED = {
    "C01": dict(
        text="spec/SchemaDecl.tla states RoundTrip (Unserialize o Serialize is the identity on accepted values, Serialize o Unserialize is "
             "idempotent, also through Values!CBOR, the model of the wire transform); TLC checks it on every state of SchemaMC in mode c01: "
             "every scalar schema of the C02 universe x every raw representation, containers, every object of the C03 universe with its "
             "mappings, struct-mapped objects with every field kind, one-of (string/int discriminator, inlined or not) and references. Each "
             "state is a vector for which the harness really runs Unserialize -> Validate -> Serialize -> Unserialize and Serialize -> "
             "fxamacker/cbor encode -> decode into any (as atp does) -> Unserialize -> Validate -> Serialize on the real schema and compares the "
             "Go values, the wire-form shape and the typed entry points; random deeper schemas/values are validated by SchemaTrace.tla.",
        note=TRUST + "Equality of Go values identifies nil and empty slices/maps and NaN with NaN; the first Unserialize rejecting belongs to "
             "C02/C03, panics to C04; wire-form details of the model are drift.",
        technique="TLA+ round-trip law checked by TLC over an enumerated schema/value universe; every state executed on the real code through "
                  "the real CBOR codec; trace validation of random calls",
        design="5/C01", engine="tlc-exhaustive"),
    "C03": dict(
        text="spec/SchemaSem.tla transcribes object unserialisation (key check, defaulting, per-property conversion, presence rules, shorthand) "
             "and one-of dispatch; spec/SchemaDecl.tla states the property per rule kind over the set of properties present after defaulting; "
             "TLC checks ObjExact and SamePaths on every state of SchemaMC in mode c03: all objects with <= 2 properties over every flag "
             "combination (required, required_if, required_if_not, conflicts, default, disabled) x every subset of supplied properties x "
             "valid/invalid values, map-based and struct-mapped, sub-objects with and without declared defaults, one-of x discriminator "
             "present/absent/unknown/convertible x member accepts/rejects, references. Every state is replayed into the real schema; "
             "random objects are validated line by line by SchemaTrace.tla.",
        note=TRUST + "Disabled properties on the Validate/Serialize paths and data-mode compatibility are left open by the statement and are "
             "reported as drift only.",
        technique="TLA+ transcription checked against a declarative TLA+ statement by TLC; every state replayed into the real code; trace "
                  "validation",
        design="5/C03", engine="tlc-exhaustive"),
    "C02": dict(
        text="spec/SchemaSem.tla transcribes Unserialize/Validate/Serialize for int, float, string, bool, pattern, int/string enums "
             "(typed and untyped), list, map and any (with units) rule by rule; spec/SchemaDecl.tla states the property declaratively "
             "(Denotes = the fixed lenient conversions, Satisfies = every declared constraint); TLC checks Exact (operational <=> "
             "declarative and the result is the denoted value) and SamePaths (Validate/Serialize enforce the same constraints on native "
             "values) on every state of SchemaMC: every combination of absent/present bounds x {min-1,min,max,max+1}, sizes 0-3 x size "
             "bounds, NaN/Inf, int64/2^53/2^31/2^32 edges through order embeddings, every Go representation; each state is replayed into "
             "the real schema built through the public constructors under every embedding; deeper random schemas/values are logged and "
             "validated line by line by SchemaTrace.tla.",
        note=TRUST + "The string-token table and the CBOR/JSON/YAML transform table are checked at start-up against strconv/regexp "
             "and the real codecs (a mismatch is exit 2); numbers go through order-preserving embeddings (TLC has 32-bit ints, no floats).",
        technique="TLA+ transcription (operational) checked against a declarative TLA+ statement by TLC; every state replayed into the "
                  "real code; recorded calls validated by a trace spec",
        design="5/C02", engine="tlc-exhaustive"),
    "C04": dict(
        text="The operators of spec/SchemaSem.tla are total on Raw U Junk at every schema position (a missing CASE arm is a TLC error); "
             "TLC enumerates every schema kind x every value class (nil, wrong types, non-string and mixed map keys, typed maps and "
             "slices, byte strings, tags, big numbers, extreme integers, NaN/Inf, named scalar types, nil pointers, foreign structs) at "
             "every position of schemas of depth <=2/3; every vector runs Unserialize, data-mode ValidateCompatibility, Validate and "
             "Serialize in the supervised worker: verdict = returned vs panic / fatal stack overflow / no return; a deep-nesting sweep "
             "(to 12000/20000 levels, directly and through encoding/json) and seeded hostile random values complete it.",
        note=TRUST + "Only returned-vs-panic/overflow/hang is judged here; accept/reject disagreements belong to C02/C03. Nesting beyond "
             "what the decoders can produce is not held against the SDK.",
        technique="TLA+ totality model enumerated by TLC; vectors executed in a supervised child process that attributes panics, fatal "
                  "errors and hangs to one case",
        design="5/C04", engine="tlc-exhaustive"),
    "C05": dict(
        text="TLC explores every interleaving of the implementation-shaped model spec/ATP.tla (callers, read loop, write loops, Close, "
             "server run loop, closure handler, step and signal goroutines, both wires with capacity and fragmentation) for 2-3 runs "
             "and checks Transparent / NoCrossTalk / WriterAtomic / Faithful / NoLoss; TLC behaviours are replayed gate by gate into the "
             "real client and server over a fragmenting, coalescing in-memory transport, every Execute result is compared with "
             "CallStep in-process on the same input (payload fidelity decided by the real CBOR codec), and every recorded hook trace "
             "(replays, delay exploration, concurrent stress) is validated by ATPTrace.tla with the C05 invariants checked in every state. The legacy v1 framing is spec/ATPHello.tla: a call holds the v1 mutex from its work-start to its work-done (V1Transparent, V1NoCrossTalk for serial and overlapping calls against a faithful v1 plugin; the read-lock-only deviation must exhibit cross-talk on the model); behaviours and held-gate schedules of overlapping v1 calls run on the real client over a buffering transport and are validated by ATPHelloTrace.tla. The signal path with a signalsToStep channel shared by several calls is spec/ATPSignals.tla (Addressed, AtMostOnce, AllDelivered for four runs and every order of addressing; the stamp-own-run-ID deviation must violate Addressed): overlapping calls of a step whose output is the token its signal handler received, in every rotation of the addressing order, are validated by ATPSignalsTrace.tla. Overlapping callers of one run ID, run IDs used again, non-finite floats and rejected inputs are part of the payload sessions.",
        note=TRUST + "Hook placement in atp/ (build tag verif); the gate scheduler's settle detection from goroutine dumps; no write stalls >= 60 s.",
        technique="TLA+ model of client+server+wires checked by TLC; schedule replay into the real code; trace validation of real sessions",
        design="5/C05", engine="tlc-exhaustive"),
    "C06": dict(
        text="TLC checks NoStuck / ReturnsOnce / Quiescent / NoNilWake / FlagHonest on every reachable state of spec/ATP.tla (the "
             "model of the current client and server, one action per critical section) for serial and concurrent sessions of 2-3 runs "
             "with signals, step errors and Close at any point, plus liveness under weak fairness in the thorough tier; model "
             "counterexamples become verdicts only when replayed into the real code they end structurally stuck. Sampled TLC "
             "behaviours are replayed through the gate scheduler; every gate occurrence of fixed workloads is held until the rest of the "
             "system is blocked (systematic delay exploration); every recorded trace must be accepted by ATPTrace.tla.",
        note=TRUST + "Hook placement in atp/ (build tag verif); stuck = every goroutine blocked with calls pending (goroutine dump), never a "
             "timeout; healthy peer = the SDK server whose output closes when it returns; 60 s/5 s timers not driven.",
        technique="TLA+ model checked exhaustively by TLC; counterexample and behaviour replay through scheduler gates; delay-bounded "
                  "schedule exploration with trace validation",
        design="5/C06", engine="tlc-exhaustive"),
    "C07": dict(
        text="spec/ATPServerEnv.tla puts the server of ATP.tla (run loop, closure handler, step and signal goroutines, bounded closable "
             "workDone channel, encoder mutex) against an arbitrary client: any sequence (<=3/4) of valid and invalid messages of a "
             "grammar, a message cut short, end of input at any moment, every step behaviour; TLC checks EnvNoCrash, EnvOneTerminal, "
             "EnvNoStuck on every interleaving and EnvAnswers/EnvReturns under fairness (thorough). Sampled behaviours are projected to "
             "client scripts with concrete CBOR variants and played against the real RunATPServer in a supervised child process; "
             "seeded grammar scripts beyond the model (3 runs, 8 messages, duplicate run IDs) and EVERY byte offset of base scripts as "
             "truncation point are run; oracles: process alive, RunATPServer returns, terminal messages per run = accepted work-starts; "
             "every session without duplicate run IDs is validated by ATPTrace.tla. The server's handshake (SelfSerialize, start message, hello) against any first message, end of input and failing output is the SSpec part of spec/ATPHello.tla (SrvOneError, HelloAfterStart, SrvTotal, liveness), replayed into RunATPServer - also with a plugin that cannot describe itself - and validated by ATPHelloTrace.tla; the same module follows the input stream across the hand-over from the handshake's decoder to the read loop (NothingSwallowed, LoopSeesAll; the own-decoder deviation must lose a pipelined work-start), exercised with several messages in ONE write. A cancelled server context (not client-driven, outside the statement) is modelled in spec/ATPServerCancel.tla and bound by validated sessions, judged only by what the statement demands of any session.",
        note=TRUST + "Hook placement in atp/ (build tag verif); the client keeps reading until the output closes; 60 s send timeout "
             "not driven; duplicate run IDs only with the counting oracle.",
        technique="TLA+ model of the server against a nondeterministic client environment checked by TLC; projected scripts and "
                  "byte-offset truncations run against the real server; trace validation",
        design="5/C07", engine="tlc-exhaustive"),
    "C08": dict(
        text="spec/ATPClientEnv.tla puts the client of ATP.tla against a server stream that answers in any order or never, interleaves "
             "unsolicited messages, turns to garbage, stops inside a message, ends, or whose input side fails; TLC checks FailNotHang, "
             "NoFabrication, FReturnsOnce, NoNilWake, FlagHonest on every interleaving (2 runs) and liveness under fairness (thorough). "
             "Sampled behaviours are projected to scripts and run against the real client; for base sessions (v3 serial, v3 concurrent "
             "with unsolicited traffic, v1) every byte offset x {EOF, I/O error, byte inversion}, faults inside the hello, unsupported "
             "version, unusable schema and write-side failure at every position are enumerated; oracles: no panic, every call returns "
             "once (structural stuck detection), success only for a run whose work-done is intact by an independent per-message decode "
             "of the same faulted bytes; scripted sessions are validated by ATPTrace.tla. The handshake (ReadSchema against a correct, wrong-version, unusable-schema, wrong-kind, garbled, torso or missing hello, with the write side failing) and Execute over the legacy framing after any handshake outcome are the CSpec part of spec/ATPHello.tla (HelloHonest, NoFabrication, FailNotHang, ReturnsOnce, OneReader, liveness); sampled behaviours run on the real client and every session is validated by ATPHelloTrace.tla.",
        note=TRUST + "Hook placement in atp/ (build tag verif); corruption inside a payload string is undetectable without checksums and is "
             "judged by the independent decode; Close's 5 s bounded wait not driven.",
        technique="TLA+ model of the client against a breaking-stream environment checked by TLC; fault enumeration at every byte offset "
                  "of recorded streams against the real client; trace validation",
        design="5/C08", engine="tlc-exhaustive"),
    "C09": dict(
        text="spec/Meta.tla transcribes the meta-schema independently of the Go tables as a field table over abstract description trees "
             "(Describe, MetaAccepts, Rebuild with separate accept / link / first-use steps); TLC checks Describable, FixedPoint "
             "(describe-rebuild-describe under the identity, CBOR, YAML and JSON transforms) and SameBehaviour for generated scopes and "
             "plugin schemas using every type kind, units, enums with and without display data, defaults, presence rules, nested scopes, "
             "namespaced and recursive references, signal handlers and emitters. Verdicts come from real artefacts: SelfSerialize must "
             "succeed and the real meta-schema accept it directly, after real CBOR, YAML and JSON; re-describing the rebuilt schema must "
             "give the identical tree; original and rebuilt schema must agree on generated inputs; Client.ReadSchema against the real "
             "server for plugin schemas. Field-by-field differences to the model's Describe are drift only. Random larger schemas are "
             "validated by MetaTrace.tla.",
        note=TRUST + "The harness's AST builder; yaml.v3, encoding/json and fxamacker/cbor as transports; descriptions in minimal form (optional "
             "fields omitted) give drift, not violations.",
        technique="independent TLA+ transcription of the meta-schema checked by TLC (fixed point, describability); real "
                  "describe/rebuild/describe round trips compared; recorded stage outcomes validated by a trace spec",
        design="5/C09", engine="tlc-exhaustive"),
    "C10": dict(
        text="spec/Meta.tla's Rebuild separates accept -> link -> first use exactly as the code does; TLC enumerates all single (quick) "
             "and double (thorough) structural mutations - delete, retype, rename, duplicate, re-point - at every node of the valid "
             "descriptions of the C09 universe plus grammar-free trees, classifies each as Reject or Accept with the rebuilt schema "
             "and checks AcceptedImpliesUsable. Each mutated description is given to UnserializeScope, UnserializeSchema and "
             "Client.ReadSchema (scripted server sending the mutated hello) in the supervised worker; whatever schema is returned is "
             "exercised at every input, output and signal schema with the value classes of C04 and SelfSerialize: error-or-usable; a "
             "panic at load or on first use is the violation (signature: stage, kind, mutation class, SDK frame).",
        note=TRUST + "Stack-overflow recursions reachable on valid schemas (C04's subject) are skipped by the exerciser and counted; the model's "
             "accept/reject classification is compared as drift.",
        technique="TLA+ model of description acceptance, linking and first use with mutation operators enumerated by TLC; mutants fed to "
                  "the real loaders in a supervised worker; trace validation",
        design="5/C10", engine="tlc-exhaustive"),
    "C11": dict(
        text="spec/Steps.tla is a state machine of CallStep/CallSignal (lookup, input unserialization, the initializer critical "
             "section shared by step and signal paths, handler invocation, output checks) with a ledger of handler invocations; TLC "
             "checks HandlerIffValid, ExactArgument, ErrorClass (operational outcome = declarative Expected), InitOncePerRun, "
             "DataStable, NoStuck over every interleaving of 2-3 goroutines issuing step and signal calls for the same and different "
             "run IDs over 2 steps x all handler behaviours x valid/invalid inputs; every distinct gate-level schedule is exported and "
             "forced on the real CallableSchema (the harness's initializer and handlers park the goroutines; blocked-on-mutex is "
             "confirmed from goroutine dumps); random 4-goroutine sessions (also under -race in the thorough tier) are logged and "
             "validated by StepsTrace.tla.",
        note=TRUST + "The harness's recording handlers and counting initializer; error types via errors.As; the Go race detector "
             "(thorough) as the instrument for data races.",
        technique="TLA+ state machine of step/signal calls checked by TLC over all interleavings; exported schedules forced on the "
                  "real code; recorded ledgers validated by a trace spec",
        design="5/C11", engine="tlc-exhaustive"),
    "C12": dict(
        text="spec/Instance.tla is a state machine of one schema instance's life (lazily filled caches: decoded defaults, unit "
             "caches; links; the decoded default map of a by-value sub-object; caller-owned arguments; call history) in which every "
             "call's result must lie in PureSet(schema, op, arg); TLC checks HistoryFree, Deterministic, CacheIntegrity, "
             "DescribeUnchanged, ArgumentPreserved over all call histories of length <=3/4, and first exhibits every NAMED deviation "
             "(aliased defaults, colliding map keys, in-place discriminator stripping, enum early return) on the model, whose witnesses "
             "become targeted histories. Every history is run on ONE real instance: N-fold evaluation of each call (map order "
             "re-randomised), deep argument snapshots, GetDefaults/SelfSerialize and results compared with a fresh instance; random "
             "longer histories are validated by InstanceTrace.tla.",
        note=TRUST + "The harness's own schema builder (units incl. package-level sets, map-based and struct-mapped objects with defaults, "
             "rebuilt scopes, colliding maps, one-of, enums, callable steps); determinism is a bounded observation (20/200 evaluations).",
        technique="TLA+ state machine of a schema instance checked by TLC over call histories; histories replayed on one real instance "
                  "against fresh instances; recorded histories validated by a trace spec",
        design="5/C12", engine="tlc-exhaustive"),
    "C13": dict(
        text="spec/Instance.tla with 2-3 goroutine program counters stepping through the lazy paths at memory-access granularity (unit "
             "caches, lazy defaults, sub-object default propagation, step data under its mutex); TLC checks NoRace (two conflicting "
             "accesses without a common lock), InitOnce and Isolated on every interleaving and exports first-use schedules; each "
             "schedule is run on a FRESH or freshly rebuilt instance (package-level values in a fresh process) by 2-16 goroutines "
             "released from one barrier in a binary built with -race from the working tree: every result must equal the isolated one "
             "and the Go race detector - the observation instrument for data races in real code - must stay silent; fatal concurrent "
             "map errors with SDK frames count as races.",
        note=TRUST + "The Go race detector sees only interleavings that occur (first-use detection is probabilistic; thousands of fresh "
             "instances/processes per run); UnserializeScope leaves references unlinked, the harness links single-threaded before sharing.",
        technique="TLA+ memory-access-level model checked by TLC for data races; exported first-use schedules run under the Go race "
                  "detector on fresh instances; recorded results validated by a trace spec",
        design="5/C13", engine="tlc-exhaustive"),
    "C14": dict(
        text="spec/Scopes.tla is the link state machine of scopes: trees of scopes/objects/references/one-ofs/lists/maps with colliding "
             "object IDs, actions ApplySelf(scope) and ApplyNamespace(scope, ns, table) in any order and repeated, the operational "
             "propagation shaped like the code next to the declarative side (Nearest/Resolve/Lexical, OtherNamespacesUntouched as an action "
             "property, ValidateRefsIffAllLinked, OrderIndependent, Inline and InlineSameAt, finite Unser on recursive graphs). TLC checks "
             "them exhaustively over a universe of scope trees (5 shapes + bare recursive objects, up to two reference placements under "
             "direct/list/map/one-of/inline-object wrappers, two external tables, three namespaces). Every (link state, call) pair is "
             "replayed on real schemas built through the public constructors: the object each reference is linked to, the "
             "ValidateReferences verdict per scope, accept/reject/value of model and random inputs, scope vs constructor-built inlined scope "
             "on Unserialize/Validate/Serialize, recursion chains 50..10000 (thorough 100000) deep; runs of a seeded random driver on bigger "
             "trees are validated line by line by ScopesTrace.tla.",
        note=TRUST + "Objects are map-based with string discriminators; chains deeper than 10000 objects only note drift (stack size is a "
             "resource limit).",
        technique="TLA+ state machine of namespace application checked exhaustively by TLC; every model state and call replayed into the real "
                  "code; trace validation of random application sequences",
        design="5/C14", engine="tlc-exhaustive"),
    "C15": dict(
        text="spec/Compat.tla states the property as a partial specification over an abstract schema AST: MustReject (different base "
             "kind, incompatible element/key/value/property types, undeclared or missing-required property, differing enforced IDs, "
             "enum value outside the consumer's set, other discriminator or missing member, ranges that cannot overlap for all 16 "
             "nil/non-nil bound patterns) and MustAccept (identical, rebuilt from its own description); TLC checks that the two never "
             "both hold, that the recursive definition terminates on recursive scopes and enumerates all ordered pairs of a universe "
             "of ~100 schemas plus wrappers to depth 3; each pair is built through the public constructors and "
             "A.ValidateCompatibility(B) is called 20/100 times in the supervised worker (stack exhaustion is fatal): verdict must be "
             "an error / nil as demanded, identical across repetitions, and the call must return. Random deeper pairs are validated by "
             "CompatTrace.tla.",
        note=TRUST + "The harness's AST -> constructor builder (TypeID binding table checked at start); rebuilt copies are made with "
             "SelfSerialize + UnserializeScope + ApplySelf; determinism is a bounded observation (20/100 repetitions per pair).",
        technique="partial TLA+ specification (MustReject/MustAccept) enumerated by TLC over schema pairs; pairs replayed into the real "
                  "code under a supervised worker; recorded verdicts validated by a trace spec",
        design="5/C15", engine="tlc-exhaustive"),
    "C16": dict(
        text="TLC enumerates every state of UnitsMC (each integer 0..5000/200000 plus multiplier and power-of-ten edges, half-unit "
             "floats, every token string up to 2/3 tokens over declared units, bare numbers, undeclared units, fractional counts) "
             "and checks round trip and canonical form on the model; each state is replayed into the real Format*/Parse*/IntSchema/"
             "FloatSchema code and compared; 63-bit quantities are swept with a math/big oracle and the digit structure of the printed "
             "text is validated by UnitsTrace.tla.",
        note=TRUST + "The rendering of tokens with the real unit names in harness/cmd/units (multipliers checked against the code at "
             "start); math/big for 63-bit sums; float tolerance 1e-6+1e-9|x|.",
        technique="TLA+ transcription of the units contract enumerated by TLC; vectors replayed into the code; recorded output "
                  "validated by a trace spec",
        design="5/C16", engine="tlc-exhaustive"),
    "C17": dict(
        text="spec/ErrPath.tla builds every (leaf kind x single fault) case wrapped in <= 2 (thorough 3) containers - list, map, map-based "
             "object, one-of member, struct-mapped object - with the valid input, the input with exactly one fault and the expected path; TLC "
             "checks SingleFaultRejected on the model and exports the vectors; the harness runs the real Unserialize and Validate and requires "
             "errors.As(*ConstraintError) and Path (decorations and one-of annotations removed) = the expected path; undeclared keys: the "
             "object's path and the key named.",
        note=TRUST + "Error wording is not judged; the valid input rejected or the faulty one accepted belongs to C02/C03.",
        technique="TLA+ construction of single-fault vectors with their expected paths enumerated by TLC; every vector executed on the real code",
        design="5/C17", engine="tlc-exhaustive"),
    "C18": dict(
        text="TLC enumerates the full matrix handler signature x declaration x argument list of spec/Funcs.tla (0-2/3 parameters and "
             "0-3 results over native types incl. types merely named error, static and dynamic constructors), checks that the "
             "rule-by-rule acceptance equals the declarative one and that call outcomes computed from the handler and from the "
             "declaration agree; every cell is replayed into NewCallableFunction / NewDynamicCallableFunction / Call with handlers "
             "synthesised by reflect.MakeFunc; random functions beyond the matrix are logged and validated by FuncsTrace.tla.",
        note=TRUST + "reflect.FuncOf/MakeFunc to synthesise handlers; the attribute table (interface / nilable / assignable to error) "
             "checked against reflect at start. Variadic and non-function handlers are outside the matrix (drift only).",
        technique="TLA+ acceptance/call contract enumerated by TLC; matrix replayed into the constructors; recorded calls validated "
                  "by a trace spec",
        design="5/C18", engine="tlc-exhaustive"),
    "C19": dict(
        text="TLC enumerates abstract schema documents (0-3 objects x 0-3 properties, every type ID, references, every ignore "
             "argument form) of spec/Codegen.tla with the expected set of structs and an Observe machine (a later observation of the "
             "same input must be identical); each document is rendered to YAML and run through the generator built from the working "
             "tree 5/25 times; exit status, panic, gofmt validity (go/parser, go/format), structs/fields/tags/types and byte "
             "identity across runs are compared with the specification; larger random documents are validated by CodegenTrace.tla.",
        note=TRUST + "go/parser and go/format decide gofmt validity and struct extraction; yaml.v3 re-parse of the rendered input; "
             "determinism is a bounded observation (5/25 runs per input).",
        technique="TLA+ contract of the generator enumerated by TLC; documents run through the real binary; recorded runs validated "
                  "by a trace spec",
        design="5/C19", engine="tlc-exhaustive"),
}

PENDING_REASON = ("check under construction in this session (specification and harness not yet registered); planned as in "
                  "DESIGN.md section 5")


def main():
    props = [json.loads(l) for l in open(os.path.join(HERE, "properties.jsonl"))]
    try:
        commits = subprocess.run(["git", "-C", "/repo", "log", "--format=%h %s", "--grep=^verif:"], stdout=subprocess.PIPE,
                                 text=True).stdout.strip().splitlines()
        commits = [c.split(" ")[0] for c in commits]
    except Exception:
        commits = []
    claimed = [p["id"] for p in props if p["id"] in CLAIMED and os.path.exists(os.path.join(HERE, "props", p["id"].lower() + ".py"))]
    m = {
        "version": 1,
        "setup_cmd": "./check setup",
        "hooks": {
            "guard": "verif",
            "enable": "go build -tags verif (harness module /verif/harness with replace go.flow.arcalot.io/pluginsdk => /repo); "
                      "hook variable atp.VerifHook, files atp/verif_hook_on.go / atp/verif_hook_off.go",
            "baseline_off_cmd": "cd /repo && go test -vet=off -count=1 ./... && cd cmd/arcaflow-codegen && go test -vet=off -count=1 ./...",
            "source_commits": commits,
            "add_only": True,
        },
        "engines": [
            {"name": "tlc-exhaustive", "path": "spec/", "serves_properties": claimed,
             "kind_free_text": "TLC breadth-first over the TLA+ modules in spec/ with generated or committed configurations (spec/cfg)"},
            {"name": "tlc-simulate", "path": "spec/ATP.tla", "serves_properties": [c for c in claimed if c in ("C05", "C06", "C07", "C08")],
             "kind_free_text": "tlc -simulate writing behaviours that the gate scheduler replays into the real ATP client/server"},
            {"name": "tlc-trace", "path": "spec/*Trace.tla", "serves_properties": claimed,
             "kind_free_text": "TLC validating ndjson traces recorded from the real code (high-water-mark acceptance)"},
            {"name": "go-harness", "path": "harness/", "serves_properties": claimed,
             "kind_free_text": "Go conformance drivers in a supervised worker (harness/sup), gate scheduler and in-memory transport (harness/sched)"},
        ],
        "checks": [],
        "notes": "See DESIGN.md. Every check: exit 0 held (KNOWN-FINDING lines for listed findings), 1 violation (VIOLATION line), "
                 "2 infrastructure. VERIF_SEED feeds every random choice; VERIF_REPO may point at a scratch copy of the repository.",
        "not_applicable": [],
    }
    for p in props:
        pid = p["id"]
        if pid in claimed:
            c = CLAIMED[pid]
            m["checks"].append({
                "property_id": pid,
                "quick_cmd": "./check %s --tier quick" % pid,
                "thorough_cmd": "./check %s --tier thorough" % pid,
                "evidence_file": "/verif/evidence/%s.json" % pid,
                "replay_cmd_template": "./check replay {path}",
                "engine": c["engine"],
                "level_claimed": {"category": "model_checking", "text": c["text"], "design_ref": c["design"]},
                "level_note": c["note"],
                "technique": c["technique"],
            })
        else:
            m["not_applicable"].append({"property_id": pid, "reason": PENDING_REASON})
    with open(os.path.join(HERE, "MANIFEST.json"), "w") as f:
        json.dump(m, f, indent=1)
    print("MANIFEST: claimed", claimed)


if __name__ == "__main__":
    main()
