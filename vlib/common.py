"""Shared machinery of the /verif checks (python3 stdlib only).

Every property module in /verif/props uses a Ctx:
  * ctx.tlc(...)      run TLC on a module of /verif/spec in a scratch copy, parse its summary
  * ctx.gobuild(...)  build a command of the Go harness against /repo's current working tree
  * ctx.violation(..) record a violation (matched against known_findings.json)
  * ctx.finish()      write evidence/<id>.json, print KNOWN-FINDING / VIOLATION lines, exit code

Exit codes: 0 held (known findings printed), 1 violation, 2 infrastructure failure.
"""
import os, sys, json, subprocess, tempfile, shutil, time, hashlib, re, glob

VERIF = os.path.dirname(os.path.dirname(os.path.abspath(__file__)))
REPO = os.environ.get("VERIF_REPO", "/repo")
SPEC = os.path.join(VERIF, "spec")
HARNESS = os.path.join(VERIF, "harness")
TLA_CP = "/opt/veriftools/tla/tla2tools.jar:/opt/veriftools/tla/CommunityModules-deps.jar"
NCPU = os.cpu_count() or 4


class Infra(Exception):
    """Infrastructure failure: exit 2, never a violation."""


def goenv(extra=None):
    e = dict(os.environ)
    e.update(GOFLAGS="-mod=mod", GOPROXY="off", GOSUMDB="off", GOTOOLCHAIN="local",
             CGO_ENABLED=e.get("CGO_ENABLED", "1"))
    if extra:
        e.update(extra)
    return e


def sha(obj):
    return hashlib.sha1(json.dumps(obj, sort_keys=True, default=str).encode()).hexdigest()[:16]


class TLCResult:
    def __init__(self):
        self.ok = False            # finished without violation
        self.violated = None       # name of violated invariant / property / "deadlock" / "assert"
        self.generated = 0
        self.distinct = 0
        self.depth = 0
        self.out = ""
        self.rc = None
        self.wall = 0.0
        self.coverage_zero = []    # actions with 0 count (when coverage requested)
        self.trace = []            # counterexample states as text blocks

    def __repr__(self):
        return "TLC(ok=%s violated=%s gen=%d distinct=%d depth=%d %.1fs)" % (
            self.ok, self.violated, self.generated, self.distinct, self.depth, self.wall)


class Ctx:
    def __init__(self, prop, tier, seed):
        self.prop = prop
        self.tier = tier
        self.seed = seed
        self.t0 = time.time()
        self.tmp = tempfile.mkdtemp(prefix="verif-%s-" % prop)
        self.states = 0
        self.transitions = 0
        self.traces = 0
        self.evaluations = 0
        self.distinct = set()
        self.samples = []
        self.assumptions = []
        self.extra = {}
        self.exhaustive = None
        self.rule = ""
        self.violations = []       # [sig, replay_path, count] one per distinct signature
        self._viol_by_sig = {}
        self.known_hits = {}       # key -> (entry, count)
        self.drift = []
        self.tlc_runs = []
        self.action_cov = {}
        self._kf = load_known()
        shutil.rmtree(os.path.join(VERIF, "replays", prop), ignore_errors=True)
        self._bins = {}

    # ------------------------------------------------------------------ logging
    def log(self, *a):
        print("[%s %6.1fs]" % (self.prop, time.time() - self.t0), *a, flush=True)

    # ------------------------------------------------------------------ TLC
    def tlc(self, module, cfg, workers=None, simulate=None, depth=None, env=None, timeout=900,
            deadlock=False, extra=None, coverage=None, dfs=False, files=None, heap=None,
            allow_violation=False, dump_dot=None):
        """Run TLC on spec/<module>.tla with spec/cfg/<cfg>; returns TLCResult.

        simulate: None or "num=N" style string; env: extra environment (IOEnv.X in the spec);
        files: extra files to copy into the scratch directory (path -> name).
        """
        wd = tempfile.mkdtemp(prefix="tlc-", dir=self.tmp)
        for f in glob.glob(os.path.join(SPEC, "*.tla")):
            shutil.copy(f, wd)
        cfgsrc = cfg if os.path.isabs(cfg) else os.path.join(SPEC, "cfg", cfg)
        shutil.copy(cfgsrc, os.path.join(wd, "run.cfg"))
        for src, name in (files or {}).items():
            shutil.copy(src, os.path.join(wd, name))
        jtmp = os.path.join(wd, "jtmp")
        os.mkdir(jtmp)
        jopts = ["-XX:+UseParallelGC", "-Xss256m", "-Djava.io.tmpdir=" + jtmp]
        if heap:
            jopts.append("-Xmx" + heap)
        if dfs:
            jopts.append("-Dtlc2.tool.queue.IStateQueue=StateDeque")
        if workers is None:
            workers = min(8, NCPU)
        args = ["java"] + jopts + ["-cp", TLA_CP, "tlc2.TLC", "-config", "run.cfg",
                                   "-metadir", os.path.join(wd, "meta"), "-workers", str(workers),
                                   "-noGenerateSpecTE"]
        if not deadlock:
            args.append("-deadlock")   # -deadlock DISABLES deadlock checking
        if coverage is None:
            # action coverage (vacuity report) for the exhaustive runs of the thorough tier
            # (only for the protocol models: on the vector-enumerating modules, whose states are all initial states,
            # coverage statistics cost minutes and say nothing)
            coverage = self.tier == "thorough" and not simulate and not dump_dot and module.startswith("ATP")
        if coverage:
            args += ["-coverage", "1"]
        if simulate:
            args += ["-simulate", simulate]
            if depth:
                args += ["-depth", str(depth)]
            args += ["-seed", str(self.seed)]
        if dump_dot:
            args += ["-dump", "dot,actionlabels", dump_dot]
        args += list(extra or [])
        args.append(module + ".tla")
        e = dict(os.environ)
        e.pop("JAVA_TOOL_OPTIONS", None)
        e.update({k: str(v) for k, v in (env or {}).items()})
        t = time.time()
        try:
            p = subprocess.run(args, cwd=wd, env=e, stdout=subprocess.PIPE, stderr=subprocess.STDOUT,
                               timeout=timeout, text=True, errors="replace")
        except subprocess.TimeoutExpired as ex:
            out = ex.stdout if isinstance(ex.stdout, str) else (ex.stdout or b"").decode(errors="replace")
            if simulate:
                # simulation runs until the outer timeout by design
                p = subprocess.CompletedProcess(args, 0, out)
                p.timed_out = True
            else:
                raise Infra("TLC timeout after %ss on %s/%s" % (timeout, module, cfg))
        r = TLCResult()
        r.wd = wd
        r.wall = time.time() - t
        r.out = p.stdout or ""
        r.rc = p.returncode
        parse_tlc(r, simulate is not None)
        self.tlc_runs.append(dict(module=module, cfg=os.path.basename(cfgsrc), generated=r.generated,
                                  distinct=r.distinct, depth=r.depth, wall_s=round(r.wall, 1),
                                  ok=r.ok, violated=r.violated, mode="simulate" if simulate else "bfs"))
        self.states += r.distinct
        self.transitions += r.generated
        if coverage:
            # "<Action line a, col b to line c, col d of module M>: distinct:generated" (last report wins per run)
            per = {}
            for m in re.finditer(r"^<(\w+) line \d+, col \d+ to line \d+, col \d+ of module (\w+)>: (\d+):(\d+)\s*$", r.out, re.M):
                per[m.group(2) + "!" + m.group(1)] = int(m.group(4))
            for k, v in per.items():
                self.action_cov[k] = self.action_cov.get(k, 0) + v
        if not r.ok and r.violated is None:
            tail = "\n".join(r.out.splitlines()[-40:])
            raise Infra("TLC failed on %s/%s (rc=%s):\n%s" % (module, cfg, r.rc, tail))
        if r.violated and not allow_violation:
            tail = "\n".join(r.out.splitlines()[-60:])
            raise Infra("TLC reports %s violated on the model %s/%s — the specification itself is "
                        "inconsistent with its stated property; this is a spec bug, not a code verdict:\n%s"
                        % (r.violated, module, cfg, tail))
        return r

    # ------------------------------------------------------------------ Go
    def gobuild(self, pkg, race=False, tags="verif", overlay=None, name=None):
        key = (pkg, race, tags, overlay)
        if key in self._bins:
            return self._bins[key]
        out = os.path.join(self.tmp, (name or pkg.replace("/", "_").strip("._")) + ("_race" if race else ""))
        hdir = self.harness_dir()
        args = ["go", "build", "-o", out]
        if tags:
            args += ["-tags", tags]
        if race:
            args.append("-race")
        if overlay:
            args += ["-overlay", overlay]
        args.append(pkg)
        p = subprocess.run(args, cwd=hdir, env=goenv(), stdout=subprocess.PIPE,
                           stderr=subprocess.STDOUT, text=True)
        if p.returncode != 0:
            raise Infra("go build %s failed:\n%s" % (pkg, p.stdout[-4000:]))
        self._bins[key] = out
        return out

    def harness_dir(self):
        """/verif/harness, or (when VERIF_REPO points at a scratch copy of the repository) a private
        copy of it whose replace directive points there - so seeded changes can be tested without
        touching /repo."""
        prepare_harness()
        if os.path.realpath(REPO) == "/repo":
            return HARNESS
        d = os.path.join(self.tmp, "harness")
        if not os.path.exists(d):
            shutil.copytree(HARNESS, d)
            gm = os.path.join(d, "go.mod")
            with open(gm) as f:
                t = f.read()
            t = t.replace("=> /repo", "=> " + os.path.realpath(REPO))
            with open(gm, "w") as f:
                f.write(t)
        return d

    def run(self, argv, input=None, timeout=600, env=None, cwd=None, check=True):
        e = goenv(env)
        e.setdefault("VERIF_SEED", str(self.seed))
        e.setdefault("VERIF_TIER", self.tier)
        try:
            p = subprocess.run(argv, input=input, env=e, cwd=cwd or self.tmp, stdout=subprocess.PIPE,
                               stderr=subprocess.PIPE, timeout=timeout, text=True, errors="replace")
        except subprocess.TimeoutExpired:
            raise Infra("timeout after %ss: %s" % (timeout, " ".join(argv[:4])))
        if check and p.returncode != 0:
            raise Infra("command failed rc=%s: %s\nstderr:\n%s\nstdout tail:\n%s" % (
                p.returncode, " ".join(argv[:6]), p.stderr[-3000:], p.stdout[-2000:]))
        return p

    # ------------------------------------------------------------------ verdicts
    def count(self, key, nontrivial=True):
        self.evaluations += 1
        if nontrivial:
            self.distinct.add(key if isinstance(key, str) else sha(key))

    def sample(self, obj, limit=8):
        if len(self.samples) < limit:
            self.samples.append(obj)

    def violation(self, sig, replay):
        """sig: signature record (dict of scalars); replay: everything needed to re-run the case."""
        ent = match_known(self._kf, self.prop, sig)
        if ent is not None:
            k = ent["key"]
            if k not in self.known_hits:
                self.known_hits[k] = [ent, 0, replay]
            self.known_hits[k][1] += 1
            return "known"
        h = sha(sig)
        if h in self._viol_by_sig:
            self._viol_by_sig[h][2] += 1
            return "new"
        d = os.path.join(VERIF, "replays", self.prop)
        os.makedirs(d, exist_ok=True)
        path = os.path.join(d, h + ".json")
        with open(path, "w") as f:
            json.dump(dict(property=self.prop, signature=sig, replay=replay), f, indent=1, default=str)
        ent = [sig, path, 1]
        self._viol_by_sig[h] = ent
        self.violations.append(ent)
        return "new"

    def note_drift(self, what, sample=None):
        if len(self.drift) < 50:
            self.drift.append(dict(what=what, sample=sample))

    def finish(self):
        wall = time.time() - self.t0
        cov = dict(
            states=max(self.states, 0), transitions=max(self.transitions, 0),
            traces_validated_against_impl=self.traces,
            evaluations=self.evaluations, distinct_nontrivial=len(self.distinct),
            rule=self.rule, samples=self.samples[:12] or [{"note": "no samples recorded"}],
            tlc_runs=self.tlc_runs,
            known_findings_hit=[dict(key=k, count=v[1]) for k, v in sorted(self.known_hits.items())],
            drift=self.drift,
        )
        if self.action_cov:
            cov["spec_action_coverage"] = dict(
                note="states generated per specification action, summed over the exhaustive TLC runs of this check "
                     "(-coverage 1); an action with 0 was never enabled in any configuration of this check",
                generated=dict(sorted(self.action_cov.items())),
                never_enabled=sorted(k for k, v in self.action_cov.items() if v == 0))
        if self.exhaustive is not None:
            cov["exhaustive"] = bool(self.exhaustive)
        cov.update(self.extra)
        ev = dict(property_id=self.prop, tier=self.tier, seed=self.seed, level="model_checking",
                  coverage=cov, assumptions=self.assumptions, wall_s=round(wall, 2),
                  violations=sum(v[2] for v in self.violations))
        os.makedirs(os.path.join(VERIF, "evidence"), exist_ok=True)
        with open(os.path.join(VERIF, "evidence", self.prop + ".json"), "w") as f:
            json.dump(ev, f, indent=1, default=str)
        for k, (ent, n, _) in sorted(self.known_hits.items()):
            print("KNOWN-FINDING: property=%s %s [%s; %d case(s)]" % (self.prop, ent["what"], k, n))
        for sig, path, n in self.violations:
            print("VIOLATION property=%s replay=%s" % (self.prop, path))
            print("   signature: %s  (%d case(s))" % (json.dumps(sig, sort_keys=True, default=str), n))
        shutil.rmtree(self.tmp, ignore_errors=True)
        self.log("done: states=%d transitions=%d traces=%d evaluations=%d distinct=%d violations=%d known=%d wall=%.1fs"
                 % (self.states, self.transitions, self.traces, self.evaluations, len(self.distinct),
                    len(self.violations), len(self.known_hits), wall))
        return 1 if self.violations else 0


# ---------------------------------------------------------------------- TLC output parsing
_RE_GEN = re.compile(r"^(\d+) states generated, (\d+) distinct states found", re.M)
_RE_SIMGEN = re.compile(r"states checked|The number of states generated: (\d+)")
_RE_DEPTH = re.compile(r"The depth of the complete state graph search is (\d+)")
_RE_INV = re.compile(r"Error: Invariant (\S+) is violated")
_RE_PROP = re.compile(r"Error: (?:Temporal properties were violated|Temporal property (\S+) was violated|Action property (\S+) is violated)")
_RE_POST = re.compile(r"Error: .*[Pp]ost-?condition.*|Error: The postcondition .*")


def parse_tlc(r, simulate):
    out = r.out
    m = None
    for m in _RE_GEN.finditer(out):
        pass
    if m:
        r.generated, r.distinct = int(m.group(1)), int(m.group(2))
    m2 = re.search(r"The number of states generated: (\d+)", out)
    if m2:
        r.generated = int(m2.group(1))
        r.distinct = max(r.distinct, 0)
    m3 = _RE_DEPTH.search(out)
    if m3:
        r.depth = int(m3.group(1))
    mi = _RE_INV.search(out)
    if mi:
        r.violated = mi.group(1)
    elif "Deadlock reached" in out:
        r.violated = "deadlock"
    elif _RE_PROP.search(out):
        mm = _RE_PROP.search(out)
        r.violated = mm.group(1) or mm.group(2) or "temporal"
    elif "The first argument of Assert evaluated to FALSE" in out:
        r.violated = "assert"
    elif re.search(r"ostcondition", out) and "Error:" in out:
        r.violated = "postcondition"
    finished = ("Model checking completed. No error has been found" in out) or \
               (simulate and "Error:" not in out)
    r.ok = bool(finished) and r.violated is None
    if r.violated:
        # split the counterexample into state blocks
        blocks = re.split(r"\nState \d+: ", out)
        r.trace = blocks[1:]
    for line in out.splitlines():
        mz = re.match(r"^<(\w+) line .*>: 0:0$", line.strip())
        if mz:
            r.coverage_zero.append(mz.group(1))


# ---------------------------------------------------------------------- known findings
def load_known():
    p = os.path.join(VERIF, "known_findings.json")
    if not os.path.exists(p):
        return []
    with open(p) as f:
        return json.load(f).get("findings", [])


def match_known(kf, prop, sig):
    for ent in kf:
        if ent.get("property") != prop or ent.get("status") != "known":
            continue
        m = ent.get("match", {})
        if m and all(str(sig.get(k)) == str(v) for k, v in m.items()):
            return ent
    return None


# ---------------------------------------------------------------------- harness preparation
_prepared = False


def prepare_harness():
    """Make sure harness/go.sum contains the repository's sums (module replace => /repo)."""
    global _prepared
    if _prepared:
        return
    sums = set()
    for f in (os.path.join(HARNESS, "go.sum.extra"), os.path.join(REPO, "go.sum")):
        if os.path.exists(f):
            with open(f) as fh:
                sums.update(l for l in fh.read().splitlines() if l.strip())
    with open(os.path.join(HARNESS, "go.sum"), "w") as fh:
        fh.write("\n".join(sorted(sums)) + "\n")
    _prepared = True


def read_ndjson(path):
    out = []
    with open(path) as f:
        for line in f:
            line = line.strip()
            if not line:
                continue
            v = json.loads(line)
            if isinstance(v, str):      # CSVWrite("%1$s", <<ToJson(x)>>) quotes the json text
                v = json.loads(v)
            out.append(v)
    return out


def write_ndjson(path, rows):
    with open(path, "w") as f:
        for r in rows:
            f.write(json.dumps(r, sort_keys=True, separators=(",", ":")) + "\n")
