#!/usr/bin/env python3
"""Prints the markdown table of /verif/seeded/*/meta.json (used for DESIGN.md section 11.6)."""
import json, glob, os

HERE = os.path.dirname(os.path.dirname(os.path.abspath(__file__)))
rows = []
for f in sorted(glob.glob(os.path.join(HERE, "seeded", "*", "meta.json"))):
    m = json.load(open(f))
    chk = m.get("check") or {}
    sigs = [l.strip()[len("signature: "):] for l in chk.get("lines", []) if l.strip().startswith("signature:")]
    rows.append((m["name"], m["property"], m.get("needs", ""), chk.get("verdict", "?"), "; ".join(s[:110] for s in sigs[:2])))
print("| seed | property | needs, to manifest | quick check | first signatures |")
print("|---|---|---|---|---|")
for r in rows:
    print("| %s | %s | %s | %s | %s |" % r)
print()
print("%d seeds: %d detected, %d missed" % (len(rows), sum(1 for r in rows if r[3] == "detected"), sum(1 for r in rows if r[3] == "missed")))

# also refresh the table inside DESIGN.md when called with --write
import sys
if "--write" in sys.argv:
    import io, contextlib
    lines = ["| seed | property | needs, to manifest | quick check | first signatures |", "|---|---|---|---|---|"]
    for r in rows:
        lines.append("| %s | %s | %s | %s | %s |" % tuple(str(x).replace("|", "/") for x in r))
    lines.append("")
    lines.append("%d seeds confirmed: %d detected by the quick check, %d missed." % (
        len(rows), sum(1 for r in rows if r[3] == "detected"), sum(1 for r in rows if r[3] == "missed")))
    p = os.path.join(HERE, "DESIGN.md")
    s = open(p).read()
    a, b = s.index("<!-- SEEDTABLE BEGIN -->"), s.index("<!-- SEEDTABLE END -->")
    s = s[:a] + "<!-- SEEDTABLE BEGIN -->\n" + "\n".join(lines) + "\n" + s[b:]
    open(p, "w").write(s)
