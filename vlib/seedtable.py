#!/usr/bin/env python3
"""Prints the markdown table of /verif/seeded/*/meta.json (used for DESIGN.md section 11.6)."""
import json, glob, os

HERE = os.path.dirname(os.path.dirname(os.path.abspath(__file__)))
rows = []
for f in sorted(glob.glob(os.path.join(HERE, "seeded", "*", "meta.json"))):
    m = json.load(open(f))
    chk = m.get("check") or {}
    sigs = [l.strip()[len("signature: "):] for l in chk.get("lines", []) if l.strip().startswith("signature:")]
    rows.append((m["name"], m["property"], m.get("needs", ""), chk.get("verdict", "?"), "; ".join(s[:110] for s in sigs[:2])))
print("| seed | property | needs, to manifest | quick check | first signatures |")
print("|---|---|---|---|---|")
for r in rows:
    print("| %s | %s | %s | %s | %s |" % r)
print()
print("%d seeds: %d detected, %d missed" % (len(rows), sum(1 for r in rows if r[3] == "detected"), sum(1 for r in rows if r[3] == "missed")))
