import os, sys, json, glob, shutil, subprocess, tempfile
from concurrent.futures import ThreadPoolExecutor
V="/verif"
seeds={}
for d in sorted(glob.glob(V+"/seeded/*/")):
    mp=os.path.join(d,"meta.json")
    if not os.path.exists(mp): continue
    m=json.load(open(mp))
    seeds.setdefault(m["property"],[]).append((os.path.basename(d.rstrip("/")),d,m))
def run_prop(prop):
    out=[]
    for name,d,m in seeds[prop]:
        t=tempfile.mkdtemp(prefix="reseed-")
        shutil.copy(os.path.join(d,"patch.diff"),os.path.join(t,"seed1.diff"))
        if os.path.isdir(os.path.join(d,"demo")): shutil.copytree(os.path.join(d,"demo"),os.path.join(t,"demo1"))
        elif os.path.exists(os.path.join(d,"demo_test.go")): shutil.copy(os.path.join(d,"demo_test.go"),os.path.join(t,"demo1_test.go"))
        else:
            print(name, "(no demonstration stored: skipped)", flush=True); shutil.rmtree(t,ignore_errors=True); continue
        bak=tempfile.mkdtemp(prefix="reseedbak-"); shutil.copytree(d,os.path.join(bak,"s"))
        p=subprocess.run(["python3","vlib/seedtest.py",prop,t,"1",name,m.get("needs","")],cwd=V,stdout=subprocess.PIPE,stderr=subprocess.STDOUT,text=True)
        s=p.stdout
        try:
            i=s.index('{\n "property"'); r=json.loads(s[i:])
        except Exception:
            r={"error":"unparsed: "+s[-300:]}
        if not r.get("confirmed"):
            # keep what was stored before
            shutil.rmtree(d,ignore_errors=True); shutil.copytree(os.path.join(bak,"s"),d)
        out.append((name,r.get("confirmed"),r.get("error","")[:120] if r.get("error") else "",(r.get("check") or {}).get("verdict"),r.get("ran")))
        shutil.rmtree(t,ignore_errors=True); shutil.rmtree(bak,ignore_errors=True)
        print(name, out[-1][1:], flush=True)
    return out
with ThreadPoolExecutor(3) as ex:
    only=[a for a in sys.argv[1:]]
    list(ex.map(run_prop, [p for p in sorted(seeds) if not only or p in only]))
