package concretize

import (
	"errors"
	"fmt"
	"math"
	"math/big"
	"reflect"
	"regexp"
	"sort"
	"strconv"
	"strings"
	"time"

	"github.com/fxamacker/cbor/v2"
	"verif/harness/catalog"
)

// values.go: abstract value -> real Go value under a numeric embedding, and back.

// Defined ("named") scalar types.
type (
	NamedInt64   int64
	NamedFloat64 float64
	NamedStr     = catalog.NamedStr
	NamedBool    bool
)

// WrongStruct is "a struct" / "a pointer to a struct" of the junk classes.
type WrongStruct struct {
	A int
	B string
}

// ErrNotRepresentable: the abstract value has no Go value under this embedding / representation.
var ErrNotRepresentable = errors.New("not representable")

func notRep(format string, a ...any) error {
	return fmt.Errorf("%w: %s", ErrNotRepresentable, fmt.Sprintf(format, a...))
}

var intTypes = map[string]reflect.Type{
	"int": reflect.TypeOf(int(0)), "int8": reflect.TypeOf(int8(0)), "int16": reflect.TypeOf(int16(0)),
	"int32": reflect.TypeOf(int32(0)), "int64": reflect.TypeOf(int64(0)),
	"uint": reflect.TypeOf(uint(0)), "uint8": reflect.TypeOf(uint8(0)), "uint16": reflect.TypeOf(uint16(0)),
	"uint32": reflect.TypeOf(uint32(0)), "uint64": reflect.TypeOf(uint64(0)),
	"named": reflect.TypeOf(NamedInt64(0)),
}

func intToGo(rep string, v *big.Int) (any, error) {
	t, ok := intTypes[rep]
	if !ok {
		return nil, fmt.Errorf("unknown integer representation %q", rep)
	}
	rv := reflect.New(t).Elem()
	switch t.Kind() {
	case reflect.Int, reflect.Int8, reflect.Int16, reflect.Int32, reflect.Int64:
		if !v.IsInt64() || rv.OverflowInt(v.Int64()) {
			return nil, notRep("%s cannot hold %s", rep, v)
		}
		rv.SetInt(v.Int64())
	default:
		if !v.IsUint64() || rv.OverflowUint(v.Uint64()) {
			return nil, notRep("%s cannot hold %s", rep, v)
		}
		rv.SetUint(v.Uint64())
	}
	return rv.Interface(), nil
}

// HalfToFloat: the float64 with half-unit value h under e (exact or not representable).
func HalfToFloat(h int64, e *Embedding) (float64, error) {
	if h >= -2*IDLimit && h <= 2*IDLimit {
		return float64(h) / 2, nil
	}
	if h%2 != 0 {
		return 0, notRep("fractional edge float")
	}
	v, ok := e.Int(h / 2)
	if !ok {
		return 0, notRep("point %d has no image under %s", h/2, e.Name)
	}
	f, acc := new(big.Float).SetInt(v).Float64()
	if acc != big.Exact {
		return 0, notRep("%s is not a float64", v)
	}
	return f, nil
}

// TokenText: the text of a token under e.
func TokenText(id string, e *Embedding) (string, error) {
	t, ok := TokenByID(id)
	if !ok {
		return "", fmt.Errorf("unknown token id %q", id)
	}
	if t.SymKind == "" {
		return t.Text, nil
	}
	s, ok := SymText(t, e)
	if !ok {
		return "", notRep("token %s under %s", id, e.Name)
	}
	return s, nil
}

var bignumCBOR = []byte{0xc2, 0x49, 0x01, 0, 0, 0, 0, 0, 0, 0, 0} // 2^64 as a CBOR bignum

// JunkValue builds a member of a junk class.
func JunkValue(class string) (any, error) {
	switch class {
	case "tag":
		return cbor.Tag{Number: 4711, Content: "x"}, nil
	case "bigint":
		var v any
		if err := cbor.Unmarshal(bignumCBOR, &v); err != nil {
			return nil, err
		}
		if _, ok := v.(big.Int); !ok {
			return nil, fmt.Errorf("cbor bignum decoded to %T, expected big.Int", v)
		}
		return v, nil
	case "time":
		return time.Date(2020, 1, 2, 3, 4, 5, 0, time.UTC), nil
	case "struct":
		return WrongStruct{A: 1, B: "x"}, nil
	case "ptr":
		return &WrongStruct{A: 1, B: "x"}, nil
	case "nilptr":
		return (*WrongStruct)(nil), nil
	case "nilre":
		return (*regexp.Regexp)(nil), nil
	case "arr_int2": // fixed-size arrays: values no decoder produces, and legal map keys
		return [2]int64{1, 2}, nil
	case "arr_str2":
		return [2]string{"a", "b"}, nil
	case "arr0":
		return [0]int{}, nil
	case "arr_named":
		return catalog.NamedArr{"a", "b"}, nil
	case "map_arrkey":
		return map[[2]int64]string{{1, 2}: "a"}, nil
	case "nil_wide": // a typed nil pointer of the catalogue's own mapped pointer types
		return (*catalog.Wide)(nil), nil
	case "nil_sub":
		return (*catalog.Sub)(nil), nil
	case "func":
		return func() {}, nil
	case "chan":
		return make(chan int), nil
	}
	return nil, fmt.Errorf("unknown junk class %q", class)
}

// ToGo concretises an abstract value under e.
func ToGo(v *Value, e *Embedding) (any, error) {
	switch v.K {
	case "nil":
		return nil, nil
	case "bool":
		if v.Rep == "named" {
			return NamedBool(v.B), nil
		}
		return v.B, nil
	case "int":
		b, ok := e.Int(v.N)
		if !ok {
			return nil, notRep("point %d has no image under %s", v.N, e.Name)
		}
		return intToGo(v.Rep, b)
	case "float":
		f, err := HalfToFloat(v.N, e)
		if err != nil {
			return nil, err
		}
		switch v.Rep {
		case "float64":
			return f, nil
		case "named":
			return NamedFloat64(f), nil
		case "float32":
			if float64(float32(f)) != f {
				return nil, notRep("%v is not a float32", f)
			}
			return float32(f), nil
		}
		return nil, fmt.Errorf("unknown float representation %q", v.Rep)
	case "fspecial":
		var f float64
		switch v.S {
		case "nan":
			f = math.NaN()
		case "+inf":
			f = math.Inf(1)
		case "-inf":
			f = math.Inf(-1)
		default:
			return nil, fmt.Errorf("unknown special float %q", v.S)
		}
		if v.Rep == "float32" {
			return float32(f), nil
		}
		return f, nil
	case "str":
		s, err := TokenText(v.S, e)
		if err != nil {
			return nil, err
		}
		if v.Rep == "named" {
			return NamedStr(s), nil
		}
		return s, nil
	case "re":
		s, err := TokenText(v.S, e)
		if err != nil {
			return nil, err
		}
		re, err := regexp.Compile(s)
		if err != nil {
			return nil, notRep("token %s does not compile", v.S)
		}
		return re, nil
	case "junk":
		return JunkValue(v.S)
	case "struct":
		return structToGo(v, e)
	case "list":
		elems := make([]any, len(v.List))
		for i, x := range v.List {
			g, err := ToGo(x, e)
			if err != nil {
				return nil, err
			}
			elems[i] = g
		}
		switch v.Rep {
		case "any":
			return elems, nil
		case "bytes":
			out := make([]byte, len(elems))
			for i, g := range elems {
				b, ok := g.(uint8)
				if !ok {
					return nil, notRep("byte string element %T", g)
				}
				out[i] = b
			}
			return out, nil
		case "typed":
			// a typed slice: []T when every element has the Go type T, otherwise the element type
			// is `any` (the reflected type of a list of any / one-of items)
			t := commonType(elems, reflect.TypeOf(int64(0)))
			s := reflect.MakeSlice(reflect.SliceOf(t), len(elems), len(elems))
			for i, g := range elems {
				if g != nil {
					s.Index(i).Set(reflect.ValueOf(g))
				}
			}
			return s.Interface(), nil
		}
		return nil, fmt.Errorf("unknown list representation %q", v.Rep)
	case "map":
		type kv struct{ k, v any }
		var kvs []kv
		for _, p := range v.Pairs {
			k, err := ToGo(p[0], e)
			if err != nil {
				return nil, err
			}
			w, err := ToGo(p[1], e)
			if err != nil {
				return nil, err
			}
			if k != nil && !reflect.TypeOf(k).Comparable() {
				return nil, notRep("unhashable key %T", k)
			}
			kvs = append(kvs, kv{k, w})
		}
		switch v.Rep {
		case "any_any":
			m := make(map[any]any, len(kvs))
			for _, p := range kvs {
				if _, dup := m[p.k]; dup {
					return nil, notRep("two abstract keys, one Go key")
				}
				m[p.k] = p.v
			}
			return m, nil
		case "string_any":
			m := make(map[string]any, len(kvs))
			for _, p := range kvs {
				s, ok := p.k.(string)
				if !ok {
					return nil, notRep("map[string]any key %T", p.k)
				}
				if _, dup := m[s]; dup {
					return nil, notRep("duplicate key")
				}
				m[s] = p.v
			}
			return m, nil
		case "int64_any":
			m := make(map[int64]any, len(kvs))
			for _, p := range kvs {
				s, ok := p.k.(int64)
				if !ok {
					return nil, notRep("map[int64]any key %T", p.k)
				}
				if _, dup := m[s]; dup {
					return nil, notRep("duplicate key")
				}
				m[s] = p.v
			}
			return m, nil
		case "typed":
			ks, ws := make([]any, len(kvs)), make([]any, len(kvs))
			for i, p := range kvs {
				ks[i], ws[i] = p.k, p.v
			}
			kt, vt := commonType(ks, reflect.TypeOf("")), commonType(ws, reflect.TypeOf(int64(0)))
			m := reflect.MakeMapWithSize(reflect.MapOf(kt, vt), len(kvs))
			for _, p := range kvs {
				if p.k == nil {
					return nil, notRep("nil key in a typed map")
				}
				if m.MapIndex(reflect.ValueOf(p.k)).IsValid() {
					return nil, notRep("duplicate key")
				}
				w := reflect.Zero(vt)
				if p.v != nil {
					w = reflect.ValueOf(p.v)
				}
				m.SetMapIndex(reflect.ValueOf(p.k), w)
			}
			return m.Interface(), nil
		}
		return nil, fmt.Errorf("unknown map representation %q", v.Rep)
	}
	return nil, fmt.Errorf("unknown value kind %q", v.K)
}

// assign stores a concretised value into a struct field (pointer fields get a fresh pointee,
// empty typed containers take the field's type, sub-structs by value / by pointer are adapted).
func assign(field reflect.Value, g any) error {
	if g == nil {
		return nil // nil pointer / nil interface / nil slice: the zero value
	}
	ft := field.Type()
	gv := reflect.ValueOf(g)
	if gv.Type() == ft {
		field.Set(gv)
		return nil
	}
	if ft.Kind() == reflect.Interface {
		field.Set(gv)
		return nil
	}
	if ft.Kind() == reflect.Pointer {
		if gv.Kind() == reflect.Pointer {
			return notRep("field %s cannot hold %T", ft, g)
		}
		p := reflect.New(ft.Elem())
		if err := assign(p.Elem(), g); err != nil {
			return err
		}
		field.Set(p)
		return nil
	}
	if gv.Kind() == reflect.Pointer && gv.Type().Elem() == ft && !gv.IsNil() {
		field.Set(gv.Elem())
		return nil
	}
	if gv.Kind() == reflect.String && ft.Kind() == reflect.Slice && (ft.Elem().Kind() == reflect.Uint8 || ft.Elem().Kind() == reflect.Int32) {
		field.Set(gv.Convert(ft)) // a string property backed by a []byte / []rune field
		return nil
	}
	switch ft.Kind() {
	case reflect.Slice:
		if gv.Kind() != reflect.Slice {
			return notRep("field %s cannot hold %T", ft, g)
		}
		out := reflect.MakeSlice(ft, gv.Len(), gv.Len())
		for i := 0; i < gv.Len(); i++ {
			if err := assign(out.Index(i), gv.Index(i).Interface()); err != nil {
				return err
			}
		}
		field.Set(out)
		return nil
	case reflect.Map:
		if gv.Kind() != reflect.Map {
			return notRep("field %s cannot hold %T", ft, g)
		}
		out := reflect.MakeMapWithSize(ft, gv.Len())
		for iter := gv.MapRange(); iter.Next(); {
			k, w := reflect.New(ft.Key()).Elem(), reflect.New(ft.Elem()).Elem()
			if err := assign(k, iter.Key().Interface()); err != nil {
				return err
			}
			if err := assign(w, iter.Value().Interface()); err != nil {
				return err
			}
			out.SetMapIndex(k, w)
		}
		field.Set(out)
		return nil
	}
	if gv.Type().Kind() == ft.Kind() && gv.Type().ConvertibleTo(ft) && ft.Kind() != reflect.Struct {
		field.Set(gv.Convert(ft))
		return nil
	}
	return notRep("field %s cannot hold %T", ft, g)
}

func structToGo(v *Value, e *Embedding) (any, error) {
	lay := catalog.ByID(v.T)
	if lay == nil {
		return nil, fmt.Errorf("unknown layout %q", v.T)
	}
	p := reflect.New(lay.Struct)
	for _, f := range v.Fields {
		fd, ok := lay.FieldByProp(f.Name)
		if !ok {
			return nil, fmt.Errorf("layout %s has no field for property %q", v.T, f.Name)
		}
		if !f.Val.Some {
			continue
		}
		g, err := ToGo(f.Val.V, e)
		if err != nil {
			return nil, err
		}
		if err := assign(p.Elem().FieldByName(fd.Go), g); err != nil {
			return nil, err
		}
	}
	if lay.Pointer {
		return p.Interface(), nil
	}
	return p.Elem().Interface(), nil
}

// NilContainerVariant is the second concretisation of a native struct value: the specification identifies
// the nil and the empty slice / map, so an EMPTY list / map held by a by-value field of slice / map type
// (catalogue kinds list_*, map_*) also stands for that field left at its zero value - nil, a field that was
// never assigned.  The variant leaves those fields nil (also in nested struct values); ok=false when the value
// has no such field.
func NilContainerVariant(v *Value) (out *Value, ok bool) {
	if v == nil {
		return v, false
	}
	switch v.K {
	case "list":
		cp := *v
		cp.List = make([]*Value, len(v.List))
		for i, x := range v.List {
			y, ch := NilContainerVariant(x)
			cp.List[i], ok = y, ok || ch
		}
		return &cp, ok
	case "map":
		cp := *v
		cp.Pairs = make([][2]*Value, len(v.Pairs))
		for i, p := range v.Pairs {
			y, ch := NilContainerVariant(p[1])
			cp.Pairs[i], ok = [2]*Value{p[0], y}, ok || ch
		}
		return &cp, ok
	case "struct":
		lay := catalog.ByID(v.T)
		if lay == nil {
			return v, false
		}
		cp := *v
		cp.Fields = make([]StructField, len(v.Fields))
		for i, f := range v.Fields {
			cp.Fields[i] = f
			if !f.Val.Some || f.Val.V == nil {
				continue
			}
			fd, found := lay.FieldByProp(f.Name)
			x := f.Val.V
			if found && !fd.Ptr && (strings.HasPrefix(fd.FK, "list_") || strings.HasPrefix(fd.FK, "map_")) &&
				((x.K == "list" && len(x.List) == 0) || (x.K == "map" && len(x.Pairs) == 0)) {
				cp.Fields[i].Val = OptValue{} // not assigned: the field keeps its zero value, a nil slice / map
				ok = true
				continue
			}
			y, ch := NilContainerVariant(x)
			cp.Fields[i].Val = OptValue{Some: true, V: y}
			ok = ok || ch
		}
		return &cp, ok
	}
	return v, false
}

var tAny = reflect.TypeOf((*any)(nil)).Elem()

// commonType: the Go type shared by all elements, `any` when they differ (or one is nil), def
// when there are none.
func commonType(xs []any, def reflect.Type) reflect.Type {
	if len(xs) == 0 {
		return def
	}
	var t reflect.Type
	for _, g := range xs {
		if g == nil {
			return tAny
		}
		if t == nil {
			t = reflect.TypeOf(g)
		} else if reflect.TypeOf(g) != t {
			return tAny
		}
	}
	return t
}

// ErrInexpressible: the Go value has no abstract counterpart (a string outside the token
// table, a number off the model line, ...).
var ErrInexpressible = errors.New("inexpressible")

func inexp(format string, a ...any) error {
	return fmt.Errorf("%w: %s", ErrInexpressible, fmt.Sprintf(format, a...))
}

func intFromGo(rep string, b *big.Int, e *Embedding) (*Value, error) {
	n, ok := e.Inv(b)
	if !ok {
		return nil, inexp("integer %s", b)
	}
	return &Value{K: "int", Rep: rep, N: n}, nil
}

func floatFromGo(rep string, f float64, e *Embedding) (*Value, error) {
	switch {
	case math.IsNaN(f):
		return &Value{K: "fspecial", Rep: rep, S: "nan"}, nil
	case math.IsInf(f, 1):
		return &Value{K: "fspecial", Rep: rep, S: "+inf"}, nil
	case math.IsInf(f, -1):
		return &Value{K: "fspecial", Rep: rep, S: "-inf"}, nil
	}
	if math.Abs(f) <= IDLimit {
		h := f * 2
		if h != math.Trunc(h) {
			return nil, inexp("float %v", f)
		}
		return &Value{K: "float", Rep: rep, N: int64(h)}, nil
	}
	if f != math.Trunc(f) {
		return nil, inexp("float %v", f)
	}
	b, _ := new(big.Float).SetFloat64(f).Int(nil)
	n, ok := e.Inv(b)
	if !ok {
		return nil, inexp("float %v", f)
	}
	return &Value{K: "float", Rep: rep, N: 2 * n}, nil
}

func strFromGo(rep, s string, e *Embedding) (*Value, error) {
	if t, ok := TokenByText(s); ok {
		return &Value{K: "str", Rep: rep, S: t.ID}, nil
	}
	for i := range tokenDefs {
		t := &tokenDefs[i]
		if t.SymKind == "" {
			continue
		}
		if text, ok := SymText(t, e); ok && text == s {
			return &Value{K: "str", Rep: rep, S: t.ID}, nil
		}
	}
	return nil, inexp("string %s", strconv.Quote(s))
}

var (
	tNamedInt64   = reflect.TypeOf(NamedInt64(0))
	tNamedFloat64 = reflect.TypeOf(NamedFloat64(0))
	tNamedStr     = reflect.TypeOf(NamedStr(""))
	tNamedBool    = reflect.TypeOf(NamedBool(false))
	tRegexp       = reflect.TypeOf((*regexp.Regexp)(nil))
	tBytes        = reflect.TypeOf([]byte(nil))
	tAnySlice     = reflect.TypeOf([]any(nil))
	tMapStrAny    = reflect.TypeOf(map[string]any(nil))
	tMapAnyAny    = reflect.TypeOf(map[any]any(nil))
	tMapI64Any    = reflect.TypeOf(map[int64]any(nil))
)

// FromGo abstracts a real Go value (a result of the SDK, a decoded transport value).
func FromGo(x any, e *Embedding) (*Value, error) {
	if x == nil {
		return &Value{K: "nil"}, nil
	}
	rv := reflect.ValueOf(x)
	t := rv.Type()
	switch t {
	case tNamedInt64:
		return intFromGo("named", big.NewInt(rv.Int()), e)
	case tNamedFloat64:
		return floatFromGo("named", rv.Float(), e)
	case tNamedStr:
		return strFromGo("named", rv.String(), e)
	case tNamedBool:
		return &Value{K: "bool", Rep: "named", B: rv.Bool()}, nil
	case tRegexp:
		re := x.(*regexp.Regexp)
		if re == nil {
			return &Value{K: "junk", S: "nilre"}, nil
		}
		sv, err := strFromGo("string", re.String(), e)
		if err != nil {
			return nil, err
		}
		return &Value{K: "re", S: sv.S}, nil
	}
	if t.PkgPath() != "" && t.Kind() != reflect.Struct && t.Kind() != reflect.Array {
		return nil, inexp("value of defined type %s", t)
	}
	switch t.Kind() {
	case reflect.Bool:
		return &Value{K: "bool", Rep: "bool", B: rv.Bool()}, nil
	case reflect.Int, reflect.Int8, reflect.Int16, reflect.Int32, reflect.Int64:
		return intFromGo(t.Kind().String(), big.NewInt(rv.Int()), e)
	case reflect.Uint, reflect.Uint8, reflect.Uint16, reflect.Uint32, reflect.Uint64:
		return intFromGo(t.Kind().String(), new(big.Int).SetUint64(rv.Uint()), e)
	case reflect.Float32, reflect.Float64:
		return floatFromGo(t.Kind().String(), rv.Float(), e)
	case reflect.String:
		return strFromGo("string", rv.String(), e)
	case reflect.Slice:
		rep := "typed"
		switch t {
		case tAnySlice:
			rep = "any"
		case tBytes:
			rep = "bytes"
		}
		out := &Value{K: "list", Rep: rep, List: []*Value{}}
		for i := 0; i < rv.Len(); i++ {
			a, err := FromGo(rv.Index(i).Interface(), e)
			if err != nil {
				return nil, err
			}
			out.List = append(out.List, a)
		}
		return out, nil
	case reflect.Map:
		rep := "typed"
		switch t {
		case tMapStrAny:
			rep = "string_any"
		case tMapAnyAny:
			rep = "any_any"
		case tMapI64Any:
			rep = "int64_any"
		}
		out := &Value{K: "map", Rep: rep, Pairs: [][2]*Value{}}
		for iter := rv.MapRange(); iter.Next(); { // MapIndex cannot find a NaN key
			ka, err := FromGo(iter.Key().Interface(), e)
			if err != nil {
				return nil, err
			}
			va, err := FromGo(iter.Value().Interface(), e)
			if err != nil {
				return nil, err
			}
			out.Pairs = append(out.Pairs, [2]*Value{ka, va})
		}
		sort.Slice(out.Pairs, func(i, j int) bool { return out.Pairs[i][0].Canon() < out.Pairs[j][0].Canon() })
		return out, nil
	}
	switch x.(type) {
	case [2]int64:
		return &Value{K: "junk", S: "arr_int2"}, nil
	case [2]string:
		return &Value{K: "junk", S: "arr_str2"}, nil
	case [0]int:
		return &Value{K: "junk", S: "arr0"}, nil
	case catalog.NamedArr:
		return &Value{K: "junk", S: "arr_named"}, nil
	case map[[2]int64]string:
		return &Value{K: "junk", S: "map_arrkey"}, nil
	case cbor.Tag:
		return &Value{K: "junk", S: "tag"}, nil
	case big.Int, *big.Int:
		return &Value{K: "junk", S: "bigint"}, nil
	case time.Time:
		return &Value{K: "junk", S: "time"}, nil
	case WrongStruct:
		return &Value{K: "junk", S: "struct"}, nil
	case *WrongStruct:
		if x.(*WrongStruct) == nil {
			return &Value{K: "junk", S: "nilptr"}, nil
		}
		return &Value{K: "junk", S: "ptr"}, nil
	case *catalog.Wide:
		if x.(*catalog.Wide) == nil {
			return &Value{K: "junk", S: "nil_wide"}, nil
		}
	case *catalog.Sub:
		if x.(*catalog.Sub) == nil {
			return &Value{K: "junk", S: "nil_sub"}, nil
		}
	}
	return nil, inexp("value of type %T", x)
}

// Resolver abstracts values with the schema at hand: struct-mapped objects are abstracted to
// their DECLARED properties (spec/Values.tla), references are looked up in the enclosing scope.
type Resolver struct {
	E    *Embedding
	objs map[string]*Schema
}

// FromGoS abstracts x as a native value of s.
func FromGoS(x any, e *Embedding, s *Schema) (*Value, error) {
	r := &Resolver{E: e}
	return r.from(x, s)
}

func (r *Resolver) from(x any, s *Schema) (*Value, error) {
	if s == nil || x == nil {
		return FromGo(x, r.E)
	}
	switch s.Kind {
	case "string":
		// a string property held by a []byte / []rune / defined-string field is the string it converts to
		switch v := x.(type) {
		case []byte:
			return FromGo(string(v), r.E)
		case []rune:
			return FromGo(string(v), r.E)
		case NamedStr:
			return FromGo(string(v), r.E)
		}
		return FromGo(x, r.E)
	case "scope":
		inner := &Resolver{E: r.E, objs: map[string]*Schema{}}
		for _, o := range s.Objects {
			inner.objs[o.ID] = o
		}
		return inner.from(x, inner.objs[s.Root])
	case "ref":
		if o, ok := r.objs[s.ID]; ok {
			return r.from(x, o)
		}
		return FromGo(x, r.E)
	case "list":
		rv := reflect.ValueOf(x)
		if rv.Kind() != reflect.Slice {
			return FromGo(x, r.E)
		}
		rep := "typed"
		if rv.Type() == tAnySlice {
			rep = "any"
		}
		out := &Value{K: "list", Rep: rep, List: []*Value{}}
		for i := 0; i < rv.Len(); i++ {
			a, err := r.from(rv.Index(i).Interface(), s.Items)
			if err != nil {
				return nil, err
			}
			out.List = append(out.List, a)
		}
		return out, nil
	case "map":
		rv := reflect.ValueOf(x)
		if rv.Kind() != reflect.Map {
			return FromGo(x, r.E)
		}
		base, err := FromGo(reflect.MakeMap(rv.Type()).Interface(), r.E)
		if err != nil {
			return nil, err
		}
		out := &Value{K: "map", Rep: base.Rep, Pairs: [][2]*Value{}}
		for iter := rv.MapRange(); iter.Next(); {
			ka, err := r.from(iter.Key().Interface(), s.Keys)
			if err != nil {
				return nil, err
			}
			va, err := r.from(iter.Value().Interface(), s.Vals)
			if err != nil {
				return nil, err
			}
			out.Pairs = append(out.Pairs, [2]*Value{ka, va})
		}
		sort.Slice(out.Pairs, func(i, j int) bool { return out.Pairs[i][0].Canon() < out.Pairs[j][0].Canon() })
		return out, nil
	case "oneof":
		if lay := catalog.ByType(reflect.TypeOf(x)); lay != nil {
			for _, m := range s.Members {
				ms := m.S
				if ms.Kind == "ref" {
					if o, ok := r.objs[ms.ID]; ok {
						ms = o
					}
				}
				if ms.Kind == "object" && ms.Layout == lay.ID {
					return r.from(x, ms)
				}
			}
		}
		return FromGo(x, r.E)
	case "object":
		if s.Layout == "map" {
			m, ok := x.(map[string]any)
			if !ok {
				return FromGo(x, r.E)
			}
			out := &Value{K: "map", Rep: "string_any", Pairs: [][2]*Value{}}
			for k, w := range m {
				ka, err := FromGo(k, r.E)
				if err != nil {
					return nil, err
				}
				var ps *Schema
				for _, p := range s.Props {
					if p.Name == k {
						ps = p.Type
					}
				}
				va, err := r.from(w, ps)
				if err != nil {
					return nil, err
				}
				out.Pairs = append(out.Pairs, [2]*Value{ka, va})
			}
			sort.Slice(out.Pairs, func(i, j int) bool { return out.Pairs[i][0].Canon() < out.Pairs[j][0].Canon() })
			return out, nil
		}
		lay := catalog.ByID(s.Layout)
		if lay == nil || reflect.TypeOf(x) != lay.Type {
			return FromGo(x, r.E)
		}
		rv := reflect.ValueOf(x)
		if lay.Pointer {
			if rv.IsNil() {
				return FromGo(x, r.E) // nil_wide / nil_sub
			}
			rv = rv.Elem()
		}
		out := &Value{K: "struct", T: s.Layout, Fields: []StructField{}}
		for _, p := range s.Props {
			fd, ok := lay.FieldByProp(p.Name)
			if !ok {
				return nil, fmt.Errorf("layout %s has no field for property %q", s.Layout, p.Name)
			}
			fv := rv.FieldByName(fd.Go)
			sf := StructField{Name: p.Name}
			pt := p.Type
			if pt.Kind == "ref" {
				if o, ok := r.objs[pt.ID]; ok {
					pt = o
				}
			}
			switch {
			case (fv.Kind() == reflect.Pointer || fv.Kind() == reflect.Interface) && fv.IsNil():
				// absent
			default:
				var inner any
				ptrLayout := pt.Kind == "object" && pt.Layout != "map" && catalog.ByID(pt.Layout) != nil && catalog.ByID(pt.Layout).Pointer
				if fv.Kind() == reflect.Pointer && !ptrLayout {
					inner = fv.Elem().Interface()
				} else {
					inner = fv.Interface()
				}
				a, err := r.from(inner, pt)
				if err != nil {
					return nil, err
				}
				sf.Val = OptValue{Some: true, V: a}
			}
			out.Fields = append(out.Fields, sf)
		}
		return out, nil
	}
	return FromGo(x, r.E)
}
