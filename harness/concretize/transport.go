package concretize

import (
	"bytes"
	"encoding/json"
	"fmt"

	"github.com/fxamacker/cbor/v2"
	"gopkg.in/yaml.v3"
)

// transport.go: the real transport codecs.  CBOR exactly as /repo/atp moves payloads
// (cbor.NewEncoder(w).Encode / cbor.Unmarshal into `any`, default modes), encoding/json and
// gopkg.in/yaml.v3 into `any`.

// ViaCBOR encodes and decodes x the way ATP transports step input / output data.
func ViaCBOR(x any) (any, error) {
	var buf bytes.Buffer
	if err := cbor.NewEncoder(&buf).Encode(x); err != nil {
		return nil, err
	}
	var out any
	if err := cbor.Unmarshal(buf.Bytes(), &out); err != nil {
		return nil, err
	}
	return out, nil
}

// ViaJSON round-trips through encoding/json.
func ViaJSON(x any) (any, error) {
	b, err := json.Marshal(x)
	if err != nil {
		return nil, err
	}
	var out any
	if err := json.Unmarshal(b, &out); err != nil {
		return nil, err
	}
	return out, nil
}

// ViaYAML round-trips through yaml.v3.
func ViaYAML(x any) (any, error) {
	b, err := yaml.Marshal(x)
	if err != nil {
		return nil, err
	}
	var out any
	if err := yaml.Unmarshal(b, &out); err != nil {
		return nil, err
	}
	return out, nil
}

// TransportCase is one row of the transport bind vector: a wire value and what the
// specification's CBOR / JSON / YAML transforms predict.
type TransportCase struct {
	W    *Value   `json:"w"`
	CBOR OptValue `json:"cbor"`
	JSON OptValue `json:"json"`
	YAML OptValue `json:"yaml"`
}

// exact comparison including container representations
func sameExact(a, b *Value) bool {
	ab, _ := a.MarshalJSON()
	bb, _ := b.MarshalJSON()
	if a.K == "map" && b.K == "map" {
		if a.Rep != b.Rep || len(a.Pairs) != len(b.Pairs) {
			return false
		}
		for _, p := range a.Pairs {
			found := false
			for _, q := range b.Pairs {
				if sameExact(p[0], q[0]) && sameExact(p[1], q[1]) {
					found = true
				}
			}
			if !found {
				return false
			}
		}
		return true
	}
	if a.K == "list" && b.K == "list" {
		if a.Rep != b.Rep || len(a.List) != len(b.List) {
			return false
		}
		for i := range a.List {
			if !sameExact(a.List[i], b.List[i]) {
				return false
			}
		}
		return true
	}
	return string(ab) == string(bb)
}

// CheckTransport verifies the abstract transforms against the real codecs.
func CheckTransport(cases []TransportCase) error {
	e := Embeddings[0]
	for _, c := range cases {
		x, err := ToGo(c.W, e)
		if err != nil {
			return fmt.Errorf("transport sample %s: %v", c.W.Canon(), err)
		}
		for _, tr := range []struct {
			name string
			via  func(any) (any, error)
			exp  OptValue
		}{{"CBOR", ViaCBOR, c.CBOR}, {"JSON", ViaJSON, c.JSON}, {"YAML", ViaYAML, c.YAML}} {
			if !tr.exp.Some {
				continue
			}
			got, err := tr.via(x)
			if err != nil {
				return fmt.Errorf("%s(%s): the specification predicts %s, the real codec fails: %v", tr.name, c.W.Canon(), tr.exp.V.Canon(), err)
			}
			ga, err := FromGo(got, e)
			if err != nil {
				return fmt.Errorf("%s(%s): real codec result %#v: %v", tr.name, c.W.Canon(), got, err)
			}
			if !sameExact(ga, tr.exp.V) {
				gb, _ := ga.MarshalJSON()
				eb, _ := tr.exp.V.MarshalJSON()
				return fmt.Errorf("%s(%s): the specification predicts %s, the real codec gives %s", tr.name, c.W.Canon(), eb, gb)
			}
		}
	}
	return nil
}
