package concretize

import (
	"encoding/json"
	"fmt"
	"regexp"

	"go.flow.arcalot.io/pluginsdk/schema"
	"verif/harness/catalog"
)

// build.go: abstract schema AST -> real schema through the public constructors of /repo/schema.
//
// The generic constructors (NewTypedListSchema[T], NewTypedMapSchema[K,V],
// NewTypedStringEnumSchema[T]) need compile-time type arguments; a finite catalogue of
// instantiations is provided (leaf types int64, float64, string, bool, *regexp.Regexp; lists
// of those and of lists/maps of int64/string; maps with int64/string keys).  A "typed" AST node
// outside the catalogue is built with the untyped constructor (Built.TypedFallback).
//
// Objects go through NewObjectSchema / NewStructMappedObjectSchema[T] / NewTypedObject[T] (T from
// harness/catalog), properties through NewPropertySchema (+ Disable, TreatEmptyAsDefaultValue), one-of
// through NewOneOfStringSchema / NewOneOfIntSchema[any], references and scopes through NewRefSchema /
// NewScopeSchema (which links the references).

// TypedOps are the typed entry points of a schema, wrapped so that the driver can call them
// with `any` arguments.  Applicable=false: the argument is not of the entry point's type.
type TypedOps struct {
	Unser func(d any) (any, error)
	Valid func(d any) (err error, applicable bool)
	Ser   func(d any) (res any, err error, applicable bool)
}

// Built is a real schema with its typed entry points (nil when there are none).
type Built struct {
	Type          schema.Type
	Typed         *TypedOps
	TypedFallback bool // a node marked typed was built with the untyped constructor
}

type typed interface {
	schemaType() schema.Type
	ops() *TypedOps
}

type tnode[T any] struct{ s schema.TypedType[T] }

func (n tnode[T]) schemaType() schema.Type { return n.s }
func (n tnode[T]) ops() *TypedOps {
	return &TypedOps{
		Unser: func(d any) (any, error) {
			r, err := n.s.UnserializeType(d)
			return r, err
		},
		Valid: func(d any) (error, bool) {
			t, ok := d.(T)
			if !ok {
				return nil, false
			}
			return n.s.ValidateType(t), true
		},
		Ser: func(d any) (any, error, bool) {
			t, ok := d.(T)
			if !ok {
				return nil, nil, false
			}
			r, err := n.s.SerializeType(t)
			return r, err, true
		},
	}
}

// typed string enum with T != string: UnserializeType returns string, ValidateType /
// SerializeType take T - not a TypedType[T], so it has its own node.
type tenum struct {
	s *schema.TypedStringEnumSchema[NamedStr]
}

func (n tenum) schemaType() schema.Type { return n.s }
func (n tenum) ops() *TypedOps {
	return &TypedOps{
		Unser: func(d any) (any, error) {
			r, err := n.s.UnserializeType(d)
			if err != nil {
				return r, err
			}
			// the typed entry point is required to return the same value as Unserialize
			return NamedStr(r), err
		},
		Valid: func(d any) (error, bool) {
			t, ok := d.(NamedStr)
			if !ok {
				return nil, false
			}
			return n.s.ValidateType(t), true
		},
		Ser: func(d any) (any, error, bool) {
			t, ok := d.(NamedStr)
			if !ok {
				return nil, nil, false
			}
			r, err := n.s.SerializeType(t)
			return r, err, true
		},
	}
}

func listOf[T any](n tnode[T], min, max *int64) tnode[[]T] {
	return tnode[[]T]{schema.NewTypedListSchema[T](n.s, min, max)}
}

func mapOf[K comparable, V any](k tnode[K], v tnode[V], min, max *int64) tnode[map[K]V] {
	return tnode[map[K]V]{schema.NewTypedMapSchema[K, V](k.s, v.s, min, max)}
}

func typedList(item typed, min, max *int64) (typed, bool) {
	switch n := item.(type) {
	case tnode[int64]:
		return listOf(n, min, max), true
	case tnode[float64]:
		return listOf(n, min, max), true
	case tnode[string]:
		return listOf(n, min, max), true
	case tnode[bool]:
		return listOf(n, min, max), true
	case tnode[*regexp.Regexp]:
		return listOf(n, min, max), true
	case tnode[any]:
		return listOf(n, min, max), true
	case tnode[[]any]:
		return listOf(n, min, max), true
	case tnode[map[string]any]:
		return listOf(n, min, max), true
	case tnode[[]int64]:
		return listOf(n, min, max), true
	case tnode[[]string]:
		return listOf(n, min, max), true
	case tnode[[]float64]:
		return listOf(n, min, max), true
	case tnode[[]bool]:
		return listOf(n, min, max), true
	case tnode[map[string]int64]:
		return listOf(n, min, max), true
	case tnode[map[string]string]:
		return listOf(n, min, max), true
	case tnode[map[int64]int64]:
		return listOf(n, min, max), true
	case tnode[map[int64]string]:
		return listOf(n, min, max), true
	}
	return nil, false
}

func typedMapV[K comparable](k tnode[K], v typed, min, max *int64) (typed, bool) {
	switch n := v.(type) {
	case tnode[any]:
		return mapOf(k, n, min, max), true
	case tnode[[]any]:
		return mapOf(k, n, min, max), true
	case tnode[int64]:
		return mapOf(k, n, min, max), true
	case tnode[float64]:
		return mapOf(k, n, min, max), true
	case tnode[string]:
		return mapOf(k, n, min, max), true
	case tnode[bool]:
		return mapOf(k, n, min, max), true
	case tnode[*regexp.Regexp]:
		return mapOf(k, n, min, max), true
	case tnode[[]int64]:
		return mapOf(k, n, min, max), true
	case tnode[[]string]:
		return mapOf(k, n, min, max), true
	case tnode[map[string]int64]:
		return mapOf(k, n, min, max), true
	case tnode[map[string]string]:
		return mapOf(k, n, min, max), true
	}
	return nil, false
}

func typedMap(k, v typed, min, max *int64) (typed, bool) {
	switch kn := k.(type) {
	case tnode[int64]:
		return typedMapV(kn, v, min, max)
	case tnode[string]:
		return typedMapV(kn, v, min, max)
	}
	return nil, false
}

// Units builds a fresh units definition (the lazily built caches of the built-in ones must not
// leak between cases).
func builtinUnits(id string) *schema.UnitsDefinition {
	switch id {
	case "sec":
		return schema.UnitDurationSeconds
	case "bytes":
		return schema.UnitBytes
	case "nanos":
		return schema.UnitDurationNanoseconds
	}
	return nil
}

func Units(id string) (*schema.UnitsDefinition, error) {
	b := builtinUnits(id)
	if b == nil {
		return nil, fmt.Errorf("unknown units id %q", id)
	}
	m := map[int64]*schema.UnitDefinition{}
	for k, u := range b.MultipliersValue {
		m[k] = u
	}
	return schema.NewUnits(b.BaseUnitValue, m), nil
}

// CheckUnitSets verifies the independent copies of the built-in unit sets (multipliers and names) against
// the real definitions.
func CheckUnitSets() error {
	for _, set := range UnitSets {
		u := builtinUnits(set.ID)
		if u == nil || len(u.MultipliersValue)+1 != len(set.Mults) {
			return fmt.Errorf("unit set %s: number of multipliers differs from the SDK's", set.ID)
		}
		for i, m := range set.Mults {
			d := u.BaseUnitValue
			if m != 1 {
				var ok bool
				if d, ok = u.MultipliersValue[m]; !ok {
					return fmt.Errorf("unit set %s: the SDK has no multiplier %d", set.ID, m)
				}
			}
			got := []string{d.NameShortSingular(), d.NameShortPlural(), d.NameLongSingular(), d.NameLongPlural()}
			for j := range got {
				if got[j] != set.Names[i][j] {
					return fmt.Errorf("unit set %s x%d is named %v in the SDK, %v in the harness", set.ID, m, got, set.Names[i])
				}
			}
		}
	}
	return nil
}

// CheckSecUnits verifies that the real second based unit set has the multipliers and the
// names the token table's unit lexing assumes.
func CheckSecUnits() error {
	u := schema.UnitDurationSeconds
	want := []int64{86400, 3600, 60}
	if len(u.MultipliersValue) != len(want) {
		return fmt.Errorf("UnitDurationSeconds has %d multipliers, the specification 3", len(u.MultipliersValue))
	}
	names := func(d *schema.UnitDefinition) []string {
		return []string{d.NameShortSingular(), d.NameShortPlural(), d.NameLongSingular(), d.NameLongPlural()}
	}
	for i, m := range want {
		d, ok := u.MultipliersValue[m]
		if !ok {
			return fmt.Errorf("UnitDurationSeconds lacks the multiplier %d", m)
		}
		got := names(d)
		for j := range got {
			if got[j] != SecUnitNames[i][j] {
				return fmt.Errorf("UnitDurationSeconds unit x%d is named %v, the token table assumes %v", m, got, SecUnitNames[i])
			}
		}
	}
	got := names(u.BaseUnitValue)
	for j := range got {
		if got[j] != SecUnitNames[3][j] {
			return fmt.Errorf("UnitDurationSeconds base unit is named %v, the token table assumes %v", got, SecUnitNames[3])
		}
	}
	return nil
}

func optInt64(o OptInt) *int64 {
	if !o.Some {
		return nil
	}
	v := o.V
	return &v
}

type builder struct {
	e        *Embedding
	fallback bool
	literal  bool // units definitions, scalars and enums as struct literals (&UnitsDefinition{...}, &IntEnumSchema{...}) instead of New*
}

func (b *builder) intBound(o OptInt) (*int64, error) {
	if !o.Some {
		return nil, nil
	}
	v, ok := b.e.Int(o.V)
	if !ok || !v.IsInt64() {
		return nil, notRep("integer bound %d under %s", o.V, b.e.Name)
	}
	x := v.Int64()
	return &x, nil
}

func (b *builder) floatBound(o OptInt) (*float64, error) {
	if !o.Some {
		return nil, nil
	}
	f, err := HalfToFloat(o.V, b.e)
	if err != nil {
		return nil, err
	}
	return &f, nil
}

func (b *builder) units(o OptStr) (*schema.UnitsDefinition, error) {
	if !o.Some {
		return nil, nil
	}
	u, err := Units(o.V)
	if err != nil || !b.literal {
		return u, err
	}
	return &schema.UnitsDefinition{BaseUnitValue: u.BaseUnitValue, MultipliersValue: u.MultipliersValue}, nil
}

// BuildLiteralUnits is Build with every units definition written as a struct literal.
func BuildLiteralUnits(s *Schema, e *Embedding) (*Built, error) {
	b := &builder{e: e, literal: true}
	t, _, err := b.build(s)
	if err != nil {
		return nil, err
	}
	return &Built{Type: t}, nil
}

// HasLiteralRoute reports whether the schema has a second construction route worth running: units definitions or
// enums anywhere (struct literals: no constructor has prepared caches / display data), or a scalar at the root.
func (s *Schema) HasLiteralRoute() bool {
	switch s.Kind {
	case "int", "float", "string", "enum_int", "enum_string":
		return true
	}
	return s.HasUnits() || s.hasEnum()
}

func (s *Schema) hasEnum() bool {
	switch s.Kind {
	case "enum_int", "enum_string":
		return true
	case "list":
		return s.Items.hasEnum()
	case "map":
		return s.Keys.hasEnum() || s.Vals.hasEnum()
	case "object":
		for _, p := range s.Props {
			if p.Type.hasEnum() {
				return true
			}
		}
	}
	return false
}

// HasUnits reports whether a units definition occurs in the schema.
func (s *Schema) HasUnits() bool {
	switch s.Kind {
	case "int", "float", "enum_int":
		return s.Units.Some
	case "list":
		return s.Items.HasUnits()
	case "map":
		return s.Keys.HasUnits() || s.Vals.HasUnits()
	case "object":
		for _, p := range s.Props {
			if p.Type.HasUnits() {
				return true
			}
		}
	}
	return false
}

// build returns the schema and, when it has typed entry points, its typed node.
func (b *builder) build(s *Schema) (schema.Type, typed, error) {
	switch s.Kind {
	case "int":
		min, err := b.intBound(s.Min)
		if err != nil {
			return nil, nil, err
		}
		max, err := b.intBound(s.Max)
		if err != nil {
			return nil, nil, err
		}
		u, err := b.units(s.Units)
		if err != nil {
			return nil, nil, err
		}
		if b.literal { // the exported fields, no constructor
			t := &schema.IntSchema{MinValue: min, MaxValue: max, UnitsValue: u}
			return t, tnode[int64]{t}, nil
		}
		t := schema.NewIntSchema(min, max, u)
		return t, tnode[int64]{t}, nil
	case "float":
		min, err := b.floatBound(s.Min)
		if err != nil {
			return nil, nil, err
		}
		max, err := b.floatBound(s.Max)
		if err != nil {
			return nil, nil, err
		}
		u, err := b.units(s.Units)
		if err != nil {
			return nil, nil, err
		}
		if b.literal {
			t := &schema.FloatSchema{MinValue: min, MaxValue: max, UnitsValue: u}
			return t, tnode[float64]{t}, nil
		}
		t := schema.NewFloatSchema(min, max, u)
		return t, tnode[float64]{t}, nil
	case "string":
		var re *regexp.Regexp
		if s.Pattern.Some {
			src, ok := PatternSrc[s.Pattern.V]
			if !ok {
				return nil, nil, fmt.Errorf("unknown pattern id %q", s.Pattern.V)
			}
			re = regexp.MustCompile(src)
		}
		if b.literal {
			t := &schema.StringSchema{MinValue: optInt64(s.Min), MaxValue: optInt64(s.Max), PatternValue: re}
			return t, tnode[string]{t}, nil
		}
		t := schema.NewStringSchema(optInt64(s.Min), optInt64(s.Max), re)
		return t, tnode[string]{t}, nil
	case "bool":
		t := schema.NewBoolSchema()
		return t, tnode[bool]{t}, nil
	case "pattern":
		t := schema.NewPatternSchema()
		return t, tnode[*regexp.Regexp]{t}, nil
	case "any":
		return schema.NewAnySchema(), nil, nil
	case "enum_int":
		vals := map[int64]*schema.DisplayValue{}
		for _, n := range s.Ints {
			v, ok := b.e.Int(n)
			if !ok || !v.IsInt64() {
				return nil, nil, notRep("enum value %d under %s", n, b.e.Name)
			}
			vals[v.Int64()] = nil
		}
		u, err := b.units(s.Units)
		if err != nil {
			return nil, nil, err
		}
		if b.literal { // a struct literal (or a JSON document {"values":{"1":null}}): the values carry NO display data
			t := &schema.IntEnumSchema{EnumSchema: schema.EnumSchema[int64, int64]{ValidValuesMap: vals}, IntUnits: u}
			return t, tnode[int64]{t}, nil
		}
		t := schema.NewIntEnumSchema(vals, u)
		return t, tnode[int64]{t}, nil
	case "enum_string":
		if s.Typed {
			vals := map[NamedStr]*schema.DisplayValue{}
			for _, id := range s.Strs {
				txt, err := TokenText(id, b.e)
				if err != nil {
					return nil, nil, err
				}
				vals[NamedStr(txt)] = nil
			}
			if b.literal {
				t := &schema.TypedStringEnumSchema[NamedStr]{EnumSchema: schema.EnumSchema[string, NamedStr]{ValidValuesMap: vals}}
				return t, tenum{t}, nil
			}
			t := schema.NewTypedStringEnumSchema[NamedStr](vals)
			return t, tenum{t}, nil
		}
		vals := map[string]*schema.DisplayValue{}
		for _, id := range s.Strs {
			txt, err := TokenText(id, b.e)
			if err != nil {
				return nil, nil, err
			}
			vals[txt] = nil
		}
		if b.literal {
			t := &schema.StringEnumSchema{TypedStringEnumSchema: schema.TypedStringEnumSchema[string]{
				EnumSchema: schema.EnumSchema[string, string]{ValidValuesMap: vals}}}
			return t, tnode[string]{t}, nil
		}
		t := schema.NewStringEnumSchema(vals)
		return t, tnode[string]{t}, nil
	case "list":
		it, in, err := b.build(s.Items)
		if err != nil {
			return nil, nil, err
		}
		min, max := optInt64(s.Min), optInt64(s.Max)
		if s.Typed {
			if in != nil {
				if n, ok := typedList(in, min, max); ok {
					return n.schemaType(), n, nil
				}
			}
			b.fallback = true
		}
		return schema.NewListSchema(it, min, max), nil, nil
	case "map":
		kt, kn, err := b.build(s.Keys)
		if err != nil {
			return nil, nil, err
		}
		vt, vn, err := b.build(s.Vals)
		if err != nil {
			return nil, nil, err
		}
		min, max := optInt64(s.Min), optInt64(s.Max)
		if s.Typed {
			if kn != nil && vn != nil {
				if n, ok := typedMap(kn, vn, min, max); ok {
					return n.schemaType(), n, nil
				}
			}
			b.fallback = true
		}
		return schema.NewMapSchema(kt, vt, min, max), nil, nil
	case "object":
		return b.object(s)
	case "oneof":
		if s.Disc == "int" {
			types := map[int64]schema.Object{}
			for _, m := range s.Members {
				o, err := b.member(m.S)
				if err != nil {
					return nil, nil, err
				}
				types[m.KeyInt] = o
			}
			t := schema.NewOneOfIntSchema[any](types, s.Field, s.Inlined)
			return t, tnode[any]{t}, nil // a one-of is a TypedType[any]: typed lists / maps over it have T = any
		}
		types := map[string]schema.Object{}
		for _, m := range s.Members {
			o, err := b.member(m.S)
			if err != nil {
				return nil, nil, err
			}
			txt, err := TokenText(m.KeyStr, b.e)
			if err != nil {
				return nil, nil, err
			}
			types[txt] = o
		}
		t := schema.NewOneOfStringSchema[any](types, s.Field, s.Inlined)
		return t, tnode[any]{t}, nil
	case "ref":
		return schema.NewRefSchema(s.ID, nil), nil, nil
	case "scope":
		var root *schema.ObjectSchema
		var others []*schema.ObjectSchema
		for _, o := range s.Objects {
			t, _, err := b.object(o)
			if err != nil {
				return nil, nil, err
			}
			os, ok := t.(*schema.ObjectSchema)
			if !ok {
				return nil, nil, fmt.Errorf("scope objects must be plain object schemas")
			}
			if o.ID == s.Root {
				root = os
			} else {
				others = append(others, os)
			}
		}
		if root == nil {
			return nil, nil, fmt.Errorf("scope without its root object %q", s.Root)
		}
		return schema.NewScopeSchema(root, others...), nil, nil
	}
	return nil, nil, fmt.Errorf("unknown schema kind %q", s.Kind)
}

func (b *builder) member(s *Schema) (schema.Object, error) {
	t, _, err := b.build(s)
	if err != nil {
		return nil, err
	}
	o, ok := t.(schema.Object)
	if !ok {
		return nil, fmt.Errorf("one-of member of kind %s is no object", s.Kind)
	}
	return o, nil
}

// DefaultJSON renders the JSON text of a property default from its decoded (raw) form.
func DefaultJSON(v *Value, e *Embedding) (string, error) {
	g, err := ToGo(v, e)
	if err != nil {
		return "", err
	}
	txt, err := json.Marshal(g)
	if err != nil {
		return "", fmt.Errorf("default %s has no JSON text: %w", v.Canon(), err)
	}
	// the decoded form the specification works with must be what encoding/json gives back
	var back any
	if err := json.Unmarshal(txt, &back); err != nil {
		return "", err
	}
	ba, err := FromGo(back, e)
	if err != nil || ba.Canon() != v.Canon() {
		return "", fmt.Errorf("default %s is not in decoded-JSON form (decodes to %v)", v.Canon(), back)
	}
	return string(txt), nil
}

func (b *builder) props(s *Schema) (map[string]*schema.PropertySchema, error) {
	props := map[string]*schema.PropertySchema{}
	for _, p := range s.Props {
		t, _, err := b.build(p.Type)
		if err != nil {
			return nil, err
		}
		var def *string
		if p.Default.Some {
			txt, err := DefaultJSON(p.Default.V, b.e)
			if err != nil {
				return nil, err
			}
			def = &txt
		}
		var display schema.Display
		if p.Display != "" {
			name := p.Display
			display = schema.NewDisplayValue(&name, nil, nil)
		}
		ps := schema.NewPropertySchema(t, display, p.Required, p.RequiredIf, p.RequiredIfNot, p.Conflicts, def, nil)
		if p.Disabled {
			ps.Disable("disabled by the specification")
		}
		if p.EmptyIsDefault {
			ps.TreatEmptyAsDefaultValue()
		}
		props[p.Name] = ps
	}
	return props, nil
}

func structObject[T any](id string, props map[string]*schema.PropertySchema, typedCtor bool) (schema.Type, typed) {
	if typedCtor {
		t := schema.NewTypedObject[T](id, props)
		return t, tnode[T]{t}
	}
	return schema.NewStructMappedObjectSchema[T](id, props), nil
}

func (b *builder) object(s *Schema) (schema.Type, typed, error) {
	props, err := b.props(s)
	if err != nil {
		return nil, nil, err
	}
	var t schema.Type
	var n typed
	switch s.Layout {
	case "map":
		return schema.NewObjectSchema(s.ID, props), nil, nil
	case "wide":
		t, n = structObject[catalog.Wide](s.ID, props, s.Typed)
	case "wide_p":
		t, n = structObject[*catalog.Wide](s.ID, props, s.Typed)
	case "ptrs":
		t, n = structObject[catalog.Ptrs](s.ID, props, s.Typed)
	case "notag":
		t, n = structObject[catalog.NoTag](s.ID, props, s.Typed)
	case "sub":
		t, n = structObject[catalog.Sub](s.ID, props, s.Typed)
	case "sub_p":
		t, n = structObject[*catalog.Sub](s.ID, props, s.Typed)
	case "subptrs":
		t, n = structObject[catalog.SubPtrs](s.ID, props, s.Typed)
	case "outer":
		t, n = structObject[catalog.Outer](s.ID, props, s.Typed)
	case "strs":
		t, n = structObject[catalog.Strs](s.ID, props, s.Typed)
	case "opts":
		t, n = structObject[catalog.Opts](s.ID, props, s.Typed)
	default:
		return nil, nil, fmt.Errorf("unknown layout %q", s.Layout)
	}
	return t, n, nil
}

// Build concretises a schema AST under e.
func Build(s *Schema, e *Embedding) (*Built, error) {
	b := &builder{e: e}
	t, n, err := b.build(s)
	if err != nil {
		return nil, err
	}
	out := &Built{Type: t, TypedFallback: b.fallback}
	if n != nil {
		out.Typed = n.ops()
	}
	return out, nil
}
