// Package concretize binds the abstract schema/value universe of spec/Values.tla,
// spec/Strings.tla and spec/SchemaAST.tla to real Go values and real schemas.
//
// tokens.go: the string token table.  The list of tokens lives here; every attribute the
// specification uses (byte length, strconv readings, boolean word, pattern hits, "compiles as a
// regexp", unit lexing) is computed with the Go standard library only - never with SDK code -
// and (a) written to spec/Strings.tla by `schema gen-strings`, (b) compared at start-up with
// the table TLC exported (bind vector), so that a table out of date is an infrastructure
// error, not a verdict.
package concretize

import (
	"fmt"
	"math"
	"math/big"
	"regexp"
	"sort"
	"strconv"
	"strings"
	"unicode/utf8"
)

// The model's integer line (spec/Values.tla).
const (
	IMax    = 1000000
	IMin    = -1000000
	IDLimit = 100000 // |n| <= IDLimit is mapped to itself by every embedding
	SymLen  = 10     // nominal byte length of a symbolic (embedding dependent) token: "at least 10"
)

// EdgePts are the points around the int64 limits.
var EdgePts = []int64{IMin - 1, IMin, IMin + 1, IMax - 1, IMax, IMax + 1}

// IsEdge says whether n is one of the edge points.
func IsEdge(n int64) bool {
	for _, e := range EdgePts {
		if e == n {
			return true
		}
	}
	return false
}

// DecDomain: integers whose %d rendering is a token; FDomain: half-unit floats whose %f
// rendering is a token.
func DecDomain() []int64 {
	var d []int64
	for i := int64(-2); i <= 12; i++ {
		d = append(d, i)
	}
	d = append(d, 60, 64, 90, 330)
	d = append(d, EdgePts...)
	return d
}

func FDomain() []int64 {
	var d []int64
	for h := int64(-4); h <= 24; h++ {
		d = append(d, h)
	}
	for _, e := range EdgePts {
		d = append(d, 2*e)
	}
	return d
}

// PatternIds and their sources.
//
// "lit", "idn", "sfx" are UNANCHORED expressions that start with literal text (regexp.LiteralPrefix is
// "abc", "id-", ".txt"): MatchString finds a match anywhere in the value, so the value tokens of group
// "pattern" include strings whose match does not begin at position 0 ("xabc", "my id-7", "file.txt").
var PatternIds = []string{"a", "dot", "lower", "num", "lit", "idn", "sfx"}
var PatternSrc = map[string]string{
	"lit":   `abc`,
	"idn":   `id-[0-9]+`,
	"sfx":   `\.txt$`,
	"lower": `^[a-z]+$`,
	"a":     `^a`,
	"dot":   `.`,
	"num":   `^-?[0-9]+$`,
}

// UTok is one lexed unit token (spec/Units.tla Tok).
type UTok struct {
	C    int64 `json:"c"`
	U    int   `json:"u"`
	Half bool  `json:"half"`
}

type IntReading struct {
	OK bool  `json:"ok"`
	V  int64 `json:"v"`
}
type FltReading struct {
	OK  bool   `json:"ok"`
	Cls string `json:"cls"` // num | nan | +inf | -inf
	H   int64  `json:"h"`
}
type BoolReading struct {
	Some bool `json:"some"`
	V    bool `json:"v"`
}

// TokAttr is one row of the table.
type TokAttr struct {
	Len   int64           `json:"len"`
	Runes int64           `json:"runes"`
	Sym   bool            `json:"sym"`
	Int   IntReading      `json:"int"`
	Flt   FltReading      `json:"flt"`
	BW    BoolReading     `json:"bw"`
	Pat   map[string]bool `json:"pat"`
	Re    bool            `json:"re"`
	UCls  string          `json:"ucls"` // lex | nolex | odd
	UToks []UTok          `json:"utoks"`
	// UBig: for the tokens of group "big" (amounts around 2^63 / 2^64, far beyond the model's integer line)
	// and each built-in unit set: "fits" (strict unit string whose amount fits in int64), "over" (does not
	// fit), "nolex" (no unit string of that set); "none" for every other token.  Decided with math/big.
	UBig map[string]string `json:"ubig"`
}

// HugeAmount stands in the model for "an amount that fits in int64, above the identity region": the exact
// number is computed by the harness with math/big (BigAmount).
const HugeAmount = 999000

// UnitSet is an independent copy of a built-in units definition (checked against the SDK at start-up).
type UnitSet struct {
	ID    string
	Mults []int64    // descending, base (1) last
	Names [][]string // short singular, short plural, long singular, long plural
}

var UnitSets = []UnitSet{
	{ID: "sec", Mults: []int64{86400, 3600, 60, 1}, Names: SecUnitNames},
	{ID: "bytes", Mults: []int64{1 << 50, 1 << 40, 1 << 30, 1 << 20, 1 << 10, 1},
		Names: [][]string{{"PB", "PB", "petabyte", "petabytes"}, {"TB", "TB", "terabyte", "terabytes"}, {"GB", "GB", "gigabyte", "gigabytes"},
			{"MB", "MB", "megabyte", "megabytes"}, {"kB", "kB", "kilobyte", "kilobytes"}, {"B", "B", "byte", "bytes"}}},
	{ID: "nanos", Mults: []int64{86400e9, 3600e9, 60e9, 1e9, 1e6, 1e3, 1},
		Names: [][]string{{"d", "d", "day", "days"}, {"H", "H", "hour", "hours"}, {"m", "m", "minute", "minutes"}, {"s", "s", "second", "seconds"},
			{"ms", "ms", "milliseconds", "milliseconds"}, {"μs", "μs", "microsecond", "microseconds"}, {"ns", "ns", "nanosecond", "nanoseconds"}}},
}

// UnitSetByID finds a unit set.
func UnitSetByID(id string) *UnitSet {
	for i := range UnitSets {
		if UnitSets[i].ID == id {
			return &UnitSets[i]
		}
	}
	return nil
}

// BigAmount lexes a STRICT unit string of the set (integral counts, declared unit names, every unit at most
// once, largest first) and returns its amount as a big integer; ok=false if it is no such string.
func BigAmount(text string, set *UnitSet) (*big.Int, bool) {
	s := strings.TrimSpace(text)
	sum := new(big.Int)
	last := -1
	i := 0
	n := 0
	for i < len(s) {
		for i < len(s) && (s[i] == ' ' || s[i] == '\t') {
			i++
		}
		j := i
		for j < len(s) && s[j] >= '0' && s[j] <= '9' {
			j++
		}
		if j == i {
			return nil, false
		}
		c, _ := new(big.Int).SetString(s[i:j], 10)
		i = j
		for i < len(s) && (s[i] == ' ' || s[i] == '\t') {
			i++
		}
		k := i
		for k < len(s) && s[k] != ' ' && s[k] != '\t' && !(s[k] >= '0' && s[k] <= '9') {
			k++
		}
		name := s[i:k]
		idx := -1
		for u, names := range set.Names {
			for _, nm := range names {
				if nm == name {
					idx = u
				}
			}
		}
		if idx < 0 || idx <= last {
			return nil, false
		}
		last = idx
		sum.Add(sum, new(big.Int).Mul(c, big.NewInt(set.Mults[idx])))
		i = k
		n++
	}
	return sum, n > 0
}

func bigClass(text string, isBig bool) map[string]string {
	out := map[string]string{}
	for i := range UnitSets {
		set := &UnitSets[i]
		switch amount, ok := BigAmount(text, set); {
		case !isBig:
			out[set.ID] = "none"
		case !ok:
			out[set.ID] = "nolex"
		case amount.Cmp(maxI64) <= 0:
			out[set.ID] = "fits"
		default:
			out[set.ID] = "over"
		}
	}
	return out
}

// TokenDef is a token with its id in the specification and its text.
type TokenDef struct {
	ID     string
	Text   string
	Groups []string
	// symbolic tokens: Kind "d" (decimal rendering of the integer point N) or "f" (%f rendering
	// of the float with half-unit value H = 2N)
	SymKind string
	SymN    int64
}

func safeID(text string) bool {
	if text == "" {
		return false
	}
	for _, c := range []byte(text) {
		if c < 0x20 || c > 0x7e || c == '"' || c == '\\' || c == '#' {
			return false
		}
	}
	return true
}

var tokenDefs []TokenDef
var tokenByID = map[string]*TokenDef{}
var tokenByText = map[string]*TokenDef{}

func addTok(id, text string, groups ...string) {
	if id == "" {
		if !safeID(text) {
			panic("token needs an explicit id: " + strconv.Quote(text))
		}
		id = text
	}
	if t, ok := tokenByText[text]; ok {
		// merge groups
		t.Groups = append(t.Groups, groups...)
		return
	}
	tokenDefs = append(tokenDefs, TokenDef{ID: id, Text: text, Groups: groups})
}

func init() {
	seen := map[string]bool{}
	add := func(id, text string, groups ...string) {
		if seen[text] {
			for i := range tokenDefs {
				if tokenDefs[i].Text == text && tokenDefs[i].SymKind == "" {
					tokenDefs[i].Groups = append(tokenDefs[i].Groups, groups...)
				}
			}
			return
		}
		seen[text] = true
		addTok(id, text, groups...)
	}
	// general strings (lengths 0..4, a multi-byte one, punctuation)
	add("#empty", "", "basic", "int", "float", "bool", "unit", "len", "pattern")
	add("", "a", "basic", "len", "pattern", "int", "bool", "unit", "float", "key")
	add("", "b", "basic", "key")
	add("", "c", "key")
	add("", "ab", "basic", "len", "pattern")
	add("", "abc", "len", "pattern")
	add("", "abcd", "len")
	add("", "A", "pattern")
	add("", "ba", "pattern")
	add("#eacute", "é", "len", "pattern")       // 2 bytes, 1 character
	add("#hello", "héllo", "len", "mb")         // 6 bytes, 5 characters
	add("#nihon", "日本", "len", "mb", "pattern") // 6 bytes, 2 characters
	add("#eacute", "é", "mb")
	add("", "a.b", "pattern")
	add("#nl", "\n", "pattern")
	// values for the unanchored patterns: the match at position 0, later, at the end, absent
	for _, v := range []string{"xabc", "abcx", "xabcx", "ABC", "my id-7", "id-7", "id-", "xid-7x", "file.txt", ".txt", "file.txtx", "txt"} {
		add("", v, "pattern")
	}
	// pairs of distinct strings that denote the same integer key ("1" / "01" / "+1", "7" / "+7" / "07"; with units
	// "60s" / "1m", "1s" / "0m1s"): group "dup"
	for _, v := range []string{"1", "01", "+1", "7", "+7", "07", "2", "60s", "1m", "1s", "0m1s"} {
		add("", v, "dup")
	}
	// property / discriminator field names of the object universe (map keys are tokens)
	for _, n := range []string{"e", "l", "ls", "m", "x", "s", "sp", "n", "u", "w", "r", "type", "B", "kind", "o"} {
		add("", n, "name")
	}
	// integer readings
	for _, s := range []string{"0", "1", "2", "3", "-1"} {
		add("", s, "int", "float", "bool", "unit", "basic", "key", "pattern", "len")
	}
	add("", "+1", "int", "float")
	add("", "007", "int", "float", "unit")
	add("", " 1", "int", "float", "unit", "bool")
	add("", "1 ", "int", "unit")
	add("", "1_0", "int", "float")
	add("", "0x1", "int", "float")
	add("", "10", "int", "unit", "key")
	add("", "1e0", "int", "float")
	// float readings
	for _, s := range []string{"1.5", "0.5", "-0.5", "2.5", ".5", "1.0", "5.", "1e1", "-0", "0x1p1", "1e400",
		"nan", "NaN", "NAN", "inf", "Inf", "+Inf", "-Inf", "-inf", "Infinity", "infinity", "+infinity", "infin"} {
		add("", s, "float")
	}
	add("", "1.5", "int", "unit")
	add("", "nan", "int", "unit", "basic")
	// boolean words
	for _, s := range []string{"true", "TRUE", "True", "false", "FALSE", "yes", "Yes", "YES", "no", "No", "y", "Y", "n", "N",
		"on", "ON", "off", "Off", "enable", "Enable", "enabled", "disable", "disabled", "DISABLED",
		"t", "f", "tru", "yess", "nope", "01", "00", "true ", "enabledd"} {
		add("", s, "bool")
	}
	add("", "true", "basic", "int", "float")
	// whitespace only: not empty, but nothing after trimming (unit parsing trims; strconv does not)
	add("#sp", " ", "unit", "int", "float", "bool", "len")
	add("#sp2", "  ", "unit")
	add("#tab", "\t", "unit", "float")
	add("#nl", "\n", "unit", "int")
	add("", " 5m30s ", "unit")
	add("#tab1s", "\t1s", "unit")
	// amounts around 2^63 and 2^64 for each built-in unit set (single components and sums); group "big"
	for _, t := range []string{
		"8191PB", "8192PB", "12000PB", "16383PB", "16384PB", "20000PB", "9223372036854775807B", "9223372036854775808B",
		"8191PB1023TB", "8191PB1024TB", "8191PB1023TB1023GB1023MB1023kB1023B", "8191PB1023TB1023GB1023MB1023kB1024B",
		"106751d", "106752d", "213503d", "213504d", "106751d23H47m16s854ms775μs807ns", "106751d23H47m16s854ms775μs808ns",
		"9223372036854775807ns", "106751991167300d", "106751991167301d", "213503982334601d", "213503982334602d",
		"9223372036854775807s", "9223372036854775808s", "106751991167300d15H30m7s", "106751991167300d15H30m8s", "153722867280912930m",
		"153722867280912931m",
	} {
		tokenDefs = append(tokenDefs, TokenDef{ID: "#big:" + strings.ReplaceAll(t, "μ", "u"), Text: t, Groups: []string{"big"}})
		seen[t] = true
	}
	// unit strings for the second based set (d H m s)
	for _, s := range []string{"0s", "1s", "2s", "3s", "1 s", "1second", "2 seconds", "1 seconds", "2second", "0m1s", "0m2s", "0d0H0m3s",
		"1m", "1m4s", "5m30s", "90s", "1H", "1d", "1d1s", "1s1m", "1m1m", "1x", "1h", "1S", "s", "1.5s", "0.5s", "1.5m",
		" 2s ", "1m 4s", "1 m 4 s", "1minute", "2 minutes4seconds", "-1s", "1s2", "1m2", "1.0", "1.0s"} {
		add("", s, "unit")
	}
	// patterns / regular expressions
	for _, s := range []string{"^a", "a|b", "a*", "[", "(", "a)", "^[a-z]+$", ".", "\\d", "*", "a{2,1}"} {
		add(idFor(s), s, "re")
	}
	add("", "a", "re")
	add("", "1", "re")
	add("#empty", "", "re")
	// renderings: %d of DecDomain, %f of FDomain, specials
	for _, n := range DecDomain() {
		if IsEdge(n) {
			tokenDefs = append(tokenDefs, TokenDef{ID: fmt.Sprintf("#d:%d", n), SymKind: "d", SymN: n, Groups: []string{"render", "symd"}})
			continue
		}
		add("", strconv.FormatInt(n, 10), "render")
	}
	for _, h := range FDomain() {
		if h%2 == 0 && IsEdge(h/2) {
			tokenDefs = append(tokenDefs, TokenDef{ID: fmt.Sprintf("#f:%d", h), SymKind: "f", SymN: h / 2, Groups: []string{"render", "symf"}})
			continue
		}
		add("", strconv.FormatFloat(float64(h)/2, 'f', 6, 64), "render")
	}
	add("", "NaN", "render")
	add("", "+Inf", "render")
	add("", "-Inf", "render")
	for i := range tokenDefs {
		t := &tokenDefs[i]
		if _, dup := tokenByID[t.ID]; dup {
			panic("duplicate token id " + t.ID)
		}
		tokenByID[t.ID] = t
		if t.SymKind == "" {
			tokenByText[t.Text] = t
		}
	}
}

func idFor(s string) string {
	if safeID(s) {
		return ""
	}
	switch s {
	case "\\d":
		return "#bsd"
	}
	panic("no id for " + strconv.Quote(s))
}

// Tokens returns the table (stable order).
func Tokens() []TokenDef { return tokenDefs }

// TokenByID looks a token up.
func TokenByID(id string) (*TokenDef, bool) { t, ok := tokenByID[id]; return t, ok }

// TokenByText finds the (non-symbolic) token with this text.
func TokenByText(s string) (*TokenDef, bool) { t, ok := tokenByText[s]; return t, ok }

// boolean words of appendix B (independent copy)
var boolWords = map[string]bool{
	"1": true, "yes": true, "y": true, "on": true, "true": true, "enable": true, "enabled": true,
	"0": false, "no": false, "n": false, "off": false, "false": false, "disable": false, "disabled": false,
}

// SecUnitNames: the names of the second based unit set, index 1..4 = d H m s as in
// spec/Units.tla Defs.sec = <<86400, 3600, 60>> (+ base).  Filled by the driver from the real
// definition (and checked against these multipliers there); the defaults are the documented names.
var SecUnitNames = [][]string{
	{"d", "d", "day", "days"},
	{"H", "H", "hour", "hours"},
	{"m", "m", "minute", "minutes"},
	{"s", "s", "second", "seconds"},
}

// LexUnits is an independent lexer for "count name count name ..." strings.
// It returns cls = "lex" with the tokens, "nolex" (not of that shape / unknown name), or
// "odd" (shape is fine but a count has a fraction other than .5, which half-units cannot carry).
func LexUnits(text string) (string, []UTok) {
	s := strings.TrimSpace(text)
	var toks []UTok
	i := 0
	odd := false
	isSpace := func(c byte) bool { return c == ' ' || c == '\t' || c == '\n' || c == '\r' || c == '\v' || c == '\f' }
	for i < len(s) {
		for i < len(s) && isSpace(s[i]) {
			i++
		}
		if i >= len(s) {
			break
		}
		j := i
		for j < len(s) && s[j] >= '0' && s[j] <= '9' {
			j++
		}
		if j == i {
			return "nolex", nil
		}
		c, err := strconv.ParseInt(s[i:j], 10, 64)
		if err != nil {
			c = math.MaxInt64 // more digits than 63 bits hold: still a count
		}
		half := false
		if j < len(s) && s[j] == '.' {
			k := j + 1
			for k < len(s) && s[k] >= '0' && s[k] <= '9' {
				k++
			}
			if k == j+1 {
				return "nolex", nil
			}
			frac := s[j+1 : k]
			switch strings.TrimRight(frac, "0") {
			case "5":
				half = true
			default:
				odd = true // ".0", ".25", ...
			}
			j = k
		}
		i = j
		for i < len(s) && isSpace(s[i]) {
			i++
		}
		k := i
		for k < len(s) && !isSpace(s[k]) && !(s[k] >= '0' && s[k] <= '9') {
			k++
		}
		name := s[i:k]
		u := 0
		if name != "" {
			u = -1
			for idx, names := range SecUnitNames {
				for _, nm := range names {
					if nm == name {
						u = idx + 1
					}
				}
			}
			if u < 0 {
				return "nolex", nil
			}
		}
		toks = append(toks, UTok{C: c, U: u, Half: half})
		i = k
	}
	if len(toks) == 0 {
		return "nolex", nil
	}
	if odd {
		return "odd", nil
	}
	return "lex", toks
}

// modelInt maps a real integer to the model line (identity region only); ok=false when the
// value has no place there.
func modelInt(v int64) (int64, bool) {
	if v >= -IDLimit && v <= IDLimit {
		return v, true
	}
	return 0, false
}

// ComputeAttr computes the attributes of a concrete (non symbolic) token with the standard library.
func ComputeAttr(text string) (TokAttr, error) {
	a := TokAttr{Len: int64(len(text)), Runes: int64(utf8.RuneCountInString(text)), Pat: map[string]bool{}, UToks: []UTok{}}
	if v, err := strconv.ParseInt(text, 10, 64); err == nil {
		m, ok := modelInt(v)
		if !ok {
			return a, fmt.Errorf("token %q: integer reading %d is outside the identity region", text, v)
		}
		a.Int = IntReading{OK: true, V: m}
	}
	a.Flt.Cls = "num"
	if f, err := strconv.ParseFloat(text, 64); err == nil {
		switch {
		case math.IsNaN(f):
			a.Flt = FltReading{OK: true, Cls: "nan"}
		case math.IsInf(f, 1):
			a.Flt = FltReading{OK: true, Cls: "+inf"}
		case math.IsInf(f, -1):
			a.Flt = FltReading{OK: true, Cls: "-inf"}
		default:
			h := f * 2
			if h != math.Trunc(h) || math.Abs(h) > 2*IDLimit {
				return a, fmt.Errorf("token %q: float reading %v is not a half unit of the identity region", text, f)
			}
			a.Flt = FltReading{OK: true, Cls: "num", H: int64(h)}
		}
	}
	if b, ok := boolWords[strings.ToLower(text)]; ok {
		a.BW = BoolReading{Some: true, V: b}
	}
	for _, id := range PatternIds {
		a.Pat[id] = regexp.MustCompile(PatternSrc[id]).MatchString(text)
	}
	_, err := regexp.Compile(text)
	a.Re = err == nil
	a.UCls, a.UToks = LexUnits(text)
	if a.UToks == nil {
		a.UToks = []UTok{}
	}
	a.UBig = bigClass(text, false)
	return a, nil
}

// BigAttr: attributes of a token of group "big".  Its numeric readings are outside the model line, so the
// table says only what the specification needs: it is no integer / float / boolean word of the identity
// region (no schema without units is fed these tokens), its byte length, and its class per unit set.
func BigAttr(text string) TokAttr {
	a := TokAttr{Len: int64(len(text)), Runes: int64(utf8.RuneCountInString(text)), Pat: map[string]bool{}, UCls: "nolex", UToks: []UTok{}}
	a.Flt.Cls = "num"
	for _, id := range PatternIds {
		a.Pat[id] = regexp.MustCompile(PatternSrc[id]).MatchString(text)
	}
	_, err := regexp.Compile(text)
	a.Re = err == nil
	a.UBig = bigClass(text, true)
	return a
}

// SymText renders a symbolic token under an embedding.
func SymText(t *TokenDef, e *Embedding) (string, bool) {
	v, ok := e.Int(t.SymN)
	if !ok {
		return "", false
	}
	switch t.SymKind {
	case "d":
		return v.String(), true
	case "f":
		f, exact := new(big.Float).SetInt(v).Float64()
		if exact != big.Exact {
			return "", false
		}
		return strconv.FormatFloat(f, 'f', 6, 64), true
	}
	return "", false
}

// SymAttr gives the attributes of a symbolic token; they have to hold under every embedding
// that can render it (checked by CheckSymbolic).
func SymAttr(t *TokenDef) TokAttr {
	a := TokAttr{Len: SymLen, Runes: SymLen, Sym: true, Pat: map[string]bool{}, UCls: "nolex", UToks: []UTok{}}
	switch {
	case t.SymN < 0:
		// a minus sign: not a count
	case t.SymKind == "f":
		a.UCls = "odd" // "....000000": a fraction other than .5
	default:
		a.UCls, a.UToks = "lex", []UTok{{C: t.SymN, U: 0}} // a bare number
	}
	a.Flt = FltReading{OK: true, Cls: "num", H: 2 * t.SymN}
	if t.SymKind == "d" && t.SymN >= IMin && t.SymN <= IMax {
		a.Int = IntReading{OK: true, V: t.SymN}
	}
	for _, id := range PatternIds {
		a.Pat[id] = false
	}
	a.Pat["dot"] = true
	a.Pat["num"] = t.SymKind == "d"
	a.Re = true
	return a
}

// CheckSymbolic verifies SymAttr against the standard library under every embedding.
func CheckSymbolic() error {
	for i := range tokenDefs {
		t := &tokenDefs[i]
		if t.SymKind == "" {
			continue
		}
		want := SymAttr(t)
		n := 0
		for _, e := range Embeddings {
			text, ok := SymText(t, e)
			if !ok {
				continue
			}
			n++
			if int64(len(text)) < want.Len {
				return fmt.Errorf("symbolic token %s under %s: %q shorter than %d", t.ID, e.Name, text, want.Len)
			}
			_, ierr := strconv.ParseInt(text, 10, 64)
			if (ierr == nil) != want.Int.OK {
				return fmt.Errorf("symbolic token %s under %s: %q integer reading ok=%v, table says %v", t.ID, e.Name, text, ierr == nil, want.Int.OK)
			}
			f, ferr := strconv.ParseFloat(text, 64)
			if ferr != nil || math.IsInf(f, 0) || math.IsNaN(f) {
				return fmt.Errorf("symbolic token %s under %s: %q has no float reading", t.ID, e.Name, text)
			}
			ev, _ := e.Int(t.SymN)
			if ef, _ := new(big.Float).SetInt(ev).Float64(); ef != f {
				return fmt.Errorf("symbolic token %s under %s: %q reads %v, expected %v", t.ID, e.Name, text, f, ef)
			}
			if _, ok := boolWords[strings.ToLower(text)]; ok {
				return fmt.Errorf("symbolic token %s is a boolean word", t.ID)
			}
			for _, id := range PatternIds {
				if regexp.MustCompile(PatternSrc[id]).MatchString(text) != want.Pat[id] {
					return fmt.Errorf("symbolic token %s under %s: %q pattern %s hit differs from the table", t.ID, e.Name, text, id)
				}
			}
			if _, err := regexp.Compile(text); (err == nil) != want.Re {
				return fmt.Errorf("symbolic token %s under %s: %q regexp compile differs", t.ID, e.Name, text)
			}
			if cls, toks := LexUnits(text); cls != want.UCls || len(toks) != len(want.UToks) ||
				(len(toks) == 1 && (toks[0].U != 0 || toks[0].Half)) {
				return fmt.Errorf("symbolic token %s under %s: %q unit lexing %s differs from the table (%s)", t.ID, e.Name, text, cls, want.UCls)
			}
		}
		if n == 0 {
			return fmt.Errorf("symbolic token %s cannot be rendered under any embedding", t.ID)
		}
	}
	return nil
}

// Attr returns the attributes of any token.
func Attr(t *TokenDef) (TokAttr, error) {
	if t.SymKind != "" {
		a := SymAttr(t)
		a.UBig = bigClass("", false)
		return a, nil
	}
	if strings.HasPrefix(t.ID, "#big:") {
		return BigAttr(t.Text), nil
	}
	return ComputeAttr(t.Text)
}

// ---------------------------------------------------------------------------- TLA+ generation

func tlaStr(s string) string {
	var sb strings.Builder
	sb.WriteByte('"')
	for _, c := range []byte(s) {
		switch c {
		case '"':
			sb.WriteString(`\"`)
		case '\\':
			sb.WriteString(`\\`)
		default:
			sb.WriteByte(c)
		}
	}
	sb.WriteByte('"')
	return sb.String()
}

func tlaBool(b bool) string {
	if b {
		return "TRUE"
	}
	return "FALSE"
}

// GenStringsTLA renders spec/Strings.tla.
func GenStringsTLA() (string, error) {
	var sb strings.Builder
	sb.WriteString("------------------------------ MODULE Strings ------------------------------\n")
	sb.WriteString(`(***************************************************************************)
(* GENERATED by "go run ./cmd/schema gen-strings" (harness/concretize/     *)
(* tokens.go) - do not edit by hand.                                       *)
(*                                                                         *)
(* The specification has no string operations; strings are TOKENS of this  *)
(* table and everything the schema semantics needs to know about a string  *)
(* is an attribute, computed with the Go standard library (strconv,        *)
(* regexp, strings.ToLower) and re-checked by the harness at start-up      *)
(* against the table TLC exports (bind vector) - a stale table is an       *)
(* infrastructure error.                                                   *)
(*                                                                         *)
(*   len    byte length (what the SDK's length bounds measure)             *)
(*   runes  number of characters (NOT what the bounds measure: kept so     *)
(*          that tokens whose two counts differ can be placed around a     *)
(*          bound)                                                         *)
(*   sym    symbolic token: the decimal / %f rendering of an edge point of *)
(*          the integer line; its text depends on the numeric embedding,   *)
(*          its length is "at least 10" (generated length bounds are       *)
(*          smaller)                                                       *)
(*   int    strconv.ParseInt(s, 10, 64): ok, value (a model integer)       *)
(*   flt    strconv.ParseFloat(s, 64): ok, class num/nan/+inf/-inf, value  *)
(*          in half units                                                  *)
(*   bw     boolean word (case-insensitive list of appendix B)             *)
(*   pat    hit of each pattern of PatternIds                              *)
(*   re     compiles as a Go regular expression                            *)
(*   ubig   tokens of group g_big (amounts around 2^63 / 2^64, beyond the  *)
(*          model line) per built-in unit set: "fits" / "over" (does the   *)
(*          amount of this strict unit string fit in int64 - decided with  *)
(*          math/big), "nolex"; "none" for all other tokens                *)
(*   ucls   unit lexing for the second based set <<86400,3600,60>>:        *)
(*          "lex" (utoks = Units!Tok sequence), "nolex" (not a count/name  *)
(*          string), "odd" (a count with a fraction other than .5)         *)
(***************************************************************************)
`)
	sb.WriteString("EXTENDS Integers, Sequences, TLC\n\n")
	ids := append([]string{}, PatternIds...)
	sort.Strings(ids)
	sb.WriteString("PatternIds == {" + strings.Join(mapS(ids, tlaStr), ", ") + "}\n")
	sb.WriteString("PatternSrc == [")
	for i, id := range ids {
		if i > 0 {
			sb.WriteString(", ")
		}
		sb.WriteString(id + " |-> " + tlaStr(PatternSrc[id]))
	}
	sb.WriteString("]\n\n")
	sb.WriteString("SymLen == " + strconv.Itoa(SymLen) + "\n\n")
	sb.WriteString("TokSeq == <<\n")
	groups := map[string][]string{}
	for i := range tokenDefs {
		t := &tokenDefs[i]
		a, err := Attr(t)
		if err != nil {
			return "", err
		}
		for _, g := range t.Groups {
			groups[g] = append(groups[g], t.ID)
		}
		var pats []string
		for _, id := range ids {
			pats = append(pats, id+" |-> "+tlaBool(a.Pat[id]))
		}
		var ut []string
		for _, u := range a.UToks {
			ut = append(ut, fmt.Sprintf("[c |-> %d, u |-> %d, half |-> %s]", u.C, u.U, tlaBool(u.Half)))
		}
		sep := ","
		if i == len(tokenDefs)-1 {
			sep = ""
		}
		cmt := ""
		if t.SymKind == "" && !safeID(t.Text) {
			cmt = "  \\* text " + strings.ReplaceAll(strconv.QuoteToASCII(t.Text), "\\", "/")
		}
		fmt.Fprintf(&sb, "  [id |-> %s, len |-> %d, runes |-> %d, sym |-> %s, int |-> [ok |-> %s, v |-> %d], flt |-> [ok |-> %s, cls |-> %s, h |-> %d], bw |-> [some |-> %s, v |-> %s], pat |-> [%s], re |-> %s, ucls |-> %s, utoks |-> <<%s>>, ubig |-> [sec |-> %s, bytes |-> %s, nanos |-> %s]]%s%s\n",
			tlaStr(t.ID), a.Len, a.Runes, tlaBool(a.Sym), tlaBool(a.Int.OK), a.Int.V, tlaBool(a.Flt.OK), tlaStr(a.Flt.Cls), a.Flt.H,
			tlaBool(a.BW.Some), tlaBool(a.BW.V), strings.Join(pats, ", "), tlaBool(a.Re), tlaStr(a.UCls), strings.Join(ut, ", "),
			tlaStr(a.UBig["sec"]), tlaStr(a.UBig["bytes"]), tlaStr(a.UBig["nanos"]), sep, cmt)
	}
	sb.WriteString(">>\n\n")
	sb.WriteString("TokIds == {TokSeq[i].id : i \\in DOMAIN TokSeq}\n")
	sb.WriteString("Tok == [t \\in TokIds |-> TokSeq[CHOOSE i \\in DOMAIN TokSeq : TokSeq[i].id = t]]\n\n")
	var gn []string
	for g := range groups {
		gn = append(gn, g)
	}
	sort.Strings(gn)
	sb.WriteString("\\* purpose groups used by the bounded generators of SchemaMC\nTokGroup == [\n")
	for i, g := range gn {
		m := uniq(groups[g])
		c := ","
		if i == len(gn)-1 {
			c = ""
		}
		fmt.Fprintf(&sb, "    %s |-> {%s}%s\n", "g_"+g, strings.Join(mapS(m, tlaStr), ", "), c)
	}
	sb.WriteString("]\n\n")
	sb.WriteString("\\* %d rendering of an integer (what the SDK's string mapper produces): <<n, token>>\nDecSeq == <<\n")
	dd := DecDomain()
	for i, n := range dd {
		sep := ","
		if i == len(dd)-1 {
			sep = ""
		}
		id := strconv.FormatInt(n, 10)
		if IsEdge(n) {
			id = fmt.Sprintf("#d:%d", n)
		}
		fmt.Fprintf(&sb, "  <<%d, %s>>%s\n", n, tlaStr(id), sep)
	}
	sb.WriteString(">>\nDecTok == [n \\in {DecSeq[i][1] : i \\in DOMAIN DecSeq} |-> DecSeq[CHOOSE i \\in DOMAIN DecSeq : DecSeq[i][1] = n][2]]\n")
	sb.WriteString("\n\\* %f rendering of a float given in half units: <<h, token>>\nFSeq == <<\n")
	fd := FDomain()
	for i, h := range fd {
		sep := ","
		if i == len(fd)-1 {
			sep = ""
		}
		id := strconv.FormatFloat(float64(h)/2, 'f', 6, 64)
		if h%2 == 0 && IsEdge(h/2) {
			id = fmt.Sprintf("#f:%d", h)
		}
		fmt.Fprintf(&sb, "  <<%d, %s>>%s\n", h, tlaStr(id), sep)
	}
	sb.WriteString(">>\nFTok == [h \\in {FSeq[i][1] : i \\in DOMAIN FSeq} |-> FSeq[CHOOSE i \\in DOMAIN FSeq : FSeq[i][1] = h][2]]\n")
	sb.WriteString("=============================================================================\n")
	return sb.String(), nil
}

func mapS(xs []string, f func(string) string) []string {
	out := make([]string, len(xs))
	for i, x := range xs {
		out[i] = f(x)
	}
	return out
}

func uniq(xs []string) []string {
	m := map[string]bool{}
	var out []string
	for _, x := range xs {
		if !m[x] {
			m[x] = true
			out = append(out, x)
		}
	}
	sort.Strings(out)
	return out
}
