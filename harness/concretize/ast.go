package concretize

import (
	"encoding/json"
	"fmt"
	"sort"
	"strings"
)

// ast.go: the JSON shapes shared with the specification (DESIGN appendix A).

// OptInt / OptStr: {"some":true,"v":x} | {"some":false}.
type OptInt struct {
	Some bool  `json:"some"`
	V    int64 `json:"v"`
}

func (o OptInt) MarshalJSON() ([]byte, error) {
	if !o.Some {
		return []byte(`{"some":false}`), nil
	}
	return []byte(fmt.Sprintf(`{"some":true,"v":%d}`, o.V)), nil
}

type OptStr struct {
	Some bool   `json:"some"`
	V    string `json:"v"`
}

func (o OptStr) MarshalJSON() ([]byte, error) {
	if !o.Some {
		return []byte(`{"some":false}`), nil
	}
	b, _ := json.Marshal(o.V)
	return []byte(`{"some":true,"v":` + string(b) + `}`), nil
}

// Schema is the abstract schema AST (spec/SchemaAST.tla).
//
// STAGE 2 extension point: objects / one-of / refs / scopes add the fields ID, Props, Layout,
// IDUnenforced, Disc, Field, Inlined, Members, NS, Root, Objects (appendix A) and arms in
// UnmarshalJSON / MarshalJSON / Build.
type Schema struct {
	Kind    string
	Min     OptInt
	Max     OptInt
	Units   OptStr
	Pattern OptStr
	Typed   bool
	Items   *Schema
	Keys    *Schema
	Vals    *Schema  // map values
	Ints    []int64  // enum_int values
	Strs    []string // enum_string values (token ids)
	// object
	ID     string
	Props  []*Prop
	Layout string // "map" or a catalogue layout id
	// oneof
	Disc    string // "string" | "int"
	Field   string
	Inlined bool
	Members []Member
	// scope
	Root    string
	Objects []*Schema
}

// Prop is one property of an object (NewPropertySchema + Disable + TreatEmptyAsDefaultValue).
type Prop struct {
	Name           string   `json:"name"`
	Type           *Schema  `json:"type"`
	Required       bool     `json:"required"`
	RequiredIf     []string `json:"required_if"`
	RequiredIfNot  []string `json:"required_if_not"`
	Conflicts      []string `json:"conflicts"`
	Default        OptValue `json:"default"`
	Disabled       bool     `json:"disabled"`
	EmptyIsDefault bool     `json:"empty_is_default"`
	Display        string   `json:"display,omitempty"` // display name (NewDisplayValue); "" = no display value
}

func (p *Prop) MarshalJSON() ([]byte, error) {
	nn := func(x []string) []string {
		if x == nil {
			return []string{}
		}
		return x
	}
	m := map[string]any{"name": p.Name, "type": p.Type, "required": p.Required, "required_if": nn(p.RequiredIf),
		"required_if_not": nn(p.RequiredIfNot), "conflicts": nn(p.Conflicts), "default": p.Default, "disabled": p.Disabled,
		"empty_is_default": p.EmptyIsDefault}
	if p.Display != "" {
		m["display"] = p.Display
	}
	return json.Marshal(m)
}

// Member is one member of a one-of: the discriminator value (int64 or token id) and the object / ref.
type Member struct {
	KeyInt int64
	KeyStr string
	S      *Schema
}

// OptValue is Opt(Value).
type OptValue struct {
	Some bool   `json:"some"`
	V    *Value `json:"v,omitempty"`
}

func (o OptValue) MarshalJSON() ([]byte, error) {
	if !o.Some || o.V == nil {
		return []byte(`{"some":false}`), nil
	}
	b, err := o.V.MarshalJSON()
	if err != nil {
		return nil, err
	}
	return []byte(`{"some":true,"v":` + string(b) + `}`), nil
}

type rawSchema struct {
	Kind    string              `json:"kind"`
	Min     *OptInt             `json:"min,omitempty"`
	Max     *OptInt             `json:"max,omitempty"`
	Units   *OptStr             `json:"units,omitempty"`
	Pattern *OptStr             `json:"pattern,omitempty"`
	Typed   *bool               `json:"typed,omitempty"`
	Items   *Schema             `json:"items,omitempty"`
	Keys    *Schema             `json:"keys,omitempty"`
	Values  json.RawMessage     `json:"values,omitempty"`
	ID      string              `json:"id,omitempty"`
	Props   []*Prop             `json:"props,omitempty"`
	Layout  string              `json:"layout,omitempty"`
	Disc    string              `json:"disc,omitempty"`
	Field   string              `json:"field,omitempty"`
	Inlined bool                `json:"inlined,omitempty"`
	Members [][]json.RawMessage `json:"members,omitempty"`
	Root    string              `json:"root,omitempty"`
	Objects []*Schema           `json:"objects,omitempty"`
}

func (s *Schema) UnmarshalJSON(b []byte) error {
	var r rawSchema
	if err := json.Unmarshal(b, &r); err != nil {
		return err
	}
	s.Kind = r.Kind
	if r.Min != nil {
		s.Min = *r.Min
	}
	if r.Max != nil {
		s.Max = *r.Max
	}
	if r.Units != nil {
		s.Units = *r.Units
	}
	if r.Pattern != nil {
		s.Pattern = *r.Pattern
	}
	if r.Typed != nil {
		s.Typed = *r.Typed
	}
	s.Items, s.Keys = r.Items, r.Keys
	s.ID, s.Props, s.Layout = r.ID, r.Props, r.Layout
	s.Disc, s.Field, s.Inlined = r.Disc, r.Field, r.Inlined
	s.Root, s.Objects = r.Root, r.Objects
	switch s.Kind {
	case "object", "ref", "scope", "refcut":
		return nil
	case "oneof":
		for _, m := range r.Members {
			if len(m) != 2 {
				return fmt.Errorf("malformed one-of member")
			}
			mem := Member{S: &Schema{}}
			if s.Disc == "int" {
				if err := json.Unmarshal(m[0], &mem.KeyInt); err != nil {
					return err
				}
			} else if err := json.Unmarshal(m[0], &mem.KeyStr); err != nil {
				return err
			}
			if err := json.Unmarshal(m[1], mem.S); err != nil {
				return err
			}
			s.Members = append(s.Members, mem)
		}
		return nil
	case "enum_int":
		s.Ints = []int64{}
		if len(r.Values) > 0 {
			return json.Unmarshal(r.Values, &s.Ints)
		}
	case "enum_string":
		s.Strs = []string{}
		if len(r.Values) > 0 {
			return json.Unmarshal(r.Values, &s.Strs)
		}
	case "map":
		s.Vals = &Schema{}
		return json.Unmarshal(r.Values, s.Vals)
	case "int", "float", "string", "bool", "pattern", "any", "list":
	default:
		return fmt.Errorf("unknown schema kind %q", s.Kind)
	}
	return nil
}

func (s *Schema) MarshalJSON() ([]byte, error) {
	m := map[string]any{"kind": s.Kind}
	switch s.Kind {
	case "int", "float":
		m["min"], m["max"], m["units"] = s.Min, s.Max, s.Units
	case "string":
		m["min"], m["max"], m["pattern"] = s.Min, s.Max, s.Pattern
	case "enum_int":
		v := s.Ints
		if v == nil {
			v = []int64{}
		}
		m["values"], m["units"] = v, s.Units
	case "enum_string":
		v := s.Strs
		if v == nil {
			v = []string{}
		}
		m["values"], m["typed"] = v, s.Typed
	case "list":
		m["items"], m["min"], m["max"], m["typed"] = s.Items, s.Min, s.Max, s.Typed
	case "map":
		m["keys"], m["values"], m["min"], m["max"], m["typed"] = s.Keys, s.Vals, s.Min, s.Max, s.Typed
	case "object":
		props := s.Props
		if props == nil {
			props = []*Prop{}
		}
		m["id"], m["props"], m["layout"], m["typed"] = s.ID, props, s.Layout, s.Typed
	case "oneof":
		mem := [][]any{}
		for _, x := range s.Members {
			if s.Disc == "int" {
				mem = append(mem, []any{x.KeyInt, x.S})
			} else {
				mem = append(mem, []any{x.KeyStr, x.S})
			}
		}
		m["disc"], m["field"], m["inlined"], m["members"] = s.Disc, s.Field, s.Inlined, mem
	case "ref":
		m["id"] = s.ID
	case "scope":
		m["root"], m["objects"] = s.Root, s.Objects
	}
	return json.Marshal(m)
}

// Value is an abstract raw / native / wire value (spec/Values.tla).
//
// STAGE 2 extension point: struct-mapped objects add K = "struct" with T (catalogue id) and
// Fields [[name, Opt(value)]..].
type Value struct {
	K      string
	Rep    string
	B      bool          // bool
	N      int64         // int: model integer; float: half units
	S      string        // str / re: token id; fspecial: nan|+inf|-inf; junk: class
	List   []*Value      // list
	Pairs  [][2]*Value   // map
	T      string        // struct: layout id
	Fields []StructField // struct: one per declared property
}

// StructField is one <<property, Opt(value)>> pair of a struct value.
type StructField struct {
	Name string
	Val  OptValue
}

func (v *Value) UnmarshalJSON(b []byte) error {
	var r struct {
		K   string          `json:"k"`
		Rep string          `json:"rep"`
		T   string          `json:"t"`
		V   json.RawMessage `json:"v"`
	}
	if err := json.Unmarshal(b, &r); err != nil {
		return err
	}
	v.K, v.Rep, v.T = r.K, r.Rep, r.T
	switch r.K {
	case "struct":
		var rows [][]json.RawMessage
		if err := json.Unmarshal(r.V, &rows); err != nil {
			return err
		}
		v.Fields = []StructField{}
		for _, row := range rows {
			if len(row) != 2 {
				return fmt.Errorf("malformed struct field")
			}
			var f StructField
			if err := json.Unmarshal(row[0], &f.Name); err != nil {
				return err
			}
			if err := json.Unmarshal(row[1], &f.Val); err != nil {
				return err
			}
			v.Fields = append(v.Fields, f)
		}
		return nil
	case "nil":
		return nil
	case "bool":
		return json.Unmarshal(r.V, &v.B)
	case "int", "float":
		return json.Unmarshal(r.V, &v.N)
	case "fspecial", "str", "re", "junk":
		return json.Unmarshal(r.V, &v.S)
	case "list":
		v.List = []*Value{}
		return json.Unmarshal(r.V, &v.List)
	case "map":
		v.Pairs = [][2]*Value{}
		return json.Unmarshal(r.V, &v.Pairs)
	}
	return fmt.Errorf("unknown value kind %q", r.K)
}

func (v *Value) MarshalJSON() ([]byte, error) {
	q := func(x any) string { b, _ := json.Marshal(x); return string(b) }
	switch v.K {
	case "nil":
		return []byte(`{"k":"nil"}`), nil
	case "bool":
		return []byte(fmt.Sprintf(`{"k":"bool","rep":%s,"v":%v}`, q(v.Rep), v.B)), nil
	case "int", "float":
		return []byte(fmt.Sprintf(`{"k":%s,"rep":%s,"v":%d}`, q(v.K), q(v.Rep), v.N)), nil
	case "fspecial", "str":
		return []byte(fmt.Sprintf(`{"k":%s,"rep":%s,"v":%s}`, q(v.K), q(v.Rep), q(v.S))), nil
	case "re", "junk":
		return []byte(fmt.Sprintf(`{"k":%s,"v":%s}`, q(v.K), q(v.S))), nil
	case "struct":
		var sb strings.Builder
		sb.WriteString(fmt.Sprintf(`{"k":"struct","t":%s,"v":[`, q(v.T)))
		for i, f := range v.Fields {
			if i > 0 {
				sb.WriteByte(',')
			}
			ob, err := f.Val.MarshalJSON()
			if err != nil {
				return nil, err
			}
			sb.WriteString("[" + q(f.Name) + "," + string(ob) + "]")
		}
		sb.WriteString("]}")
		return []byte(sb.String()), nil
	case "list":
		var sb strings.Builder
		sb.WriteString(fmt.Sprintf(`{"k":"list","rep":%s,"v":[`, q(v.Rep)))
		for i, x := range v.List {
			if i > 0 {
				sb.WriteByte(',')
			}
			b, err := x.MarshalJSON()
			if err != nil {
				return nil, err
			}
			sb.Write(b)
		}
		sb.WriteString("]}")
		return []byte(sb.String()), nil
	case "map":
		var sb strings.Builder
		sb.WriteString(fmt.Sprintf(`{"k":"map","rep":%s,"v":[`, q(v.Rep)))
		for i, p := range v.Pairs {
			if i > 0 {
				sb.WriteByte(',')
			}
			kb, err := p[0].MarshalJSON()
			if err != nil {
				return nil, err
			}
			vb, err := p[1].MarshalJSON()
			if err != nil {
				return nil, err
			}
			sb.WriteString("[" + string(kb) + "," + string(vb) + "]")
		}
		sb.WriteString("]}")
		return []byte(sb.String()), nil
	}
	return nil, fmt.Errorf("cannot marshal value kind %q", v.K)
}

// Canon renders a value without container representations and with map pairs sorted: two
// values are "the same list / map / scalar" iff their canonical forms are equal (nil and empty
// containers, []any and []int64, map[string]any and map[any]any are not distinguished;
// scalar representations are).
func (v *Value) Canon() string {
	switch v.K {
	case "list":
		parts := make([]string, len(v.List))
		for i, x := range v.List {
			parts[i] = x.Canon()
		}
		return "[" + strings.Join(parts, ",") + "]"
	case "map":
		parts := make([]string, len(v.Pairs))
		for i, p := range v.Pairs {
			parts[i] = p[0].Canon() + "=>" + p[1].Canon()
		}
		sort.Strings(parts)
		return "{" + strings.Join(parts, ",") + "}"
	case "struct":
		parts := make([]string, len(v.Fields))
		for i, f := range v.Fields {
			if f.Val.Some {
				parts[i] = f.Name + "=" + f.Val.V.Canon()
			} else {
				parts[i] = f.Name + "=<absent>"
			}
		}
		return "struct:" + v.T + "{" + strings.Join(parts, ",") + "}"
	}
	b, _ := v.MarshalJSON()
	return string(b)
}

// CanonExact is Canon with the container representations kept ([]any vs []T, map[any]any vs map[string]any):
// below an `any` schema the denoted value is the normalised tree, so the Go types of containers are part of it.
func (v *Value) CanonExact() string {
	switch v.K {
	case "list":
		parts := make([]string, len(v.List))
		for i, x := range v.List {
			parts[i] = x.CanonExact()
		}
		return v.Rep + "[" + strings.Join(parts, ",") + "]"
	case "map":
		parts := make([]string, len(v.Pairs))
		for i, p := range v.Pairs {
			parts[i] = p[0].CanonExact() + "=>" + p[1].CanonExact()
		}
		sort.Strings(parts)
		return v.Rep + "{" + strings.Join(parts, ",") + "}"
	}
	return v.Canon()
}

// Class names the value class / representation of a value (signature field arg_class).
func (v *Value) Class() string {
	switch v.K {
	case "nil":
		return "nil"
	case "fspecial":
		return strings.TrimLeft(v.S, "+-")
	case "junk":
		return "junk:" + v.S
	case "re":
		return "re"
	case "struct":
		return "struct:" + v.T
	case "str":
		if t, ok := TokenByID(v.S); ok && t.SymKind == "" {
			if a, err := ComputeAttr(t.Text); err == nil && a.Flt.OK && a.Flt.Cls != "num" {
				return "str:" + strings.TrimLeft(a.Flt.Cls, "+-")
			}
		}
		return "str:" + v.Rep
	}
	return v.K + ":" + v.Rep
}

// Coarse is the value class without the representation (signature field arg_class for
// panics, which do not depend on the width): nil, bool, int, float, nan, inf, str, str:nan, list,
// map, re, junk:<class>; defined (named) Go types are "named:<kind>".
func (v *Value) Coarse() string {
	switch v.K {
	case "bool", "int", "float":
		if v.Rep == "named" {
			return "named:" + v.K
		}
		return v.K
	case "str":
		c := v.Class()
		if c == "str:nan" {
			return c
		}
		if v.Rep == "named" {
			return "named:str"
		}
		return "str"
	case "list":
		return v.K
	case "map":
		for _, p := range v.Pairs {
			if p[0].K == "fspecial" && p[0].S == "nan" {
				return "map:nan_key"
			}
		}
		return v.K
	}
	return v.Class()
}

// Decodable mirrors Values!Decodable: a shape a CBOR / JSON / YAML decoder can hand over.
func (v *Value) Decodable() bool {
	switch v.K {
	case "bool", "int", "float", "str":
		return v.Rep != "named"
	case "list":
		for _, x := range v.List {
			if !x.Decodable() {
				return false
			}
		}
	case "map":
		for _, p := range v.Pairs {
			if !p[0].Decodable() || !p[1].Decodable() {
				return false
			}
		}
	case "re", "struct":
		return false
	case "junk":
		return v.S == "tag" || v.S == "bigint" || v.S == "time"
	}
	return true
}

// Key summarises a value for coverage accounting: class, and for containers the length and
// the set of element classes.
func (v *Value) Key() string {
	switch v.K {
	case "list":
		set := map[string]bool{}
		for _, x := range v.List {
			set[x.Class()] = true
		}
		return fmt.Sprintf("list:%s/%d%v", v.Rep, len(v.List), sortedKeys(set))
	case "map":
		set := map[string]bool{}
		for _, p := range v.Pairs {
			set[p[0].Class()+"=>"+p[1].Class()] = true
		}
		return fmt.Sprintf("map:%s/%d%v", v.Rep, len(v.Pairs), sortedKeys(set))
	case "struct":
		parts := []string{}
		for _, f := range v.Fields {
			if f.Val.Some {
				parts = append(parts, f.Name+"="+f.Val.V.Key())
			} else {
				parts = append(parts, f.Name+"=-")
			}
		}
		return "struct:" + v.T + "{" + strings.Join(parts, ",") + "}"
	case "int":
		pos := "small"
		if IsEdge(v.N) {
			pos = fmt.Sprintf("edge%+d", v.N)
		}
		return v.Class() + "/" + pos
	}
	return v.Class()
}

func sortedKeys(m map[string]bool) []string {
	var out []string
	for k := range m {
		out = append(out, k)
	}
	sort.Strings(out)
	return out
}

// Shape summarises a schema for coverage accounting: kinds and which constraints are set.
func (s *Schema) Shape() string {
	f := func(b bool, c string) string {
		if b {
			return c
		}
		return ""
	}
	switch s.Kind {
	case "int", "float":
		return s.Kind + "(" + f(s.Min.Some, "m") + f(s.Max.Some, "M") + f(s.Units.Some, "u") + f(s.HasEdge(), "e") + ")"
	case "string":
		return "string(" + f(s.Min.Some, "m") + f(s.Max.Some, "M") + f(s.Pattern.Some, "p:"+s.Pattern.V) + ")"
	case "enum_int":
		return fmt.Sprintf("enum_int(%d%s)", len(s.Ints), f(s.Units.Some, "u"))
	case "enum_string":
		return fmt.Sprintf("enum_string(%d%s)", len(s.Strs), f(s.Typed, "t"))
	case "list":
		return "list(" + f(s.Min.Some, "m") + f(s.Max.Some, "M") + f(s.Typed, "t") + ")<" + s.Items.Shape() + ">"
	case "map":
		return "map(" + f(s.Min.Some, "m") + f(s.Max.Some, "M") + f(s.Typed, "t") + ")<" + s.Keys.Shape() + "," + s.Vals.Shape() + ">"
	case "object":
		parts := []string{}
		for _, p := range s.Props {
			parts = append(parts, p.Name+":"+p.Type.Shape()+"["+f(p.Required, "r")+fmt.Sprintf("i%v", p.RequiredIf)+fmt.Sprintf("n%v", p.RequiredIfNot)+
				fmt.Sprintf("c%v", p.Conflicts)+f(p.Default.Some, "d")+f(p.Disabled, "x")+f(p.EmptyIsDefault, "e")+f(p.Display != "", "D")+"]")
		}
		return "object:" + s.Layout + f(s.Typed, "t") + "{" + strings.Join(parts, ",") + "}"
	case "oneof":
		parts := []string{}
		for _, m := range s.Members {
			parts = append(parts, m.S.Shape())
		}
		return "oneof:" + s.Disc + f(s.Inlined, "i") + "<" + strings.Join(parts, "|") + ">"
	case "ref":
		return "ref:" + s.ID
	case "scope":
		parts := []string{}
		for _, o := range s.Objects {
			parts = append(parts, o.Shape())
		}
		return "scope:" + s.Root + "<" + strings.Join(parts, ";") + ">"
	}
	return s.Kind
}

// Trivial: no constraint anywhere (the default configuration).
func (s *Schema) Trivial() bool {
	switch s.Kind {
	case "int", "float":
		return !s.Min.Some && !s.Max.Some && !s.Units.Some
	case "string":
		return !s.Min.Some && !s.Max.Some && !s.Pattern.Some
	case "list":
		return !s.Min.Some && !s.Max.Some && s.Items.Trivial()
	case "map":
		return !s.Min.Some && !s.Max.Some && s.Keys.Trivial() && s.Vals.Trivial()
	case "enum_int", "enum_string", "object", "oneof", "scope", "ref":
		return false
	}
	return true
}

// HasEdge reports whether the value contains an edge point of the integer line.
func (v *Value) HasEdge() bool {
	switch v.K {
	case "int":
		return IsEdge(v.N)
	case "float":
		return v.N%2 == 0 && IsEdge(v.N/2)
	case "str", "re":
		t, ok := TokenByID(v.S)
		return ok && t.SymKind != ""
	case "list":
		for _, x := range v.List {
			if x.HasEdge() {
				return true
			}
		}
	case "map":
		for _, p := range v.Pairs {
			if p[0].HasEdge() || p[1].HasEdge() {
				return true
			}
		}
	case "struct":
		for _, f := range v.Fields {
			if f.Val.Some && f.Val.V.HasEdge() {
				return true
			}
		}
	}
	return false
}

// HasEdge reports whether the schema contains an edge point (bounds, enum values).
func (s *Schema) HasEdge() bool {
	switch s.Kind {
	case "int":
		return (s.Min.Some && IsEdge(s.Min.V)) || (s.Max.Some && IsEdge(s.Max.V))
	case "float":
		e := func(o OptInt) bool { return o.Some && o.V%2 == 0 && IsEdge(o.V/2) }
		return e(s.Min) || e(s.Max)
	case "enum_int":
		for _, n := range s.Ints {
			if IsEdge(n) {
				return true
			}
		}
	case "list":
		return s.Items.HasEdge()
	case "map":
		return s.Keys.HasEdge() || s.Vals.HasEdge()
	case "object":
		for _, p := range s.Props {
			if p.Type.HasEdge() || (p.Default.Some && p.Default.V.HasEdge()) {
				return true
			}
		}
	case "oneof":
		for _, m := range s.Members {
			if m.S.HasEdge() {
				return true
			}
		}
	case "scope":
		for _, o := range s.Objects {
			if o.HasEdge() {
				return true
			}
		}
	}
	return false
}
