package concretize

import (
	"math/big"
)

// embed.go: order preserving embeddings of the model's integer line into real numbers
// (DESIGN section 3).  Every embedding is the identity on |n| <= IDLimit (so 0/1, the small
// bounds and the unit readings are themselves); the edge points around IMin / IMax are sent to
// the neighbourhood of a machine limit.  An embedding preserves what the semantics uses:
// order, equality, integrality, "is 0/1" and - for the embeddings that define points beyond
// IMin/IMax - "fits in int64".  The embeddings that stop at IMin/IMax (2^53, 2^31, 2^32) are
// applicable only to vectors without points beyond.

// Embedding maps model integers to real integers.
type Embedding struct {
	Name string
	// hi[d+1] is the image of IMax+d for d = -1, 0, +1 (nil = not defined), lo[d+1] of IMin+d.
	hi [3]*big.Int
	lo [3]*big.Int
}

func pow2(k uint) *big.Int { return new(big.Int).Lsh(big.NewInt(1), k) }
func add(a *big.Int, d int64) *big.Int {
	return new(big.Int).Add(a, big.NewInt(d))
}
func neg(a *big.Int) *big.Int { return new(big.Int).Neg(a) }
func mul(a *big.Int, d int64) *big.Int {
	return new(big.Int).Mul(a, big.NewInt(d))
}

// Embeddings, in the order they are tried.
var Embeddings = []*Embedding{
	// IMax -> 2^63-1 (MaxInt64), IMax+1 -> 2^63; IMin -> -2^63; IMin-1 has no image (no Go
	// representation holds -2^63-1)
	{Name: "i64", hi: [3]*big.Int{add(pow2(63), -2), add(pow2(63), -1), pow2(63)},
		lo: [3]*big.Int{nil, neg(pow2(63)), add(neg(pow2(63)), 1)}},
	// the same limits in steps of 2^40, so that every point is exact in float32 and float64:
	// IMax -> 2^63-2^40 (fits), IMax+1 -> 2^63 (does not); IMin -> -2^63 (fits), IMin-1 -> -2^63-2^40
	{Name: "f63", hi: [3]*big.Int{add(pow2(63), -2*(1<<40)), add(pow2(63), -(1 << 40)), pow2(63)},
		lo: [3]*big.Int{add(neg(pow2(63)), -(1 << 40)), neg(pow2(63)), add(neg(pow2(63)), 1<<40)}},
	// float64 exactness: IMax-1 -> 2^53-1, IMax -> 2^53; nothing beyond
	{Name: "f53", hi: [3]*big.Int{add(pow2(53), -1), pow2(53), nil},
		lo: [3]*big.Int{nil, neg(pow2(53)), add(neg(pow2(53)), 1)}},
	// int32 limits: IMax-1 -> 2^31-1, IMax -> 2^31; IMin -> -2^31-1, IMin+1 -> -2^31
	{Name: "i32", hi: [3]*big.Int{add(pow2(31), -1), pow2(31), nil},
		lo: [3]*big.Int{nil, add(neg(pow2(31)), -1), neg(pow2(31))}},
	// uint32 limit: IMax-1 -> 2^32-1, IMax -> 2^32
	{Name: "u32", hi: [3]*big.Int{add(pow2(32), -1), pow2(32), nil},
		lo: [3]*big.Int{nil, add(neg(pow2(31)), -1), neg(pow2(31))}},
}

// EmbeddingByName finds an embedding.
func EmbeddingByName(n string) *Embedding {
	for _, e := range Embeddings {
		if e.Name == n {
			return e
		}
	}
	return nil
}

// Int is the image of the model integer n.
func (e *Embedding) Int(n int64) (*big.Int, bool) {
	if n >= -IDLimit && n <= IDLimit {
		return big.NewInt(n), true
	}
	if d := n - IMax; d >= -1 && d <= 1 {
		if v := e.hi[d+1]; v != nil {
			return v, true
		}
		return nil, false
	}
	if d := n - IMin; d >= -1 && d <= 1 {
		if v := e.lo[d+1]; v != nil {
			return v, true
		}
		return nil, false
	}
	return nil, false
}

// Inv is the model integer whose image is v.
func (e *Embedding) Inv(v *big.Int) (int64, bool) {
	if v.IsInt64() {
		if x := v.Int64(); x >= -IDLimit && x <= IDLimit {
			return x, true
		}
	}
	for d := int64(-1); d <= 1; d++ {
		if w := e.hi[d+1]; w != nil && w.Cmp(v) == 0 {
			return IMax + d, true
		}
		if w := e.lo[d+1]; w != nil && w.Cmp(v) == 0 {
			return IMin + d, true
		}
	}
	return 0, false
}

var maxI64 = add(pow2(63), -1)
var minI64 = neg(pow2(63))

// Faithful says whether the embedding preserves "fits in int64" for the model integer n.
func (e *Embedding) Faithful(n int64) bool {
	v, ok := e.Int(n)
	if !ok {
		return false
	}
	real := v.Cmp(minI64) >= 0 && v.Cmp(maxI64) <= 0
	model := n >= IMin && n <= IMax
	return real == model
}
