// Package catalog declares the fixed family of Go types struct-mapped objects of the
// specification are mapped onto (DESIGN section 3): generic instantiation
// (NewStructMappedObjectSchema[T], NewTypedObject[T], NewOneOf*Schema[I]) needs compile-time
// types, so the model's struct-mapped objects pick their LAYOUT from here
// (spec/SchemaAST.tla Layouts; checked against these types at harness start-up).
//
// A property NAME selects the field (by json tag, or by field name where there is no tag), and so
// fixes the Go type of the property:
//
//	a int64   b string   c bool   f float64   e NamedStr   l []int64   ls []string
//	m map[string]int64   x any   s Sub (by value)   sp *Sub
package catalog

import "reflect"

// NamedStr is a defined string type (typed string enums, named map keys).
type NamedStr string

// Sub is the sub-object struct (layouts "sub" = Sub, "sub_p" = *Sub).
type Sub struct {
	A int64  `json:"a"`
	B string `json:"b"`
}

// SubPtrs has pointer fields (layout "subptrs").
type SubPtrs struct {
	A *int64  `json:"a"`
	B *string `json:"b"`
}

// Wide has every field kind by value (layouts "wide" = Wide, "wide_p" = *Wide).
type Wide struct {
	A  int64            `json:"a"`
	B  string           `json:"b"`
	C  bool             `json:"c"`
	F  float64          `json:"f"`
	E  NamedStr         `json:"e"`
	L  []int64          `json:"l"`
	LS []string         `json:"ls"`
	M  map[string]int64 `json:"m"`
	X  any              `json:"x"`
	S  Sub              `json:"s"`
	SP *Sub             `json:"sp"`
}

// Ptrs has the scalar fields as pointers (layout "ptrs").
type Ptrs struct {
	A  *int64           `json:"a"`
	B  *string          `json:"b"`
	C  *bool            `json:"c"`
	F  *float64         `json:"f"`
	E  *NamedStr        `json:"e"`
	L  []int64          `json:"l"`
	LS []string         `json:"ls"`
	M  map[string]int64 `json:"m"`
	X  any              `json:"x"`
	S  Sub              `json:"s"`
	SP *Sub             `json:"sp"`
}

// Outer holds a Wide by value (layout "outer"): a struct-mapped object inside a struct-mapped object whose
// own members are objects again.
type Outer struct {
	A int64 `json:"a"`
	W Wide  `json:"w"`
}

// Strs backs string properties by fields that are not of type string (layout "strs"): the SDK converts on the
// way in (unserializeToStruct) and on the way out (asString).
type Strs struct {
	B []byte   `json:"b"`
	R []rune   `json:"r"`
	E NamedStr `json:"e"`
	A int64    `json:"a"`
}

// Opts holds a MAP-BASED sub-object in a field of type map[string]any (layout "opts"): the member is an object
// built with NewObjectSchema, embedded by value - a nil map is the empty mapping, never "absent".
type Opts struct {
	A int64          `json:"a"`
	O map[string]any `json:"o"`
}

// NamedArr is a defined array type (value class arr_named).
type NamedArr [2]string

// NoTag has no json tags: property names are the field names (layout "notag").
type NoTag struct {
	A int64
	B string
}

// Field describes one field of a layout as the specification sees it.
type Field struct {
	Name string `json:"name"` // property name
	FK   string `json:"fk"`   // int | string | bool | float | named | list_int | list_string | map_string_int | any | sub | subp
	Ptr  bool   `json:"ptr"`  // the field is a pointer to that kind
	Go   string `json:"-"`    // Go field name
}

// Layout is a struct type as the type parameter of a struct-mapped object.
type Layout struct {
	ID      string
	Type    reflect.Type // the type parameter T (struct or pointer to struct)
	Struct  reflect.Type
	Pointer bool
	Fields  []Field
}

func fieldsOf(t reflect.Type) []Field {
	var out []Field
	for i := 0; i < t.NumField(); i++ {
		f := t.Field(i)
		name := f.Tag.Get("json")
		if name == "" {
			name = f.Name
		}
		ft := f.Type
		fd := Field{Name: name, Go: f.Name}
		kindOf := func(t reflect.Type) string {
			switch t {
			case reflect.TypeOf(int64(0)):
				return "int"
			case reflect.TypeOf(""):
				return "string"
			case reflect.TypeOf(false):
				return "bool"
			case reflect.TypeOf(float64(0)):
				return "float"
			case reflect.TypeOf(NamedStr("")):
				return "named"
			case reflect.TypeOf([]byte(nil)):
				return "string_bytes"
			case reflect.TypeOf([]rune(nil)):
				return "string_runes"
			case reflect.TypeOf([]int64(nil)):
				return "list_int"
			case reflect.TypeOf([]string(nil)):
				return "list_string"
			case reflect.TypeOf(map[string]int64(nil)):
				return "map_string_int"
			case reflect.TypeOf(map[string]any(nil)):
				return "objmap"
			case reflect.TypeOf(Sub{}):
				return "sub"
			case reflect.TypeOf(Wide{}):
				return "wide"
			}
			if t.Kind() == reflect.Interface {
				return "any"
			}
			return "?"
		}
		switch {
		case ft == reflect.TypeOf(&Sub{}):
			fd.FK = "subp"
		case ft.Kind() == reflect.Pointer:
			fd.FK, fd.Ptr = kindOf(ft.Elem()), true
		default:
			fd.FK = kindOf(ft)
		}
		out = append(out, fd)
	}
	return out
}

func mk(id string, v any) *Layout {
	t := reflect.TypeOf(v)
	st := t
	ptr := t.Kind() == reflect.Pointer
	if ptr {
		st = t.Elem()
	}
	return &Layout{ID: id, Type: t, Struct: st, Pointer: ptr, Fields: fieldsOf(st)}
}

// Layouts in the order of spec/SchemaAST.tla.
var Layouts = []*Layout{
	mk("wide", Wide{}), mk("wide_p", &Wide{}), mk("ptrs", Ptrs{}), mk("notag", NoTag{}),
	mk("sub", Sub{}), mk("sub_p", &Sub{}), mk("subptrs", SubPtrs{}), mk("outer", Outer{}), mk("strs", Strs{}),
	mk("opts", Opts{}),
}

// ByID finds a layout.
func ByID(id string) *Layout {
	for _, l := range Layouts {
		if l.ID == id {
			return l
		}
	}
	return nil
}

// ByType finds the layout whose type parameter is t.
func ByType(t reflect.Type) *Layout {
	for _, l := range Layouts {
		if l.Type == t {
			return l
		}
	}
	return nil
}

// FieldByProp finds the field a property name selects.
func (l *Layout) FieldByProp(name string) (Field, bool) {
	for _, f := range l.Fields {
		if f.Name == name {
			return f, true
		}
	}
	return Field{}, false
}
