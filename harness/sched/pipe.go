package sched

import (
	"errors"
	"io"
	"sync"
)

// Pipe is one direction of the in-memory transport. Its unit is the fragment: every Write
// call (the CBOR encoder issues exactly one per message) becomes one fragment, or two if the
// split script says so. Capacity is counted in fragments, like Cap in spec/ATP.tla: a Write
// returns once at most Cap fragments are still in flight (Cap = 0: when the reader has taken
// everything - the behaviour of io.Pipe). A Read takes as many bytes as the read script
// allows; the trace event reports how many whole fragments it completed.
type Pipe struct {
	Name string
	S    *Sched
	Cap  int
	// SplitAt returns the byte offset at which the n-th written message is split in two
	// fragments, or 0 for no split.
	SplitAt func(n int, size int) int
	// MaxFrags returns how many fragments the n-th Read may take (>=1); 0 means "all available".
	MaxFrags func(n int, avail int) int
	// Corrupt, when set, rewrites the bytes of the n-th written message (fault injection).
	Corrupt func(n int, b []byte) []byte
	// FailReadAfter > 0 makes reads fail with ErrInjected once that many bytes were delivered.
	CutAfter int64
	CutErr   error
	// FlipAt >= 0 (set FlipOn) inverts the byte at that absolute offset of the delivered stream.
	FlipAt   int64
	FlipMask byte // 0 = invert the whole byte
	// FlipLowZero: instead of inverting, clear the five low bits of that byte (a CBOR item head keeps its major type
	// and becomes its empty / zero form: an empty map, an empty string, the integer 0)
	FlipLowZero bool
	// one-shot overrides used when a behaviour of the specification is replayed: the next Write is
	// split in two fragments / the next Read takes exactly this many fragments
	ForceSplit bool
	ForceMax   int
	// PostGate adds a gate "t.<name>.write.post" between the moment the reader has taken a written message and the
	// return of the Write call: a write that "returns late" - the peer acts on the message while the writer has not
	// yet run on (opt-in: replayed schedules do not know this gate)
	PostGate bool

	mu      sync.Mutex
	cond    *sync.Cond
	frags   [][]byte
	wclosed bool
	rclosed bool
	wfail   bool // writes fail although the reading side keeps what it has (FailWrites)
	nw, nr  int
	read    int64
}

// ErrInjected is the injected read error.
var ErrInjected = errors.New("injected transport error")

// NewPipe creates a pipe.
func NewPipe(name string, s *Sched, capacity int) *Pipe {
	p := &Pipe{Name: name, S: s, Cap: capacity, FlipAt: -1}
	p.cond = sync.NewCond(&p.mu)
	return p
}

func (p *Pipe) Write(b []byte) (int, error) {
	g := GoID()
	if p.S != nil {
		p.S.Gate(g, "t."+p.Name+".write.pre")
	}
	p.mu.Lock()
	defer p.mu.Unlock()
	for len(p.frags) > p.Cap && !p.rclosed {
		p.cond.Wait()
	}
	if p.rclosed || p.wfail {
		if p.S != nil {
			p.S.Emit(g, "t."+p.Name+".wfail", map[string]any{})
		}
		return 0, io.ErrClosedPipe
	}
	data := append([]byte{}, b...)
	p.nw++
	if p.Corrupt != nil {
		data = p.Corrupt(p.nw, data)
	}
	k := 0
	if p.SplitAt != nil {
		k = p.SplitAt(p.nw, len(data))
	}
	if p.ForceSplit {
		k, p.ForceSplit = len(data)/2, false
	}
	nf := 1
	if k > 0 && k < len(data) {
		p.frags = append(p.frags, data[:k], data[k:])
		nf = 2
	} else {
		p.frags = append(p.frags, data)
	}
	if p.S != nil {
		p.S.Emit(g, "t."+p.Name+".write", map[string]any{"frags": nf, "bytes": len(data)})
	}
	p.cond.Broadcast()
	for len(p.frags) > p.Cap && !p.rclosed {
		p.cond.Wait()
	}
	if p.rclosed && len(p.frags) > p.Cap {
		if p.S != nil {
			p.S.Emit(g, "t."+p.Name+".wfail", map[string]any{})
		}
		return 0, io.ErrClosedPipe
	}
	if p.PostGate && p.S != nil {
		p.mu.Unlock()
		p.S.Gate(g, "t."+p.Name+".write.post")
		p.mu.Lock()
	}
	return len(b), nil
}

func (p *Pipe) Read(b []byte) (int, error) {
	g := GoID()
	// the gate is reached once there is something to take (data, end of stream or a closed
	// pipe): it is the "Fill" step of the specification, not the blocking wait before it
	p.mu.Lock()
	for len(p.frags) == 0 && !p.wclosed && !p.rclosed && !p.cutReached() {
		p.cond.Wait()
	}
	p.mu.Unlock()
	if p.S != nil {
		p.S.Gate(g, "t."+p.Name+".read.pre")
	}
	p.mu.Lock()
	defer p.mu.Unlock()
	for len(p.frags) == 0 && !p.wclosed && !p.rclosed && !p.cutReached() {
		p.cond.Wait()
	}
	if p.rclosed {
		if p.S != nil {
			p.S.Emit(g, "t."+p.Name+".rfail", map[string]any{"why": "closed"})
		}
		return 0, io.ErrClosedPipe
	}
	if p.CutAfter != 0 && p.read >= p.CutAfter {
		if p.S != nil {
			p.S.Emit(g, "t."+p.Name+".rfail", map[string]any{"why": "cut"})
		}
		return 0, p.cutErr()
	}
	if len(p.frags) == 0 {
		if p.S != nil {
			p.S.Emit(g, "t."+p.Name+".rfail", map[string]any{"why": "eof"})
		}
		return 0, io.EOF
	}
	p.nr++
	max := 0
	if p.MaxFrags != nil {
		max = p.MaxFrags(p.nr, len(p.frags))
	}
	if p.ForceMax > 0 {
		max, p.ForceMax = p.ForceMax, 0
	}
	if max <= 0 || max > len(p.frags) {
		max = len(p.frags)
	}
	n := 0
	done := 0
	for done < max && n < len(b) && len(p.frags) > 0 {
		f := p.frags[0]
		room := len(b) - n
		if p.CutAfter != 0 && p.read+int64(room) > p.CutAfter {
			room = int(p.CutAfter - p.read)
			if room <= 0 {
				break
			}
		}
		c := copy(b[n:n+min(room, len(f))], f)
		if p.FlipAt >= p.read && p.FlipAt < p.read+int64(c) {
			m := p.FlipMask
			if m == 0 {
				m = 0xff
			}
			if p.FlipLowZero {
				b[n+int(p.FlipAt-p.read)] &= 0xe0
			} else {
				b[n+int(p.FlipAt-p.read)] ^= m
			}
		}
		n += c
		p.read += int64(c)
		if c == len(f) {
			p.frags = p.frags[1:]
			done++
		} else {
			p.frags[0] = f[c:]
			break
		}
	}
	if p.S != nil && done > 0 {
		p.S.Emit(g, "t."+p.Name+".read", map[string]any{"frags": done, "bytes": n})
	}
	p.cond.Broadcast()
	if n == 0 {
		return 0, p.cutErr()
	}
	return n, nil
}

func (p *Pipe) cutReached() bool { return p.CutAfter != 0 && p.read >= p.CutAfter }

func (p *Pipe) cutErr() error {
	if p.CutErr != nil {
		return p.CutErr
	}
	return io.EOF
}

func min(a, b int) int {
	if a < b {
		return a
	}
	return b
}

// CloseWrite ends the stream: readers see EOF after draining.
func (p *Pipe) CloseWrite() {
	p.mu.Lock()
	p.wclosed = true
	p.cond.Broadcast()
	p.mu.Unlock()
}

// CloseRead closes the reading side: pending and later writes fail, pending reads fail.
func (p *Pipe) CloseRead() {
	g := GoID()
	p.mu.Lock()
	if p.S != nil && !p.rclosed {
		// logged under the pipe's lock: atomic with the close taking effect
		p.S.Emit(g, "t."+p.Name+".rclose", map[string]any{})
	}
	p.rclosed = true // fragments in flight stay: a writer still waiting for them to be taken fails
	p.cond.Broadcast()
	p.mu.Unlock()
}

// FailWrites makes every later Write fail; what was written before stays readable.
func (p *Pipe) FailWrites() {
	p.mu.Lock()
	p.wfail = true
	p.cond.Broadcast()
	p.mu.Unlock()
}

// Force sets the one-shot overrides under the pipe's lock.
func (p *Pipe) Force(split bool, max int) {
	p.mu.Lock()
	p.ForceSplit, p.ForceMax = split, max
	p.mu.Unlock()
}

// InFlight returns the number of fragments not yet read.
func (p *Pipe) InFlight() int {
	p.mu.Lock()
	defer p.mu.Unlock()
	return len(p.frags)
}

// ReadEnd adapts the reading side to io.ReadCloser (Close = CloseRead), as the server's stdin.
type ReadEnd struct{ P *Pipe }

func (r ReadEnd) Read(b []byte) (int, error) { return r.P.Read(b) }
func (r ReadEnd) Close() error {
	r.P.CloseRead()
	return nil
}

// WriteEnd adapts the writing side to io.WriteCloser (Close = CloseWrite), as the server's stdout.
type WriteEnd struct{ P *Pipe }

func (w WriteEnd) Write(b []byte) (int, error) { return w.P.Write(b) }
func (w WriteEnd) Close() error                { w.P.CloseWrite(); return nil }

// Duplex is the client's channel: reads from In, writes to Out.
type Duplex struct {
	In  *Pipe
	Out *Pipe
}

func (d Duplex) Read(b []byte) (int, error)  { return d.In.Read(b) }
func (d Duplex) Write(b []byte) (int, error) { return d.Out.Write(b) }
func (d Duplex) Close() error                { return nil }
