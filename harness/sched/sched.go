// Package sched is the gate scheduler, event recorder and in-memory transport used to drive the
// real ATP client and server through schedules chosen by the TLA+ specification (spec/ATP.tla)
// and to record traces of real runs for trace validation (spec/ATPTrace.tla).
//
// Hook points ending in ".pre" are gates: in controlled mode a goroutine arriving at a gate parks
// until the scheduler releases that gate; in delay mode exactly one chosen gate occurrence is
// held until every other goroutine is blocked, parked or finished. All other hook points are
// trace events: they are appended, under one harness mutex, to a totally ordered log.
package sched

import (
	"bytes"
	"fmt"
	"runtime"
	"strconv"
	"strings"
	"sync"
	"time"
)

// Event is one trace line.
type Event struct {
	Seq   int            `json:"seq"`
	G     int64          `json:"g"`
	Role  string         `json:"role"`
	Point string         `json:"ev"`
	KV    map[string]any `json:"kv"`
}

type parked struct {
	key  string
	role string
	ch   chan struct{}
}

// MaxEvents bounds the events recorded per session.
const MaxEvents = 20000

// Mode of the scheduler.
type Mode int

const (
	Free       Mode = iota // gates pass
	Controlled             // every gate parks until released
	Delay                  // one chosen gate occurrence is held until the rest settles
)

// Sched is recorder + scheduler.
type Sched struct {
	mu      sync.Mutex
	mode    Mode
	events  []Event
	seq     int
	roles   map[int64]string
	parked  map[int64]*parked
	passed  map[string]int // gate key -> number of arrivals so far
	gateLog []string       // arrival order of gates (free/delay mode), for enumerating delay targets
	// delay mode: gate occurrences ("key#nth") to hold, those already held once, goroutines held now
	delays   map[string]bool
	delayHit map[string]bool
	held     []int64
	// classification of messages is supplied by the driver
	Classify  func(point string, kv []any) (key string, ev map[string]any, role string)
	recording bool
	Overflow  bool
	selfG     map[int64]bool // scheduler/driver goroutines excluded from settle detection
}

// New creates a scheduler.
func New(mode Mode) *Sched {
	s := &Sched{mode: mode, roles: map[int64]string{}, parked: map[int64]*parked{}, passed: map[string]int{},
		recording: true, selfG: map[int64]bool{}}
	return s
}

// GoID returns the current goroutine's id.
func GoID() int64 {
	var buf [64]byte
	n := runtime.Stack(buf[:], false)
	// "goroutine 123 [running]:"
	s := buf[10:n]
	i := bytes.IndexByte(s, ' ')
	id, _ := strconv.ParseInt(string(s[:i]), 10, 64)
	return id
}

// SetDelay adds a gate occurrence to hold in Delay mode (several may be set: pairs of delays).
func (s *Sched) SetDelay(key string, nth int) {
	s.mu.Lock()
	defer s.mu.Unlock()
	if s.delays == nil {
		s.delays, s.delayHit = map[string]bool{}, map[string]bool{}
	}
	s.delays[fmt.Sprintf("%s#%d", key, nth)] = true
}

// SetRole names the calling goroutine (used by the driver for its own goroutines).
func (s *Sched) SetRole(role string) {
	g := GoID()
	s.mu.Lock()
	s.roles[g] = role
	s.mu.Unlock()
}

// Role returns the role recorded for goroutine g.
func (s *Sched) Role(g int64) string {
	s.mu.Lock()
	defer s.mu.Unlock()
	return s.roles[g]
}

// Hook is installed as atp.VerifHook.
func (s *Sched) Hook(point string, kv ...any) {
	g := GoID()
	key, ev, role := s.Classify(point, kv)
	s.mu.Lock()
	if role != "" && s.roles[g] == "" {
		s.roles[g] = role
	}
	r := s.roles[g]
	s.mu.Unlock()
	if strings.HasSuffix(point, ".pre") {
		if key != "" {
			s.Gate(g, key+roleSuffix(point, r))
		}
		return
	}
	if ev != nil {
		s.Emit(g, point, ev)
	}
}

// gates whose identity needs the goroutine's role
func roleSuffix(point, role string) string {
	if point == "s.errq.pre" {
		return "|" + role
	}
	return ""
}

// Emit appends a trace event.
func (s *Sched) Emit(g int64, point string, kv map[string]any) {
	s.mu.Lock()
	defer s.mu.Unlock()
	if !s.recording {
		return
	}
	if len(s.events) >= MaxEvents {
		s.Overflow = true // a session that floods (livelock) is cut off: the driver reports it as stuck
		return
	}
	s.seq++
	if kv == nil {
		kv = map[string]any{}
	}
	s.events = append(s.events, Event{Seq: s.seq, G: g, Role: s.roles[g], Point: point, KV: kv})
}

// Gate is a preemption point.
func (s *Sched) Gate(g int64, key string) {
	s.mu.Lock()
	s.passed[key]++
	nth := s.passed[key]
	mode := s.mode
	switch mode {
	case Free:
		s.gateLog = append(s.gateLog, key)
		s.mu.Unlock()
		return
	case Delay:
		s.gateLog = append(s.gateLog, key)
		occ := fmt.Sprintf("%s#%d", key, nth)
		if !s.delays[occ] || s.delayHit[occ] {
			s.mu.Unlock()
			return
		}
		s.delayHit[occ] = true
		s.held = append(s.held, g)
	}
	p := &parked{key: key, role: s.roles[g], ch: make(chan struct{})}
	s.parked[g] = p
	s.mu.Unlock()
	<-p.ch
}

// StopRecording makes later events disappear (clean-up after a session).
func (s *Sched) StopRecording() {
	s.mu.Lock()
	s.recording = false
	s.mu.Unlock()
}

// Events returns a copy of the trace.
func (s *Sched) Events() []Event {
	s.mu.Lock()
	defer s.mu.Unlock()
	return append([]Event{}, s.events...)
}

// GateLog returns the order in which gates were reached (Free / Delay mode).
func (s *Sched) GateLog() []string {
	s.mu.Lock()
	defer s.mu.Unlock()
	return append([]string{}, s.gateLog...)
}

// Reset forgets events and gate counts (after the handshake).
func (s *Sched) Reset() {
	s.mu.Lock()
	defer s.mu.Unlock()
	s.events = nil
	s.seq = 0
	s.passed = map[string]int{}
	s.gateLog = nil
}

// SetMode switches the mode; when leaving Controlled every parked goroutine is released.
func (s *Sched) SetMode(m Mode) {
	s.mu.Lock()
	s.mode = m
	var rel []*parked
	if m == Free {
		for g, p := range s.parked {
			rel = append(rel, p)
			delete(s.parked, g)
		}
	}
	s.mu.Unlock()
	for _, p := range rel {
		close(p.ch)
	}
}

// ParkedKeys lists the gates at which goroutines are parked.
func (s *Sched) ParkedKeys() []string {
	s.mu.Lock()
	defer s.mu.Unlock()
	var out []string
	for _, p := range s.parked {
		out = append(out, p.key)
	}
	return out
}

// ErrCannotFollow is returned when no goroutine can reach the requested gate.
type ErrCannotFollow struct {
	Key    string
	Parked []string
	Dump   string
}

func (e *ErrCannotFollow) Error() string {
	return fmt.Sprintf("no goroutine reaches gate %q; parked at %v", e.Key, e.Parked)
}

// Release opens the gate key for the goroutine parked there, then waits for the system to settle.
func (s *Sched) Release(key string, timeout time.Duration) error {
	deadline := time.Now().Add(timeout)
	quiet := 0
	for {
		s.mu.Lock()
		var found *parked
		var fg int64
		for g, p := range s.parked {
			if p.key == key {
				found, fg = p, g
				break
			}
		}
		if found != nil {
			delete(s.parked, fg)
		}
		s.mu.Unlock()
		if found != nil {
			close(found.ch)
			s.WaitSettled(timeout)
			return nil
		}
		if Settled() {
			quiet++
			if quiet >= 3 {
				return &ErrCannotFollow{Key: key, Parked: s.ParkedKeys(), Dump: Dump()}
			}
		} else {
			quiet = 0
		}
		if time.Now().After(deadline) {
			return &ErrCannotFollow{Key: key, Parked: s.ParkedKeys(), Dump: Dump()}
		}
		time.Sleep(20 * time.Microsecond)
	}
}

// IsParkedAny reports whether any goroutine is parked at a gate.
func (s *Sched) IsParkedAny() bool {
	s.mu.Lock()
	defer s.mu.Unlock()
	return len(s.parked) > 0
}

// IsParked reports whether some goroutine is parked at key.
func (s *Sched) IsParked(key string) bool {
	s.mu.Lock()
	defer s.mu.Unlock()
	for _, p := range s.parked {
		if p.key == key {
			return true
		}
	}
	return false
}

// WaitSettled waits until no goroutine other than the caller is running or runnable.
func (s *Sched) WaitSettled(timeout time.Duration) bool {
	deadline := time.Now().Add(timeout)
	ok := 0
	for {
		if Settled() {
			ok++
			if ok >= 2 {
				return true
			}
		} else {
			ok = 0
		}
		if time.Now().After(deadline) {
			return false
		}
		runtime.Gosched()
	}
}

// ReleaseDelayed serves Delay mode until stop is closed: whenever a chosen gate occurrence is held and
// everything else has settled, it is opened. Returns how many of the chosen occurrences were reached.
func (s *Sched) ReleaseDelayed(stop <-chan struct{}) int {
	for {
		s.mu.Lock()
		var g int64 = -1
		var p *parked
		if len(s.held) > 0 {
			g = s.held[0]
			p = s.parked[g]
		}
		s.mu.Unlock()
		if p != nil {
			s.WaitSettled(5 * time.Second)
			s.mu.Lock()
			delete(s.parked, g)
			s.held = s.held[1:]
			s.mu.Unlock()
			close(p.ch)
			continue
		}
		select {
		case <-stop:
			s.mu.Lock()
			n := len(s.delayHit)
			s.mu.Unlock()
			return n
		default:
		}
		time.Sleep(50 * time.Microsecond)
	}
}

// ---------------------------------------------------------------------------- goroutine dumps

// Dump returns the stacks of all goroutines.
func Dump() string {
	buf := make([]byte, 1<<20)
	n := runtime.Stack(buf, true)
	return string(buf[:n])
}

// GState is the header state of one goroutine in a dump.
type GState struct {
	ID    int64
	State string
	Top   string // first function of the stack
	Stack string
}

// ParseDump splits a dump into goroutines.
func ParseDump(d string) []GState {
	var out []GState
	for _, blk := range strings.Split(d, "\n\n") {
		blk = strings.TrimSpace(blk)
		if !strings.HasPrefix(blk, "goroutine ") {
			continue
		}
		nl := strings.IndexByte(blk, '\n')
		head := blk
		rest := ""
		if nl >= 0 {
			head, rest = blk[:nl], blk[nl+1:]
		}
		// goroutine 12 [chan receive, 2 minutes]:
		f := strings.SplitN(head[len("goroutine "):], " ", 2)
		id, _ := strconv.ParseInt(f[0], 10, 64)
		st := ""
		if len(f) > 1 {
			st = strings.Trim(f[1], "[]:")
			if i := strings.IndexByte(st, ','); i >= 0 {
				st = st[:i]
			}
		}
		top := rest
		if i := strings.IndexByte(rest, '\n'); i >= 0 {
			top = rest[:i]
		}
		out = append(out, GState{ID: id, State: st, Top: top, Stack: rest})
	}
	return out
}

// Settled reports whether every goroutine except the caller is blocked.
func Settled() bool {
	me := GoID()
	for _, g := range ParseDump(Dump()) {
		if g.ID == me {
			continue
		}
		switch g.State {
		case "running", "runnable":
			return false
		case "syscall":
			// a goroutine inside a system call (the supervised child's stdin reader) is blocked for
			// our purposes unless it is one of the SDK's
			if strings.Contains(g.Stack, "pluginsdk") {
				return false
			}
		}
	}
	return true
}

// BlockedSDK lists goroutines that are blocked inside SDK code (used to describe a stuck run).
func BlockedSDK() []GState {
	var out []GState
	for _, g := range ParseDump(Dump()) {
		if strings.Contains(g.Stack, "pluginsdk/atp") {
			out = append(out, g)
		}
	}
	return out
}
