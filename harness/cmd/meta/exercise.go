//go:build verif

package main

// First use of a received schema (C10) and behaviour comparison of original vs rebuilt (C09).

import (
	"fmt"
	"math/rand"
	"reflect"
	"sort"
	"strings"

	"go.flow.arcalot.io/pluginsdk/schema"
	"verif/harness/sup"
)

// ---------------------------------------------------------------------------------------------
// exercising every operation of every schema node with a set of value classes

type usePanic struct {
	Op    string `json:"op"`
	Node  string `json:"node"`
	Class string `json:"class"`
	Msg   string `json:"msg"`
	Frame string `json:"frame"`
}

type exerciser struct {
	panics  []usePanic
	ops     int
	hazards int
	seen    map[any]bool
	// baseline: frames that panic on valid Go-built schemas as well (C04's business)
	skipFrames map[string]bool
}

func valueClasses() []struct {
	name string
	v    any
} {
	deep := map[string]any{"a": map[string]any{"a": map[string]any{"a": []any{map[any]any{"a": 1}}}}}
	return []struct {
		name string
		v    any
	}{
		{"nil", nil},
		{"int", int64(1)},
		{"uint", uint64(1)},
		{"float", 1.5},
		{"string", "x"},
		{"bool", true},
		{"list_empty", []any{}},
		{"list_mixed", []any{int64(1), "a", nil}},
		{"map_string_empty", map[string]any{}},
		{"map_any_empty", map[any]any{}},
		{"map_string_extra", map[string]any{"zz": int64(1)}},
		{"map_any_intkey", map[any]any{uint64(1): uint64(1)}},
		{"map_any_strkey", map[any]any{"zz": "x"}},
		{"deep", deep},
	}
}

func (e *exerciser) guard(op, node, class string, f func()) {
	e.ops++
	if pi := sup.Guard(f); pi != nil {
		if e.skipFrames != nil && e.skipFrames[pi.Frame] {
			return
		}
		if len(e.panics) < 40 {
			e.panics = append(e.panics, usePanic{op, node, class, clip(pi.Msg, 300), pi.Frame})
		}
	}
}

// shorthandHazard: t denotes a cycle of single-property objects.  On such a schema (also when built
// in Go) every non-mapping input recurses through the single-property shorthand until the stack is
// exhausted - a fatal error no supervisor can turn into a verdict cheaply.  It is a totality defect of
// valid schemas (C04's business), so those inputs are left out here and the fact is reported as a note.
func shorthandHazard(t schema.Type) (hazard bool) {
	_ = sup.Guard(func() {
		seen := map[*schema.ObjectSchema]bool{}
		cur := t
		for i := 0; i < 64; i++ {
			var obj *schema.ObjectSchema
			switch x := cur.(type) {
			case *schema.PropertySchema:
				cur = x.Type()
				continue
			case *schema.ScopeSchema:
				obj = x.RootObject()
			case *schema.RefSchema:
				if !x.ObjectReady() {
					return
				}
				obj, _ = x.GetObject().(*schema.ObjectSchema)
			case *schema.ObjectSchema:
				obj = x
			default:
				return
			}
			if obj == nil {
				return
			}
			if seen[obj] {
				hazard = true
				return
			}
			seen[obj] = true
			if len(obj.Properties()) != 1 {
				return
			}
			for _, p := range obj.Properties() {
				if p == nil {
					return
				}
				cur = p.Type()
			}
		}
		hazard = true
	})
	return
}

// denotedObject resolves an object-like type to the object it denotes (nil when it denotes none or
// cannot be resolved).
func denotedObject(t schema.Type) *schema.ObjectSchema {
	switch x := t.(type) {
	case *schema.PropertySchema:
		return denotedObject(x.Type())
	case *schema.ScopeSchema:
		return x.RootObject()
	case *schema.RefSchema:
		if !x.ObjectReady() {
			return nil
		}
		o, _ := x.GetObject().(*schema.ObjectSchema)
		return o
	case *schema.ObjectSchema:
		return x
	}
	return nil
}

// defaultCycleHazard: from t a cycle object -> defaulted object-typed property -> object is reachable.
// Such a schema (also when built in Go) expands the default of the absent property for ever: fatal
// stack exhaustion on every mapping that leaves the property out.  Left out of the exercise, noted.
func defaultCycleHazard(t schema.Type) (hazard bool) {
	_ = sup.Guard(func() {
		state := map[*schema.ObjectSchema]int{} // 1 on stack, 2 done
		var dfs func(o *schema.ObjectSchema) bool
		dfs = func(o *schema.ObjectSchema) bool {
			if o == nil {
				return false
			}
			switch state[o] {
			case 1:
				return true
			case 2:
				return false
			}
			state[o] = 1
			for _, p := range o.Properties() {
				if p == nil || p.Default() == nil {
					continue
				}
				if dfs(denotedObject(p.Type())) {
					return true
				}
			}
			state[o] = 2
			return false
		}
		hazard = dfs(denotedObject(t))
	})
	return
}

// reachableHazard: some object reachable from t (through properties, items, keys, values, members,
// linked references, scope tables) is a default-expansion cycle (known finding of C04 on Go-built schemas
// too); inputs nested anywhere below t could then exhaust the stack.
func reachableHazard(t schema.Type) (hazard bool) {
	_ = sup.Guard(func() {
		seen := map[any]bool{}
		var visit func(x schema.Type, depth int) bool
		visit = func(x schema.Type, depth int) bool {
			if x == nil || depth > 40 {
				return false
			}
			rv := reflect.ValueOf(x)
			if rv.Kind() == reflect.Pointer {
				if rv.IsNil() || seen[x] {
					return false
				}
				seen[x] = true
			}
			switch y := x.(type) {
			case *schema.PropertySchema:
				return visit(y.Type(), depth+1)
			case *schema.ScopeSchema:
				for _, o := range y.Objects() {
					if visit(o, depth+1) {
						return true
					}
				}
			case *schema.ObjectSchema:
				// (a cycle of single-property objects is no hazard any more: the shorthand has a guard, and a
				// non-mapping value must come back with an error - a hang there is a verdict)
				if defaultCycleHazard(y) {
					return true
				}
				for _, p := range y.Properties() {
					if p != nil && visit(p.Type(), depth+1) {
						return true
					}
				}
			case *schema.RefSchema:
				if y.ObjectReady() {
					if o, ok := y.GetObject().(*schema.ObjectSchema); ok {
						return visit(o, depth+1)
					}
				}
			case *schema.ListSchema:
				return visit(y.Items(), depth+1)
			case *schema.MapSchema[schema.Type, schema.Type]:
				return visit(y.Keys(), depth+1) || visit(y.Values(), depth+1)
			case *schema.OneOfSchema[string]:
				for _, m := range y.Types() {
					if visit(m, depth+1) {
						return true
					}
				}
			case *schema.OneOfSchema[int64]:
				for _, m := range y.Types() {
					if visit(m, depth+1) {
						return true
					}
				}
			}
			return false
		}
		hazard = visit(t, 0)
	})
	return
}

func isMapValue(v any) bool {
	return v != nil && reflect.ValueOf(v).Kind() == reflect.Map
}

// ops runs the four data operations (and the round trip of whatever Unserialize returned) on t.
func (e *exerciser) opsOn(node string, t schema.Type, extra []namedVal) {
	vals := valueClasses()
	if reachableHazard(t) {
		e.hazards++
		return
	}
	for _, x := range extra {
		vals = append(vals, struct {
			name string
			v    any
		}{x.name, x.v})
	}
	for _, c := range vals {
		v := c.v
		var un any
		var unErr error
		e.guard("Unserialize", node, c.name, func() { un, unErr = t.Unserialize(cloneVal(v)) })
		e.guard("Validate", node, c.name, func() { _ = t.Validate(cloneVal(v)) })
		e.guard("Serialize", node, c.name, func() { _, _ = t.Serialize(cloneVal(v)) })
		e.guard("ValidateCompatibility", node, c.name, func() { _ = t.ValidateCompatibility(cloneVal(v)) })
		if unErr == nil && un != nil {
			e.guard("Validate(unserialized)", node, c.name, func() { _ = t.Validate(un) })
			e.guard("Serialize(unserialized)", node, c.name, func() { _, _ = t.Serialize(un) })
		}
	}
}

type namedVal struct {
	name string
	v    any
}

// walk visits every schema node reachable from t through the public accessors.
func (e *exerciser) walk(node string, t schema.Type, depth int) {
	if t == nil || depth > 8 {
		return
	}
	rv := reflect.ValueOf(t)
	if rv.Kind() == reflect.Pointer {
		if rv.IsNil() {
			return
		}
		if e.seen[t] {
			return
		}
		e.seen[t] = true
	}
	var valids []namedVal
	e.guard("validValue", node, "-", func() {
		for i, v := range validValues(t, 0) {
			valids = append(valids, namedVal{fmt.Sprintf("valid%d", i), v})
		}
	})
	e.guard("unitValues", node, "-", func() { valids = append(valids, unitValues(t)...) })
	e.guard("ruleNameValues", node, "-", func() { valids = append(valids, ruleNameValues(t)...) })
	e.formatUnits(node, t)
	e.opsOn(node, t, valids)
	e.guard("ReflectedType", node, "-", func() { _ = t.ReflectedType() })
	e.guard("TypeID", node, "-", func() { _ = t.TypeID() })
	e.guard("ValidateReferences", node, "-", func() { _ = t.ValidateReferences() })
	switch x := t.(type) {
	case *schema.ScopeSchema:
		e.guard("SelfSerialize", node, "-", func() { _, _ = x.SelfSerialize() })
		e.guard("GetDefaults", node, "-", func() { _ = x.GetDefaults() })
		e.guard("Properties", node, "-", func() { _ = x.Properties() })
		e.guard("ID", node, "-", func() { _ = x.ID() })
		keys := make([]string, 0, len(x.Objects()))
		for k := range x.Objects() {
			keys = append(keys, k)
		}
		sort.Strings(keys)
		for _, k := range keys {
			e.walk(node+"/objects."+k, x.Objects()[k], depth+1)
		}
	case *schema.ObjectSchema:
		e.guard("GetDefaults", node, "-", func() { _ = x.GetDefaults() })
		keys := make([]string, 0, len(x.Properties()))
		for k := range x.Properties() {
			keys = append(keys, k)
		}
		sort.Strings(keys)
		for _, k := range keys {
			p := x.Properties()[k]
			if p == nil {
				continue
			}
			e.opsOn(node+"."+k+"(property)", p, nil)
			e.walk(node+"."+k, p.Type(), depth+1)
		}
	case *schema.RefSchema:
		e.guard("GetObject", node, "-", func() {
			if x.ObjectReady() {
				_ = x.GetObject()
			}
		})
		e.guard("Properties", node, "-", func() { _ = x.Properties() })
		e.guard("GetDefaults", node, "-", func() { _ = x.GetDefaults() })
	case *schema.ListSchema:
		e.walk(node+"/items", x.Items(), depth+1)
	case *schema.MapSchema[schema.Type, schema.Type]:
		e.walk(node+"/keys", x.Keys(), depth+1)
		e.walk(node+"/values", x.Values(), depth+1)
	case *schema.OneOfSchema[string]:
		for k, m := range x.Types() {
			e.walk(node+"/types."+k, m, depth+1)
		}
	case *schema.OneOfSchema[int64]:
		for k, m := range x.Types() {
			e.walk(fmt.Sprintf("%s/types.%d", node, k), m, depth+1)
		}
	}
}

// ruleNameValues: for an object (or whatever denotes one), mappings that contain - as KEYS - the names its
// presence rules (required_if, required_if_not, conflicts) mention, alone and next to each property.  The
// names in those lists are free strings: after a mutation they may name no property of the object at all,
// and Validate / Serialize look at the presence rules before they look at the keys.
func ruleNameValues(t schema.Type) []namedVal {
	obj := denotedObject(t)
	if obj == nil {
		return nil
	}
	names := map[string]bool{}
	props := make([]string, 0, len(obj.Properties()))
	for id, p := range obj.Properties() {
		props = append(props, id)
		if p == nil {
			continue
		}
		for _, l := range [][]string{p.RequiredIf(), p.RequiredIfNot(), p.Conflicts()} {
			for _, n := range l {
				names[n] = true
			}
		}
	}
	if len(names) == 0 {
		return nil
	}
	sort.Strings(props)
	if len(props) > 6 {
		props = props[:6]
	}
	good := map[string]any{}
	for _, id := range props {
		if p := obj.Properties()[id]; p != nil {
			if vs := validValues(p.Type(), 2); len(vs) > 0 {
				good[id] = vs[0]
			}
		}
	}
	var sorted []string
	for n := range names {
		sorted = append(sorted, n)
	}
	sort.Strings(sorted)
	var out []namedVal
	for i, n := range sorted {
		out = append(out, namedVal{fmt.Sprintf("rule_name%d_alone", i), map[string]any{n: int64(1)}})
		for j, id := range props {
			if id == n {
				continue
			}
			m := map[string]any{n: int64(1)}
			if v, ok := good[id]; ok {
				m[id] = v
			} else {
				m[id] = int64(1)
			}
			out = append(out, namedVal{fmt.Sprintf("rule_name%d_with_prop%d", i, j), m})
		}
		// and next to all properties at once
		all := map[string]any{n: int64(1)}
		for id, v := range good {
			all[id] = v
		}
		out = append(out, namedVal{fmt.Sprintf("rule_name%d_with_all", i), all})
	}
	return out
}

// formatUnits: the formatting operations of the units a loaded number schema carries (what a user interface
// or an error message does with a quantity), on a few quantities.
func (e *exerciser) formatUnits(node string, t schema.Type) {
	var units *schema.UnitsDefinition
	e.guard("Units", node, "-", func() {
		switch x := t.(type) {
		case *schema.IntSchema:
			units = x.Units()
		case *schema.FloatSchema:
			units = x.Units()
		case *schema.IntEnumSchema:
			units = x.Units()
		}
	})
	if units == nil {
		return
	}
	for _, q := range []int64{0, 1, 5, 2049, 100000, -3} {
		q := q
		c := fmt.Sprintf("quantity:%d", q)
		e.guard("FormatShortInt", node, c, func() { _ = units.FormatShortInt(q) })
		e.guard("FormatLongInt", node, c, func() { _ = units.FormatLongInt(q) })
		e.guard("FormatShortFloat", node, c, func() { _ = units.FormatShortFloat(float64(q) + 0.5) })
		e.guard("FormatLongFloat", node, c, func() { _ = units.FormatLongFloat(float64(q) + 0.5) })
	}
}

// unitValues: for a number with units, quantities written with the base unit and with EVERY multiplier
// name (short and long, singular and plural), and numbers violating each bound - the rejection message
// formats the bound with the units, so that code runs as well.
func unitValues(t schema.Type) []namedVal {
	var units *schema.UnitsDefinition
	var lo, hi []any
	switch x := t.(type) {
	case *schema.IntSchema:
		units = x.Units()
		if x.Min() != nil {
			lo = []any{*x.Min() - 1}
		}
		if x.Max() != nil {
			hi = []any{*x.Max() + 1, *x.Max() + 100000}
		}
	case *schema.FloatSchema:
		units = x.Units()
		if x.Min() != nil {
			lo = []any{*x.Min() - 0.5}
		}
		if x.Max() != nil {
			hi = []any{*x.Max() + 0.5, *x.Max() + 100000}
		}
	case *schema.IntEnumSchema:
		units = x.Units()
		lo = []any{int64(-12345)}
		hi = []any{int64(123456789)}
	default:
		return nil
	}
	var out []namedVal
	for i, v := range lo {
		out = append(out, namedVal{fmt.Sprintf("below_min%d", i), v})
	}
	for i, v := range hi {
		out = append(out, namedVal{fmt.Sprintf("above_max%d", i), v})
	}
	if units == nil {
		return out
	}
	names := func(u *schema.UnitDefinition) []string {
		if u == nil {
			return nil
		}
		return []string{u.NameShortSingular(), u.NameShortPlural(), u.NameLongSingular(), u.NameLongPlural()}
	}
	all := names(units.BaseUnit())
	keys := make([]int64, 0, len(units.Multipliers()))
	for k := range units.Multipliers() {
		keys = append(keys, k)
	}
	sort.Slice(keys, func(i, j int) bool { return keys[i] < keys[j] })
	for _, k := range keys {
		all = append(all, names(units.Multipliers()[k])...)
	}
	for i, n := range all {
		out = append(out, namedVal{fmt.Sprintf("unit%d", i), "5" + n}, namedVal{fmt.Sprintf("unit%d_spaced", i), "1 " + n},
			namedVal{fmt.Sprintf("unit%d_big", i), "100000" + n})
	}
	if len(all) >= 5 {
		out = append(out, namedVal{"unit_compound", "2" + all[4] + "3" + all[0]})
	}
	out = append(out, namedVal{"unit_bare", "5"}, namedVal{"unit_unknown", "5zz"})
	return out
}

// validValues builds inputs a well-behaved caller would send, by reading the schema through its
// public accessors only (may panic on a half-built schema: the caller guards).
func validValues(t schema.Type, depth int) []any {
	if depth > 3 {
		return nil
	}
	switch x := t.(type) {
	case *schema.ScopeSchema:
		return validValues(x.RootObject(), depth)
	case *schema.RefSchema:
		return validValues(x.GetObject(), depth+1)
	case *schema.ObjectSchema:
		full := map[string]any{}
		req := map[string]any{}
		for name, p := range x.Properties() {
			vs := validValues(p.Type(), depth+1)
			if len(vs) == 0 {
				continue
			}
			if !p.Disabled {
				full[name] = vs[0]
			}
			if p.Required() {
				req[name] = vs[0]
			}
		}
		out := []any{req, map[string]any{}}
		// one property at a time (reaches nested objects without tripping conflicts)
		names := make([]string, 0, len(full))
		for n := range full {
			names = append(names, n)
		}
		sort.Strings(names)
		for _, n := range names {
			m := map[string]any{}
			for k, v := range req {
				m[k] = v
			}
			m[n] = full[n]
			out = append(out, m)
		}
		out = append(out, full)
		return out
	case *schema.ListSchema:
		vs := validValues(x.Items(), depth+1)
		l := []any{}
		n := int64(1)
		if x.Min() != nil && *x.Min() > n && *x.Min() < 5 {
			n = *x.Min()
		}
		for i := int64(0); i < n && len(vs) > 0; i++ {
			l = append(l, vs[0])
		}
		return []any{l, []any{}}
	case *schema.MapSchema[schema.Type, schema.Type]:
		ks := validValues(x.Keys(), depth+1)
		vs := validValues(x.Values(), depth+1)
		m := map[any]any{}
		if len(ks) > 0 && len(vs) > 0 {
			m[ks[0]] = vs[0]
		}
		return []any{m, map[any]any{}}
	case *schema.OneOfSchema[string]:
		var out []any
		for k, mem := range x.Types() {
			for _, v := range validValues(mem, depth+1) {
				if mm, ok := v.(map[string]any); ok {
					c := map[string]any{}
					for a, b := range mm {
						c[a] = b
					}
					c[x.DiscriminatorFieldName()] = k
					out = append(out, c)
					break
				}
			}
		}
		return out
	case *schema.OneOfSchema[int64]:
		var out []any
		for k, mem := range x.Types() {
			for _, v := range validValues(mem, depth+1) {
				if mm, ok := v.(map[string]any); ok {
					c := map[string]any{}
					for a, b := range mm {
						c[a] = b
					}
					c[x.DiscriminatorFieldName()] = k
					out = append(out, c)
					break
				}
			}
		}
		return out
	case *schema.IntSchema:
		v := int64(1)
		if x.Min() != nil {
			v = *x.Min()
		} else if x.Max() != nil && *x.Max() < v {
			v = *x.Max()
		}
		return []any{v}
	case *schema.FloatSchema:
		v := 1.0
		if x.Min() != nil {
			v = *x.Min()
		} else if x.Max() != nil && *x.Max() < v {
			v = *x.Max()
		}
		return []any{v}
	case *schema.StringSchema:
		n := 1
		if x.Min() != nil && *x.Min() < 64 {
			n = int(*x.Min())
		}
		return []any{strings.Repeat("a", n), "ab"}
	case *schema.BoolSchema:
		return []any{true}
	case *schema.PatternSchema:
		return []any{"^a"}
	case *schema.AnySchema:
		return []any{int64(1)}
	case *schema.IntEnumSchema:
		for k := range x.ValidValues() {
			return []any{k}
		}
	case *schema.StringEnumSchema:
		for k := range x.ValidValues() {
			return []any{k}
		}
	}
	return nil
}

func cloneVal(v any) any {
	switch x := v.(type) {
	case map[string]any:
		m := make(map[string]any, len(x))
		for k, w := range x {
			m[k] = cloneVal(w)
		}
		return m
	case map[any]any:
		m := make(map[any]any, len(x))
		for k, w := range x {
			m[k] = cloneVal(w)
		}
		return m
	case []any:
		l := make([]any, len(x))
		for i, w := range x {
			l[i] = cloneVal(w)
		}
		return l
	}
	return v
}

func clip(s string, n int) string {
	if len(s) <= n {
		return s
	}
	return s[:n] + "..."
}

// exerciseScopes runs the walk over the data schemas of a loaded scope / plugin schema.
func exerciseScopes(scopes []namedScope, skip map[string]bool) *exerciser {
	e := &exerciser{seen: map[any]bool{}, skipFrames: skip}
	for _, s := range scopes {
		if s.sc == nil {
			continue
		}
		if ss, ok := s.sc.(*schema.ScopeSchema); ok {
			e.walk(s.name, ss, 0)
		} else {
			e.opsOn(s.name, s.sc, nil)
		}
	}
	return e
}

type namedScope struct {
	name string
	sc   schema.Scope
}

// dataScopes lists every data schema of a plugin schema: inputs, outputs, signal handlers, emitters.
func dataScopes(s *schema.SchemaSchema) []namedScope {
	var out []namedScope
	stepIDs := make([]string, 0, len(s.StepsValue))
	for id := range s.StepsValue {
		stepIDs = append(stepIDs, id)
	}
	sort.Strings(stepIDs)
	for _, id := range stepIDs {
		st := s.StepsValue[id]
		if st == nil {
			continue
		}
		out = append(out, namedScope{"steps." + id + ".input", st.InputValue})
		var ks []string
		for k := range st.OutputsValue {
			ks = append(ks, k)
		}
		sort.Strings(ks)
		for _, k := range ks {
			if o := st.OutputsValue[k]; o != nil {
				out = append(out, namedScope{"steps." + id + ".outputs." + k, o.SchemaValue})
			}
		}
		ks = nil
		for k := range st.SignalHandlersValue {
			ks = append(ks, k)
		}
		sort.Strings(ks)
		for _, k := range ks {
			if g := st.SignalHandlersValue[k]; g != nil {
				out = append(out, namedScope{"steps." + id + ".signal_handlers." + k, g.DataSchemaValue})
			}
		}
		ks = nil
		for k := range st.SignalEmittersValue {
			ks = append(ks, k)
		}
		sort.Strings(ks)
		for _, k := range ks {
			if g := st.SignalEmittersValue[k]; g != nil {
				out = append(out, namedScope{"steps." + id + ".signal_emitters." + k, g.DataSchemaValue})
			}
		}
	}
	return out
}

// linkAll performs the link step by hand on every scope (what the entry point should have done);
// returns the first panic.
func linkAll(scopes []namedScope, withExt bool) *sup.PanicInfo {
	for _, s := range scopes {
		sc := s.sc
		if sc == nil || reflect.ValueOf(sc).IsNil() {
			continue
		}
		if pi := sup.Guard(func() {
			sc.ApplySelf()
			if withExt {
				sc.ApplyNamespace(extObjects(), "ext")
			}
		}); pi != nil {
			return pi
		}
	}
	return nil
}

// ---------------------------------------------------------------------------------------------
// C09: inputs generated from the AST, to compare original and rebuilt schema

type genCtx struct {
	rnd   *rand.Rand
	scope *AST // innermost scope (for references)
	ext   bool
}

func (g *genCtx) lookup(id string, ns string) *AST {
	if ns == "ext" {
		return &AST{Kind: "object", ID: ptr("X"), Props: &[]PropA{{Name: "n", Type: &AST{Kind: "int", Min: &OptI{}, Max: &OptI{}, Units: &OptU{}}}}, Layout: "map"}
	}
	if g.scope == nil {
		return nil
	}
	for _, o := range g.scope.objects() {
		if o.Key == id {
			return o.Obj
		}
	}
	return nil
}

// inputs returns a mixed bag of acceptable and unacceptable raw inputs for t.
func (g *genCtx) inputs(t *AST, depth int) []any {
	if depth > 4 {
		return []any{nil}
	}
	junk := []any{nil, "zz", int64(7), true, 2.5, []any{}, map[string]any{}}
	switch t.Kind {
	case "int", "float":
		out := []any{int64(0), int64(3), int64(-1), "3", "x", 1.5, 2.0, true, uint64(4), nil, []any{}}
		for _, b := range []*OptI{t.Min, t.Max} {
			if b != nil && b.Some {
				v := b.V
				if t.Kind == "float" {
					out = append(out, float64(v)/2, float64(v)/2-0.5, float64(v)/2+0.5)
				} else {
					out = append(out, v, v-1, v+1)
				}
			}
		}
		out = append(out, unitInputs(t.Units)...)
		return out
	case "string":
		return []any{"", "a", "ab", "abc", "abcd", "b", "ba", int64(5), 1.5, nil, true, []any{"a"}}
	case "bool":
		return []any{true, false, "yes", "off", "maybe", int64(1), int64(2), nil, 1.0}
	case "pattern":
		return []any{"^a", "(", "", int64(3), nil}
	case "any":
		return []any{int64(1), "s", 1.5, true, nil, []any{int64(1), "a"}, map[string]any{"a": int64(1)}, map[any]any{int64(1): "x"}}
	case "enum_int", "enum_string":
		out := []any{nil, "a", "b", "c", int64(1), int64(2), int64(-1), int64(3), "1", "2", true, 1.0}
		out = append(out, unitInputs(t.Units)...)
		return out
	case "list":
		items := g.inputs(t.Items, depth+1)
		good := g.good(t.Items, depth+1)
		out := []any{[]any{}, nil, "x", map[string]any{}}
		for n := 1; n <= 3; n++ {
			l := make([]any, n)
			for i := range l {
				l[i] = good
			}
			out = append(out, l)
		}
		for _, it := range items {
			out = append(out, []any{it})
		}
		out = append(out, []string{"a", "ab"}, []int64{1, 2})
		return out
	case "map":
		ks := g.inputs(t.Keys, depth+1)
		vs := g.inputs(t.Values, depth+1)
		gk, gv := g.good(t.Keys, depth+1), g.good(t.Values, depth+1)
		out := []any{map[string]any{}, map[any]any{}, nil, "x", []any{}}
		for _, k := range ks {
			if k == nil || !reflect.TypeOf(k).Comparable() {
				continue
			}
			out = append(out, map[any]any{k: gv})
		}
		for _, v := range vs {
			if gk != nil {
				out = append(out, map[any]any{gk: v})
			}
		}
		// sizes 2 and 3
		two, three := map[any]any{}, map[any]any{}
		for _, k := range ks {
			if k == nil || !reflect.TypeOf(k).Comparable() {
				continue
			}
			if len(two) < 2 {
				two[k] = gv
			}
			if len(three) < 3 {
				three[k] = gv
			}
		}
		out = append(out, two, three, map[string]any{"a": gv, "ab": gv}, map[int64]any{1: gv})
		return out
	case "object":
		return g.objectInputs(t, depth)
	case "ref":
		o := g.lookup(*t.ID, *t.NS)
		if o == nil {
			return junk
		}
		return g.objectInputs(o, depth+1)
	case "scope":
		inner := &genCtx{rnd: g.rnd, scope: t}
		for _, o := range t.objects() {
			if o.Key == *t.Root {
				return inner.objectInputs(o.Obj, depth+1)
			}
		}
		return junk
	case "oneof":
		out := append([]any{}, junk...)
		field := *t.Field
		for _, m := range t.members() {
			var key any
			var alt any
			if m.Key.isStr() {
				key, alt = m.Key.str(), fmt.Sprint(m.Key.str())
			} else {
				key, alt = m.Key.int(), fmt.Sprint(m.Key.int())
			}
			for i, in := range g.inputs(m.Type, depth+1) {
				mm, ok := in.(map[string]any)
				if !ok {
					continue
				}
				c := map[string]any{}
				for k, v := range mm {
					c[k] = v
				}
				c[field] = key
				out = append(out, c)
				if i == 0 {
					d := map[string]any{}
					for k, v := range c {
						d[k] = v
					}
					d[field] = alt
					out = append(out, d)
					e := map[any]any{}
					for k, v := range c {
						e[k] = v
					}
					out = append(out, e)
				}
			}
		}
		out = append(out, map[string]any{field: "nope"}, map[string]any{field: int64(99)}, map[string]any{"n": int64(1)})
		return out
	}
	return junk
}

// unitTokens: quantities written as text, by grammar (spec/Meta.tla UnitTokenClass; the vectors carry the
// set, this copy serves the random driver).
var unitTokens = []string{"5m30s", "250ms", "10s", "1m", "0s", "1H", "2d", "1d2H3m4s", "90 seconds", "1 minute",
	"1H 30m", "5", "5ns", "1h", "1h30m", "1.5s", "30s5m", "-5s", "1.5h", "+5s", "1us", "1µs", ".5s", "1m1m",
	"1h0m0.5s", "1e3s", "5kB", "1MB", "2 GB", "1TB1kB", "5B", "5%", "3 chars", "1 char", "1.5MB", "5x", "h",
	"1 h 30", "s5", "--5s", "5m 30"}

// unitInputs: text inputs for a number measured in units: the token partition, and spellings derived from
// the names of the unit set at hand (every name of the base unit and of every multiplier, compounds).
func unitInputs(o *OptU) []any {
	if o == nil || !o.Some {
		return nil
	}
	var out []any
	for _, s := range unitTokens {
		out = append(out, s)
	}
	u := mkUnits(o)
	names := func(d *schema.UnitDefinition) []string {
		return []string{d.NameShortSingular(), d.NameShortPlural(), d.NameLongSingular(), d.NameLongPlural()}
	}
	base := names(u.BaseUnit())
	out = append(out, "5"+base[0], "5 "+base[3], "1"+base[1]+"x")
	keys := make([]int64, 0, len(u.Multipliers()))
	for k := range u.Multipliers() {
		keys = append(keys, k)
	}
	sort.Slice(keys, func(i, j int) bool { return keys[i] < keys[j] })
	for _, k := range keys {
		n := names(u.Multipliers()[k])
		out = append(out, "2"+n[0], "1"+n[0]+"3"+base[0], "1 "+n[2], "3 "+n[3])
	}
	return out
}

// good returns one input the type accepts (best effort).
func (g *genCtx) good(t *AST, depth int) any {
	if depth > 5 {
		return nil
	}
	switch t.Kind {
	case "int":
		if t.Min != nil && t.Min.Some {
			return t.Min.V
		}
		if t.Max != nil && t.Max.Some {
			return t.Max.V
		}
		return int64(1)
	case "float":
		if t.Min != nil && t.Min.Some {
			return float64(t.Min.V) / 2
		}
		if t.Max != nil && t.Max.Some {
			return float64(t.Max.V) / 2
		}
		return 1.5
	case "string":
		return "ab"
	case "bool":
		return true
	case "pattern":
		return "^a"
	case "any":
		return int64(1)
	case "enum_int":
		if len(t.Evals) > 0 {
			return t.Evals[0].V.int()
		}
	case "enum_string":
		if len(t.Evals) > 0 {
			return t.Evals[0].V.str()
		}
	case "list":
		n := 1
		if t.Min != nil && t.Min.Some && t.Min.V > 1 {
			n = int(t.Min.V)
		}
		l := make([]any, n)
		for i := range l {
			l[i] = g.good(t.Items, depth+1)
		}
		return l
	case "map":
		return map[any]any{g.good(t.Keys, depth+1): g.good(t.Values, depth+1)}
	case "object":
		return g.goodObject(t, depth)
	case "ref":
		if o := g.lookup(*t.ID, *t.NS); o != nil {
			return g.goodObject(o, depth+1)
		}
	case "scope":
		inner := &genCtx{rnd: g.rnd, scope: t}
		for _, o := range t.objects() {
			if o.Key == *t.Root {
				return inner.goodObject(o.Obj, depth+1)
			}
		}
	case "oneof":
		for _, m := range t.members() {
			v := g.good(m.Type, depth+1)
			if mm, ok := v.(map[string]any); ok {
				c := map[string]any{}
				for k, w := range mm {
					c[k] = w
				}
				if m.Key.isStr() {
					c[*t.Field] = m.Key.str()
				} else {
					c[*t.Field] = m.Key.int()
				}
				return c
			}
		}
	}
	return nil
}

func (g *genCtx) goodObject(o *AST, depth int) any {
	m := map[string]any{}
	if depth > 4 {
		return m
	}
	for _, p := range o.props() {
		if p.Required && !p.Disabled {
			m[p.Name] = g.good(p.Type, depth+1)
		}
	}
	return m
}

// objectInputs: presence combinations of the properties, each property with every input of its type.
func (g *genCtx) objectInputs(o *AST, depth int) []any {
	out := []any{nil, "zz", int64(7), []any{}, map[string]any{}, map[any]any{}, map[string]any{"zz": int64(1)}}
	props := o.props()
	goods := map[string]any{}
	for _, p := range props {
		goods[p.Name] = g.good(p.Type, depth+1)
	}
	// every subset of (up to 4) properties present with a good value
	n := len(props)
	if n > 4 {
		n = 4
	}
	for mask := 0; mask < 1<<n; mask++ {
		m := map[string]any{}
		for i := 0; i < n; i++ {
			if mask&(1<<i) != 0 {
				m[props[i].Name] = goods[props[i].Name]
			}
		}
		out = append(out, m)
		if mask == (1<<n)-1 {
			a := map[any]any{}
			for k, v := range m {
				a[k] = v
			}
			out = append(out, a)
		}
	}
	// each property with each of its inputs, the required others present
	for _, p := range props {
		for _, in := range g.inputs(p.Type, depth+1) {
			m := map[string]any{}
			for _, q := range props {
				if q.Name != p.Name && q.Required && !q.Disabled {
					m[q.Name] = goods[q.Name]
				}
			}
			m[p.Name] = in
			out = append(out, m)
		}
	}
	if len(props) == 1 {
		// the single-property shorthand
		out = append(out, g.inputs(props[0].Type, depth+1)...)
	}
	return out
}

// canonVal renders an unserialized value canonically: containers by content, scalars with their kind.
func canonVal(v any) string {
	if v == nil {
		return "nil"
	}
	rv := reflect.ValueOf(v)
	switch rv.Kind() {
	case reflect.Pointer, reflect.Interface:
		if rv.IsNil() {
			return "nil"
		}
		if s, ok := v.(fmt.Stringer); ok {
			return "str:" + s.String()
		}
		return canonVal(rv.Elem().Interface())
	case reflect.Map:
		var es []string
		for _, k := range rv.MapKeys() {
			es = append(es, canonVal(k.Interface())+":"+canonVal(rv.MapIndex(k).Interface()))
		}
		sort.Strings(es)
		return "{" + strings.Join(es, ",") + "}"
	case reflect.Slice, reflect.Array:
		var es []string
		for i := 0; i < rv.Len(); i++ {
			es = append(es, canonVal(rv.Index(i).Interface()))
		}
		return "[" + strings.Join(es, ",") + "]"
	case reflect.Struct:
		if s, ok := v.(fmt.Stringer); ok {
			return "struct:" + s.String()
		}
		return fmt.Sprintf("struct:%+v", v)
	case reflect.String:
		return fmt.Sprintf("s%q", rv.String())
	case reflect.Int, reflect.Int8, reflect.Int16, reflect.Int32, reflect.Int64:
		return fmt.Sprintf("i%d", rv.Int())
	case reflect.Uint, reflect.Uint8, reflect.Uint16, reflect.Uint32, reflect.Uint64:
		return fmt.Sprintf("u%d", rv.Uint())
	case reflect.Float32, reflect.Float64:
		return fmt.Sprintf("f%v", rv.Float())
	case reflect.Bool:
		return fmt.Sprintf("b%v", rv.Bool())
	}
	return fmt.Sprintf("%T:%v", v, v)
}
