//go:build verif

package main

// Abstract description trees (spec/Meta.tla: S, N, F, B, Nil, L, M) and their Go counterparts:
// decoding of the compact form MetaMC exports, encoding of the verbose form MetaTrace reads,
// concretisation, abstraction, the real transports, structural comparison.

import (
	"bytes"
	"encoding/json"
	"fmt"
	"math"
	"reflect"
	"sort"
	"strconv"
	"strings"

	"github.com/fxamacker/cbor/v2"
	"go.flow.arcalot.io/pluginsdk/atp"
	"go.flow.arcalot.io/pluginsdk/schema"
	"gopkg.in/yaml.v3"
)

type Tree struct {
	K   string // str num bool nil list map
	S   string
	I   int64  // num: integer value, or halves when Rep == "f"
	Rep string // num: i u f
	B   bool
	L   []*Tree
	M   []Entry
}
type Entry struct {
	Key *Tree
	Val *Tree
}

func tS(s string) *Tree { return &Tree{K: "str", S: s} }
func tN(i int64) *Tree  { return &Tree{K: "num", I: i, Rep: "i"} }
func tF(h int64) *Tree  { return &Tree{K: "num", I: h, Rep: "f"} }
func tB(b bool) *Tree   { return &Tree{K: "bool", B: b} }
func tNil() *Tree       { return &Tree{K: "nil"} }

// ----- compact form (TLA+ -> Go): "s", 5, true, {"f":h}, {"u":n}, {"z":true}, {"l":[..]}, {"m":{"sK":..,"i5":..}|[]}

func decodeCompact(raw json.RawMessage) (*Tree, error) {
	dec := json.NewDecoder(bytes.NewReader(raw))
	dec.UseNumber()
	var v any
	if err := dec.Decode(&v); err != nil {
		return nil, err
	}
	return compactToTree(v)
}

func compactToTree(v any) (*Tree, error) {
	switch x := v.(type) {
	case string:
		return tS(x), nil
	case json.Number:
		i, err := x.Int64()
		if err != nil {
			return nil, err
		}
		return tN(i), nil
	case bool:
		return tB(x), nil
	case map[string]any:
		if len(x) != 1 {
			return nil, fmt.Errorf("compact tree: object with %d keys", len(x))
		}
		for k, w := range x {
			switch k {
			case "f", "u":
				n, ok := w.(json.Number)
				if !ok {
					return nil, fmt.Errorf("compact tree: bad %s", k)
				}
				i, _ := n.Int64()
				if k == "f" {
					return tF(i), nil
				}
				return &Tree{K: "num", I: i, Rep: "u"}, nil
			case "z":
				return tNil(), nil
			case "pu":
				name, _ := w.(string)
				return &Tree{K: "pkgunits", S: name}, nil
			case "l":
				arr, ok := w.([]any)
				if !ok {
					return nil, fmt.Errorf("compact tree: bad list")
				}
				t := &Tree{K: "list", L: []*Tree{}}
				for _, e := range arr {
					c, err := compactToTree(e)
					if err != nil {
						return nil, err
					}
					t.L = append(t.L, c)
				}
				return t, nil
			case "m":
				t := &Tree{K: "map", M: []Entry{}}
				switch mm := w.(type) {
				case []any:
					if len(mm) != 0 {
						return nil, fmt.Errorf("compact tree: map given as non-empty array")
					}
				case map[string]any:
					keys := make([]string, 0, len(mm))
					for kk := range mm {
						keys = append(keys, kk)
					}
					sort.Strings(keys)
					for _, kk := range keys {
						c, err := compactToTree(mm[kk])
						if err != nil {
							return nil, err
						}
						var key *Tree
						if strings.HasPrefix(kk, "s") {
							key = tS(kk[1:])
						} else if strings.HasPrefix(kk, "n") {
							key = &Tree{K: "fspecial", S: kk[1:]}
						} else if strings.HasPrefix(kk, "y") {
							key = &Tree{K: "bytes", S: kk[1:]}
						} else if kk == "z" {
							key = tNil()
						} else if strings.HasPrefix(kk, "b") {
							key = tB(kk[1:] == "TRUE")
						} else if strings.HasPrefix(kk, "f") {
							h, err := strconv.ParseInt(kk[1:], 10, 64)
							if err != nil {
								return nil, err
							}
							key = tF(h)
						} else if strings.HasPrefix(kk, "i") {
							i, err := strconv.ParseInt(kk[1:], 10, 64)
							if err != nil {
								return nil, err
							}
							key = tN(i)
						} else {
							return nil, fmt.Errorf("compact tree: key %q", kk)
						}
						t.M = append(t.M, Entry{key, c})
					}
				default:
					return nil, fmt.Errorf("compact tree: bad map")
				}
				return t, nil
			}
			return nil, fmt.Errorf("compact tree: unknown wrapper %q", k)
		}
	}
	return nil, fmt.Errorf("compact tree: unexpected %T", v)
}

// ----- verbose form (Go -> TLA+)

func (t *Tree) MarshalJSON() ([]byte, error) {
	switch t.K {
	case "str":
		return json.Marshal(map[string]any{"k": "str", "v": t.S})
	case "num":
		return json.Marshal(map[string]any{"k": "num", "v": t.I, "rep": t.Rep})
	case "bool":
		return json.Marshal(map[string]any{"k": "bool", "v": t.B})
	case "nil":
		return []byte(`{"k":"nil"}`), nil
	case "pkgunits", "fspecial", "bytes":
		return json.Marshal(map[string]any{"k": t.K, "v": t.S})
	case "list":
		l := t.L
		if l == nil {
			l = []*Tree{}
		}
		return json.Marshal(map[string]any{"k": "list", "v": l})
	case "map":
		es := make([]map[string]any, 0, len(t.M))
		for _, e := range t.M {
			es = append(es, map[string]any{"key": e.Key, "val": e.Val})
		}
		return json.Marshal(map[string]any{"k": "map", "v": es})
	}
	return nil, fmt.Errorf("tree kind %q", t.K)
}

func (t *Tree) UnmarshalJSON(b []byte) error {
	var raw struct {
		K   string          `json:"k"`
		V   json.RawMessage `json:"v"`
		Rep string          `json:"rep"`
	}
	if err := json.Unmarshal(b, &raw); err != nil {
		return err
	}
	t.K = raw.K
	switch raw.K {
	case "str", "pkgunits", "fspecial", "bytes":
		return json.Unmarshal(raw.V, &t.S)
	case "num":
		t.Rep = raw.Rep
		return json.Unmarshal(raw.V, &t.I)
	case "bool":
		return json.Unmarshal(raw.V, &t.B)
	case "nil":
		return nil
	case "list":
		t.L = []*Tree{}
		return json.Unmarshal(raw.V, &t.L)
	case "map":
		var es []struct {
			Key *Tree `json:"key"`
			Val *Tree `json:"val"`
		}
		if err := json.Unmarshal(raw.V, &es); err != nil {
			return err
		}
		t.M = []Entry{}
		for _, e := range es {
			t.M = append(t.M, Entry{e.Key, e.Val})
		}
		return nil
	}
	return fmt.Errorf("tree kind %q", raw.K)
}

func (t *Tree) clone() *Tree {
	c := *t
	if t.L != nil {
		c.L = make([]*Tree, len(t.L))
		for i, e := range t.L {
			c.L[i] = e.clone()
		}
	}
	if t.M != nil {
		c.M = make([]Entry, len(t.M))
		for i, e := range t.M {
			c.M[i] = Entry{e.Key.clone(), e.Val.clone()}
		}
	}
	return &c
}

func (t *Tree) get(key string) *Tree {
	if t == nil || t.K != "map" {
		return nil
	}
	for _, e := range t.M {
		if e.Key.K == "str" && e.Key.S == key {
			return e.Val
		}
	}
	return nil
}

// canon renders a tree canonically (maps sorted by key; integer representation i/u ignored).
func (t *Tree) canon() string {
	var sb strings.Builder
	t.writeCanon(&sb)
	return sb.String()
}
func (t *Tree) writeCanon(sb *strings.Builder) {
	switch t.K {
	case "str":
		sb.WriteString(strconv.Quote(t.S))
	case "num":
		if t.Rep == "f" {
			fmt.Fprintf(sb, "f%d", t.I)
		} else {
			fmt.Fprintf(sb, "%d", t.I)
		}
	case "bool":
		fmt.Fprintf(sb, "%v", t.B)
	case "nil":
		sb.WriteString("nil")
	case "pkgunits":
		sb.WriteString("<units:" + t.S + ">")
	case "fspecial":
		sb.WriteString("<float:" + t.S + ">")
	case "bytes":
		sb.WriteString("<bytes:" + t.S + ">")
	case "list":
		sb.WriteString("[")
		for i, e := range t.L {
			if i > 0 {
				sb.WriteString(",")
			}
			e.writeCanon(sb)
		}
		sb.WriteString("]")
	case "map":
		type kv struct{ k, v string }
		var es []kv
		for _, e := range t.M {
			es = append(es, kv{e.Key.canon(), e.Val.canon()})
		}
		sort.Slice(es, func(i, j int) bool { return es[i].k < es[j].k })
		sb.WriteString("{")
		for i, e := range es {
			if i > 0 {
				sb.WriteString(",")
			}
			sb.WriteString(e.k + ":" + e.v)
		}
		sb.WriteString("}")
	}
}

// diffTrees returns "" when the trees are equal (integer representation apart), else the path and
// nature of the first difference.
func diffTrees(a, b *Tree, path string) string {
	if a.K != b.K {
		return fmt.Sprintf("%s: %s vs %s", path, a.canon(), b.canon())
	}
	switch a.K {
	case "list":
		if len(a.L) != len(b.L) {
			return fmt.Sprintf("%s: list length %d vs %d", path, len(a.L), len(b.L))
		}
		for i := range a.L {
			if d := diffTrees(a.L[i], b.L[i], fmt.Sprintf("%s[%d]", path, i)); d != "" {
				return d
			}
		}
		return ""
	case "map":
		am, bm := map[string]*Tree{}, map[string]*Tree{}
		var keys []string
		for _, e := range a.M {
			am[e.Key.canon()] = e.Val
			keys = append(keys, e.Key.canon())
		}
		for _, e := range b.M {
			bm[e.Key.canon()] = e.Val
			if _, ok := am[e.Key.canon()]; !ok {
				keys = append(keys, e.Key.canon())
			}
		}
		sort.Strings(keys)
		for _, k := range keys {
			av, aok := am[k]
			bv, bok := bm[k]
			if !aok {
				return fmt.Sprintf("%s.%s: absent vs %s", path, k, bv.canon())
			}
			if !bok {
				return fmt.Sprintf("%s.%s: %s vs absent", path, k, av.canon())
			}
			if d := diffTrees(av, bv, path+"."+k); d != "" {
				return d
			}
		}
		return ""
	}
	if a.canon() != b.canon() {
		return fmt.Sprintf("%s: %s vs %s", path, a.canon(), b.canon())
	}
	return ""
}

// ----- concretisation: tree -> Go value as a caller would hand it over directly

func floatTok(h int64) string { return fmt.Sprintf("%f", float64(h)/2) }

func (t *Tree) toGo() any {
	switch t.K {
	case "str":
		return t.S
	case "num":
		switch t.Rep {
		case "f":
			return float64(t.I) / 2
		case "u":
			return uint64(t.I)
		}
		return t.I
	case "bool":
		return t.B
	case "nil":
		return nil
	case "pkgunits":
		return cloneVal(pkgUnitsDesc(t.S))
	case "fspecial":
		if t.S == "nan" {
			return math.NaN()
		}
		return math.Inf(1)
	case "bytes":
		return cbor.ByteString(t.S) // (hashable, unlike []byte: it can be a map key)
	case "list":
		l := make([]any, len(t.L))
		for i, e := range t.L {
			l[i] = e.toGo()
		}
		return l
	case "map":
		allStr := true
		for _, e := range t.M {
			if e.Key.K != "str" {
				allStr = false
			}
		}
		if allStr {
			m := make(map[string]any, len(t.M))
			for _, e := range t.M {
				m[e.Key.S] = e.Val.toGo()
			}
			return m
		}
		m := make(map[any]any, len(t.M))
		for _, e := range t.M {
			m[e.Key.toGo()] = e.Val.toGo()
		}
		return m
	}
	panic("tree kind " + t.K)
}

// ----- abstraction: Go value (a description as the SDK emitted it, or as a codec decoded it) -> tree

func fromGo(v any) (*Tree, error) {
	if v == nil {
		return tNil(), nil
	}
	switch x := v.(type) {
	case string:
		return tS(x), nil
	case bool:
		return tB(x), nil
	case float64:
		h := x * 2
		if h != math.Trunc(h) || math.Abs(h) > 1e9 {
			return nil, fmt.Errorf("float %v has no abstract counterpart", x)
		}
		return tF(int64(h)), nil
	case float32:
		return fromGo(float64(x))
	case uint64:
		if x > math.MaxInt32 {
			return nil, fmt.Errorf("integer %d beyond the model's range", x)
		}
		return &Tree{K: "num", I: int64(x), Rep: "u"}, nil
	}
	rv := reflect.ValueOf(v)
	switch rv.Kind() {
	case reflect.Int, reflect.Int8, reflect.Int16, reflect.Int32, reflect.Int64:
		if rv.Int() > math.MaxInt32 || rv.Int() < math.MinInt32 {
			return nil, fmt.Errorf("integer %d beyond the model's range", rv.Int())
		}
		return tN(rv.Int()), nil
	case reflect.Uint, reflect.Uint8, reflect.Uint16, reflect.Uint32:
		return &Tree{K: "num", I: int64(rv.Uint()), Rep: "u"}, nil
	case reflect.String:
		return tS(rv.String()), nil
	case reflect.Slice, reflect.Array:
		t := &Tree{K: "list", L: []*Tree{}}
		for i := 0; i < rv.Len(); i++ {
			c, err := fromGo(rv.Index(i).Interface())
			if err != nil {
				return nil, err
			}
			t.L = append(t.L, c)
		}
		return t, nil
	case reflect.Map:
		if name := matchPkgUnits(v); name != "" {
			return &Tree{K: "pkgunits", S: name}, nil
		}
		t := &Tree{K: "map", M: []Entry{}}
		for _, k := range rv.MapKeys() {
			kt, err := fromGo(k.Interface())
			if err != nil {
				return nil, err
			}
			if kt.K != "str" && kt.K != "num" {
				return nil, fmt.Errorf("map key %v has no abstract counterpart", k.Interface())
			}
			vt, err := fromGo(rv.MapIndex(k).Interface())
			if err != nil {
				return nil, err
			}
			t.M = append(t.M, Entry{kt, vt})
		}
		sort.Slice(t.M, func(i, j int) bool { return t.M[i].Key.canon() < t.M[j].Key.canon() })
		return t, nil
	}
	return nil, fmt.Errorf("%T has no abstract counterpart", v)
}

// ----- the descriptions of the package-level unit sets (one token in the model: spec/Meta.tla PU)

var pkgUnitsDescs map[string]any
var pkgUnitsCanon map[string]string

func initPkgUnits() {
	if pkgUnitsDescs != nil {
		return
	}
	pkgUnitsDescs, pkgUnitsCanon = map[string]any{}, map[string]string{}
	for name, u := range pkgUnits {
		// the real description: what SelfSerialize emits for a number measured in that unit set
		sc := schema.NewScopeSchema(schema.NewObjectSchema("A", map[string]*schema.PropertySchema{
			"p": schema.NewPropertySchema(schema.NewIntSchema(nil, nil, u), nil, false, nil, nil, nil, nil, nil)}))
		d, err := sc.SelfSerialize()
		if err != nil {
			panic("harness: package units " + name + " cannot be described: " + err.Error())
		}
		var node any = d
		for _, k := range []string{"objects", "A", "properties", "p", "type", "units"} {
			rv := reflect.ValueOf(node)
			node = rv.MapIndex(convertKey(reflect.ValueOf(k), rv)).Interface()
		}
		pkgUnitsDescs[name] = node
		pkgUnitsCanon[name] = numCanon(node)
	}
}

func pkgUnitsDesc(name string) any {
	initPkgUnits()
	d, ok := pkgUnitsDescs[name]
	if !ok {
		panic("harness: unknown package units " + name)
	}
	return d
}

// matchPkgUnits: is v the description of one of the package-level unit sets (whatever the integer
// representation)?
func matchPkgUnits(v any) string {
	rv := reflect.ValueOf(v)
	if rv.Kind() != reflect.Map || rv.Len() != 2 {
		return ""
	}
	initPkgUnits()
	c := numCanon(v)
	for _, name := range pkgUnitNames {
		if pkgUnitsCanon[name] == c {
			return name
		}
	}
	return ""
}

// numCanon renders a value canonically, numbers by value only.
func numCanon(v any) string {
	if v == nil {
		return "nil"
	}
	rv := reflect.ValueOf(v)
	switch rv.Kind() {
	case reflect.Map:
		var es []string
		for _, k := range rv.MapKeys() {
			es = append(es, numCanon(k.Interface())+":"+numCanon(rv.MapIndex(k).Interface()))
		}
		sort.Strings(es)
		return "{" + strings.Join(es, ",") + "}"
	case reflect.Slice:
		var es []string
		for i := 0; i < rv.Len(); i++ {
			es = append(es, numCanon(rv.Index(i).Interface()))
		}
		return "[" + strings.Join(es, ",") + "]"
	case reflect.Int, reflect.Int8, reflect.Int16, reflect.Int32, reflect.Int64:
		return fmt.Sprintf("n%d", rv.Int())
	case reflect.Uint, reflect.Uint8, reflect.Uint16, reflect.Uint32, reflect.Uint64:
		return fmt.Sprintf("n%d", rv.Uint())
	case reflect.Float32, reflect.Float64:
		if f := rv.Float(); f == math.Trunc(f) && math.Abs(f) < 1e18 {
			return fmt.Sprintf("n%d", int64(f))
		}
		return fmt.Sprintf("f%v", rv.Float())
	case reflect.Interface, reflect.Pointer:
		if rv.IsNil() {
			return "nil"
		}
		return numCanon(rv.Elem().Interface())
	}
	return fmt.Sprintf("%T:%v", v, v)
}

// ----- strict comparison of two descriptions as Go values (nil and empty containers are equal;
// scalar kinds must agree: int64 5 and float64 5 differ)

func diffGo(a, b any, path string) string {
	if isEmptyish(a) && isEmptyish(b) {
		ra, rb := kindOf(a), kindOf(b)
		if ra == rb || a == nil || b == nil {
			return ""
		}
	}
	if a == nil || b == nil {
		return fmt.Sprintf("%s: %#v vs %#v", path, a, b)
	}
	ra, rb := reflect.ValueOf(a), reflect.ValueOf(b)
	switch ra.Kind() {
	case reflect.Map:
		if rb.Kind() != reflect.Map {
			return fmt.Sprintf("%s: %T vs %T", path, a, b)
		}
		seen := map[any]bool{}
		var keys []reflect.Value
		keys = append(keys, ra.MapKeys()...)
		sort.Slice(keys, func(i, j int) bool { return fmt.Sprint(keys[i].Interface()) < fmt.Sprint(keys[j].Interface()) })
		for _, k := range keys {
			seen[k.Interface()] = true
			bv := rb.MapIndex(convertKey(k, rb))
			if !bv.IsValid() {
				return fmt.Sprintf("%s.%v: present vs absent", path, k.Interface())
			}
			if d := diffGo(ra.MapIndex(k).Interface(), bv.Interface(), fmt.Sprintf("%s.%v", path, k.Interface())); d != "" {
				return d
			}
		}
		for _, k := range rb.MapKeys() {
			if !seen[k.Interface()] {
				return fmt.Sprintf("%s.%v: absent vs present", path, k.Interface())
			}
		}
		return ""
	case reflect.Slice:
		if rb.Kind() != reflect.Slice {
			return fmt.Sprintf("%s: %T vs %T", path, a, b)
		}
		if ra.Len() != rb.Len() {
			return fmt.Sprintf("%s: length %d vs %d", path, ra.Len(), rb.Len())
		}
		for i := 0; i < ra.Len(); i++ {
			if d := diffGo(ra.Index(i).Interface(), rb.Index(i).Interface(), fmt.Sprintf("%s[%d]", path, i)); d != "" {
				return d
			}
		}
		return ""
	}
	if ra.Kind() != rb.Kind() || !reflect.DeepEqual(a, b) {
		return fmt.Sprintf("%s: %T(%v) vs %T(%v)", path, a, a, b, b)
	}
	return ""
}

func convertKey(k reflect.Value, m reflect.Value) reflect.Value {
	kt := m.Type().Key()
	kv := k
	if kv.Kind() == reflect.Interface {
		kv = kv.Elem()
	}
	if kv.Type().AssignableTo(kt) {
		if kt.Kind() == reflect.Interface {
			n := reflect.New(kt).Elem()
			n.Set(kv)
			return n
		}
		return kv
	}
	return reflect.Zero(kt)
}

func kindOf(v any) reflect.Kind {
	if v == nil {
		return reflect.Invalid
	}
	return reflect.ValueOf(v).Kind()
}

func isEmptyish(v any) bool {
	if v == nil {
		return true
	}
	rv := reflect.ValueOf(v)
	switch rv.Kind() {
	case reflect.Map, reflect.Slice:
		return rv.Len() == 0
	}
	return false
}

// ----- the real transports

var atpDecMode = func() cbor.DecMode {
	m, err := cbor.DecOptions{ExtraReturnErrors: cbor.ExtraDecErrorUnknownField}.DecMode()
	if err != nil {
		panic(err)
	}
	return m
}()

// viaCBOR carries v exactly as the ATP hello message does: encoder on one side, the client's
// decoding mode into an `any` field on the other.
func viaCBOR(v any) (any, error) {
	var buf bytes.Buffer
	if err := cbor.NewEncoder(&buf).Encode(atp.HelloMessage{Version: atp.ProtocolVersion, Schema: v}); err != nil {
		return nil, err
	}
	var hello atp.HelloMessage
	if err := atpDecMode.NewDecoder(&buf).Decode(&hello); err != nil {
		return nil, err
	}
	return hello.Schema, nil
}

func viaYAML(v any) (any, error) {
	b, err := yaml.Marshal(v)
	if err != nil {
		return nil, err
	}
	var out any
	if err := yaml.Unmarshal(b, &out); err != nil {
		return nil, err
	}
	return out, nil
}

// stringKeys turns every map into map[string]any (JSON objects have string keys only).
func stringKeys(v any) any {
	if v == nil {
		return nil
	}
	rv := reflect.ValueOf(v)
	switch rv.Kind() {
	case reflect.Map:
		m := make(map[string]any, rv.Len())
		for _, k := range rv.MapKeys() {
			m[fmt.Sprint(k.Interface())] = stringKeys(rv.MapIndex(k).Interface())
		}
		return m
	case reflect.Slice:
		l := make([]any, rv.Len())
		for i := range l {
			l[i] = stringKeys(rv.Index(i).Interface())
		}
		return l
	}
	return v
}

func viaJSON(v any) (any, error) {
	b, err := json.Marshal(stringKeys(v))
	if err != nil {
		return nil, err
	}
	var out any
	if err := json.Unmarshal(b, &out); err != nil {
		return nil, err
	}
	return out, nil
}

var transports = []struct {
	name string
	f    func(any) (any, error)
}{
	{"id", func(v any) (any, error) { return v, nil }},
	{"cbor", viaCBOR},
	{"yaml", viaYAML},
	{"json", viaJSON},
}
