//go:build verif

package main

// Seeded random driver (code -> specification): schemas bigger than the enumerated universe, random
// mutations of their real descriptions.  Every case yields the same real-artefact verdicts as the
// enumerated vectors, plus one trace line for spec/MetaTrace.tla.
//
// Strings are drawn from a vocabulary of "plain" tokens (alphanumeric identifiers that are no bool
// words, no numbers, no JSON texts) plus the tokens spec/Meta.tla lists in its tables, so that the
// token attributes the trace specification needs are the tabulated ones.

import (
	"encoding/json"
	"fmt"
	"math/rand"
	"sort"
	"strings"
)

type randSrc struct{ *rand.Rand }

func newRand(seed int64) *randSrc { return &randSrc{rand.New(rand.NewSource(seed))} }

func (r *randSrc) pick(ss ...string) string { return ss[r.Intn(len(ss))] }
func (r *randSrc) chance(p float64) bool    { return r.Float64() < p }

// property names: identifier-like ones and one token of every other class of the partition that
// spec/Meta.tla (PropNameClass) defines - with a space, with dots and a slash, with a dash, non-ASCII,
// longer than an identifier may be.  (The empty name is left out: the meta-schema demands one byte.)
var plainNames = []string{"aa", "bb", "cc", "dd", "ee", "ff", "gg", "hh",
	"max retries", "a.b", "app.kubernetes.io/name", "x-y", "é", strings.Repeat("n", 300)}
var plainTexts = []string{"Nm", "Ds", "Ic", "why", "Lorem", "ipsum"}

type gen struct {
	r       *randSrc
	clean   bool // no feature the pinned meta-schema cannot describe
	objects []KObj
	nextObj int
	ext     bool
}

func (g *gen) optI(lo, hi int64, p float64) *OptI {
	if g.r.chance(p) {
		return &OptI{Some: true, V: lo + g.r.Int63n(hi-lo+1)}
	}
	return &OptI{}
}

func (g *gen) display() OptD {
	if g.r.chance(0.5) {
		return OptD{}
	}
	d := Disp{}
	if g.r.chance(0.7) {
		d.Name = OptS{true, g.r.pick(plainTexts...)}
	}
	if g.r.chance(0.4) {
		d.Description = OptS{true, g.r.pick(plainTexts...)}
	}
	if g.r.chance(0.2) {
		d.Icon = OptS{true, g.r.pick(plainTexts...)}
	}
	return OptD{true, d}
}

func (g *gen) units() *OptU {
	if g.r.chance(0.7) {
		return &OptU{}
	}
	if g.r.chance(0.5) {
		// one of the SDK's package-level unit sets, by identity
		return &OptU{true, UnitsA{Pkg: g.r.pick(pkgUnitNames...)}}
	}
	u := UnitsA{Base: UnitA{"u", "us", "ul", "uls"}}
	if g.r.chance(0.6) {
		u.Mults = append(u.Mults, MultA{M: 60, Unit: UnitA{"mu", "mus", "mul", "muls"}})
	}
	if g.r.chance(0.4) {
		u.Mults = append(u.Mults, MultA{M: 1024, Unit: UnitA{"ku", "ku", "kul", "kuls"}})
	}
	return &OptU{Some: true, V: u}
}

func (g *gen) bounds(lo, hi int64) (*OptI, *OptI) {
	mn, mx := g.optI(lo, hi, 0.4), g.optI(lo, hi, 0.4)
	if mn.Some && mx.Some && mn.V > mx.V {
		mn.V, mx.V = mx.V, mn.V
	}
	return mn, mx
}

func (g *gen) enumVals(str bool) []EnumVal {
	n := 1 + g.r.Intn(3)
	var out []EnumVal
	seen := map[string]bool{}
	for len(out) < n {
		var a Atom
		if str {
			a = strAtom(g.r.pick("a", "b", "c", "aa", "bb"))
		} else {
			a = intAtom(int64(g.r.Intn(8)) - 2)
		}
		k := fmt.Sprint(a.V)
		if seen[k] {
			continue
		}
		seen[k] = true
		d := g.display()
		if !d.Some && (g.clean || g.r.chance(0.7)) {
			d = OptD{Some: true} // empty display rather than a nil pointer
		}
		out = append(out, EnumVal{a, d})
	}
	return out
}

func (g *gen) newObject(extra []PropA, depth int) string {
	g.nextObj++
	id := fmt.Sprintf("O%d", g.nextObj)
	// reserve the slot first so that recursive references can name it
	g.objects = append(g.objects, KObj{Key: id})
	idx := len(g.objects) - 1
	props := append([]PropA{}, extra...)
	n := 2 + g.r.Intn(3) // at least two properties: a single-property cycle recurses for ever on non-mappings
	used := map[string]bool{}
	for _, p := range props {
		used[p.Name] = true
	}
	for i := 0; i < n; i++ {
		name := g.r.pick(plainNames...)
		if used[name] {
			continue
		}
		used[name] = true
		props = append(props, g.prop(name, depth+1))
	}
	g.decoratePresence(props)
	un := g.r.chance(0.1)
	g.objects[idx].Obj = &AST{Kind: "object", ID: ptr(id), Props: &props, IDUnenforced: ptr(un), Layout: "map"}
	return id
}

func (g *gen) decoratePresence(props []PropA) {
	if len(props) < 2 {
		return
	}
	for i := range props {
		other := props[(i+1)%len(props)].Name
		switch g.r.Intn(8) {
		case 0:
			props[i].RequiredIf = []string{other}
		case 1:
			props[i].RequiredIfNot = []string{other}
		case 2:
			props[i].Conflicts = []string{other}
		}
	}
}

func (g *gen) prop(name string, depth int) PropA {
	t := g.typ(depth)
	p := PropA{Name: name, Type: t, Display: g.display(), Required: g.r.chance(0.3),
		RequiredIf: []string{}, RequiredIfNot: []string{}, Conflicts: []string{}, Examples: []string{}}
	if g.r.chance(0.25) {
		switch t.Kind {
		case "int", "float", "any":
			p.Default = OptS{true, "1"}
		case "string":
			p.Default = OptS{true, g.r.pick("\"ab\"", "ab")}
		case "bool":
			p.Default = OptS{true, "true"}
		case "list":
			p.Default = OptS{true, "[]"}
		case "map", "object", "scope":
			// (no default on references: a defaulted property referring back to its own object expands for ever)
			p.Default = OptS{true, "{}"}
		}
	}
	if g.r.chance(0.15) {
		p.Examples = []string{"1"}
	}
	if g.r.chance(0.1) {
		p.Disabled = true
		if g.r.chance(0.7) {
			p.DisabledReason = OptS{true, "why"}
		}
	}
	return p
}

func (g *gen) scalar() *AST {
	switch g.r.Intn(9) {
	case 0, 1:
		lo := int64(0)
		if !g.clean {
			lo = -3
		}
		mn, mx := g.bounds(lo, 16)
		return &AST{Kind: "int", Min: mn, Max: mx, Units: g.units()}
	case 2:
		mn, mx := g.bounds(-8, 34)
		return &AST{Kind: "float", Min: mn, Max: mx, Units: g.units()}
	case 3, 4:
		mn, mx := g.bounds(0, 6)
		pat := &OptS{}
		if g.r.chance(0.3) {
			pat = &OptS{true, "^a"}
		}
		return &AST{Kind: "string", Min: mn, Max: mx, Pattern: pat}
	case 5:
		return &AST{Kind: "bool"}
	case 6:
		return &AST{Kind: g.r.pick("pattern", "any")}
	case 7:
		return &AST{Kind: "enum_int", Evals: g.enumVals(false), Units: g.units()}
	}
	return &AST{Kind: "enum_string", Evals: g.enumVals(true), Typed: ptr(!g.clean && g.r.chance(0.1))}
}

func (g *gen) ref() *AST {
	if g.ext && g.r.chance(0.15) {
		return &AST{Kind: "ref", ID: ptr("X"), NS: ptr("ext"), Display: ptr(g.display())}
	}
	var id string
	if len(g.objects) > 0 && g.r.chance(0.6) {
		id = g.objects[g.r.Intn(len(g.objects))].Key
	} else {
		id = g.newObject(nil, 3)
	}
	return &AST{Kind: "ref", ID: ptr(id), NS: ptr(""), Display: ptr(g.display())}
}

func (g *gen) typ(depth int) *AST {
	if depth > 3 {
		return g.scalar()
	}
	switch g.r.Intn(12) {
	case 0, 1, 2, 3, 4:
		return g.scalar()
	case 5:
		mn, mx := g.bounds(0, 3)
		items := g.typ(depth + 1)
		typed := !g.clean && items.Kind == "string" && g.r.chance(0.15)
		return &AST{Kind: "list", Items: items, Min: mn, Max: mx, Typed: ptr(typed)}
	case 6:
		mn, mx := g.bounds(0, 3)
		var keys *AST
		switch g.r.Intn(6) {
		case 0, 1:
			keys = &AST{Kind: "string", Min: &OptI{}, Max: &OptI{}, Pattern: &OptS{}}
		case 2:
			keys = &AST{Kind: "string", Min: &OptI{true, 1}, Max: &OptI{true, 4}, Pattern: &OptS{}}
		case 3, 4:
			keys = &AST{Kind: "int", Min: &OptI{}, Max: &OptI{}, Units: &OptU{}}
		default:
			if g.clean {
				keys = &AST{Kind: "int", Min: &OptI{true, 0}, Max: &OptI{}, Units: &OptU{}}
			} else {
				keys = &AST{Kind: "enum_string", Evals: g.enumVals(true), Typed: ptr(false)}
			}
		}
		return &AST{Kind: "map", Keys: keys, Values: g.typ(depth + 1), Min: mn, Max: mx, Typed: ptr(false)}
	case 7, 8:
		return g.ref()
	case 9:
		// inline object
		props := []PropA{g.prop("ia", depth+1)}
		if g.r.chance(0.5) {
			props = append(props, g.prop("ib", depth+1))
		}
		return &AST{Kind: "object", ID: ptr("In"), Props: &props, IDUnenforced: ptr(false), Layout: "map"}
	case 10:
		return g.oneOf(depth)
	}
	// nested scope with its own table
	inner := &gen{r: g.r, clean: g.clean}
	root := inner.newObject(nil, depth+1)
	objs := inner.objects
	return &AST{Kind: "scope", Root: ptr(root), Objects: &objs}
}

func (g *gen) oneOf(depth int) *AST {
	str := g.r.chance(0.6)
	inl := g.r.chance(0.4)
	field := g.r.pick("kind", "tt")
	n := 1 + g.r.Intn(2)
	var mems []Member
	for i := 0; i < n; i++ {
		var extra []PropA
		if inl {
			dt := &AST{Kind: "string", Min: &OptI{}, Max: &OptI{}, Pattern: &OptS{}}
			if !str {
				dt = &AST{Kind: "int", Min: &OptI{}, Max: &OptI{}, Units: &OptU{}}
			}
			extra = []PropA{{Name: field, Type: dt, Required: true, RequiredIf: []string{}, RequiredIfNot: []string{},
				Conflicts: []string{}, Examples: []string{}}}
		}
		id := g.newObject(extra, depth+1)
		// members declared before may not carry the field when not inlined: newObject draws names from plainNames only
		var key Atom
		if str {
			key = strAtom([]string{"x", "y", "w"}[i])
		} else {
			key = intAtom(int64(i + 1))
		}
		mems = append(mems, Member{key, &AST{Kind: "ref", ID: ptr(id), NS: ptr(""), Display: ptr(OptD{})}})
	}
	disc := "int"
	if str {
		disc = "string"
	}
	return &AST{Kind: "oneof", Disc: disc, Field: ptr(field), Inlined: ptr(inl), Members: &mems}
}

func (g *gen) scope() *AST {
	g.objects = nil
	root := g.newObject([]PropA{g.prop("p", 0)}, 0)
	objs := g.objects
	sort.Slice(objs, func(i, j int) bool { return objs[i].Key < objs[j].Key })
	return &AST{Kind: "scope", Root: ptr(root), Objects: &objs}
}

func (g *gen) plugin() *AST {
	n := 1 + g.r.Intn(2)
	var steps []KStep
	for i := 0; i < n; i++ {
		id := fmt.Sprintf("s%d", i+1)
		st := StepA{ID: id, Input: g.scope(), Display: g.display(), Outputs: []KOut{}, Handlers: []KSig{}, Emitters: []KSig{}}
		for j, oid := range []string{"ok", "err"}[:1+g.r.Intn(2)] {
			st.Outputs = append(st.Outputs, KOut{oid, OutA{g.scope(), g.display(), j == 1}})
		}
		if g.r.chance(0.6) {
			st.Handlers = append(st.Handlers, KSig{"h", SigA{"h", g.scope(), g.display()}})
		}
		if g.r.chance(0.5) {
			// half of the time under the ID of the handled signal: one ID on both sides of the step
			id := "e"
			if len(st.Handlers) > 0 && g.r.chance(0.5) {
				id = "h"
			}
			st.Emitters = append(st.Emitters, KSig{id, SigA{id, g.scope(), g.display()}})
		}
		steps = append(steps, KStep{id, st})
	}
	return &AST{Kind: "schema", Steps: &steps}
}

// ---------------------------------------------------------------------------------------------
// random mutations of a description tree (the same five classes as MetaMC, free choice of node and
// replacement)

type nodeRef struct {
	parent *Tree
	idx    int // index into parent.L or parent.M
}

func collect(t *Tree, out *[]nodeRef) {
	switch t.K {
	case "list":
		for i, c := range t.L {
			*out = append(*out, nodeRef{t, i})
			collect(c, out)
		}
	case "map":
		for i, e := range t.M {
			*out = append(*out, nodeRef{t, i})
			collect(e.Val, out)
		}
	}
}

func strPool(t *Tree, pool map[string]bool) {
	switch t.K {
	case "str":
		pool[t.S] = true
	case "list":
		for _, c := range t.L {
			strPool(c, pool)
		}
	case "map":
		for _, e := range t.M {
			strPool(e.Val, pool)
		}
	}
}

func (r *randSrc) atom() *Tree {
	switch r.Intn(14) {
	case 0:
		return tNil()
	case 1:
		return tB(true)
	case 2:
		return tB(false)
	case 3:
		return tN(0)
	case 4:
		return tN(1)
	case 5:
		return tN(-1)
	case 6:
		return tN(2)
	case 7:
		return tF(3)
	case 8:
		return tF(4)
	case 9:
		return tS("x")
	case 10:
		return tS("")
	case 11:
		return tS(r.pick("true", "1", "nowhere", "a b", "("))
	case 12:
		return &Tree{K: "map", M: []Entry{}}
	}
	return &Tree{K: "list", L: []*Tree{}}
}

func hasKey(t *Tree, k *Tree) bool {
	for _, e := range t.M {
		if e.Key.canon() == k.canon() {
			return true
		}
	}
	return false
}

// mutate applies one random mutation in place (t must be a container) and returns its class.
func (r *randSrc) mutate(t *Tree) (string, *Tree) {
	var nodes []nodeRef
	collect(t, &nodes)
	if len(nodes) == 0 || r.chance(0.03) {
		return "retype", r.atom()
	}
	pool := map[string]bool{"nowhere": true}
	strPool(t, pool)
	var ps []string
	for s := range pool {
		ps = append(ps, s)
	}
	sort.Strings(ps)
	for tries := 0; tries < 20; tries++ {
		n := nodes[r.Intn(len(nodes))]
		par := n.parent
		switch r.Intn(5) {
		case 0:
			if par.K == "list" {
				par.L = append(par.L[:n.idx:n.idx], par.L[n.idx+1:]...)
			} else {
				par.M = append(par.M[:n.idx:n.idx], par.M[n.idx+1:]...)
			}
			return "delete", t
		case 1:
			if par.K == "list" {
				par.L = append(par.L, par.L[n.idx].clone())
				return "duplicate", t
			}
			k := tS("zz2")
			if hasKey(par, k) {
				continue
			}
			par.M = append(par.M, Entry{k, par.M[n.idx].Val.clone()})
			return "duplicate", t
		case 2:
			if par.K != "map" {
				continue
			}
			k := []*Tree{tS("zz"), tN(7), tS(ps[r.Intn(len(ps))])}[r.Intn(3)]
			if hasKey(par, k) {
				continue
			}
			par.M[n.idx].Key = k
			return "rename", t
		case 3:
			a := r.atom()
			if par.K == "list" {
				if par.L[n.idx].canon() == a.canon() {
					continue
				}
				par.L[n.idx] = a
			} else {
				if par.M[n.idx].Val.canon() == a.canon() {
					continue
				}
				par.M[n.idx].Val = a
			}
			return "retype", t
		case 4:
			var c *Tree
			if par.K == "list" {
				c = par.L[n.idx]
			} else {
				c = par.M[n.idx].Val
			}
			if c.K != "str" {
				continue
			}
			s := ps[r.Intn(len(ps))]
			if s == c.S {
				continue
			}
			c.S = s
			return "repoint", t
		}
	}
	return "retype", r.atom()
}

// ---------------------------------------------------------------------------------------------

type traceLine struct {
	Ev        string   `json:"ev"`
	Target    string   `json:"target"`
	AST       *AST     `json:"ast,omitempty"`
	Desc      *Tree    `json:"desc"`
	Described bool     `json:"described"`
	Acc       string   `json:"acc"`
	Link      string   `json:"link"`
	Use       string   `json:"use"`
	Labels    []string `json:"labels"`
}

type randCase struct {
	Mode     string    `json:"mode"`
	What     string    `json:"what"`
	Target   string    `json:"target"`
	AST      *AST      `json:"ast,omitempty"`
	Tree     *Tree     `json:"tree,omitempty"`
	Labels   []string  `json:"labels,omitempty"`
	Seed     int64     `json:"seed"`
	Builders []Builder `json:"builders,omitempty"`
}

func doRand(c *Case) *Result {
	total := &Result{}
	r := newRand(c.Seed)
	// replay of one recorded random case
	if c.AST != nil || c.Tree != nil {
		runRandCaseB(c.What, c.Target, c.AST, c.Tree, c.Labels, c.Seed, total, c.Builders)
		return total
	}
	for i := 0; i < c.Count; i++ {
		g := &gen{r: r, clean: r.chance(0.85), ext: r.chance(0.2)}
		target := "scope"
		var a *AST
		if r.chance(0.25) {
			target = "schema"
			g.ext = false
			a = g.plugin()
		} else {
			a = g.scope()
		}
		if c.What == "c09" {
			// half of the schemas go through the life cycle: built, described, a property disabled through the
			// public builder, described again (the AST handed on is the schema after the call)
			var bs []Builder
			if r.chance(0.5) {
				bs = disableOne(r, a, target)
			}
			runRandCaseB("c09", target, a, nil, nil, c.Seed*1000+int64(i), total, bs)
			continue
		}
		// c10: the real description of a describable schema, randomly mutated
		g2 := *g
		_ = g2
		a = neutralize(a, map[string]bool{"neg_int_bound": true, "nil_display": true, "typed_enum_string": true,
			"typed_list": true, "typed_map": true, "enum_key": true})
		b, pi := buildTop(a, target, false)
		if pi != nil {
			total.HarnessError = "random schema cannot be built: " + pi.Msg + " @" + pi.Frame
			return total
		}
		d0, err, pi := b.selfSerialize()
		if err != nil || pi != nil {
			continue // reported by the c09 half of the driver
		}
		t, err := fromGo(d0)
		if err != nil {
			total.Unabstracted++
			continue
		}
		var labels []string
		nm := r.Intn(4) // 0..3 mutations
		for k := 0; k < nm; k++ {
			var lab string
			lab, t = r.mutate(t)
			labels = append(labels, lab)
			if t.K != "map" && t.K != "list" {
				break
			}
		}
		runRandCase("c10", target, nil, t, labels, c.Seed*1000+int64(i), total)
	}
	return total
}

// disableOne picks a property that is not disabled, marks it disabled in the AST and returns the builder call.
func disableOne(r *randSrc, a *AST, target string) []Builder {
	scopes := astScopes(a, target)
	names := make([]string, 0, len(scopes))
	for n := range scopes {
		names = append(names, n)
	}
	sort.Strings(names)
	for tries := 0; tries < 10 && len(names) > 0; tries++ {
		name := names[r.Intn(len(names))]
		objs := scopes[name].objects()
		if len(objs) == 0 {
			continue
		}
		o := objs[r.Intn(len(objs))]
		ps := o.Obj.props()
		if len(ps) == 0 {
			continue
		}
		i := r.Intn(len(ps))
		if ps[i].Disabled {
			continue
		}
		ps[i].Disabled = true
		ps[i].DisabledReason = OptS{true, "why"}
		return []Builder{{Op: "disable", Scope: name, Obj: o.Key, Prop: ps[i].Name, Reason: "why"}}
	}
	return nil
}

func runRandCase(what, target string, a *AST, t *Tree, labels []string, seed int64, total *Result) {
	runRandCaseB(what, target, a, t, labels, seed, total, nil)
}

func runRandCaseB(what, target string, a *AST, t *Tree, labels []string, seed int64, total *Result, bs []Builder) {
	replay := randCase{Mode: "rand", What: what, Target: target, AST: a, Tree: t, Labels: labels, Seed: seed, Builders: bs}
	r := &Result{}
	if what == "c09" {
		cc := &Case{Mode: "c09", Target: target, AST: a, Seed: seed, Builders: bs}
		doC09(cc, r, replay)
		// trace line: the real description (when there is one) and the stage facts on it
		b, pi := buildTop(a, target, false)
		if pi == nil {
			d0, err, pi := b.selfSerialize()
			line := traceLine{Ev: "c09", Target: target, AST: a, Labels: []string{}}
			if err == nil && pi == nil {
				if tr, aerr := fromGo(d0); aerr == nil {
					f := facts(target, d0)
					line.Desc, line.Described, line.Acc, line.Link, line.Use = tr, true, f.Acc, f.Link, f.Use
					if len(r.Violations) == 0 || onlyLinkFindings(r) {
						total.Trace = append(total.Trace, line)
					}
				} else {
					total.Unabstracted++
				}
			}
		}
	} else {
		cc := &Case{Mode: "c10", Target: target, Labels: labels, Seed: seed}
		doC10(cc, t, r, replay)
		f := facts(target, t.toGo())
		lb := labels
		if lb == nil {
			lb = []string{}
		}
		total.Trace = append(total.Trace, traceLine{Ev: "c10", Target: target, Desc: t, Described: true,
			Acc: f.Acc, Link: f.Link, Use: f.Use, Labels: lb})
	}
	total.Evals += r.Evals
	total.Unabstracted += r.Unabstracted
	if r.HarnessError != "" {
		total.HarnessError = r.HarnessError
	}
	for _, v := range r.Violations {
		dup := false
		for _, w := range total.Violations {
			if fmt.Sprint(w.Sig) == fmt.Sprint(v.Sig) {
				dup = true
			}
		}
		if !dup {
			total.Violations = append(total.Violations, v)
		}
	}
	for _, d := range r.Drift {
		if len(total.Drift) < 12 {
			total.Drift = append(total.Drift, d)
		}
	}
}

// onlyLinkFindings: the case's violations are all about the missing link step (the description itself
// and the stage facts are still meaningful for the trace).
func onlyLinkFindings(r *Result) bool {
	for _, v := range r.Violations {
		if v.Sig["kind"] != "unlinked_ref" {
			return false
		}
	}
	return true
}

var _ = json.Marshal
