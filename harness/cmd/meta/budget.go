//go:build verif

package main

// Crash-class budget.  A seeded or broken tree can make thousands of vectors kill the worker (fatal
// stack exhaustion) or hang it; the supervisor restarts the worker and re-runs such a case twice, which
// is right for a verdict but ruinous when repeated per case.  The workers therefore share a small state
// directory (-state): before a case a worker leaves an "in flight" marker carrying the case's class and
// hash; a marker whose process is gone means that worker died (or was killed) on that case, and is turned
// into a count for the class and a "crashed" note for the case.  Once a class has reached its limit, the
// remaining cases of the class are skipped (reported as skipped, counted by the orchestrator) - except the
// cases already known to crash, so that the supervisor's confirmation re-runs still reproduce.

import (
	"crypto/sha1"
	"encoding/hex"
	"flag"
	"fmt"
	"os"
	"path/filepath"
	"strconv"
	"strings"
	"syscall"
)

var stateDir = flag.String("state", "", "directory shared by the workers of one run (crash-class budget)")

// deaths allowed per class: a crashing case dies three times (first run + two confirmation re-runs)
const classDeathLimit = 15

func hashOf(s string) string {
	h := sha1.Sum([]byte(s))
	return hex.EncodeToString(h[:8])
}

// reap turns the markers of dead workers into counts.
func reap() {
	if *stateDir == "" {
		return
	}
	ms, _ := filepath.Glob(filepath.Join(*stateDir, "inflight-*"))
	for _, m := range ms {
		pid, err := strconv.Atoi(strings.TrimPrefix(filepath.Base(m), "inflight-"))
		if err != nil || pid == os.Getpid() {
			continue
		}
		if syscall.Kill(pid, 0) == nil {
			continue // still running
		}
		b, err := os.ReadFile(m)
		if err != nil {
			continue
		}
		parts := strings.SplitN(string(b), "\n", 2)
		if len(parts) != 2 {
			continue
		}
		// order matters: the case is noted as crashed BEFORE the marker disappears, so that a worker that
		// re-runs the case never finds neither.  (Two workers reaping the same marker count it twice: harmless.)
		_ = os.WriteFile(filepath.Join(*stateDir, "crashed-"+parts[1]), nil, 0o644)
		if f, err := os.OpenFile(filepath.Join(*stateDir, "class-"+parts[0]), os.O_CREATE|os.O_APPEND|os.O_WRONLY, 0o644); err == nil {
			_, _ = f.Write([]byte{'x'})
			_ = f.Close()
		}
		_ = os.Remove(m)
	}
}

// begin returns false when the case is to be skipped (its class is over the limit and the case itself is
// not known to crash); otherwise it leaves the in-flight marker.
func begin(class string, caseText []byte) bool {
	if *stateDir == "" {
		return true
	}
	reap()
	ch, kh := hashOf(class), hashOf(string(caseText))
	if st, err := os.Stat(filepath.Join(*stateDir, "class-"+ch)); err == nil && st.Size() >= classDeathLimit {
		if _, err := os.Stat(filepath.Join(*stateDir, "crashed-"+kh)); err != nil {
			return false
		}
	}
	_ = os.WriteFile(filepath.Join(*stateDir, fmt.Sprintf("inflight-%d", os.Getpid())), []byte(ch+"\n"+kh), 0o644)
	return true
}

func end() {
	if *stateDir == "" {
		return
	}
	_ = os.Remove(filepath.Join(*stateDir, fmt.Sprintf("inflight-%d", os.Getpid())))
}
