//go:build verif

package main

// Abstract schema ASTs shared with spec/Meta.tla (the JSON shape is what ToJson produces for the
// TLA+ records, and what spec/MetaTrace.tla reads back), and their concretisation through the
// PUBLIC constructors of the schema package.

import (
	"context"
	"encoding/json"
	"fmt"
	"regexp"
	"sort"

	"go.flow.arcalot.io/pluginsdk/schema"
)

type OptI struct {
	Some bool  `json:"some"`
	V    int64 `json:"v"`
}
type OptS struct {
	Some bool   `json:"some"`
	V    string `json:"v"`
}
type Disp struct {
	Name        OptS `json:"name"`
	Description OptS `json:"description"`
	Icon        OptS `json:"icon"`
}
type OptD struct {
	Some bool `json:"some"`
	V    Disp `json:"v"`
}
type UnitA struct {
	SS string `json:"ss"`
	SP string `json:"sp"`
	LS string `json:"ls"`
	LP string `json:"lp"`
}
type MultA struct {
	M    int64 `json:"m"`
	Unit UnitA `json:"unit"`
}
type UnitsA struct {
	// Pkg names one of the SDK's package-level unit sets, used by identity: nanos, seconds, bytes, chars, pct
	Pkg   string  `json:"pkg"`
	Base  UnitA   `json:"base"`
	Mults []MultA `json:"mults"`
}
type OptU struct {
	Some bool   `json:"some"`
	V    UnitsA `json:"v"`
}

// the option records must not carry "v" when empty: TLC compares [some |-> FALSE] with None
func (o OptI) MarshalJSON() ([]byte, error) {
	if !o.Some {
		return []byte(`{"some":false}`), nil
	}
	return []byte(fmt.Sprintf(`{"some":true,"v":%d}`, o.V)), nil
}
func (o OptS) MarshalJSON() ([]byte, error) {
	if !o.Some {
		return []byte(`{"some":false}`), nil
	}
	b, _ := json.Marshal(o.V)
	return []byte(`{"some":true,"v":` + string(b) + `}`), nil
}
func (o OptD) MarshalJSON() ([]byte, error) {
	if !o.Some {
		return []byte(`{"some":false}`), nil
	}
	b, _ := json.Marshal(o.V)
	return []byte(`{"some":true,"v":` + string(b) + `}`), nil
}
func (o OptU) MarshalJSON() ([]byte, error) {
	if !o.Some {
		return []byte(`{"some":false}`), nil
	}
	b, _ := json.Marshal(o.V)
	return []byte(`{"some":true,"v":` + string(b) + `}`), nil
}
func (u UnitsA) MarshalJSON() ([]byte, error) {
	if u.Pkg != "" {
		b, _ := json.Marshal(u.Pkg)
		return []byte(`{"pkg":` + string(b) + `}`), nil
	}
	m := u.Mults
	if m == nil {
		m = []MultA{}
	}
	return json.Marshal(struct {
		Pkg   string  `json:"pkg"`
		Base  UnitA   `json:"base"`
		Mults []MultA `json:"mults"`
	}{"", u.Base, m})
}

// Atom is an enum value or a one-of key: a string or an integer.
type Atom struct {
	K   string `json:"k"`
	Rep string `json:"rep,omitempty"`
	V   any    `json:"v"`
}

func (a Atom) isStr() bool { return a.K == "str" }
func (a Atom) str() string { s, _ := a.V.(string); return s }
func (a Atom) int() int64 {
	switch v := a.V.(type) {
	case float64:
		return int64(v)
	case int64:
		return v
	case int:
		return int64(v)
	}
	return 0
}
func strAtom(s string) Atom { return Atom{K: "str", V: s} }
func intAtom(i int64) Atom  { return Atom{K: "num", Rep: "i", V: i} }

type EnumVal struct {
	V       Atom `json:"v"`
	Display OptD `json:"display"`
}
type Member struct {
	Key  Atom `json:"key"`
	Type *AST `json:"type"`
}
type KObj struct {
	Key string `json:"key"`
	Obj *AST   `json:"obj"`
}
type PropA struct {
	Name           string   `json:"name"`
	Type           *AST     `json:"type"`
	Display        OptD     `json:"display"`
	Required       bool     `json:"required"`
	RequiredIf     []string `json:"required_if"`
	RequiredIfNot  []string `json:"required_if_not"`
	Conflicts      []string `json:"conflicts"`
	Default        OptS     `json:"default"`
	Examples       []string `json:"examples"`
	Disabled       bool     `json:"disabled"`
	DisabledReason OptS     `json:"disabled_reason"`
	EmptyIsDefault bool     `json:"empty_is_default"`
}
type OutA struct {
	Schema  *AST `json:"schema"`
	Display OptD `json:"display"`
	Error   bool `json:"error"`
}
type SigA struct {
	ID      string `json:"id"`
	Data    *AST   `json:"data"`
	Display OptD   `json:"display"`
}
type KOut struct {
	Key string `json:"key"`
	X   OutA   `json:"x"`
}
type KSig struct {
	Key string `json:"key"`
	X   SigA   `json:"x"`
}
type StepA struct {
	ID       string `json:"id"`
	Input    *AST   `json:"input"`
	Outputs  []KOut `json:"outputs"`
	Handlers []KSig `json:"handlers"`
	Emitters []KSig `json:"emitters"`
	Display  OptD   `json:"display"`
}
type KStep struct {
	Key string `json:"key"`
	X   StepA  `json:"x"`
}

// AST is one schema node; which fields are meaningful depends on Kind (see spec/Meta.tla).
type AST struct {
	Kind         string    `json:"kind"`
	Min          *OptI     `json:"min,omitempty"` // float: halves
	Max          *OptI     `json:"max,omitempty"`
	Units        *OptU     `json:"units,omitempty"`
	Pattern      *OptS     `json:"pattern,omitempty"`
	Evals        []EnumVal `json:"evals,omitempty"`
	Typed        *bool     `json:"typed,omitempty"`
	Items        *AST      `json:"items,omitempty"`
	Keys         *AST      `json:"keys,omitempty"`
	Values       *AST      `json:"values,omitempty"`
	ID           *string   `json:"id,omitempty"`
	Props        *[]PropA  `json:"props,omitempty"`
	IDUnenforced *bool     `json:"id_unenforced,omitempty"`
	Layout       string    `json:"layout,omitempty"`
	Disc         string    `json:"disc,omitempty"`
	Field        *string   `json:"field,omitempty"`
	Inlined      *bool     `json:"inlined,omitempty"`
	Members      *[]Member `json:"members,omitempty"`
	NS           *string   `json:"ns,omitempty"`
	Display      *OptD     `json:"display,omitempty"`
	Root         *string   `json:"root,omitempty"`
	Objects      *[]KObj   `json:"objects,omitempty"`
	Steps        *[]KStep  `json:"steps,omitempty"`
}

func (a *AST) typed() bool { return a.Typed != nil && *a.Typed }
func (a *AST) props() []PropA {
	if a.Props == nil {
		return nil
	}
	return *a.Props
}
func (a *AST) members() []Member {
	if a.Members == nil {
		return nil
	}
	return *a.Members
}
func (a *AST) objects() []KObj {
	if a.Objects == nil {
		return nil
	}
	return *a.Objects
}
func (a *AST) steps() []KStep {
	if a.Steps == nil {
		return nil
	}
	return *a.Steps
}
func optI(o *OptI) OptI {
	if o == nil {
		return OptI{}
	}
	return *o
}

func ptr[T any](v T) *T { return &v }

// ---------------------------------------------------------------------------------------------
// concretisation through the public constructors

type namedStr string

// catPQ: the struct a struct-mapped root object {p, q} is mapped onto.
type catPQ struct {
	P any    `json:"p"`
	Q *int64 `json:"q"`
}

func mkDisplay(o OptD) *schema.DisplayValue {
	if !o.Some {
		return nil
	}
	var n, d, i *string
	if o.V.Name.Some {
		n = ptr(o.V.Name.V)
	}
	if o.V.Description.Some {
		d = ptr(o.V.Description.V)
	}
	if o.V.Icon.Some {
		i = ptr(o.V.Icon.V)
	}
	return schema.NewDisplayValue(n, d, i)
}

// mkDisplayI returns a nil interface (not a typed nil pointer) for "no display".
func mkDisplayI(o OptD) schema.Display {
	if !o.Some {
		return nil
	}
	return mkDisplay(o)
}

// the package-level unit sets, by identity
var pkgUnits = map[string]*schema.UnitsDefinition{
	"nanos":   schema.UnitDurationNanoseconds,
	"seconds": schema.UnitDurationSeconds,
	"bytes":   schema.UnitBytes,
	"chars":   schema.UnitCharacters,
	"pct":     schema.UnitPercentage,
}
var pkgUnitNames = []string{"bytes", "chars", "nanos", "pct", "seconds"}

func mkUnits(o *OptU) *schema.UnitsDefinition {
	if o == nil || !o.Some {
		return nil
	}
	u := o.V
	if u.Pkg != "" {
		return pkgUnits[u.Pkg]
	}
	var mults map[int64]*schema.UnitDefinition
	if len(u.Mults) > 0 {
		mults = map[int64]*schema.UnitDefinition{}
		for _, m := range u.Mults {
			mults[m.M] = schema.NewUnit(m.Unit.SS, m.Unit.SP, m.Unit.LS, m.Unit.LP)
		}
	}
	return schema.NewUnits(schema.NewUnit(u.Base.SS, u.Base.SP, u.Base.LS, u.Base.LP), mults)
}

func i64p(o *OptI) *int64 {
	if o == nil || !o.Some {
		return nil
	}
	return ptr(o.V)
}
func f64p(o *OptI) *float64 {
	if o == nil || !o.Some {
		return nil
	}
	return ptr(float64(o.V) / 2)
}

// the external namespace offered to references with ns = "ext"
func extObjects() map[string]*schema.ObjectSchema {
	return map[string]*schema.ObjectSchema{
		"X": schema.NewObjectSchema("X", map[string]*schema.PropertySchema{
			"n": schema.NewPropertySchema(schema.NewIntSchema(nil, nil, nil), nil, false, nil, nil, nil, nil, nil),
		}),
	}
}

func mkProp(p PropA) *schema.PropertySchema {
	var def *string
	if p.Default.Some {
		def = ptr(p.Default.V)
	}
	ps := schema.NewPropertySchema(mkType(p.Type), mkDisplayI(p.Display), p.Required,
		nilIfEmpty(p.RequiredIf), nilIfEmpty(p.RequiredIfNot), nilIfEmpty(p.Conflicts), def, nilIfEmpty(p.Examples))
	if p.Disabled {
		if p.DisabledReason.Some {
			ps.Disable(p.DisabledReason.V)
		} else {
			ps.Disabled = true
		}
	}
	if p.EmptyIsDefault {
		ps.TreatEmptyAsDefaultValue()
	}
	return ps
}

func nilIfEmpty(s []string) []string {
	if len(s) == 0 {
		return nil
	}
	return s
}

func mkObject(a *AST) *schema.ObjectSchema {
	props := map[string]*schema.PropertySchema{}
	for _, p := range a.props() {
		props[p.Name] = mkProp(p)
	}
	id := ""
	if a.ID != nil {
		id = *a.ID
	}
	switch a.Layout {
	case "catPQ":
		return schema.NewStructMappedObjectSchema[catPQ](id, props)
	}
	if a.IDUnenforced != nil && *a.IDUnenforced {
		return schema.NewUnenforcedIDObjectSchema(id, props)
	}
	return schema.NewObjectSchema(id, props)
}

func mkScope(a *AST) *schema.ScopeSchema {
	var root *schema.ObjectSchema
	var others []*schema.ObjectSchema
	for _, o := range a.objects() {
		obj := mkObject(o.Obj)
		if o.Key == *a.Root {
			root = obj
		} else {
			others = append(others, obj)
		}
	}
	sc := schema.NewScopeSchema(root, others...)
	if usesNS(a, "ext") {
		sc.ApplyNamespace(extObjects(), "ext")
	}
	return sc
}

func mkMember(a *AST) schema.Object {
	switch a.Kind {
	case "ref":
		return mkType(a).(schema.Object)
	case "scope":
		return mkScope(a)
	case "object":
		return mkObject(a)
	}
	panic("harness: one-of member of kind " + a.Kind)
}

func mkType(a *AST) schema.Type {
	switch a.Kind {
	case "int":
		return schema.NewIntSchema(i64p(a.Min), i64p(a.Max), mkUnits(a.Units))
	case "float":
		return schema.NewFloatSchema(f64p(a.Min), f64p(a.Max), mkUnits(a.Units))
	case "string":
		var re *regexp.Regexp
		if a.Pattern != nil && a.Pattern.Some {
			re = regexp.MustCompile(a.Pattern.V)
		}
		return schema.NewStringSchema(i64p(a.Min), i64p(a.Max), re)
	case "bool":
		return schema.NewBoolSchema()
	case "pattern":
		return schema.NewPatternSchema()
	case "any":
		return schema.NewAnySchema()
	case "enum_int":
		vals := map[int64]*schema.DisplayValue{}
		for _, v := range a.Evals {
			vals[v.V.int()] = mkDisplay(v.Display)
		}
		return schema.NewIntEnumSchema(vals, mkUnits(a.Units))
	case "enum_string":
		if a.typed() {
			vals := map[namedStr]*schema.DisplayValue{}
			for _, v := range a.Evals {
				vals[namedStr(v.V.str())] = mkDisplay(v.Display)
			}
			return schema.NewTypedStringEnumSchema[namedStr](vals)
		}
		vals := map[string]*schema.DisplayValue{}
		for _, v := range a.Evals {
			vals[v.V.str()] = mkDisplay(v.Display)
		}
		return schema.NewStringEnumSchema(vals)
	case "list":
		if a.typed() {
			if a.Items.Kind != "string" {
				panic("harness: typed list of " + a.Items.Kind)
			}
			return schema.NewTypedListSchema[string](mkType(a.Items).(*schema.StringSchema), i64p(a.Min), i64p(a.Max))
		}
		return schema.NewListSchema(mkType(a.Items), i64p(a.Min), i64p(a.Max))
	case "map":
		if a.typed() {
			if a.Keys.Kind != "string" || a.Values.Kind != "int" {
				panic("harness: typed map of " + a.Keys.Kind + "/" + a.Values.Kind)
			}
			return schema.NewTypedMapSchema[string, int64](mkType(a.Keys).(*schema.StringSchema),
				mkType(a.Values).(*schema.IntSchema), i64p(a.Min), i64p(a.Max))
		}
		return schema.NewMapSchema(mkType(a.Keys), mkType(a.Values), i64p(a.Min), i64p(a.Max))
	case "object":
		return mkObject(a)
	case "oneof":
		if a.Disc == "string" {
			ms := map[string]schema.Object{}
			for _, m := range a.members() {
				ms[m.Key.str()] = mkMember(m.Type)
			}
			return schema.NewOneOfStringSchema[any](ms, *a.Field, *a.Inlined)
		}
		ms := map[int64]schema.Object{}
		for _, m := range a.members() {
			ms[m.Key.int()] = mkMember(m.Type)
		}
		return schema.NewOneOfIntSchema[any](ms, *a.Field, *a.Inlined)
	case "ref":
		var d OptD
		if a.Display != nil {
			d = *a.Display
		}
		return schema.NewNamespacedRefSchema(*a.ID, *a.NS, mkDisplayI(d))
	case "scope":
		return mkScope(a)
	}
	panic("harness: unknown AST kind " + a.Kind)
}

// usesNS: does the scope (not looking into nested scopes, which the namespace walk does reach too)
// contain a reference to namespace ns
func usesNS(a *AST, ns string) bool {
	found := false
	walkAST(a, func(n *AST) {
		if n.Kind == "ref" && n.NS != nil && *n.NS == ns {
			found = true
		}
	})
	return found
}

// walkAST visits every type node below a (properties, items, members, objects, steps).
func walkAST(a *AST, f func(*AST)) {
	if a == nil {
		return
	}
	f(a)
	walkAST(a.Items, f)
	walkAST(a.Keys, f)
	walkAST(a.Values, f)
	for _, p := range a.props() {
		walkAST(p.Type, f)
	}
	for _, m := range a.members() {
		walkAST(m.Type, f)
	}
	for _, o := range a.objects() {
		walkAST(o.Obj, f)
	}
	for _, s := range a.steps() {
		walkAST(s.X.Input, f)
		for _, o := range s.X.Outputs {
			walkAST(o.X.Schema, f)
		}
		for _, g := range s.X.Handlers {
			walkAST(g.X.Data, f)
		}
		for _, g := range s.X.Emitters {
			walkAST(g.X.Data, f)
		}
	}
}

// ---------------------------------------------------------------------------------------------
// plugin schemas

func mkOutputs(outs []KOut) map[string]*schema.StepOutputSchema {
	m := map[string]*schema.StepOutputSchema{}
	for _, o := range outs {
		m[o.Key] = schema.NewStepOutputSchema(mkScope(o.X.Schema), mkDisplay(o.X.Display), o.X.Error)
	}
	return m
}

func mkSignals(sigs []KSig) map[string]*schema.SignalSchema {
	if len(sigs) == 0 {
		return nil
	}
	m := map[string]*schema.SignalSchema{}
	for _, g := range sigs {
		m[g.Key] = schema.NewSignalSchema(g.X.ID, mkScope(g.X.Data), mkDisplayI(g.X.Display))
	}
	return m
}

// mkPlainSchema: NewSchema over NewStepSchema.
func mkPlainSchema(a *AST) *schema.SchemaSchema {
	steps := map[string]*schema.StepSchema{}
	for _, s := range a.steps() {
		steps[s.Key] = schema.NewStepSchema(s.X.ID, mkScope(s.X.Input), mkOutputs(s.X.Outputs),
			mkSignals(s.X.Handlers), mkSignals(s.X.Emitters), mkDisplayI(s.X.Display))
	}
	return schema.NewSchema(steps).(*schema.SchemaSchema)
}

// mkCallableSchema: what a plugin hands to RunATPServer.
func mkCallableSchema(a *AST) *schema.CallableSchema {
	var steps []schema.CallableStep
	for _, s := range a.steps() {
		var handlers map[string]schema.CallableSignal
		if len(s.X.Handlers) > 0 {
			handlers = map[string]schema.CallableSignal{}
			for _, g := range s.X.Handlers {
				handlers[g.Key] = schema.NewCallableSignal[any, any](g.X.ID, mkScope(g.X.Data), mkDisplayI(g.X.Display),
					func(context.Context, any, any) {})
			}
		}
		steps = append(steps, schema.NewCallableStepWithSignals[any, any](s.X.ID, mkScope(s.X.Input),
			mkOutputs(s.X.Outputs), handlers, mkSignals(s.X.Emitters), mkDisplayI(s.X.Display), nil,
			func(context.Context, any, any) (string, any) { return "", nil }))
	}
	return schema.NewCallableSchema(steps...)
}

// ---------------------------------------------------------------------------------------------
// features no description can carry on the pinned tree (used to attribute a failed SelfSerialize to
// one defect class each, and to go on with the remaining checks)

func features(a *AST) []string {
	set := map[string]bool{}
	walkAST(a, func(n *AST) {
		switch n.Kind {
		case "int":
			if (n.Min != nil && n.Min.Some && n.Min.V < 0) || (n.Max != nil && n.Max.Some && n.Max.V < 0) {
				set["neg_int_bound"] = true
			}
		case "enum_int", "enum_string":
			for _, v := range n.Evals {
				if !v.Display.Some {
					set["nil_display"] = true
				}
			}
			if n.typed() {
				set["typed_enum_string"] = true
			}
		case "list":
			if n.typed() {
				set["typed_list"] = true
			}
		case "map":
			if n.typed() {
				set["typed_map"] = true
			}
			if n.Keys != nil && (n.Keys.Kind == "enum_int" || n.Keys.Kind == "enum_string") {
				set["enum_key"] = true
			}
		}
	})
	var out []string
	for k := range set {
		out = append(out, k)
	}
	sort.Strings(out)
	return out
}

// neutralize returns a deep copy of a in which the listed features are replaced by describable
// neighbours (typed -> untyped, enum key -> string key, nil display -> empty display, negative bound -> none).
func neutralize(a *AST, feats map[string]bool) *AST {
	b, _ := json.Marshal(a)
	var c AST
	_ = json.Unmarshal(b, &c)
	walkAST(&c, func(n *AST) {
		switch n.Kind {
		case "int":
			if feats["neg_int_bound"] {
				if n.Min != nil && n.Min.Some && n.Min.V < 0 {
					n.Min = &OptI{}
				}
				if n.Max != nil && n.Max.Some && n.Max.V < 0 {
					n.Max = &OptI{}
				}
			}
		case "enum_int", "enum_string":
			if feats["nil_display"] {
				for i := range n.Evals {
					if !n.Evals[i].Display.Some {
						n.Evals[i].Display = OptD{Some: true}
					}
				}
			}
			if feats["typed_enum_string"] && n.typed() {
				n.Typed = ptr(false)
			}
		case "list":
			if feats["typed_list"] && n.typed() {
				n.Typed = ptr(false)
			}
		case "map":
			if feats["typed_map"] && n.typed() {
				n.Typed = ptr(false)
			}
			if feats["enum_key"] && n.Keys != nil && (n.Keys.Kind == "enum_int" || n.Keys.Kind == "enum_string") {
				if n.Keys.Kind == "enum_int" {
					n.Keys = &AST{Kind: "int", Min: &OptI{}, Max: &OptI{}, Units: &OptU{}}
				} else {
					n.Keys = &AST{Kind: "string", Min: &OptI{}, Max: &OptI{}, Pattern: &OptS{}}
				}
			}
		}
	})
	return &c
}
