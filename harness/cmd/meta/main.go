//go:build verif

// Command meta is the conformance driver of C09 (self-description is a fixed point) and C10 (a
// received schema is rejected with an error or fully usable).
//
// Cases (one JSON object per line, see spec/MetaMC.tla Export):
//
//	{"mode":"bind", toks:[..]}                       token tables of the specification vs. the standard library
//	{"mode":"c09", target, ast, desc, minimal}        build the schema through the public constructors; verdicts
//	                                                  from real artefacts (SelfSerialize, the real meta-schema,
//	                                                  real CBOR/YAML/JSON, real ATP hello); shape comparison = drift
//	{"mode":"c10", target, desc, labels, stage,cause} hand the (mutated) description to UnserializeScope /
//	                                                  UnserializeSchema / Client.ReadSchema; error-or-usable
//	{"mode":"rand", what:"c09"|"c10", seed, count}    seeded random schemas / mutations beyond the enumerated
//	                                                  universe; the same verdicts, plus trace lines for MetaTrace
package main

import (
	"context"
	"encoding/json"
	"fmt"
	"io"
	"regexp"
	"runtime/debug"
	"strconv"
	"strings"
	"time"

	"github.com/fxamacker/cbor/v2"
	"go.flow.arcalot.io/pluginsdk/atp"
	"go.flow.arcalot.io/pluginsdk/schema"
	"verif/harness/sup"
)

type Case struct {
	Mode        string                     `json:"mode"`
	Target      string                     `json:"target"`
	AST         *AST                       `json:"ast"`
	Desc        json.RawMessage            `json:"desc"`
	Minimal     json.RawMessage            `json:"minimal"`
	Labels      []string                   `json:"labels"`
	GrammarFree bool                       `json:"grammar_free"`
	Accepts     bool                       `json:"accepts"`
	Stage       string                     `json:"stage"`
	Cause       string                     `json:"cause"`
	Toks        []TokAttr                  `json:"toks"`
	Xf          map[string]json.RawMessage `json:"xf"`
	XfSample    json.RawMessage            `json:"xf_sample"`
	UToks       []string                   `json:"utoks"`
	Builders    []Builder                  `json:"builders"`
	What        string                     `json:"what"`
	Seed        int64                      `json:"seed"`
	Count       int                        `json:"count"`
	// replay of a recorded random case
	Tree *Tree `json:"tree,omitempty"`
}

// Builder is one call of a public builder on a built schema (spec/MetaMC.tla Bld): the AST of the case is the
// schema AFTER the calls.
type Builder struct {
	Op     string `json:"op"` // disable | treat_empty
	Scope  string `json:"scope"`
	Obj    string `json:"obj"`
	Prop   string `json:"prop"`
	Reason string `json:"reason"`
}

type TokAttr struct {
	Tok    string `json:"tok"`
	ID     bool   `json:"id"`
	Pat    bool   `json:"pat"`
	JSON   bool   `json:"json"`
	Quoted bool   `json:"quoted"`
	Word   string `json:"word"`
	Int    OptI   `json:"int"`
}

type Violation struct {
	Sig    map[string]any `json:"sig"`
	Detail string         `json:"detail"`
	Case   any            `json:"case,omitempty"` // for random cases: what is needed to replay
}
type Drift struct {
	What   string `json:"what"`
	Detail string `json:"detail"`
}
type Result struct {
	Evals        int         `json:"evals"`
	Key          string      `json:"key,omitempty"`
	Violations   []Violation `json:"violations,omitempty"`
	Drift        []Drift     `json:"drift,omitempty"`
	Trace        []any       `json:"trace,omitempty"`
	Unabstracted int         `json:"unabstracted,omitempty"`
	BindError    string      `json:"bind_error,omitempty"`
	HarnessError string      `json:"harness_error,omitempty"`
	Observed     any         `json:"observed,omitempty"`
	Skipped      string      `json:"skipped,omitempty"`
}

func (r *Result) violate(stage, kind, mutation, via, frame, detail string) {
	for _, v := range r.Violations {
		if v.Sig["stage"] == stage && v.Sig["kind"] == kind && v.Sig["frame"] == frame && v.Sig["via"] == via {
			return
		}
	}
	r.Violations = append(r.Violations, Violation{
		Sig:    map[string]any{"stage": stage, "kind": kind, "mutation": mutation, "via": via, "frame": frame},
		Detail: clip(detail, 1500),
	})
}
func (r *Result) drift(what, detail string) {
	if len(r.Drift) < 8 {
		r.Drift = append(r.Drift, Drift{what, clip(detail, 600)})
	}
}

func main() {
	// The SDK's legitimate recursion is a few frames per schema level; a runaway recursion shall die in
	// milliseconds, not after growing a goroutine stack to the default limit of 1 GB.
	debug.SetMaxStack(64 << 20)
	sup.Main(handle)
}

// caseClass: the class of a case for the crash budget (see budget.go).
func caseClass(c *Case) string {
	switch c.Mode {
	case "c10":
		return fmt.Sprintf("c10/%s/%s:%s/%s", c.Target, c.Stage, c.Cause, mutationClass(c))
	case "c09":
		return "c09/" + c.Target + "/" + rootKind(c.AST)
	case "rand":
		return "rand/" + c.What
	}
	return c.Mode
}

func handle(raw json.RawMessage) any {
	var c Case
	if err := json.Unmarshal(raw, &c); err != nil {
		return &Result{HarnessError: "bad case: " + err.Error()}
	}
	if !begin(caseClass(&c), raw) {
		return &Result{Skipped: "crash class over its limit: " + caseClass(&c)}
	}
	defer end()
	switch c.Mode {
	case "bind":
		return doBind(&c)
	case "c09":
		r := &Result{}
		doC09(&c, r, nil)
		return r
	case "c10":
		r := &Result{}
		t, err := decodeCompact(c.Desc)
		if err != nil {
			return &Result{HarnessError: "bad description: " + err.Error()}
		}
		doC10(&c, t, r, nil)
		return r
	case "rand":
		return doRand(&c)
	}
	return &Result{HarnessError: "unknown mode " + c.Mode}
}

// ---------------------------------------------------------------------------------------------
// binding tables

var idRe = regexp.MustCompile("^[$@a-zA-Z0-9-_]+$")

func concreteTok(tok string) string {
	if strings.HasPrefix(tok, "%f:") {
		h, _ := strconv.ParseInt(tok[3:], 10, 64)
		return floatTok(h)
	}
	return tok
}

func doBind(c *Case) *Result {
	r := &Result{}
	var bad []string
	for _, ta := range c.Toks {
		isFloat := strings.HasPrefix(ta.Tok, "%f:")
		tok := concreteTok(ta.Tok)
		r.Evals++
		// idType: 1..255 bytes, ^[$@a-zA-Z0-9-_]+$ ; independently (regexp) and through the real meta-schema
		id := len(tok) >= 1 && len(tok) <= 255 && idRe.MatchString(tok)
		if !isFloat && id != ta.ID {
			bad = append(bad, fmt.Sprintf("token %q: id per regexp %v, table %v", tok, id, ta.ID))
		}
		if !isFloat {
			_, err := schema.UnserializeScope(map[string]any{"root": tok, "objects": map[string]any{
				tok: map[string]any{"id": tok, "properties": map[string]any{}}}})
			if (err == nil) != ta.ID {
				bad = append(bad, fmt.Sprintf("token %q: id per meta-schema %v, table %v", tok, err == nil, ta.ID))
			}
		}
		_, perr := regexp.Compile(tok)
		if (perr == nil) != ta.Pat {
			bad = append(bad, fmt.Sprintf("token %q: compiles %v, table %v", tok, perr == nil, ta.Pat))
		}
		var v any
		jerr := json.Unmarshal([]byte(tok), &v)
		if (jerr == nil) != ta.JSON {
			bad = append(bad, fmt.Sprintf("token %q: json %v, table %v", tok, jerr == nil, ta.JSON))
		}
		qerr := json.Unmarshal([]byte("\""+tok+"\""), &v)
		if (qerr == nil) != ta.Quoted {
			bad = append(bad, fmt.Sprintf("token %q: quoted json %v, table %v", tok, qerr == nil, ta.Quoted))
		}
		word := "-"
		if b, err := schema.NewBoolSchema().Unserialize(tok); err == nil {
			if b.(bool) {
				word = "t"
			} else {
				word = "f"
			}
		}
		if word != ta.Word {
			bad = append(bad, fmt.Sprintf("token %q: bool word %s, table %s", tok, word, ta.Word))
		}
		i, ierr := strconv.ParseInt(tok, 10, 64)
		if (ierr == nil) != ta.Int.Some || (ierr == nil && i != ta.Int.V) {
			bad = append(bad, fmt.Sprintf("token %q: integer reading %v/%d, table %v/%d", tok, ierr == nil, i, ta.Int.Some, ta.Int.V))
		}
	}
	// the abstract transports against the real codecs
	if len(c.XfSample) > 0 {
		sample, err := decodeCompact(c.XfSample)
		if err != nil {
			return &Result{HarnessError: "bad xf_sample: " + err.Error()}
		}
		for _, tr := range transports {
			r.Evals++
			want, err := decodeCompact(c.Xf[tr.name])
			if err != nil {
				return &Result{HarnessError: "bad xf: " + err.Error()}
			}
			got, err := tr.f(sample.toGo())
			if err != nil {
				bad = append(bad, fmt.Sprintf("transport %s fails on the sample: %v", tr.name, err))
				continue
			}
			gt, err := fromGo(got)
			if err != nil {
				bad = append(bad, fmt.Sprintf("transport %s: %v", tr.name, err))
				continue
			}
			if gt.canonRep() != want.canonRep() {
				bad = append(bad, fmt.Sprintf("transport %s: model predicts %s, codec gives %s", tr.name, want.canonRep(), gt.canonRep()))
			}
		}
	}
	if len(bad) > 0 {
		r.BindError = strings.Join(bad, "; ")
	}
	return r
}

// canonRep is canon with the integer representation (i/u) made visible.
func (t *Tree) canonRep() string {
	switch t.K {
	case "num":
		return fmt.Sprintf("%s%d", t.Rep, t.I)
	case "list":
		var es []string
		for _, e := range t.L {
			es = append(es, e.canonRep())
		}
		return "[" + strings.Join(es, ",") + "]"
	case "map":
		var es []string
		for _, e := range t.M {
			es = append(es, e.Key.canon()+":"+e.Val.canonRep())
		}
		sortStrings(es)
		return "{" + strings.Join(es, ",") + "}"
	}
	return t.canon()
}

// ---------------------------------------------------------------------------------------------
// loading

type loaded struct {
	scope  *schema.ScopeSchema
	plugin *schema.SchemaSchema
}

func (l loaded) ok() bool { return l.scope != nil || l.plugin != nil }
func (l loaded) scopes() []namedScope {
	if l.scope != nil {
		return []namedScope{{"scope", l.scope}}
	}
	if l.plugin != nil {
		var out []namedScope
		_ = sup.Guard(func() { out = dataScopes(l.plugin) })
		return out
	}
	return nil
}
func (l loaded) selfSerialize() (d any, err error, pi *sup.PanicInfo) {
	pi = sup.Guard(func() {
		if l.scope != nil {
			d, err = l.scope.SelfSerialize()
		} else {
			d, err = l.plugin.SelfSerialize()
		}
	})
	return
}

// entry: the real entry point for the target.
func entry(target string, v any) (l loaded, err error, pi *sup.PanicInfo) {
	pi = sup.Guard(func() {
		if target == "schema" {
			var s *schema.SchemaSchema
			s, err = schema.UnserializeSchema(v)
			if err == nil {
				l.plugin = s
			}
		} else {
			var s *schema.ScopeSchema
			s, err = schema.UnserializeScope(v)
			if err == nil {
				l.scope = s
			}
		}
	})
	return
}

// accept: the acceptance step alone (the meta-schema's Unserialize), without whatever the entry
// point does afterwards.
func accept(target string, v any) (l loaded, err error, pi *sup.PanicInfo) {
	pi = sup.Guard(func() {
		var x any
		if target == "schema" {
			x, err = schema.DescribeSchema().Unserialize(v)
			if err == nil {
				l.plugin = x.(*schema.SchemaSchema)
			}
		} else {
			x, err = schema.DescribeScope().Unserialize(v)
			if err == nil {
				l.scope = x.(*schema.ScopeSchema)
			}
		}
	})
	return
}

type duplex struct {
	io.Reader
	io.Writer
	closers []io.Closer
}

func (d duplex) Close() error {
	for _, c := range d.closers {
		_ = c.Close()
	}
	return nil
}

// readSchemaFake: Client.ReadSchema against a scripted server that answers the start message with
// a hello carrying v.
func readSchemaFake(v any) (s *schema.SchemaSchema, err error, pi *sup.PanicInfo) {
	c2sR, c2sW := io.Pipe()
	s2cR, s2cW := io.Pipe()
	srvDone := make(chan struct{})
	go func() {
		defer close(srvDone)
		var start any
		if derr := cbor.NewDecoder(c2sR).Decode(&start); derr != nil {
			_ = s2cW.CloseWithError(derr)
			return
		}
		if eerr := cbor.NewEncoder(s2cW).Encode(atp.HelloMessage{Version: atp.ProtocolVersion, Schema: v}); eerr != nil {
			_ = s2cW.CloseWithError(eerr)
		}
	}()
	cli := atp.NewClient(duplex{s2cR, c2sW, []io.Closer{c2sW, s2cR}})
	pi = sup.Guard(func() { s, err = cli.ReadSchema() })
	_ = c2sW.Close()
	_ = s2cR.Close()
	_ = c2sR.Close()
	_ = s2cW.Close()
	select {
	case <-srvDone:
	case <-time.After(5 * time.Second):
	}
	return
}

// readSchemaReal: Client.ReadSchema against the real RunATPServer serving the callable schema.
func readSchemaReal(cs *schema.CallableSchema) (s *schema.SchemaSchema, err error, pi *sup.PanicInfo) {
	stdinR, stdinW := io.Pipe()
	stdoutR, stdoutW := io.Pipe()
	ctx, cancel := context.WithCancel(context.Background())
	defer cancel()
	done := make(chan struct{})
	go func() {
		defer close(done)
		_ = sup.Guard(func() { _ = atp.RunATPServer(ctx, stdinR, stdoutW, cs) })
	}()
	cli := atp.NewClient(duplex{stdoutR, stdinW, []io.Closer{stdinW, stdoutR}})
	pi = sup.Guard(func() { s, err = cli.ReadSchema() })
	closed := make(chan struct{})
	go func() {
		_ = sup.Guard(func() { _ = cli.Close() })
		close(closed)
	}()
	select {
	case <-closed:
	case <-time.After(3 * time.Second):
	}
	_ = stdinW.Close()
	select {
	case <-done:
	case <-time.After(3 * time.Second):
	}
	_ = stdoutR.Close()
	_ = stdinR.Close()
	_ = stdoutW.Close()
	return
}

// ---------------------------------------------------------------------------------------------
// baseline: frames that panic on a valid, Go-built, linked schema too (C04's business, not C10's)

var baselineFrames map[string]bool
var baselineNote []usePanic

func baseline() map[string]bool {
	if baselineFrames != nil {
		return baselineFrames
	}
	baselineFrames = map[string]bool{}
	str := func() schema.Type { return schema.NewStringSchema(nil, nil, nil) }
	prop := func(t schema.Type, req bool, def *string) *schema.PropertySchema {
		return schema.NewPropertySchema(t, nil, req, nil, nil, nil, def, nil)
	}
	b := schema.NewObjectSchema("B", map[string]*schema.PropertySchema{
		"n": prop(schema.NewIntSchema(nil, nil, nil), false, nil),
		"t": prop(str(), true, nil),
	})
	c := schema.NewObjectSchema("C", map[string]*schema.PropertySchema{"c": prop(schema.NewBoolSchema(), false, nil)})
	a := schema.NewObjectSchema("A", map[string]*schema.PropertySchema{
		"i":  prop(schema.NewIntSchema(schema.IntPointer(0), schema.IntPointer(5), nil), false, ptr("1")),
		"f":  prop(schema.NewFloatSchema(nil, nil, nil), false, nil),
		"s":  prop(schema.NewStringSchema(schema.IntPointer(1), nil, regexp.MustCompile("^a")), false, ptr("ab")),
		"b":  prop(schema.NewBoolSchema(), false, nil),
		"p":  prop(schema.NewPatternSchema(), false, nil),
		"y":  prop(schema.NewAnySchema(), false, nil),
		"ei": prop(schema.NewIntEnumSchema(map[int64]*schema.DisplayValue{1: {}}, nil), false, nil),
		"es": prop(schema.NewStringEnumSchema(map[string]*schema.DisplayValue{"a": {}}), false, nil),
		"l":  prop(schema.NewListSchema(schema.NewRefSchema("B", nil), nil, nil), false, ptr("[]")),
		"m":  prop(schema.NewMapSchema(str(), schema.NewRefSchema("C", nil), nil, nil), false, nil),
		"mi": prop(schema.NewMapSchema(schema.NewIntSchema(nil, nil, nil), str(), nil, nil), false, nil),
		"r":  prop(schema.NewRefSchema("A", nil), false, nil),
		"o":  prop(schema.NewOneOfStringSchema[any](map[string]schema.Object{"x": schema.NewRefSchema("B", nil)}, "t", true), false, nil),
		"oi": prop(schema.NewOneOfIntSchema[any](map[int64]schema.Object{1: schema.NewRefSchema("C", nil), 2: schema.NewObjectSchema("E",
			map[string]*schema.PropertySchema{"e": prop(str(), false, nil)})}, "d", false), false, nil),
		"sc": prop(schema.NewScopeSchema(schema.NewObjectSchema("D", map[string]*schema.PropertySchema{
			"r": prop(schema.NewRefSchema("D", nil), false, nil)})), false, nil),
		"dis": prop(str(), false, nil).Disable("why"),
	})
	sc := schema.NewScopeSchema(a, b, c)
	e := exerciseScopes([]namedScope{{"baseline", sc}}, nil)
	for _, p := range e.panics {
		baselineFrames[p.Frame] = true
	}
	baselineNote = e.panics
	return baselineFrames
}

func sortStrings(s []string) {
	for i := 1; i < len(s); i++ {
		for j := i; j > 0 && s[j] < s[j-1]; j-- {
			s[j], s[j-1] = s[j-1], s[j]
		}
	}
}

// ---------------------------------------------------------------------------------------------
// stage facts (what MetaTrace compares with the operators of spec/Meta.tla)

type stageFacts struct {
	Acc  string `json:"acc"`  // "yes" | "no" | "panic"
	Link string `json:"link"` // "ok" | "fail" | "-"      (the link step performed by hand on the accepted value)
	Use  string `json:"use"`  // "ok" | "fail" | "-"      (every operation on every node, after a successful link)
	note string
}

func facts(target string, v any) stageFacts {
	f := stageFacts{Link: "-", Use: "-"}
	l, err, pi := accept(target, v)
	switch {
	case pi != nil:
		f.Acc = "panic"
		f.note = pi.Frame + ": " + pi.Msg
		return f
	case err != nil:
		f.Acc = "no"
		return f
	}
	f.Acc = "yes"
	scopes := l.scopes()
	if pi := linkAll(scopes, false); pi != nil {
		f.Link = "fail"
		f.note = pi.Frame + ": " + pi.Msg
		return f
	}
	if target == "schema" {
		// a plugin schema stands alone: a reference nobody can link (foreign namespace) fails the link step
		for _, s := range scopes {
			var verr error
			sc := s.sc
			if pi := sup.Guard(func() { verr = sc.ValidateReferences() }); pi != nil || verr != nil {
				f.Link = "fail"
				f.note = fmt.Sprint("ValidateReferences: ", verr, pi)
				return f
			}
		}
	}
	f.Link = "ok"
	e := exerciseScopes(scopes, baseline())
	// foreign-namespace references of a stand-alone scope stay unlinked by design: their panics are not
	// a first-use fault of the description (the embedding side applies that namespace)
	var real []usePanic
	for _, p := range e.panics {
		if foreignMsg(p.Msg) {
			continue
		}
		real = append(real, p)
	}
	if len(real) > 0 {
		f.Use = "fail"
		f.note = fmt.Sprintf("%s %s %s: %s", real[0].Op, real[0].Node, real[0].Frame, real[0].Msg)
	} else {
		f.Use = "ok"
	}
	return f
}

// ---------------------------------------------------------------------------------------------
// C10

func mutationClass(c *Case) string {
	if c.GrammarFree && len(c.Labels) == 0 {
		return "grammar_free"
	}
	if len(c.Labels) == 0 {
		return "none"
	}
	return strings.Join(c.Labels, "+")
}

func unlinkedMsg(msg string) bool { return strings.Contains(msg, "not linked to its object") }

var nsRe = regexp.MustCompile(`scope with namespace "([^"]*)"`)

// foreignMsg: an unlinked-reference panic about a namespace other than the scope's own.  Whoever
// embeds the scope applies that namespace; on a stand-alone scope it is unlinked by contract.
func foreignMsg(msg string) bool {
	m := nsRe.FindStringSubmatch(msg)
	return unlinkedMsg(msg) && m != nil && m[1] != ""
}

// classify labels an observed panic with the defect class it belongs to (labelling only: the verdict
// is the panic itself) and normalises the frame where one defect surfaces in many accessors.
func classify(msg, frame, modelCause string) (kind, normFrame string) {
	switch {
	case foreignMsg(msg):
		return "foreign_ref", "schema.(*RefSchema)"
	case unlinkedMsg(msg):
		if modelCause == "dangling_ref" {
			return "dangling_ref", "schema.(*RefSchema)"
		}
		return "unlinked_ref", "schema.(*RefSchema)"
	case strings.Contains(msg, "root object with ID") && strings.Contains(msg, "not found"):
		return "root_missing", frame
	case strings.Contains(msg, "doesn't match its map key"):
		return "root_mismatch", frame
	case strings.Contains(msg, "Default value for property"):
		return "bad_default", frame
	case strings.Contains(msg, "Referenced object") && strings.Contains(msg, "not found in scope"):
		return "dangling_ref", frame
	case strings.Contains(msg, "discriminator field") || strings.Contains(msg, "has conflicting field") ||
		strings.Contains(msg, "does not match OneOfSchema discriminator type"):
		return "oneof_inline", frame
	}
	if strings.Contains(frame, "UnitsDefinition") || strings.Contains(frame, "floorDiv") ||
		strings.Contains(msg, "invalid named capture") {
		return "bad_multiplier", frame
	}
	if modelCause != "" && modelCause != "ok" && modelCause != "reject" {
		return modelCause, frame
	}
	return "unpredicted", frame
}

// doC10 hands the description to the entry points and exercises whatever comes back.
func doC10(c *Case, t *Tree, r *Result, replay any) {
	mut := mutationClass(c)
	direct := t.toGo()
	wire, werr := viaCBOR(direct)
	forms := []struct {
		name string
		v    any
	}{{"direct", direct}}
	if werr == nil {
		forms = append(forms, struct {
			name string
			v    any
		}{"cbor", wire})
	}
	r.Key = fmt.Sprintf("c10/%s/%s/%s", c.Target, mut, c.Stage+":"+c.Cause)
	var obs []string
	var fc stageFacts
	for _, form := range forms {
		if form.name == "direct" {
			// stage facts (on a private copy)
			fc = facts(c.Target, cloneVal(form.v))
			r.Evals++
			r.Observed = fc
			// model vs code, stage by stage: drift only (C10 does not fix which descriptions are accepted)
			if c.Stage != "" {
				// (at which of the later steps - link or first use - a fault is noticed is left open: a
				// repaired SDK checks roots and defaults while linking)
				expAcc := "yes"
				if c.Stage == "accept" {
					expAcc = "no"
				}
				expUsable := c.Stage == "usable"
				gotUsable := fc.Acc == "yes" && fc.Link == "ok" && fc.Use == "ok"
				if expAcc != fc.Acc || expUsable != gotUsable {
					r.drift(fmt.Sprintf("stage:model=%s/%s code=acc:%s,link:%s,use:%s", c.Stage, c.Cause, fc.Acc, fc.Link, fc.Use),
						fmt.Sprintf("%s [%s] %s", t.canon(), mut, fc.note))
				}
			}
		}
		// the property: the entry point returns an error, or a schema every operation on which is total
		entries := []string{"Unserialize"}
		if c.Target == "schema" && form.name == "direct" {
			entries = append(entries, "ReadSchema")
		}
		for _, ep := range entries {
			var l loaded
			var err error
			var pi *sup.PanicInfo
			if ep == "ReadSchema" {
				var s *schema.SchemaSchema
				s, err, pi = readSchemaFake(cloneVal(form.v))
				if err == nil && pi == nil {
					l.plugin = s
				}
			} else {
				l, err, pi = entry(c.Target, cloneVal(form.v))
			}
			r.Evals++
			via := ep + "/" + form.name
			switch {
			case pi != nil:
				stage := "link"
				if fc.Acc == "panic" {
					stage = "accept"
				}
				kind, fr := classify(pi.Msg, pi.Frame, c.Cause)
				r.violate(stage, kind, mut, "any", fr,
					fmt.Sprintf("%s panics at load (%s): %s\ndescription: %s", ep, via, pi.Msg, t.canon()))
				obs = append(obs, via+":panic")
			case err != nil:
				obs = append(obs, via+":error")
			default:
				e := exerciseScopes(l.scopes(), baseline())
				r.Evals += e.ops
				n := 0
				for _, p := range e.panics {
					if foreignMsg(p.Msg) && c.Target != "schema" {
						continue // a stand-alone scope: the embedding side applies foreign namespaces
					}
					n++
					kind, fr := classify(p.Msg, p.Frame, c.Cause)
					r.violate("first_use", kind, mut, "any", fr,
						fmt.Sprintf("%s returned a schema (%s); %s(%s) on %s panics: %s\ndescription: %s",
							ep, via, p.Op, p.Class, p.Node, p.Msg, t.canon()))
				}
				if n > 0 {
					obs = append(obs, via+":unusable")
				} else {
					obs = append(obs, via+":usable")
				}
			}
		}
	}
	for i := range r.Violations {
		if replay != nil {
			r.Violations[i].Case = replay
		}
	}
	_ = obs
}

// ---------------------------------------------------------------------------------------------
// C09

type builtTop struct {
	scope    *schema.ScopeSchema
	plain    *schema.SchemaSchema
	callable *schema.CallableSchema
}

func buildTop(a *AST, target string, withCallable bool) (b builtTop, pi *sup.PanicInfo) {
	pi = sup.Guard(func() {
		if target == "schema" {
			b.plain = mkPlainSchema(a)
			if withCallable {
				b.callable = mkCallableSchema(a)
			}
		} else {
			b.scope = mkScope(a)
		}
	})
	return
}

func (b builtTop) selfSerialize() (d any, err error, pi *sup.PanicInfo) {
	pi = sup.Guard(func() {
		if b.scope != nil {
			d, err = b.scope.SelfSerialize()
		} else {
			d, err = b.plain.SelfSerialize()
		}
	})
	return
}
func (b builtTop) scopes() []namedScope {
	if b.scope != nil {
		return []namedScope{{"scope", b.scope}}
	}
	return dataScopes(b.plain)
}

// astScopes lists the scope ASTs in the order dataScopes lists the real ones.
func astScopes(a *AST, target string) map[string]*AST {
	out := map[string]*AST{}
	if target != "schema" {
		out["scope"] = a
		return out
	}
	for _, s := range a.steps() {
		out["steps."+s.Key+".input"] = s.X.Input
		for _, o := range s.X.Outputs {
			out["steps."+s.Key+".outputs."+o.Key] = o.X.Schema
		}
		for _, g := range s.X.Handlers {
			out["steps."+s.Key+".signal_handlers."+g.Key] = g.X.Data
		}
		for _, g := range s.X.Emitters {
			out["steps."+s.Key+".signal_emitters."+g.Key] = g.X.Data
		}
	}
	return out
}

func describeFails(a *AST, target string) (bool, string, string) {
	b, pi := buildTop(a, target, false)
	if pi != nil {
		return true, "harness: cannot build: " + pi.Msg, ""
	}
	_, err, pi := b.selfSerialize()
	if pi != nil {
		return true, "panic: " + pi.Msg, pi.Frame
	}
	if err != nil {
		return true, err.Error(), ""
	}
	return false, "", ""
}

// beforeBuilders returns a copy of the AST as it was before the builder calls.
func beforeBuilders(a *AST, target string, bs []Builder) *AST {
	raw, _ := json.Marshal(a)
	var c AST
	_ = json.Unmarshal(raw, &c)
	scopes := astScopes(&c, target)
	for _, bd := range bs {
		sc := scopes[bd.Scope]
		if sc == nil {
			continue
		}
		for _, o := range sc.objects() {
			if o.Key != bd.Obj {
				continue
			}
			ps := o.Obj.props()
			for i := range ps {
				if ps[i].Name != bd.Prop {
					continue
				}
				switch bd.Op {
				case "disable":
					ps[i].Disabled = false
					ps[i].DisabledReason = OptS{}
				case "treat_empty":
					ps[i].EmptyIsDefault = false
				}
			}
		}
	}
	return &c
}

// applyBuilders calls the public builders on the real, built schema, in place - on the plain schema and on
// the callable one that is served over ATP.
func applyBuilders(b builtTop, target string, bs []Builder) {
	byName := map[string][]schema.Scope{}
	for _, s := range b.scopes() {
		byName[s.name] = append(byName[s.name], s.sc)
	}
	if b.callable != nil {
		for id, st := range b.callable.StepsValue {
			byName["steps."+id+".input"] = append(byName["steps."+id+".input"], st.Input())
			for k, o := range st.Outputs() {
				byName["steps."+id+".outputs."+k] = append(byName["steps."+id+".outputs."+k], o.Schema())
			}
			for k, g := range st.SignalHandlers() {
				byName["steps."+id+".signal_handlers."+k] = append(byName["steps."+id+".signal_handlers."+k], g.DataSchema())
			}
			for k, g := range st.SignalEmitters() {
				byName["steps."+id+".signal_emitters."+k] = append(byName["steps."+id+".signal_emitters."+k], g.DataSchema())
			}
		}
	}
	for _, bd := range bs {
		scs := byName[bd.Scope]
		if len(scs) == 0 {
			panic("no scope " + bd.Scope)
		}
		for _, sc := range scs {
			p := sc.Objects()[bd.Obj].Properties()[bd.Prop]
			switch bd.Op {
			case "disable":
				p.Disable(bd.Reason)
			case "treat_empty":
				p.TreatEmptyAsDefaultValue()
			default:
				panic("unknown builder " + bd.Op)
			}
		}
	}
}

func rootKind(a *AST) string {
	// the kind of the property under test ("p" of the root object), for signatures
	if a == nil {
		return "-"
	}
	for _, o := range a.objects() {
		if a.Root != nil && o.Key == *a.Root {
			for _, p := range o.Obj.props() {
				if p.Name == "p" {
					return p.Type.Kind
				}
			}
		}
	}
	return "object"
}

func doC09(c *Case, r *Result, replay any) {
	if len(c.UToks) > 0 {
		unitTokens = c.UToks
	}
	a := c.AST
	target := c.Target
	feats := features(a)
	r.Key = fmt.Sprintf("c09/%s/%s/%s", target, rootKind(a), strings.Join(feats, "+"))
	defer func() {
		if replay != nil {
			for i := range r.Violations {
				r.Violations[i].Case = replay
			}
		}
	}()
	lifeCycle := len(c.Builders) > 0 && len(feats) == 0
	built := a
	if lifeCycle {
		built = beforeBuilders(a, target, c.Builders)
	}
	b, pi := buildTop(built, target, true)
	if pi != nil {
		r.HarnessError = "the generated schema cannot be built through the constructors: " + pi.Msg + " @" + pi.Frame
		return
	}
	d0, err, pi := b.selfSerialize()
	r.Evals++
	if err == nil && pi == nil {
		// describing twice must agree
		d0b, err2, pi2 := b.selfSerialize()
		if err2 != nil || pi2 != nil {
			r.violate("describe", "second_describe_fails", "none", "any", "", fmt.Sprint("describing the same schema again fails: ", err2, pi2))
		} else if df := diffGo(d0, d0b, "$"); df != "" {
			r.violate("redescribe", "unstable:"+lastField(df), "none", "any", "", "two descriptions of the same schema differ: "+df)
		}
	}
	if lifeCycle && err == nil && pi == nil {
		// Build -> Describe (done) -> public builders, in place -> Describe again; everything below judges the
		// schema and the description AFTER the builder calls
		var dc0 any
		if b.callable != nil {
			_ = sup.Guard(func() { dc0, _ = b.callable.SelfSerialize() })
		}
		_ = dc0
		if bpi := sup.Guard(func() { applyBuilders(b, target, c.Builders) }); bpi != nil {
			r.HarnessError = "cannot apply the builders: " + bpi.Msg
			return
		}
		d0, err, pi = b.selfSerialize()
		r.Evals++
	}
	neutral := false
	if err != nil || pi != nil {
		msg := ""
		frame := ""
		if pi != nil {
			msg, frame = "panic: "+pi.Msg, pi.Frame
		} else {
			msg = err.Error()
		}
		// attribute the failure to one defect class each
		attributed := false
		all := map[string]bool{}
		for _, f := range feats {
			all[f] = true
		}
		for _, f := range feats {
			others := map[string]bool{}
			for _, g := range feats {
				if g != f {
					others[g] = true
				}
			}
			if fails, m, fr := describeFails(neutralize(a, others), target); fails {
				attributed = true
				r.violate("describe", f, "none", "any", fr, "SelfSerialize fails: "+m)
			}
		}
		a = neutralize(a, all)
		b, pi = buildTop(a, target, true)
		if pi != nil {
			r.HarnessError = "neutralised schema cannot be built: " + pi.Msg
			return
		}
		d0, err, pi = b.selfSerialize()
		if err != nil || pi != nil {
			m2 := msg
			if pi != nil {
				m2, frame = "panic: "+pi.Msg, pi.Frame
			} else if err != nil {
				m2 = err.Error()
			}
			r.violate("describe", "other:"+rootKind(a), "none", "any", frame, "SelfSerialize fails: "+m2)
			return
		}
		if !attributed {
			r.violate("describe", "combination:"+strings.Join(feats, "+"), "none", "any", frame, "SelfSerialize fails: "+msg)
		}
		neutral = true
	}

	origScopes := b.scopes()
	asts := astScopes(a, target)
	rnd := newRand(c.Seed + 17)

	// shape comparison with the model's Describe(s): drift only.  (The field at which the two first differ
	// also names the feature at fault in the signature of a behavioural difference found below.)
	shapeField = ""
	if len(c.Desc) == 0 {
		shapeField = "?" // random schema: no model description to name the field at fault
	}
	if !neutral && len(c.Desc) > 0 {
		if want, err := decodeCompact(c.Desc); err == nil {
			got, gerr := fromGo(d0)
			if gerr != nil {
				r.Unabstracted++
			} else if df := diffTrees(want, got, "$"); df != "" {
				r.drift("describe_shape", "model vs SelfSerialize: "+df)
				shapeField = lastField(df)
			}
		}
	}

	// rebuild: directly and after each real transport
	reported := map[string]bool{}
	report := func(via, stage, kind, frame, detail string) {
		key := stage + "|" + kind + "|" + frame
		if reported[key] {
			return
		}
		reported[key] = true
		v := "any"
		if via != "id" && kind != "unlinked_ref" {
			v = via // (a missing link step shows on whichever transport first reaches a reference)
		}
		r.violate(stage, kind, "none", v, frame, "["+via+"] "+detail)
	}
	for _, tr := range transports {
		dx, terr := tr.f(d0)
		if terr != nil {
			if tr.name == "json" {
				r.drift("transport_json_fails", terr.Error())
			} else {
				report(tr.name, "transport", "encode", "", "the description does not survive "+tr.name+": "+terr.Error())
			}
			continue
		}
		r.Evals++
		l, lerr, lpi := entry(target, dx)
		asViolation := tr.name != "json" // the property names CBOR and YAML; JSON is reported as drift
		switch {
		case lpi != nil:
			if asViolation {
				report(tr.name, "link", "own_description", lpi.Frame, "the entry point panics on the SDK's own description: "+lpi.Msg)
			} else {
				r.drift("json:load_panics", lpi.Msg)
			}
			continue
		case lerr != nil:
			if asViolation {
				report(tr.name, "accept", "own_description:"+rootKind(a), "", "the meta-schema rejects the SDK's own description: "+lerr.Error())
			} else {
				r.drift("json:rejected", lerr.Error())
			}
			continue
		}
		c09Compare(r, tr.name, asViolation, report, d0, l, origScopes, asts, rnd)
	}

	// through ATP: the real server's hello, the real client's ReadSchema
	if target == "schema" && b.callable != nil {
		var dc any
		var derr error
		dpi := sup.Guard(func() { dc, derr = b.callable.SelfSerialize() })
		if dpi != nil || derr != nil {
			report("atp", "describe", "callable", "", fmt.Sprintf("CallableSchema.SelfSerialize fails: %v %v", derr, dpi))
		} else {
			if df := diffGo(d0, dc, "$"); df != "" {
				report("atp", "redescribe", "callable_vs_plain", "", "CallableSchema and SchemaSchema describe the same steps differently: "+df)
			}
			s, rerr, rpi := readSchemaReal(b.callable)
			r.Evals++
			switch {
			case rpi != nil:
				report("atp", "link", "own_description", rpi.Frame, "ReadSchema panics on the real server's hello: "+rpi.Msg)
			case rerr != nil:
				report("atp", "accept", "own_description:hello", "", "ReadSchema rejects the real server's hello: "+rerr.Error())
			default:
				c09Compare(r, "atp", true, report, dc, loaded{plugin: s}, origScopes, asts, rnd)
			}
		}
	}

	// minimal form (every optional field omitted): differences are drift
	if !neutral && len(c.Minimal) > 0 {
		if mt, err := decodeCompact(c.Minimal); err == nil {
			l, lerr, lpi := entry(target, mt.toGo())
			r.Evals++
			switch {
			case lpi != nil:
				r.drift("minimal:load_panics", lpi.Msg)
			case lerr != nil:
				r.drift("minimal:rejected", lerr.Error())
			default:
				dm, merr, mpi := l.selfSerialize()
				if merr != nil || mpi != nil {
					r.drift("minimal:redescribe_fails", fmt.Sprint(merr, mpi))
				} else if df := diffGo(d0, dm, "$"); df != "" {
					r.drift("minimal:"+lastField(df), "minimal form rebuilds differently: "+df)
				}
			}
		}
	}
}

// shapeField: the description field at which SelfSerialize and the model's Describe first differ in the
// case at hand ("" when they agree).
var shapeField string

func lastField(diff string) string {
	// "$.objects.A.properties.p.required: ..." -> "required"
	i := strings.Index(diff, ":")
	if i < 0 {
		return "?"
	}
	p := diff[:i]
	if j := strings.LastIndex(p, "."); j >= 0 {
		p = p[j+1:]
	}
	if k := strings.Index(p, "["); k >= 0 {
		p = p[:k]
	}
	return strings.Trim(p, "\"")
}

// c09Compare: the rebuilt schema describes itself identically and behaves like the original.
func c09Compare(r *Result, via string, asViolation bool, report func(via, stage, kind, frame, detail string),
	d0 any, l loaded, origScopes []namedScope, asts map[string]*AST, rnd *randSrc) {
	rep := func(stage, kind, frame, detail string) {
		if asViolation {
			report(via, stage, kind, frame, detail)
		} else {
			r.drift(via+":"+stage+":"+kind, detail)
		}
	}
	d1, err, pi := l.selfSerialize()
	r.Evals++
	switch {
	case pi != nil:
		rep("redescribe", "panic", pi.Frame, "describing the rebuilt schema panics: "+pi.Msg)
	case err != nil:
		rep("redescribe", "error", "", "describing the rebuilt schema fails: "+err.Error())
	default:
		if df := diffGo(d0, d1, "$"); df != "" {
			rep("redescribe", "differs:"+lastField(df), "", "describe(rebuild(describe(s))) differs from describe(s): "+df)
		}
	}
	rebuilt := l.scopes()
	byName := map[string]schema.Scope{}
	for _, s := range rebuilt {
		byName[s.name] = s.sc
	}
	needLink := false
	for pass := 0; pass < 2; pass++ {
		unlinked := false
		for _, o := range origScopes {
			rs, ok := byName[o.name]
			if !ok || rs == nil {
				rep("redescribe", "missing_data_schema", "", "the rebuilt plugin schema lacks "+o.name)
				continue
			}
			ast := asts[o.name]
			if ast == nil {
				continue
			}
			if usesNS(ast, "ext") {
				// the consumer applies foreign namespaces, on the rebuilt schema as on the original
				_ = sup.Guard(func() { rs.ApplyNamespace(extObjects(), "ext") })
			}
			if compareBehaviour(r, rep, o.name, ast, o.sc, rs, rnd, pass > 0) {
				unlinked = true
			}
		}
		if !unlinked {
			break
		}
		needLink = true
		// go on with the comparison on a schema linked by hand
		if pi := linkAll(rebuilt, false); pi != nil {
			rep("link", "own_description", pi.Frame, "linking the rebuilt schema by hand panics: "+pi.Msg)
			break
		}
	}
	_ = needLink
}

// compareBehaviour returns true when the rebuilt schema turned out to be unlinked.
func compareBehaviour(r *Result, rep func(stage, kind, frame, detail string), name string, ast *AST,
	orig schema.Scope, rebuilt schema.Scope, rnd *randSrc, linkedByHand bool) bool {
	g := &genCtx{scope: ast}
	var root *AST
	for _, o := range ast.objects() {
		if o.Key == *ast.Root {
			root = o.Obj
		}
	}
	if root == nil {
		return false
	}
	structMapped := root.Layout != "" && root.Layout != "map"
	inputs := g.objectInputs(root, 0)
	pk := rootKind(ast)
	if shapeField != "" {
		pk = "field=" + shapeField
	}
	if reachableHazard(orig) {
		return false // inputs could exhaust the stack on the original itself (C04's business)
	}
	hazard := false
	for _, in := range inputs {
		if hazard && !isMapValue(in) {
			continue
		}
		var v1, v2 any
		var e1, e2 error
		p1 := sup.Guard(func() { v1, e1 = orig.Unserialize(cloneVal(in)) })
		if p1 != nil {
			continue // the original itself panics on this input: C04's business
		}
		p2 := sup.Guard(func() { v2, e2 = rebuilt.Unserialize(cloneVal(in)) })
		r.Evals++
		if p2 != nil {
			if foreignMsg(p2.Msg) && !linkedByHand {
				// the external table could not be applied to a scope whose own references are unlinked (a
				// one-of reads its members' properties while any namespace is applied): link by hand, retry
				return true
			}
			if unlinkedMsg(p2.Msg) && !foreignMsg(p2.Msg) {
				rep("first_use", "unlinked_ref", "schema.(*RefSchema)", fmt.Sprintf("%s: the rebuilt schema's references are not linked: Unserialize(%s) panics: %s", name, canonVal(in), p2.Msg))
				return true
			}
			rep("first_use", "panic:"+pk, p2.Frame, fmt.Sprintf("%s: Unserialize(%s) panics on the rebuilt schema only: %s", name, canonVal(in), p2.Msg))
			continue
		}
		switch {
		case e1 == nil && e2 != nil:
			rep("behaviour", "rebuilt_rejects:"+pk, "", fmt.Sprintf("%s: input %s accepted by the original, rejected by the rebuilt schema: %v", name, canonVal(in), e2))
		case e1 != nil && e2 == nil:
			rep("behaviour", "rebuilt_accepts:"+pk, "", fmt.Sprintf("%s: input %s rejected by the original (%v), accepted by the rebuilt schema", name, canonVal(in), e1))
		case e1 == nil && !structMapped:
			if canonVal(v1) != canonVal(v2) {
				rep("behaviour", "value_differs:"+pk, "", fmt.Sprintf("%s: input %s unserializes to %s (original) vs %s (rebuilt)", name, canonVal(in), canonVal(v1), canonVal(v2)))
				continue
			}
			// the unserialized value through Validate and Serialize of both
			var s1, s2 any
			var se1, se2, ve1, ve2 error
			q1 := sup.Guard(func() { ve1 = orig.Validate(v1); s1, se1 = orig.Serialize(v1) })
			q2 := sup.Guard(func() { ve2 = rebuilt.Validate(v2); s2, se2 = rebuilt.Serialize(v2) })
			if q1 != nil {
				continue
			}
			if q2 != nil {
				rep("first_use", "panic:"+pk, q2.Frame, fmt.Sprintf("%s: Validate/Serialize(%s) panics on the rebuilt schema only: %s", name, canonVal(v2), q2.Msg))
				continue
			}
			if (ve1 == nil) != (ve2 == nil) || (se1 == nil) != (se2 == nil) {
				rep("behaviour", "validate_differs:"+pk, "", fmt.Sprintf("%s: value %s: Validate %v vs %v, Serialize %v vs %v", name, canonVal(v1), ve1, ve2, se1, se2))
			} else if se1 == nil && canonVal(s1) != canonVal(s2) {
				rep("behaviour", "serialize_differs:"+pk, "", fmt.Sprintf("%s: value %s serializes to %s vs %s", name, canonVal(v1), canonVal(s1), canonVal(s2)))
			}
		}
	}
	return false
}
