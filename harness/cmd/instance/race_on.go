//go:build race

package main

const raceEnabled = true
