package main

import (
	"context"
	"fmt"
	"sort"
	"sync"
	"sync/atomic"

	"go.flow.arcalot.io/pluginsdk/schema"
	"verif/harness/sup"
)

// ---------------------------------------------------------------------------- abstract values

// flat is the flat map of spec/Instance.tla: paths n, t (top level), sa, sb (properties a, b of the
// by-value sub-object s); -1 = absent.
type flat struct {
	N  int64 `json:"n"`
	T  int64 `json:"t"`
	Sa int64 `json:"sa"`
	Sb int64 `json:"sb"`
}

var emptyFlat = flat{-1, -1, -1, -1}

// obs is what one evaluation of one operation showed.
type obs struct {
	Ok      bool           // accepted
	M       flat           // abstracted result (map-shaped results)
	N       int64          // abstracted result (scalar results)
	Canon   string         // complete rendering of the result ("" when rejected: error texts may legitimately vary)
	Err     string         // error text
	ErrKey  string         // what of a rejection must not vary: the ConstraintError path and the words of the message
	ErrPath int            // length of the ConstraintError path (-1: not a ConstraintError)
	ArgSame bool           // deep snapshot of the argument before == after
	ArgDiff string         // before / after renderings when they differ
	Panic   *sup.PanicInfo // the SDK panicked
	Result  any            // the raw result (for the aliasing probe)
	FlatErr string         // the result has a shape the abstraction does not know (harness trouble)
}

func (o obs) key() string {
	if o.Panic != nil {
		return "panic:" + o.Panic.Frame
	}
	if !o.Ok {
		return "reject:" + o.ErrKey
	}
	return "ok:" + o.Canon
}

// ---------------------------------------------------------------------------- Go types of struct-mapped schemas

type Inner struct {
	A int64 `json:"a"`
	B int64 `json:"b"`
}

type Outer struct {
	N int64  `json:"n"`
	T *int64 `json:"t"`
	S Inner  `json:"s"`
}

// Dep has pointer fields and interdependency rules (model kind "objdep"): a conflicts with c and b, c is at most
// 10, d is required unless b or a is given.
type Dep struct {
	A *int64 `json:"a"`
	B *int64 `json:"b"`
	C *int64 `json:"c"`
	D *int64 `json:"d"`
}

// Settings is the struct-mapped root of model kind "objnest"; its sub-object "limits" stays in map form.
type Settings struct {
	N      *int64         `json:"n"`
	Limits map[string]any `json:"limits"`
}

// EmptyA and EmptyB are mapped by two objects that share ONE property (model kind "emptydef"): the field types differ.
type Label string
type EmptyA struct {
	Name string `json:"name"`
}
type EmptyB struct {
	Name Label `json:"name"`
}

type MemberA struct {
	N int64 `json:"n"`
}

type MemberB struct {
	M int64 `json:"m"`
}

const discField = "_type"

// ---------------------------------------------------------------------------- instances

type instance struct {
	ckind  string // concrete kind (this file)
	kind   string // model kind of spec/Instance.tla
	origin string // fresh | rebuilt | global
	scope  *schema.ScopeSchema
	target schema.Type             // the schema the operations are issued on
	units  *schema.UnitsDefinition // unit kinds
	isF    bool                    // float schema
	mult   int64                   // smallest multiplier of the unit definition (1 if none)
	unitNm string                  // short plural name of that unit
	baseNm string                  // short plural name of the base unit

	// callable schema kinds
	callable  *schema.CallableSchema
	initCount *int64
	seenMu    *sync.Mutex
	seen      map[string]map[int64]bool // run -> data identities seen by handlers

	runSeq int64 // plain steps: every call is a run of its own

	peers map[string]any // compat2: the schemas this one is compared with; SHARED by all calls (schemas are
	// values that may be shared), so that concurrent calls compare the same pair

	needsApply bool // the rebuilt scope had unlinked references before ApplySelf
}

func prop(t schema.Type, def *string) *schema.PropertySchema {
	return schema.NewPropertySchema(t, nil, false, nil, nil, nil, def, nil)
}

// enum values with display names; variant "renamed": the second value is displayed under another name,
// "unnamed": under none, "extra": a value the others lack
func enumNames(variant string) []string {
	names := []string{"Small", "Medium", "Large", "Extra large"}
	if variant == "renamed" {
		names[1] = "Mid"
	}
	return names
}

func enumDisp(variant string, i int) *schema.DisplayValue {
	if variant == "unnamed" && i == 1 {
		return schema.NewDisplayValue(nil, nil, nil)
	}
	return disp(enumNames(variant)[i])
}

func strEnum(variant string) *schema.StringEnumSchema {
	vals := map[string]*schema.DisplayValue{}
	for i, k := range []string{"a", "b", "c", "d"} {
		vals[k] = enumDisp(variant, i)
	}
	if variant == "extra" {
		vals = map[string]*schema.DisplayValue{"a": enumDisp("", 0), "e": disp("Else")}
	}
	return schema.NewStringEnumSchema(vals)
}

func intEnum(variant string) *schema.IntEnumSchema {
	vals := map[int64]*schema.DisplayValue{}
	for i := 0; i < 4; i++ {
		vals[int64(i+1)] = enumDisp(variant, i)
	}
	if variant == "extra" {
		vals = map[int64]*schema.DisplayValue{1: enumDisp("", 0), 5: disp("Else")}
	}
	return schema.NewIntEnumSchema(vals, nil)
}

// enum values carry display names: values without one cannot be described (C09's business)
func disp(name string) *schema.DisplayValue {
	return schema.NewDisplayValue(schema.PointerTo(name), nil, nil)
}

func intMax10() schema.Type { return schema.NewIntSchema(nil, schema.PointerTo(int64(10)), nil) }

func intT() schema.Type { return schema.NewIntSchema(nil, nil, nil) }

// customUnits builds a NEW UnitsDefinition on every call (fresh caches).
func customUnits() *schema.UnitsDefinition {
	return schema.NewUnits(
		schema.NewUnit("g", "g", "gram", "grams"),
		map[int64]*schema.UnitDefinition{
			1000:    schema.NewUnit("kg", "kg", "kilogram", "kilograms"),
			1000000: schema.NewUnit("t", "t", "tonne", "tonnes"),
		},
	)
}

// customUnits2 has the unit NAMES of customUnits with other multipliers: the same text denotes different
// quantities under the two definitions (anything keyed by the text alone mixes them up).
func customUnits2() *schema.UnitsDefinition {
	return schema.NewUnits(
		schema.NewUnit("g", "g", "gram", "grams"),
		map[int64]*schema.UnitDefinition{
			100:   schema.NewUnit("kg", "kg", "kilogram", "kilograms"),
			10000: schema.NewUnit("t", "t", "tonne", "tonnes"),
		},
	)
}

type kindInfo struct {
	kind    string // model kind
	origins []string
}

// concrete kinds and the model kind each of them instantiates
var ckinds = map[string]kindInfo{
	"int_bytes":      {"units", []string{"global", "rebuilt"}},
	"int_nanos":      {"units", []string{"global", "rebuilt"}},
	"int_seconds":    {"units", []string{"global", "rebuilt"}},
	"float_seconds":  {"units", []string{"global", "rebuilt"}},
	"float_bytes":    {"units", []string{"global", "rebuilt"}},
	"int_custom":     {"units", []string{"fresh", "rebuilt"}},
	"float_custom":   {"units", []string{"fresh", "rebuilt"}},
	"int_custom2":    {"units", []string{"fresh", "rebuilt"}},
	"int_chars":      {"units0", []string{"global", "rebuilt"}},
	"int_pct":        {"units0", []string{"global", "rebuilt"}},
	"float_pct":      {"units0", []string{"global", "rebuilt"}},
	"int_custom0":    {"units0", []string{"fresh", "rebuilt"}},
	"objmap":         {"objmap", []string{"fresh", "rebuilt", "derived"}},
	"plugin_input":   {"objmap", []string{"rebuilt"}}, // step input of a schema returned by UnserializeSchema
	"objstruct":      {"objstruct", []string{"fresh", "rebuilt"}},
	"objdep":         {"objdep", []string{"fresh", "rebuilt"}},
	"objnest":        {"objnest", []string{"fresh", "rebuilt"}},
	"chain":          {"chain", []string{"fresh", "rebuilt"}},
	"disabled":       {"disabled", []string{"fresh", "rebuilt"}},
	"objreq":         {"objreq", []string{"fresh", "rebuilt"}},
	"any_top":        {"anylist", []string{"fresh", "rebuilt"}},
	"any_prop":       {"anylist", []string{"fresh", "rebuilt"}},
	"compat2":        {"compat2", []string{"fresh", "rebuilt"}},
	"mapcoll":        {"mapcoll", []string{"fresh", "rebuilt"}},
	"mapcoll_units":  {"mapcoll", []string{"fresh", "rebuilt"}},
	"mapcoll_strkey": {"mapcoll", []string{"fresh", "rebuilt"}},
	"anycoll":        {"mapcoll", []string{"fresh", "rebuilt"}},
	"oneof_map":      {"oneof", []string{"fresh", "rebuilt"}},
	"oneof_struct":   {"oneof", []string{"fresh", "rebuilt"}},
	"enum_str":       {"enum", []string{"fresh", "rebuilt"}},
	"enum_int":       {"enum", []string{"fresh", "rebuilt"}},
	"steps":          {"steps", []string{"fresh", "derived", "plain"}},
	"patnil":         {"patnil", []string{"fresh", "rebuilt"}},
	"emptydef":       {"emptydef", []string{"fresh"}},
	"list_oneof":     {"listarg", []string{"fresh", "rebuilt"}},
	"list_any":       {"listarg", []string{"fresh", "rebuilt"}},
	"list_objmap":    {"listarg", []string{"fresh", "rebuilt"}},
	"map_objmap":     {"listarg", []string{"fresh", "rebuilt"}},
	"meta":           {"meta", []string{"fresh"}},
}

func unitsFor(ckind string) (*schema.UnitsDefinition, bool) {
	switch ckind {
	case "int_bytes":
		return schema.UnitBytes, false
	case "float_bytes":
		return schema.UnitBytes, true
	case "int_nanos":
		return schema.UnitDurationNanoseconds, false
	case "int_seconds":
		return schema.UnitDurationSeconds, false
	case "float_seconds":
		return schema.UnitDurationSeconds, true
	case "int_chars":
		return schema.UnitCharacters, false
	case "int_pct":
		return schema.UnitPercentage, false
	case "float_pct":
		return schema.UnitPercentage, true
	case "int_custom":
		return customUnits(), false
	case "float_custom":
		return customUnits(), true
	case "int_custom2":
		return customUnits2(), false
	case "int_custom0":
		return schema.NewUnits(schema.NewUnit("pt", "pts", "point", "points"), nil), false
	}
	return nil, false
}

// wrap puts a schema under test into the single property "v" of a root object, so that every instance
// has a scope (self-description, rebuilding) around it.
func wrap(t schema.Type, extra ...*schema.ObjectSchema) *schema.ScopeSchema {
	return schema.NewScopeSchema(
		schema.NewObjectSchema("root", map[string]*schema.PropertySchema{"v": prop(t, nil)}),
		extra...,
	)
}

func targetOf(s *schema.ScopeSchema) schema.Type {
	return s.Objects()["root"].Properties()["v"].Type()
}

// buildScope constructs the scope of a concrete kind through the public constructors only.
func buildScope(ckind string) (*schema.ScopeSchema, error) {
	switch ckind {
	case "objmap":
		return schema.NewScopeSchema(schema.NewObjectSchema("root", map[string]*schema.PropertySchema{
			"n": prop(intT(), schema.PointerTo("7")),
			"t": prop(intT(), nil),
		})), nil
	case "objstruct", "meta":
		// DESIGN appendix E item 19: a by-value sub-object with its own defaults whose property also
		// declares a default
		inner := schema.NewStructMappedObjectSchema[Inner]("inner", map[string]*schema.PropertySchema{
			"a": prop(intT(), schema.PointerTo("3")),
			"b": prop(intT(), schema.PointerTo("9")),
		})
		root := schema.NewStructMappedObjectSchema[Outer]("root", map[string]*schema.PropertySchema{
			"n": prop(intT(), schema.PointerTo("7")),
			"t": prop(intT(), nil),
			"s": prop(schema.NewRefSchema("inner", nil), schema.PointerTo(`{"a":5}`)),
		})
		return schema.NewScopeSchema(root, inner), nil
	case "objreq":
		return reqScope(), nil
	case "any_top":
		return wrap(schema.NewAnySchema()), nil
	case "any_prop":
		// an object with an any-typed property; the operations are issued on the object
		return schema.NewScopeSchema(schema.NewObjectSchema("root", map[string]*schema.PropertySchema{"p": prop(schema.NewAnySchema(), nil)})), nil
	case "disabled":
		// root{settings: ref S}, S{legacy: disabled WITHOUT a reason (Disable() always gives one: the fields are
		// set directly, as a description with disabled: true and no disabled_reason does), keep}
		legacy := prop(intT(), nil)
		legacy.Disabled = true
		sObj := schema.NewObjectSchema("S", map[string]*schema.PropertySchema{"legacy": legacy, "keep": prop(intT(), nil)})
		return schema.NewScopeSchema(
			schema.NewObjectSchema("root", map[string]*schema.PropertySchema{"settings": prop(schema.NewRefSchema("S", nil), nil)}),
			sObj), nil
	case "chain":
		// four single-property objects linked by references; the last one holds an integer
		const depth = 4
		objs := make([]*schema.ObjectSchema, depth)
		for i := 0; i < depth; i++ {
			id := fmt.Sprintf("level%d", i)
			if i == depth-1 {
				objs[i] = schema.NewObjectSchema(id, map[string]*schema.PropertySchema{
					"value": schema.NewPropertySchema(intMax10(), nil, true, nil, nil, nil, nil, nil)})
			} else {
				objs[i] = schema.NewObjectSchema(id, map[string]*schema.PropertySchema{
					"next": schema.NewPropertySchema(schema.NewRefSchema(fmt.Sprintf("level%d", i+1), nil), nil, true, nil, nil, nil, nil, nil)})
			}
		}
		return schema.NewScopeSchema(objs[0], objs[1:]...), nil
	case "compat2":
		return compatScope(false), nil
	case "objnest":
		// struct-mapped root -> map-based sub-object without a default of its own -> nested object with defaults
		leaf := schema.NewObjectSchema("leaf", map[string]*schema.PropertySchema{
			"f": prop(intT(), schema.PointerTo("2")),
			"w": prop(intT(), schema.PointerTo("6")),
		})
		mid := schema.NewObjectSchema("mid", map[string]*schema.PropertySchema{
			"u":     prop(intT(), nil),
			"burst": prop(schema.NewRefSchema("leaf", nil), nil),
		})
		root := schema.NewStructMappedObjectSchema[Settings]("root", map[string]*schema.PropertySchema{
			"n":      prop(intT(), nil),
			"limits": prop(schema.NewRefSchema("mid", nil), nil),
		})
		return schema.NewScopeSchema(root, mid, leaf), nil
	case "objdep":
		return schema.NewScopeSchema(schema.NewStructMappedObjectSchema[Dep]("root", map[string]*schema.PropertySchema{
			// the rule lists have several entries, declared in NON-alphabetical order
			"a": schema.NewPropertySchema(intT(), nil, false, nil, nil, []string{"c", "b"}, nil, nil),
			"b": prop(intT(), nil),
			"c": prop(schema.NewIntSchema(nil, schema.PointerTo(int64(10)), nil), nil),
			"d": schema.NewPropertySchema(intT(), nil, false, nil, []string{"b", "a"}, nil, nil, nil),
		})), nil
	case "mapcoll":
		return wrap(schema.NewMapSchema(intT(), schema.NewStringSchema(nil, nil, nil), nil, nil)), nil
	case "anycoll":
		return wrap(schema.NewAnySchema()), nil
	case "oneof_map":
		a := schema.NewObjectSchema("A", map[string]*schema.PropertySchema{"n": prop(intMax10(), nil)})
		b := schema.NewObjectSchema("B", map[string]*schema.PropertySchema{"m": prop(intT(), nil)})
		return wrap(schema.NewOneOfStringSchema[any](map[string]schema.Object{
			"a": schema.NewRefSchema("A", nil), "b": schema.NewRefSchema("B", nil),
		}, discField, false), a, b), nil
	case "oneof_struct":
		a := schema.NewStructMappedObjectSchema[MemberA]("A", map[string]*schema.PropertySchema{"n": prop(intMax10(), nil)})
		b := schema.NewStructMappedObjectSchema[MemberB]("B", map[string]*schema.PropertySchema{"m": prop(intT(), nil)})
		return wrap(schema.NewOneOfStringSchema[any](map[string]schema.Object{
			"a": schema.NewRefSchema("A", nil), "b": schema.NewRefSchema("B", nil),
		}, discField, false), a, b), nil
	case "enum_str":
		return wrap(strEnum("")), nil
	case "enum_int":
		return wrap(intEnum("")), nil
	case "patnil":
		// root{filters: list of pattern}
		return schema.NewScopeSchema(schema.NewObjectSchema("root", map[string]*schema.PropertySchema{
			"filters": prop(schema.NewListSchema(schema.NewPatternSchema(), nil, nil), nil)})), nil
	case "emptydef":
		// ONE property instance (a string of at least one character, the empty value standing for "unset") shared by
		// two struct-mapped objects whose fields have different Go types
		shared := prop(schema.NewStringSchema(schema.PointerTo(int64(1)), nil, nil), nil).TreatEmptyAsDefaultValue()
		return schema.NewScopeSchema(
			schema.NewStructMappedObjectSchema[EmptyA]("A", map[string]*schema.PropertySchema{"name": shared}),
			schema.NewStructMappedObjectSchema[EmptyB]("B", map[string]*schema.PropertySchema{"name": shared})), nil
	case "list_oneof":
		// items of one-of type: the list's reflected type is []any; members are map-based and have defaults
		a := schema.NewObjectSchema("A", map[string]*schema.PropertySchema{"n": prop(intMax10(), schema.PointerTo("3"))})
		b := schema.NewObjectSchema("B", map[string]*schema.PropertySchema{"m": prop(intT(), nil)})
		return wrap(schema.NewListSchema(schema.NewOneOfStringSchema[any](map[string]schema.Object{
			"a": schema.NewRefSchema("A", nil), "b": schema.NewRefSchema("B", nil)}, discField, false), nil, nil), a, b), nil
	case "list_any":
		return wrap(schema.NewListSchema(schema.NewAnySchema(), nil, nil)), nil
	case "list_objmap":
		// items are map-based objects with defaults: the list's reflected type is []map[string]any
		return wrap(schema.NewListSchema(schema.NewRefSchema("item", nil), nil, nil), listItem()), nil
	case "map_objmap":
		return wrap(schema.NewMapSchema(schema.NewStringSchema(nil, nil, nil), schema.NewRefSchema("item", nil), nil, nil), listItem()), nil
	case "mapcoll_units":
		// integer keys with units: "1m" and "60s" denote the same key
		return wrap(schema.NewMapSchema(schema.NewIntSchema(nil, nil, schema.UnitDurationSeconds), schema.NewStringSchema(nil, nil, nil), nil, nil)), nil
	case "mapcoll_strkey":
		// string keys: numbers are rendered as text, so 1.0000001 and 1.0000002 denote the same key
		return wrap(schema.NewMapSchema(schema.NewStringSchema(nil, nil, nil), schema.NewStringSchema(nil, nil, nil), nil, nil)), nil
	}
	if u, isF := unitsFor(ckind); u != nil {
		// property "v": the schema itself; property "l": a list of it (the same unit definition)
		var t schema.Type = schema.NewIntSchema(nil, nil, u)
		if isF {
			t = schema.NewFloatSchema(nil, nil, u)
		}
		return schema.NewScopeSchema(schema.NewObjectSchema("root", map[string]*schema.PropertySchema{
			"v": prop(t, nil),
			"l": prop(schema.NewListSchema(t, nil, nil), nil),
		})), nil
	}
	return nil, fmt.Errorf("unknown concrete kind %q", ckind)
}

// reqScope: root{a: REQUIRED, b, c, d, e, f}
func reqScope() *schema.ScopeSchema {
	props := map[string]*schema.PropertySchema{"a": schema.NewPropertySchema(intT(), nil, true, nil, nil, nil, nil, nil)}
	for _, n := range []string{"b", "c", "d", "e", "f"} {
		props[n] = prop(intT(), nil)
	}
	return schema.NewScopeSchema(schema.NewObjectSchema("root", props))
}

// listItem: a map-based object {n: int at most 10, default 7; t?: int}
func listItem() *schema.ObjectSchema {
	return schema.NewObjectSchema("item", map[string]*schema.PropertySchema{
		"n": prop(intMax10(), schema.PointerTo("7")),
		"t": prop(intT(), nil),
	})
}

// compatScope: Root{a..e, limits: ref Limits}, Limits{count}; with deep=true count is a string - incompatible
// deep inside, everything else equal.
func compatScope(deep bool) *schema.ScopeSchema {
	var count schema.Type = intT()
	if deep {
		count = schema.NewStringSchema(nil, nil, nil)
	}
	limits := schema.NewObjectSchema("Limits", map[string]*schema.PropertySchema{"count": prop(count, nil)})
	props := map[string]*schema.PropertySchema{"limits": prop(schema.NewRefSchema("Limits", nil), nil)}
	for _, n := range []string{"a", "b", "c", "d", "e", "f", "g", "h"} {
		props[n] = prop(intT(), nil)
	}
	return schema.NewScopeSchema(schema.NewObjectSchema("Root", props), limits)
}

// rebuild describes a scope and builds a new one from the description, as a receiving party would.
// UnserializeScope leaves references unlinked (only UnserializeSchema links): ApplySelf is the caller's
// job and is done here, single-threaded, before the scope is shared.
func rebuild(s *schema.ScopeSchema) (*schema.ScopeSchema, bool, error) {
	d, err := s.SelfSerialize()
	if err != nil {
		return nil, false, fmt.Errorf("SelfSerialize: %w", err)
	}
	s2, err := schema.UnserializeScope(d)
	if err != nil {
		return nil, false, fmt.Errorf("UnserializeScope: %w", err)
	}
	unlinked := s2.ValidateReferences() != nil
	s2.ApplySelf()
	return s2, unlinked, nil
}

func build(ckind, origin string) (*instance, error) {
	info, ok := ckinds[ckind]
	if !ok {
		return nil, fmt.Errorf("unknown concrete kind %q", ckind)
	}
	in := &instance{ckind: ckind, kind: info.kind, origin: origin, mult: 1}
	if ckind == "steps" {
		buildSteps(in)
		return in, nil
	}
	if ckind == "plugin_input" {
		// a whole plugin schema described by SelfSerialize and rebuilt by UnserializeSchema (which links the
		// step inputs and outputs itself): the instance is the rebuilt input scope of its step
		src, err := buildScope("objmap")
		if err != nil {
			return nil, err
		}
		out := schema.NewScopeSchema(schema.NewObjectSchema("out", map[string]*schema.PropertySchema{"n": prop(intT(), nil)}))
		step := schema.NewCallableStep[map[string]any]("s", src,
			map[string]*schema.StepOutputSchema{"ok": schema.NewStepOutputSchema(out, nil, false)}, nil,
			func(_ context.Context, i map[string]any) (string, any) { return "ok", map[string]any{"n": i["n"]} })
		d, err := schema.NewCallableSchema(step).SelfSerialize()
		if err != nil {
			return nil, fmt.Errorf("SelfSerialize of the plugin schema: %w", err)
		}
		rebuilt, err := schema.UnserializeSchema(d)
		if err != nil {
			return nil, fmt.Errorf("UnserializeSchema: %w", err)
		}
		sc, ok := rebuilt.Steps()["s"].Input().(*schema.ScopeSchema)
		if !ok {
			return nil, fmt.Errorf("rebuilt step input is %T", rebuilt.Steps()["s"].Input())
		}
		in.scope, in.target = sc, sc
		return in, nil
	}
	s, err := buildScope(ckind)
	if err != nil {
		return nil, err
	}
	if origin == "derived" {
		// a scope made of another scope's parts: never linked (ApplySelf) itself
		s = schema.NewScopeSchemaFromScope(s)
	}
	if origin == "rebuilt" {
		s2, unlinked, err := rebuild(s)
		if err != nil {
			return nil, err
		}
		in.needsApply = unlinked
		s = s2
	}
	in.scope = s
	switch info.kind {
	case "objmap", "objstruct", "objdep", "objnest", "chain", "compat2", "disabled", "objreq", "patnil", "emptydef", "meta":
		in.target = s
	case "anylist":
		if ckind == "any_prop" {
			in.target = s
		} else {
			in.target = targetOf(s)
		}
	default:
		in.target = targetOf(s)
	}
	if info.kind == "compat2" {
		in.peers = map[string]any{"same": compatScope(false), "deep": compatScope(true)}
	}
	if info.kind == "units" || info.kind == "units0" {
		switch t := in.target.(type) {
		case *schema.IntSchema:
			in.units = t.Units()
		case *schema.FloatSchema:
			in.units, in.isF = t.Units(), true
		default:
			return nil, fmt.Errorf("units instance has target %T", in.target)
		}
		if in.units == nil {
			return nil, fmt.Errorf("units instance lost its units")
		}
		// the smallest declared unit, from the PUBLIC definition (not from the parser under test)
		in.baseNm = in.units.BaseUnit().NameShortPlural()
		in.unitNm = in.baseNm
		var ms []int64
		for m := range in.units.Multipliers() {
			ms = append(ms, m)
		}
		sort.Slice(ms, func(i, j int) bool { return ms[i] < ms[j] })
		if len(ms) > 0 {
			in.mult = ms[0]
			in.unitNm = in.units.Multipliers()[ms[0]].NameShortPlural()
		}
	}
	return in, nil
}

// ---------------------------------------------------------------------------- callable schema (steps + signals)

type stepData struct{ id int64 }
type stepIn struct {
	X int64 `json:"x"`
}
type stepOut struct {
	ID int64 `json:"id"`
}

func buildSteps(in *instance) {
	var counter int64
	in.initCount = &counter
	in.seenMu = &sync.Mutex{}
	in.seen = map[string]map[int64]bool{}
	mu, seen := in.seenMu, in.seen
	note := func(run string, id int64) {
		mu.Lock()
		if seen[run] == nil {
			seen[run] = map[int64]bool{}
		}
		seen[run][id] = true
		mu.Unlock()
	}
	inScope := func() *schema.ScopeSchema {
		return schema.NewScopeSchema(schema.NewStructMappedObjectSchema[stepIn]("in", map[string]*schema.PropertySchema{
			"x": prop(schema.NewIntSchema(nil, nil, nil), schema.PointerTo("0")),
		}))
	}
	outScope := schema.NewScopeSchema(schema.NewStructMappedObjectSchema[stepOut]("out", map[string]*schema.PropertySchema{
		"id": prop(schema.NewIntSchema(nil, nil, nil), nil),
	}))
	sigHandler := func(ctx context.Context, d *stepData, i stepIn) {
		if d != nil {
			note(ctx.Value(runKeyT{}).(string), d.id)
		}
	}
	var sig schema.CallableSignal
	if in.origin == "derived" {
		// the construction route of plugins that declare their signals as schemas: the data scope of the callable
		// signal is made by NewScopeSchemaFromScope and never linked itself
		sig = schema.NewCallableSignalFromSchema[*stepData, stepIn](schema.NewSignalSchema("sig", inScope(), nil), sigHandler)
	} else {
		sig = schema.NewCallableSignal[*stepData, stepIn]("sig", inScope(), nil, sigHandler)
	}
	if in.origin == "plain" {
		// a step WITHOUT signal handlers and without step data (NewCallableStep)
		plain := schema.NewCallableStep[stepIn]("s", inScope(),
			map[string]*schema.StepOutputSchema{"ok": schema.NewStepOutputSchema(outScope, nil, false)}, nil,
			func(ctx context.Context, i stepIn) (string, any) { return "ok", stepOut{ID: i.X} })
		in.callable = schema.NewCallableSchema(plain)
		in.kind = "steps"
		return
	}
	step := schema.NewCallableStepWithSignals[*stepData, stepIn](
		"s", inScope(),
		map[string]*schema.StepOutputSchema{"ok": schema.NewStepOutputSchema(outScope, nil, false)},
		map[string]schema.CallableSignal{"sig": sig}, nil, nil,
		func() *stepData { return &stepData{id: atomic.AddInt64(&counter, 1)} },
		func(ctx context.Context, d *stepData, i stepIn) (string, any) {
			note(ctx.Value(runKeyT{}).(string), d.id)
			return "ok", stepOut{ID: d.id}
		},
	)
	in.callable = schema.NewCallableSchema(step)
	in.kind = "steps"
}

type runKeyT struct{}

func stepCtx(run string) context.Context {
	return context.WithValue(context.Background(), runKeyT{}, run)
}
