package main

import (
	"errors"
	"fmt"
	"math"
	"reflect"
	"regexp"
	"sort"
	"strings"
	"sync/atomic"

	"go.flow.arcalot.io/pluginsdk/schema"
	"verif/harness/sup"
)

// ---------------------------------------------------------------------------- concretisation of arguments

func objArgMap(m flat, typed bool) map[string]any {
	a := map[string]any{}
	num := func(v int64) any {
		if typed {
			return v
		}
		return int(v) // a raw input as a YAML/JSON decoder would hand it over
	}
	if m.N >= 0 {
		a["n"] = num(m.N)
	}
	if m.T >= 0 {
		a["t"] = num(m.T)
	}
	if m.Sa >= 0 || m.Sb >= 0 {
		s := map[string]any{}
		if m.Sa >= 0 {
			s["a"] = num(m.Sa)
		}
		if m.Sb >= 0 {
			s["b"] = num(m.Sb)
		}
		a["s"] = s
	}
	return a
}

// argFor builds a FRESH Go value for the abstract argument of one call.
func (in *instance) argFor(op, tok string, m flat) (any, error) {
	structMapped := in.ckind == "objstruct" && in.origin != "rebuilt" || in.ckind == "meta"
	switch in.kind {
	case "steps":
		return nil, nil // the input of the step / signal is fixed (callStep)
	case "patnil":
		good := regexp.MustCompile("^a+$")
		if tok == "good" {
			return map[string]any{"filters": []*regexp.Regexp{good}}, nil
		}
		return map[string]any{"filters": []*regexp.Regexp{good, nil}}, nil // the second item is a nil pattern
	case "emptydef":
		if tok == "empty_a" {
			return EmptyA{}, nil
		}
		return EmptyB{}, nil
	case "listarg":
		// same_type: a container of exactly the Go type the result has; its elements are raw (ints of other widths,
		// maps without the defaults / with the discriminator); *_bad: the last element is refused
		bad := tok == "same_type_bad"
		switch in.ckind {
		case "list_oneof":
			items := []any{map[string]any{discField: "a"}, map[string]any{discField: "b", "m": int(1)}}
			if bad {
				items = append(items, map[string]any{discField: "a", "n": int(100)})
			}
			if tok == "other_type" {
				return []map[string]any{{discField: "a"}}, nil
			}
			return items, nil
		case "list_any":
			items := []any{int(1), float32(1.5), map[string]any{"k": int(1)}}
			if bad {
				items = append(items, struct{ X int }{1})
			}
			if tok == "other_type" {
				return []int{1, 2}, nil
			}
			return items, nil
		case "list_objmap":
			if tok == "other_type" {
				return []any{map[string]any{"t": int(1)}}, nil
			}
			items := []map[string]any{{"t": int(1)}, {}}
			if bad {
				items = append(items, map[string]any{"n": int(100)})
			}
			return items, nil
		case "map_objmap":
			if tok == "other_type" {
				return map[any]any{"k": map[string]any{"t": int(1)}}, nil
			}
			items := map[string]map[string]any{"k": {"t": int(1)}, "l": {}}
			if bad {
				items["z"] = map[string]any{"n": int(100)}
			}
			return items, nil
		}
	case "objreq":
		// root{a REQUIRED, b..e}; the partial arguments leave a out and supply b
		switch tok {
		case "data_partial":
			return map[string]any{"b": int(1)}, nil
		case "data_full":
			return map[string]any{"a": int(1), "b": int(1)}, nil
		case "props_partial":
			// a map of property schemas, as the compatibility of two objects hands it over
			return map[string]any{"b": prop(intT(), nil)}, nil
		case "schema_partial":
			return schema.NewScopeSchema(schema.NewObjectSchema("root", map[string]*schema.PropertySchema{
				"b": prop(intT(), nil), "c": prop(intT(), nil)})), nil
		case "schema_full":
			return reqScope(), nil
		}
	case "anylist":
		// []any values as a decoder or a careless caller hands them over: items in non-canonical representations
		var v any
		switch tok {
		case "list_mixed":
			v = []any{int(1), uint8(2), float32(1.5), map[string]any{"k": int(1)}, []any{int16(3)}}
		case "list_bad":
			v = []any{int(1), uint8(2), struct{ X int }{1}} // the last item is refused, after the first were converted
		case "map_list":
			v = map[string]any{"k": []any{int(1), float32(2.5)}}
		default:
			return nil, fmt.Errorf("no concretisation for kind %s arg %s", in.kind, tok)
		}
		if in.ckind == "any_prop" {
			return map[string]any{"p": v}, nil
		}
		return v, nil
	case "disabled":
		switch tok {
		case "uses_disabled":
			return map[string]any{"settings": map[string]any{"legacy": int(1)}}, nil
		case "keeps":
			return map[string]any{"settings": map[string]any{"keep": int(1)}}, nil
		}
	case "chain":
		switch tok {
		case "scalar":
			return int(5), nil
		case "badscalar":
			return int(100), nil // the last object's property is at most 10
		case "nested":
			return map[string]any{"next": map[string]any{"next": map[string]any{"next": map[string]any{"value": int(5)}}}}, nil
		}
	case "compat2":
		if p, ok := in.peers[tok]; ok {
			return p, nil
		}
	case "objnest":
		// n = root.n, t = limits.u, sa / sb = limits.burst.f / .w; "limits" is given iff the token says so
		limits := map[string]any{}
		if m.T >= 0 {
			limits["u"] = int(m.T)
		}
		if m.Sa >= 0 || m.Sb >= 0 {
			b := map[string]any{}
			if m.Sa >= 0 {
				b["f"] = int(m.Sa)
			}
			if m.Sb >= 0 {
				b["w"] = int(m.Sb)
			}
			limits["burst"] = b
		}
		if op == "unsermid" {
			return limits, nil
		}
		a := map[string]any{}
		if m.N >= 0 {
			a["n"] = int(m.N)
		}
		if strings.HasPrefix(tok, "lim_") {
			a["limits"] = limits
		}
		return a, nil
	case "objdep":
		// paths n, t, sa, sb stand for the fields a, b, c, d
		if (op == "valid" || op == "ser") && in.origin != "rebuilt" {
			d := Dep{}
			for _, f := range []struct {
				v   int64
				dst **int64
			}{{m.N, &d.A}, {m.T, &d.B}, {m.Sa, &d.C}, {m.Sb, &d.D}} {
				if f.v >= 0 {
					v := f.v
					*f.dst = &v
				}
			}
			return d, nil
		}
		a := map[string]any{}
		for k, v := range map[string]int64{"a": m.N, "b": m.T, "c": m.Sa, "d": m.Sb} {
			if v >= 0 {
				if op == "unser" {
					a[k] = int(v)
				} else {
					a[k] = v
				}
			}
		}
		return a, nil
	case "objmap", "objstruct", "meta":
		if tok == "bad" {
			return map[string]any{"zz": int64(1)}, nil
		}
		if op == "unser" || op == "compat" {
			return objArgMap(m, false), nil
		}
		// Validate / Serialize take the unserialised form
		if structMapped {
			o := Outer{}
			if m.N >= 0 {
				o.N = m.N
			}
			if m.T >= 0 {
				t := m.T
				o.T = &t
			}
			if m.Sa >= 0 {
				o.S.A = m.Sa
			}
			if m.Sb >= 0 {
				o.S.B = m.Sb
			}
			return o, nil
		}
		return objArgMap(m, true), nil
	case "units", "units0":
		switch tok {
		case "str_ok":
			return map[string]any{"v": fmt.Sprintf("5%s", in.unitNm)}, nil
		case "str_bad":
			return map[string]any{"v": "5 parsecs!"}, nil
		case "str_over":
			// well-formed, but the count does not fit into 64 bits
			return map[string]any{"v": "99999999999999999999" + in.unitNm}, nil
		case "list_over":
			q := "99999999999999999999" + in.unitNm
			return map[string]any{"l": []any{q, q}}, nil
		case "num":
			if op == "fmt" {
				return nil, nil
			}
			if in.isF {
				return map[string]any{"v": float64(7)}, nil
			}
			return map[string]any{"v": int64(7)}, nil
		}
	case "mapcoll":
		if in.ckind == "anycoll" {
			switch tok {
			case "collide", "typed_collide":
				// (the any schema keeps string keys apart: its colliding keys are integers of different widths)
				return map[any]any{int(1): "x", int64(1): "y"}, nil
			case "single":
				return map[any]any{int64(1): "x"}, nil
			case "bad":
				return struct{ X int }{1}, nil
			}
		}
		if tok == "bad" {
			return "not a map", nil
		}
		switch in.ckind + "/" + tok {
		case "mapcoll/collide":
			return map[any]any{int64(1): "x", "1": "y"}, nil
		case "mapcoll/single":
			return map[any]any{int64(1): "x"}, nil
		case "mapcoll/typed_collide":
			return map[string]any{"7": "x", "07": "y"}, nil // one Go key type, two texts of one integer
		case "mapcoll_units/collide":
			return map[any]any{int64(60): "x", "1m": "y"}, nil
		case "mapcoll_units/single":
			return map[any]any{"1m": "x"}, nil
		case "mapcoll_units/typed_collide":
			return map[string]any{"1m": "x", "60s": "y"}, nil
		case "mapcoll_strkey/collide":
			return map[any]any{"1": "x", int64(1): "y"}, nil
		case "mapcoll_strkey/single":
			return map[any]any{int64(1): "x"}, nil
		case "mapcoll_strkey/typed_collide":
			return map[float64]any{1.0000001: "x", 1.0000002: "y"}, nil // both render as "1.000000"
		}
	case "oneof":
		switch tok {
		case "member_a", "member_a_bad":
			if op == "unser" {
				return map[string]any{discField: "a", "n": int(m.N)}, nil
			}
			// data-mode compatibility is asked about the map form, also for struct-mapped members
			if in.ckind == "oneof_struct" && in.origin != "rebuilt" && op != "compat" {
				return MemberA{N: m.N}, nil
			}
			return map[string]any{discField: "a", "n": m.N}, nil
		case "nodisc":
			return map[string]any{"n": int(1)}, nil
		}
	case "enum":
		isInt := in.ckind == "enum_int"
		mk := func(variant string) schema.Type {
			if isInt {
				return intEnum(variant)
			}
			return strEnum(variant)
		}
		switch tok {
		case "same":
			return mk(""), nil
		case "extra", "renamed", "unnamed":
			return mk(tok), nil
		case "scope_same":
			return wrap(mk("")), nil // the enum as a property type, scope compared with scope
		case "scope_renamed":
			return wrap(mk("renamed")), nil
		case "member":
			if isInt {
				return int64(1), nil
			}
			return "a", nil
		case "bad":
			if isInt {
				return int64(77), nil
			}
			return "zz", nil
		}
	}
	return nil, fmt.Errorf("no concretisation for kind %s op %s arg %s", in.kind, op, tok)
}

// ---------------------------------------------------------------------------- abstraction of results

func toInt(v any) (int64, bool) {
	switch x := v.(type) {
	case int64:
		return x, true
	case int:
		return int64(x), true
	case float64:
		if x == math.Trunc(x) && math.Abs(x) < 1e15 {
			return int64(x), true
		}
	case *int64:
		if x == nil {
			return -1, true
		}
		return *x, true
	}
	return 0, false
}

func flatOfMap(mp map[string]any, sub bool) (flat, error) {
	f := emptyFlat
	for k, v := range mp {
		switch {
		case !sub && k == "n", !sub && k == "t", sub && k == "a", sub && k == "b":
			i, ok := toInt(v)
			if !ok {
				return f, fmt.Errorf("property %s has value %T", k, v)
			}
			switch k {
			case "n":
				f.N = i
			case "t":
				f.T = i
			case "a":
				f.Sa = i
			case "b":
				f.Sb = i
			}
		case !sub && k == "s":
			var sf flat
			var err error
			switch sv := v.(type) {
			case map[string]any:
				sf, err = flatOfMap(sv, true)
			case Inner:
				sf = flat{-1, -1, sv.A, sv.B}
			default:
				err = fmt.Errorf("property s has value %T", v)
			}
			if err != nil {
				return f, err
			}
			f.Sa, f.Sb = sf.Sa, sf.Sb
		case !sub && k == discField:
			if v == "a" {
				f.T = 1
			} else {
				f.T = 2
			}
		default:
			return f, fmt.Errorf("unexpected key %q", k)
		}
	}
	return f, nil
}

func flatOf(v any) (flat, error) {
	switch x := v.(type) {
	case Outer:
		f := flat{x.N, -1, x.S.A, x.S.B}
		if x.T != nil {
			f.T = *x.T
		}
		return f, nil
	case map[string]any:
		return flatOfMap(x, false)
	case Dep:
		f := emptyFlat
		for _, p := range []struct {
			src *int64
			dst *int64
		}{{x.A, &f.N}, {x.B, &f.T}, {x.C, &f.Sa}, {x.D, &f.Sb}} {
			if p.src != nil {
				*p.dst = *p.src
			}
		}
		return f, nil
	case MemberA:
		return flat{x.N, 1, -1, -1}, nil
	case MemberB:
		return flat{-1, 2, -1, -1}, nil
	}
	return emptyFlat, fmt.Errorf("result of type %T", v)
}

// ---------------------------------------------------------------------------- one evaluation

// call evaluates one operation once: fresh argument, deep snapshot before and after, abstraction.
func (in *instance) call(op, tok string, m flat) (o obs) {
	arg, err := in.argFor(op, tok, m)
	if err != nil {
		o.M, o.N = emptyFlat, 0
		o.FlatErr = err.Error()
		return o
	}
	return in.callWith(op, tok, m, arg, false)
}

// callWith evaluates one operation on a given argument value.  shared: the value is handed to several concurrent
// calls at once (a caller may do that: arguments are read-only); it is then not rendered per call - reading it
// while the SDK writes to it would be the harness's part of the SDK's race - but once before and after the trial.
func (in *instance) callWith(op, tok string, m flat, arg any, shared bool) (o obs) {
	o.M, o.N = emptyFlat, 0
	snapshot := func() string {
		if in.kind == "compat2" || shared {
			return "" // a shared value: compared once per trial, not per call
		}
		return canon(arg)
	}
	before := snapshot()
	var res any
	var cerr error
	hasValue := true
	pi := sup.Guard(func() {
		switch {
		case in.kind == "steps":
			res, cerr = in.callStep(op, tok)
		case op == "fmt":
			if in.isF {
				res = in.units.FormatShortFloat(7)
			} else {
				res = in.units.FormatShortInt(7)
			}
		case in.kind == "units" || in.kind == "units0":
			// through the wrapping object: the int/float schema is its property "v"
			switch op {
			case "unser":
				res, cerr = in.scope.Unserialize(arg)
			case "ser":
				res, cerr = in.scope.Serialize(arg)
			case "valid":
				cerr, hasValue = in.scope.Validate(arg), false
			}
		default:
			switch op {
			case "unser":
				res, cerr = in.target.Unserialize(arg)
			case "ser", "valid":
				t := in.target
				if in.kind == "emptydef" {
					// the operations are issued on the object the value belongs to
					t = in.scope.Objects()[map[string]string{"empty_a": "A", "empty_b": "B"}[tok]]
				}
				if op == "ser" {
					res, cerr = t.Serialize(arg)
				} else {
					cerr, hasValue = t.Validate(arg), false
				}
			case "unsermid":
				res, cerr = in.scope.Objects()["mid"].Unserialize(arg)
			case "compat":
				if strings.HasPrefix(tok, "scope_") {
					cerr, hasValue = in.scope.ValidateCompatibility(arg), false
				} else {
					cerr, hasValue = in.target.ValidateCompatibility(arg), false
				}
			default:
				cerr = fmt.Errorf("harness: unknown op %s", op)
			}
		}
	})
	after := snapshot()
	o.ArgSame = before == after
	if !o.ArgSame {
		o.ArgDiff = before + "  ->  " + after
	}
	if pi != nil {
		o.Panic = pi
		return o
	}
	if cerr != nil {
		o.ErrKey, o.ErrPath = errKey(cerr)
		if o.ErrPath <= 32 {
			o.Err = cerr.Error()
		}
		if in.kind == "mapcoll" && strings.Contains(o.Err, "Duplicate key") {
			// WHICH of two raw keys denoting one key is reported as the duplicate (the one met second) follows the
			// iteration order of the input by nature: the rejection is compared, not the key it names
			o.ErrKey = "duplicate key"
		}
		if (in.kind == "disabled" || in.kind == "patnil") && o.ErrPath >= 0 {
			o.N = int64(o.ErrPath)
		}
		return o
	}
	o.Ok = true
	o.Result = res
	if hasValue {
		o.Canon = canon(res)
	}
	// abstraction
	switch in.kind {
	case "chain":
		if !hasValue {
			return o
		}
		var cur any = res
		for {
			mp, ok := cur.(map[string]any)
			if !ok || len(mp) != 1 {
				o.FlatErr = fmt.Sprintf("chain result %s", o.Canon)
				return o
			}
			if v, leaf := mp["value"]; leaf {
				i, ok := toInt(v)
				if !ok {
					o.FlatErr = fmt.Sprintf("chain leaf %T", v)
				}
				o.N = i
				return o
			}
			cur = mp["next"]
		}
	case "compat2", "anylist", "objreq", "listarg", "patnil", "emptydef":
		// verdict only
	case "disabled":
		o.N = 1
	case "objnest":
		f := emptyFlat
		midFlat := func(mp map[string]any) {
			for k, v := range mp {
				switch k {
				case "u":
					i, ok := toInt(v)
					if !ok {
						o.FlatErr = fmt.Sprintf("objnest u has value %T", v)
					}
					f.T = i
				case "burst":
					b, ok := v.(map[string]any)
					if !ok {
						o.FlatErr = fmt.Sprintf("objnest burst has value %T", v)
						return
					}
					for bk, bv := range b {
						i, ok := toInt(bv)
						if !ok || (bk != "f" && bk != "w") {
							o.FlatErr = fmt.Sprintf("objnest burst.%s has value %T", bk, bv)
						}
						if bk == "f" {
							f.Sa = i
						} else {
							f.Sb = i
						}
					}
				default:
					o.FlatErr = "objnest: unexpected key " + k + " in limits"
				}
			}
		}
		switch x := res.(type) {
		case Settings:
			if x.N != nil {
				f.N = *x.N
			}
			midFlat(x.Limits)
		case map[string]any:
			if op == "unsermid" {
				midFlat(x)
				break
			}
			for k, v := range x {
				switch k {
				case "n":
					i, ok := toInt(v)
					if !ok {
						o.FlatErr = fmt.Sprintf("objnest n has value %T", v)
					}
					f.N = i
				case "limits":
					mp, ok := v.(map[string]any)
					if !ok {
						o.FlatErr = fmt.Sprintf("objnest limits has value %T", v)
						break
					}
					midFlat(mp)
				default:
					o.FlatErr = "objnest: unexpected key " + k
				}
			}
		default:
			o.FlatErr = fmt.Sprintf("objnest result %T", res)
		}
		o.M = f
	case "objdep":
		if !hasValue {
			o.M = m
			return o
		}
		if mp, isMap := res.(map[string]any); isMap {
			f := emptyFlat
			for k, v := range mp {
				i, ok := toInt(v)
				if !ok {
					o.FlatErr = fmt.Sprintf("objdep property %s has value %T", k, v)
				}
				switch k {
				case "a":
					f.N = i
				case "b":
					f.T = i
				case "c":
					f.Sa = i
				case "d":
					f.Sb = i
				default:
					o.FlatErr = "objdep: unexpected key " + k
				}
			}
			o.M = f
			return o
		}
		f, ferr := flatOf(res)
		if ferr != nil {
			o.FlatErr = ferr.Error()
		}
		o.M = f
	case "objmap", "objstruct", "meta", "oneof":
		if !hasValue {
			o.M = m // Validate / ValidateCompatibility have no value: the model echoes the argument
			return o
		}
		f, ferr := flatOf(res)
		if ferr != nil {
			o.FlatErr = ferr.Error()
		}
		o.M = f
	case "units", "units0":
		if op == "fmt" {
			if res == "7"+in.baseNm {
				o.N = 7
			} else {
				o.N = -1
			}
			return o
		}
		mp, ok := res.(map[string]any)
		if !ok {
			o.FlatErr = fmt.Sprintf("units result %T", res)
			return o
		}
		if l, isList := mp["l"]; isList && mp["v"] == nil {
			// a list of quantities was accepted: the model expects none of the list arguments to be
			o.N = -2 - int64(reflect.ValueOf(l).Len())
			return o
		}
		var val float64
		switch x := mp["v"].(type) {
		case int64:
			val = float64(x)
		case float64:
			val = x
		default:
			o.FlatErr = fmt.Sprintf("units value %T", mp["v"])
			return o
		}
		if tok == "str_ok" {
			// the model's "5 of the smallest declared unit"
			o.N = -1
			if q := val / float64(in.mult); q == math.Trunc(q) {
				o.N = int64(q)
			}
		} else {
			o.N = int64(val)
		}
	case "mapcoll":
		rv := reflect.ValueOf(res)
		if rv.Kind() != reflect.Map || rv.Len() != 1 {
			o.FlatErr = fmt.Sprintf("map result %s", o.Canon)
			return o
		}
		for it := rv.MapRange(); it.Next(); {
			val := it.Value().Interface()
			switch val {
			case "x":
				o.N = 1
			case "y":
				o.N = 2
			default:
				o.FlatErr = fmt.Sprintf("map result %s", o.Canon)
			}
		}
	case "enum":
		if op == "unser" {
			o.N = 1
		}
	case "steps":
		o.N = 1
	}
	return o
}

var wordRe = regexp.MustCompile(`[^\pL\pN_]+`)
var ptrRe = regexp.MustCompile(`0x[0-9a-f]{6,}`)

// errKey renders what must be equal between two rejections of one (schema, argument): the path of the offending
// element and the message - as a bag of words, because messages may list map keys in iteration order.
func errKey(err error) (string, int) {
	path, n := "-", -1
	var ce *schema.ConstraintError
	if errors.As(err, &ce) && ce != nil {
		n = len(ce.Path)
		if n > 32 {
			// a path longer than any schema here is deep: keep the check cheap
			return fmt.Sprintf("path of %d segments", n), n
		}
		path = strings.Join(ce.Path, "/")
	}
	text := err.Error()
	if len(text) > 4096 {
		text = text[:4096]
	}
	// addresses of schema values printed into messages differ from instance to instance
	words := wordRe.Split(ptrRe.ReplaceAllString(text, "PTR"), -1)
	sort.Strings(words)
	return "path=" + path + " words=" + strings.Join(words, " "), n
}

// callStep issues a step or signal call on the callable schema; tok is the run ID.
func (in *instance) callStep(op, run string) (any, error) {
	if in.origin == "plain" {
		// steps without signals: every call is a run of its own (distinct run IDs, also between goroutines)
		run = fmt.Sprintf("%s-%d", run, atomic.AddInt64(&in.runSeq, 1))
	}
	ctx := stepCtx(run)
	if op == "signal" {
		return nil, in.callable.CallSignal(ctx, run, "s", "sig", map[string]any{"x": 1})
	}
	outID, out, err := in.callable.CallStep(ctx, run, "s", map[string]any{"x": 1})
	if err != nil {
		return nil, err
	}
	if outID != "ok" {
		return nil, fmt.Errorf("harness: output %q", outID)
	}
	// the serialised output carries the identity of the step data the handler saw; identities are
	// compared per run afterwards (the number itself depends on the order of first calls)
	_ = out
	return "ok", nil
}

// ---------------------------------------------------------------------------- state of the schema, as far as it is observable

type snapshot struct {
	Descr    string // canonical self-description
	Defaults string // canonical GetDefaults() of every object of the scope
	Root     flat   // abstraction of the root object's defaults
	Inner    flat
	Has      bool // the instance has objects with defaults
	Err      string
}

func (in *instance) snap() (s snapshot) {
	s.Root, s.Inner = emptyFlat, emptyFlat
	if in.kind == "steps" {
		pi := sup.Guard(func() {
			d, err := in.callable.SelfSerialize()
			if err != nil {
				s.Err = err.Error()
				return
			}
			s.Descr = canon(d)
		})
		if pi != nil {
			s.Err = "panic: " + pi.Msg
		}
		return s
	}
	pi := sup.Guard(func() {
		d, err := in.scope.SelfSerialize()
		if err != nil {
			s.Err = err.Error()
			return
		}
		s.Descr = canon(d)
		defs := map[string]any{}
		for id, o := range in.scope.Objects() {
			defs[id] = o.GetDefaults()
		}
		s.Defaults = canon(defs)
		if in.kind == "objmap" || in.kind == "objstruct" {
			s.Has = true
			var ferr error
			if s.Root, ferr = flatOfMap(in.scope.Objects()["root"].GetDefaults(), false); ferr != nil {
				s.Err = "defaults: " + ferr.Error()
			}
			if inner, ok := in.scope.Objects()["inner"]; ok {
				if s.Inner, ferr = flatOfMap(inner.GetDefaults(), true); ferr != nil {
					s.Err = "defaults: " + ferr.Error()
				}
			}
		}
	})
	if pi != nil {
		s.Err = "panic: " + pi.Msg + " @ " + pi.Frame
	}
	return s
}

// scribble overwrites everything reachable from a result the caller owns (maps and slices), as a caller
// post-processing its result may: if the schema shares memory with results, its state changes.
func scribble(v any) {
	scribbleValue(reflect.ValueOf(v), 0)
}

func scribbleValue(v reflect.Value, depth int) {
	if !v.IsValid() || depth > 8 {
		return
	}
	switch v.Kind() {
	case reflect.Interface, reflect.Pointer:
		if !v.IsNil() {
			scribbleValue(v.Elem(), depth+1)
		}
	case reflect.Map:
		if v.IsNil() {
			return
		}
		for _, k := range v.MapKeys() {
			scribbleValue(v.MapIndex(k), depth+1)
		}
		if v.Type().Key().Kind() == reflect.String && v.Type().Elem().Kind() == reflect.Interface {
			v.SetMapIndex(reflect.ValueOf("__scribble").Convert(v.Type().Key()), reflect.ValueOf(int64(666)))
			for _, k := range v.MapKeys() {
				if e := v.MapIndex(k); e.Elem().IsValid() && e.Elem().Kind() != reflect.Map && e.Elem().Kind() != reflect.Slice {
					v.SetMapIndex(k, reflect.ValueOf(int64(667)))
				}
			}
		}
	case reflect.Slice:
		for i := 0; i < v.Len(); i++ {
			scribbleValue(v.Index(i), depth+1)
			if v.Index(i).CanSet() && v.Index(i).Kind() == reflect.Interface {
				v.Index(i).Set(reflect.ValueOf(int64(668)))
			}
		}
	}
}
