// Command instance is the conformance driver for C12 and C13 (spec/Instance.tla).
//
// Cases (one JSON value per line, through sup.Main):
//
//	{"mode":"hist","ckind","origin","calls":[{"op","tok","m","exp":[res..]}..],"reps":N}
//	    C12: one call history on ONE instance.  Every call is evaluated N times on the instance and N
//	    times on a fresh instance built the same way; after every call the argument snapshot, the
//	    self-description and GetDefaults() are compared with a fresh instance.
//	{"mode":"random","seed","instances","len"}
//	    C12, code -> spec: seeded random histories (longer, arbitrary object arguments); returns trace
//	    lines for InstanceTrace.tla.
//	{"mode":"race","ckind","origin","progs":[[{"op","tok","m","exp"}..]..],"n":N,"trials":T,"procs":P,"seed"}
//	    C13: P fresh PROCESSES (this binary with -oneshot, so that package-level values are unused),
//	    each running T trials: fresh / rebuilt instance, N goroutines released from one barrier, goroutine
//	    g issuing the calls of progs[g mod len] in order, every result compared with the result of the
//	    same call made alone on another fresh instance.
//	    The Go race detector (the binary must be built with -race) is the observation instrument for
//	    "a data race occurs": GORACE=halt_on_error=0 log_path=..., reports are parsed and keyed by the
//	    SDK functions of both accesses.
//	{"mode":"bind"}   self-check of the abstraction tables against independent computations.
package main

import (
	"bytes"
	"encoding/json"
	"fmt"
	"math/rand"
	"os"
	"os/exec"
	"path/filepath"
	"runtime"
	"runtime/debug"
	"sort"
	"strings"
	"sync"
	"sync/atomic"
	"time"

	"verif/harness/sup"
)

type resE struct {
	Ok bool  `json:"ok"`
	M  flat  `json:"m"`
	N  int64 `json:"n"`
}

type callT struct {
	Op  string `json:"op"`
	Tok string `json:"tok"`
	M   *flat  `json:"m"`
	Exp []resE `json:"exp"`
}

func (c callT) m() flat {
	if c.M == nil {
		return emptyFlat
	}
	return *c.M
}

type caseT struct {
	Mode      string    `json:"mode"`
	CKind     string    `json:"ckind"`
	Origin    string    `json:"origin"`
	Calls     []callT   `json:"calls"`
	Progs     [][]callT `json:"progs"`
	Reps      int       `json:"reps"`
	N         int       `json:"n"`
	Trials    int       `json:"trials"`
	Procs     int       `json:"procs"`
	Seed      int64     `json:"seed"`
	Instances int       `json:"instances"`
	Len       int       `json:"len"`
	LogDir    string    `json:"logdir"`
	Shared    bool      `json:"shared"` // race mode: the goroutines pass ONE argument value (per distinct call) to their calls
	Iters     int       `json:"iters"`  // race mode: every goroutine repeats its calls this often per trial (steady state)
}

type mismatch struct {
	Sig    map[string]any `json:"sig"`
	Detail map[string]any `json:"detail"`
	Drift  bool           `json:"drift,omitempty"`
}

type resT struct {
	Evals       int              `json:"evals"`
	Mismatches  []mismatch       `json:"mismatches,omitempty"`
	Trace       []map[string]any `json:"trace,omitempty"`
	Keys        []string         `json:"keys,omitempty"`
	BindError   string           `json:"bind_error,omitempty"`
	HarnessErr  string           `json:"harness_error,omitempty"`
	NeedsApply  bool             `json:"needs_apply_self,omitempty"`
	RaceEnabled bool             `json:"race_enabled"`
	Trials      int              `json:"trials,omitempty"`
	Procs       int              `json:"procs,omitempty"`
	Reports     int              `json:"reports,omitempty"`
	WallMs      int64            `json:"wall_ms,omitempty"`
}

func (r *resT) add(drift bool, sig map[string]any, detail map[string]any) {
	for _, m := range r.Mismatches {
		if fmt.Sprint(m.Sig) == fmt.Sprint(sig) && m.Drift == drift {
			return // one sample per signature and case
		}
	}
	r.Mismatches = append(r.Mismatches, mismatch{Sig: sig, Detail: detail, Drift: drift})
}

func main() {
	for _, a := range os.Args[1:] {
		if a == "-oneshot" {
			oneshot()
			return
		}
	}
	sup.Main(handler)
}

func handler(raw json.RawMessage) any {
	var c caseT
	if err := json.Unmarshal(raw, &c); err != nil {
		return resT{HarnessErr: "bad case: " + err.Error()}
	}
	switch c.Mode {
	case "hist":
		return runHist(c)
	case "random":
		return runRandom(c)
	case "race":
		return runRace(c, raw)
	case "bind":
		return runBind()
	}
	return resT{HarnessErr: "unknown mode " + c.Mode}
}

// ---------------------------------------------------------------------------- C12: histories

func inExp(o obs, exp []resE) bool {
	for _, e := range exp {
		if e.Ok == o.Ok && (!o.Ok || (e.M == o.M && e.N == o.N)) {
			return true
		}
	}
	return false
}

// argClass is the class of the argument in a signature: what the call does, not its exact value.
func argClass(c callT) string {
	switch {
	case strings.HasPrefix(c.Tok, "lim_"):
		return "limits_given"
	case c.Tok == "nrand":
		return "limits_left_out"
	case c.Tok == "str_over" || c.Tok == "list_over":
		return "out_of_range"
	case c.Tok == "list_mixed" || c.Tok == "list_bad" || c.Tok == "map_list":
		return "list_items"
	case c.Tok == "same_type" || c.Tok == "same_type_bad":
		return "container_of_result_type"
	case c.Tok == "renamed" || c.Tok == "unnamed" || c.Tok == "scope_renamed":
		return "display_name_differs"
	case c.Tok == "collide" || c.Tok == "typed_collide":
		return "collide"
	case c.Tok == "data_partial" || c.Tok == "props_partial" || c.Tok == "schema_partial":
		return "omits_required"
	}
	return c.Tok
}

// evalN evaluates one call n times on one instance; returns the distinct outcomes (key -> sample).
func evalN(in *instance, c callT, n int, r *resT) (map[string]obs, []obs) {
	out := map[string]obs{}
	var all []obs
	for i := 0; i < n; i++ {
		o := in.call(c.Op, c.Tok, c.m())
		r.Evals++
		if _, ok := out[o.key()]; !ok {
			out[o.key()] = o
		}
		all = append(all, o)
	}
	return out, all
}

func keysOf(m map[string]obs) []string {
	var ks []string
	for k := range m {
		ks = append(ks, k)
	}
	sort.Strings(ks)
	return ks
}

func runHist(c caseT) (r resT) {
	r.RaceEnabled = raceEnabled
	if c.Reps < 1 {
		c.Reps = 1
	}
	// State kept outside the instance may live in per-P, GC-cleared places (sync.Pool): the history and the
	// calls that follow it run on one P without a collection in between.
	defer runtime.GOMAXPROCS(runtime.GOMAXPROCS(1))
	defer debug.SetGCPercent(debug.SetGCPercent(-1))
	in, err := build(c.CKind, c.Origin)
	if err != nil {
		r.HarnessErr = err.Error()
		return r
	}
	r.NeedsApply = in.needsApply
	freshRef, err := build(c.CKind, c.Origin)
	if err != nil {
		r.HarnessErr = err.Error()
		return r
	}
	base := freshRef.snap() // a fresh instance nothing was ever called on
	if base.Err != "" {
		r.HarnessErr = "snapshot of a fresh instance: " + base.Err
		return r
	}
	hist := []string{}
	prev := base
	family := in.kind
	if family == "units0" {
		family = "units" // unit definitions with and without multipliers share the parser
	}
	sigBase := func(c callT, div string) map[string]any {
		return map[string]any{"kind": family, "op": c.Op, "arg_class": argClass(c), "divergence": div}
	}
	// divergences of the schema's state are keyed by what the call does, not by the exact argument
	sigState := func(c callT, div string) map[string]any {
		cls := argClass(c)
		if in.kind == "objnest" && c.Op == "unser" && !strings.HasPrefix(c.Tok, "lim_") {
			cls = "limits_left_out"
		}
		if in.kind == "objdep" {
			cls = "any_argument"
		}
		if (in.kind == "objmap" || in.kind == "objstruct") && c.Op == "unser" && c.Tok != "bad" {
			if m := c.m(); m.N < 0 || (in.kind == "objstruct" && m.Sa < 0 && m.Sb < 0) {
				cls = "default_filling"
			} else {
				cls = "complete"
			}
		}
		return map[string]any{"kind": family, "op": c.Op, "arg_class": cls, "divergence": div}
	}
	for ci, call := range c.Calls {
		hist = append(hist, call.Op+":"+call.Tok)
		detail := func(extra map[string]any) map[string]any {
			d := map[string]any{"ckind": c.CKind, "origin": c.Origin, "history": append([]string{}, hist...), "call": ci}
			for k, v := range extra {
				d[k] = v
			}
			return d
		}
		used, all := evalN(in, call, c.Reps, &r)
		for _, o := range all {
			if o.FlatErr != "" {
				r.HarnessErr = fmt.Sprintf("%s/%s %s %s: %s", c.CKind, c.Origin, call.Op, call.Tok, o.FlatErr)
				return r
			}
		}
		// (1) argument-preserving
		for _, o := range all {
			if !o.ArgSame {
				r.add(false, sigBase(call, "argument_modified"), detail(map[string]any{"argument": o.ArgDiff}))
				break
			}
		}
		// panics are C04's business; here they only matter as outcomes that must not vary
		// (2) deterministic: one verdict, equal results, on the used instance and on a fresh one
		fresh, err := build(c.CKind, c.Origin)
		if err != nil {
			r.HarnessErr = err.Error()
			return r
		}
		freshOut, _ := evalN(fresh, call, c.Reps, &r)
		if len(used) > 1 || len(freshOut) > 1 {
			ks := keysOf(used)
			if len(freshOut) > len(used) {
				ks = keysOf(freshOut)
			}
			r.add(false, sigBase(call, "nondeterministic"), detail(map[string]any{"outcomes": ks, "reps": c.Reps}))
		} else {
			// (3) history-free: the used instance answers as a fresh one
			uk, fk := keysOf(used)[0], keysOf(freshOut)[0]
			if uk != fk {
				r.add(false, sigBase(call, "history_dependent_result"),
					detail(map[string]any{"after_history": uk, "fresh_instance": fk}))
			}
			// (3b) the call IMMEDIATELY after its predecessor (nothing of the SDK runs in between): whatever
			// the predecessor left behind - in the instance or anywhere else in the process - must not show
			if ci > 0 {
				prevCall := c.Calls[ci-1]
				for k := 0; k < 3; k++ {
					in.call(prevCall.Op, prevCall.Tok, prevCall.m())
					o2 := in.call(call.Op, call.Tok, call.m())
					r.Evals += 2
					if o2.key() != fk {
						r.add(false, sigBase(call, "history_dependent_result"), detail(map[string]any{
							"immediately_after": prevCall.Op + ":" + prevCall.Tok, "after_history": clip(o2.key()),
							"fresh_instance": clip(fk), "err": o2.Err}))
						break
					}
				}
			}
			// the model's expectation (detail the statement does not fix: drift)
			if o := used[uk]; o.Panic == nil && len(call.Exp) > 0 && !inExp(o, call.Exp) {
				r.add(true, sigBase(call, "model"), detail(map[string]any{"expected": call.Exp,
					"observed": resE{o.Ok, o.M, o.N}, "canon": o.Canon, "err": o.Err}))
			}
		}
		// (4) the schema is as it was: self-description and defaults equal those of a fresh instance
		// (reported at the call that changes it: later calls see the changed state as their starting point)
		now := in.snap()
		switch {
		case now.Err != "":
			r.add(false, sigState(call, "schema_unusable_after_history"), detail(map[string]any{"error": now.Err}))
		case now.Descr != prev.Descr:
			r.add(false, sigState(call, "describe_changed"), detail(map[string]any{"fresh": clip(base.Descr), "now": clip(now.Descr)}))
		case now.Defaults != prev.Defaults:
			r.add(false, sigState(call, "defaults_changed"), detail(map[string]any{"fresh": clip(base.Defaults), "now": clip(now.Defaults)}))
		}
		if now.Err == "" {
			prev = now
		}
		// (5) results are the caller's: overwriting one must not reach the schema
		for _, o := range all {
			if o.Ok && o.Result != nil && in.kind != "steps" {
				scribble(o.Result)
			}
		}
		if after := in.snap(); now.Err == "" && after.Err == "" && (after.Defaults != now.Defaults || after.Descr != now.Descr) {
			r.add(false, sigState(call, "result_aliases_schema"), detail(map[string]any{"before": clip(now.Defaults), "after": clip(after.Defaults)}))
			prev = after
		}
		if len(used) == 1 && len(freshOut) == 1 && keysOf(used)[0] == keysOf(freshOut)[0] {
			// (schema as built, argument) -> outcome: the orchestrator requires one outcome per key over ALL
			// histories and processes of the run
			k := keysOf(used)[0]
			r.Keys = append(r.Keys, fmt.Sprintf("%s/%s/%s/%s/%d.%d.%d.%d|%s", c.CKind, c.Origin, call.Op, call.Tok,
				call.m().N, call.m().T, call.m().Sa, call.m().Sb, clip(k)))
		}
	}
	return r
}

func clip(s string) string {
	if len(s) > 1500 {
		return s[:1100] + " ...[cut]... " + s[len(s)-300:]
	}
	return s
}

// ---------------------------------------------------------------------------- C12: random histories (code -> spec)

var opTable = map[string][][2]string{
	"units": {{"unser", "str_ok"}, {"unser", "str_bad"}, {"unser", "num"}, {"fmt", "num"}, {"ser", "num"},
		{"unser", "str_over"}, {"unser", "list_over"}},
	"units0": {{"unser", "str_ok"}, {"unser", "str_bad"}, {"unser", "num"}, {"fmt", "num"}, {"ser", "num"},
		{"unser", "str_over"}, {"unser", "list_over"}},
	"anylist": {{"unser", "list_mixed"}, {"valid", "list_mixed"}, {"ser", "list_mixed"}, {"unser", "list_bad"},
		{"valid", "list_bad"}, {"unser", "map_list"}},
	"disabled":  {{"unser", "uses_disabled"}, {"compat", "uses_disabled"}, {"unser", "keeps"}},
	"objmap":    {{"unser", "rand"}, {"unser", "rand"}, {"unser", "bad"}, {"valid", "rand"}, {"ser", "rand"}},
	"objstruct": {{"unser", "rand"}, {"unser", "rand"}, {"unser", "rand"}, {"unser", "bad"}, {"ser", "full"}, {"valid", "full"}},
	"mapcoll":   {{"unser", "collide"}, {"unser", "single"}, {"unser", "bad"}, {"unser", "typed_collide"}},
	"patnil":    {{"valid", "nil_item"}, {"ser", "nil_item"}, {"valid", "good"}},
	"emptydef":  {{"ser", "empty_a"}, {"valid", "empty_a"}, {"ser", "empty_b"}, {"valid", "empty_b"}},
	"listarg":   {{"unser", "same_type"}, {"unser", "same_type_bad"}, {"unser", "other_type"}},
	"objreq": {{"compat", "data_partial"}, {"compat", "data_full"}, {"compat", "props_partial"}, {"compat", "schema_partial"},
		{"compat", "schema_full"}, {"unser", "data_partial"}, {"unser", "data_full"}},
	"oneof": {{"unser", "member_a"}, {"unser", "nodisc"}, {"ser", "member_a"}, {"valid", "member_a"}, {"compat", "member_a"},
		{"valid", "member_a_bad"}, {"ser", "member_a_bad"}, {"unser", "member_a_bad"}},
	"chain":   {{"unser", "scalar"}, {"unser", "badscalar"}, {"unser", "nested"}, {"compat", "scalar"}},
	"compat2": {{"compat", "same"}, {"compat", "deep"}},
	"objnest": {{"unser", "nrand"}, {"unser", "lim_rand"}, {"unser", "lim_rand"}, {"unsermid", "lim_rand"}},
	"objdep":  {{"valid", "dep"}, {"valid", "dep"}, {"ser", "dep"}, {"unser", "dep"}},
	"enum": {{"compat", "same"}, {"compat", "extra"}, {"compat", "renamed"}, {"compat", "unnamed"}, {"compat", "scope_renamed"},
		{"compat", "scope_same"}, {"unser", "member"}, {"unser", "bad"}},
}

func runRandom(c caseT) (r resT) {
	r.RaceEnabled = raceEnabled
	rng := rand.New(rand.NewSource(c.Seed))
	// uniform over the model kinds first (most concrete kinds are unit schemas), then over their concrete kinds
	byKind := map[string][]string{}
	for k, info := range ckinds {
		if info.kind != "steps" && info.kind != "meta" {
			byKind[info.kind] = append(byKind[info.kind], k)
		}
	}
	var kinds []string
	for k := range byKind {
		sort.Strings(byKind[k])
		kinds = append(kinds, k)
	}
	sort.Strings(kinds)
	for i := 0; i < c.Instances; i++ {
		names := byKind[kinds[rng.Intn(len(kinds))]]
		ck := names[rng.Intn(len(names))]
		info := ckinds[ck]
		origin := info.origins[rng.Intn(len(info.origins))]
		in, err := build(ck, origin)
		if err != nil {
			r.HarnessErr = err.Error()
			return r
		}
		freshRef, _ := build(ck, origin)
		base := freshRef.snap()
		r.Trace = append(r.Trace, map[string]any{"ev": "reset", "kind": in.kind, "origin": origin, "ckind": ck})
		n := 1 + rng.Intn(c.Len)
		for j := 0; j < n; j++ {
			ops := opTable[in.kind]
			pick := ops[rng.Intn(len(ops))]
			op, tok := pick[0], pick[1]
			m := emptyFlat
			switch {
			case tok == "rand":
				val := func() int64 {
					if rng.Intn(2) == 0 {
						return -1
					}
					return int64(rng.Intn(10))
				}
				m = flat{val(), val(), -1, -1}
				if in.kind == "objstruct" {
					m.Sa, m.Sb = val(), val()
				}
				if op != "unser" {
					// Validate / Serialize take complete unserialised values
					if m.N < 0 {
						m.N = 2
					}
					if in.kind == "objstruct" {
						if m.Sa < 0 {
							m.Sa = 4
						}
						if m.Sb < 0 {
							m.Sb = 6
						}
					}
				}
			case tok == "full":
				m = flat{int64(rng.Intn(10)), -1, int64(rng.Intn(10)), int64(rng.Intn(10))}
			case tok == "member_a":
				m = flat{int64(rng.Intn(10)), 1, -1, -1}
			case tok == "nrand" || tok == "lim_rand":
				pick := func() int64 {
					if rng.Intn(2) == 0 {
						return -1
					}
					return int64(rng.Intn(10))
				}
				m = flat{pick(), -1, -1, -1}
				if tok == "lim_rand" {
					m.T, m.Sa, m.Sb = pick(), pick(), pick()
				}
				if op == "unsermid" {
					m.N = -1
				}
			case tok == "list_mixed" || tok == "list_bad" || tok == "map_list":
				m = flat{1, -1, -1, -1}
			case tok == "same_type" || tok == "same_type_bad" || tok == "other_type":
				m = flat{1, -1, -1, -1}
			case tok == "member_a_bad":
				m = flat{100, 1, -1, -1}
			case tok == "dep":
				pick := func() int64 {
					if rng.Intn(2) == 0 {
						return -1
					}
					return int64(rng.Intn(10))
				}
				m = flat{pick(), pick(), pick(), pick()}
				if rng.Intn(4) == 0 {
					m.Sa = 100 // c out of range
				}
			}
			o := in.call(op, tok, m)
			r.Evals++
			if o.FlatErr != "" {
				r.HarnessErr = fmt.Sprintf("%s/%s %s %s: %s", ck, origin, op, tok, o.FlatErr)
				return r
			}
			// the same call again on this instance and on a fresh one: one outcome everywhere?
			ct := callT{Op: op, Tok: tok, M: &m}
			used, _ := evalN(in, ct, 6, &r)
			used[o.key()] = o
			fresh, err := build(ck, origin)
			if err != nil {
				r.HarnessErr = err.Error()
				return r
			}
			freshOut, _ := evalN(fresh, ct, 6, &r)
			nondet := len(used) > 1 || len(freshOut) > 1
			freshSame := nondet || keysOf(used)[0] == keysOf(freshOut)[0]
			now := in.snap()
			line := map[string]any{"ev": "call", "kind": in.kind, "origin": origin, "ckind": ck, "op": op, "tok": tok,
				"m": m, "ok": o.Ok, "rm": o.M, "rn": o.N, "panic": o.Panic != nil,
				"nondet": nondet, "freshsame": freshSame,
				"argsame": o.ArgSame, "descsame": now.Err == "" && now.Descr == base.Descr,
				"defsame": now.Err == "" && now.Defaults == base.Defaults,
				"dhas":    now.Has, "droot": now.Root, "dinner": now.Inner}
			r.Trace = append(r.Trace, line)
		}
	}
	return r
}

// ---------------------------------------------------------------------------- binding self-check

// runBind checks the abstraction tables against independent computations: the unit strings built from
// the public definitions, the flattening of hand-built values, the canonical renderer.
func runBind() (r resT) {
	r.RaceEnabled = raceEnabled
	fail := func(f string, a ...any) { r.BindError += fmt.Sprintf(f, a...) + "; " }
	// smallest multipliers of the package-level definitions (documented constants)
	want := map[string]int64{"int_bytes": 1024, "int_nanos": 1000, "int_seconds": 60, "int_chars": 1, "int_pct": 1,
		"int_custom": 1000, "int_custom2": 100, "int_custom0": 1}
	for ck, mult := range want {
		in, err := build(ck, ckinds[ck].origins[0])
		if err != nil {
			fail("build %s: %v", ck, err)
			continue
		}
		if in.mult != mult {
			fail("%s: smallest multiplier %d, table says %d", ck, in.mult, mult)
		}
	}
	t := int64(4)
	if f, err := flatOf(Outer{N: 1, T: &t, S: Inner{2, 3}}); err != nil || f != (flat{1, 4, 2, 3}) {
		fail("flatOf(Outer) = %v %v", f, err)
	}
	if f, err := flatOf(map[string]any{"n": int64(1), "s": map[string]any{"a": float64(5)}}); err != nil || f != (flat{1, -1, 5, -1}) {
		fail("flatOf(map) = %v %v", f, err)
	}
	if canon(map[string]any{"b": int64(1), "a": []any{"x"}}) != `map[string]interface {}{string("a"):[]interface {}[string("x")],string("b"):int64(1)}` {
		fail("canon: %s", canon(map[string]any{"b": int64(1), "a": []any{"x"}}))
	}
	if canon(int64(1)) == canon(int(1)) || canon(map[any]any{int64(1): "x"}) == canon(map[any]any{"1": "x"}) {
		fail("canon does not distinguish representation classes")
	}
	// every concrete kind builds in every origin it declares, and every op of the table can be concretised
	for ck, info := range ckinds {
		for _, o := range info.origins {
			in, err := build(ck, o)
			if err != nil {
				fail("build %s/%s: %v", ck, o, err)
				continue
			}
			for _, p := range opTable[info.kind] {
				if _, err := in.argFor(p[0], p[1], flat{1, 1, 1, 1}); err != nil {
					fail("%v", err)
				}
			}
		}
	}
	return r
}

// ---------------------------------------------------------------------------- C13: concurrent first use

// oneshotOut is what one -oneshot process prints.
type oneshotOut struct {
	Evals      int              `json:"evals"`
	Trials     int              `json:"trials"`
	Mismatches []mismatch       `json:"mismatches"`
	HarnessErr string           `json:"harness_error"`
	Trace      []map[string]any `json:"trace"`
	Race       bool             `json:"race"`
	NeedsApply bool             `json:"needs_apply_self"`
}

func runRace(c caseT, raw json.RawMessage) (r resT) {
	r.RaceEnabled = raceEnabled
	t0 := time.Now()
	defer func() { r.WallMs = time.Since(t0).Milliseconds() }()
	if c.Procs < 1 {
		c.Procs = 1
	}
	dir := c.LogDir
	if dir == "" {
		dir = os.TempDir()
	}
	dir, err := os.MkdirTemp(dir, "race-")
	if err != nil {
		r.HarnessErr = err.Error()
		return r
	}
	defer os.RemoveAll(dir)
	for p := 0; p < c.Procs; p++ {
		logPath := filepath.Join(dir, fmt.Sprintf("log%d", p))
		cmd := exec.Command(os.Args[0], "-oneshot")
		cc := c
		cc.Seed = c.Seed*1000 + int64(p)
		in, _ := json.Marshal(cc)
		cmd.Stdin = bytes.NewReader(in)
		var stdout, stderr bytes.Buffer
		cmd.Stdout, cmd.Stderr = &stdout, &stderr
		cmd.Env = append(os.Environ(), "GORACE=halt_on_error=0 atexit_sleep_ms=0 log_path="+logPath, "GOTRACEBACK=all")
		done := make(chan error, 1)
		if err := cmd.Start(); err != nil {
			r.HarnessErr = "spawn: " + err.Error()
			return r
		}
		go func() { done <- cmd.Wait() }()
		var werr error
		select {
		case werr = <-done:
		case <-time.After(120 * time.Second):
			_ = cmd.Process.Kill()
			<-done
			r.HarnessErr = "oneshot process hung: " + clip(stderr.String())
			return r
		}
		r.Procs++
		var out oneshotOut
		crashed := werr != nil && json.Unmarshal(stdout.Bytes(), &out) != nil
		if !crashed {
			if err := json.Unmarshal(stdout.Bytes(), &out); err != nil {
				r.HarnessErr = "oneshot output: " + err.Error() + ": " + clip(stdout.String()) + clip(stderr.String())
				return r
			}
			if out.HarnessErr != "" {
				r.HarnessErr = out.HarnessErr
				return r
			}
			r.Evals += out.Evals
			r.Trials += out.Trials
			r.NeedsApply = r.NeedsApply || out.NeedsApply
			if p == 0 {
				r.Trace = append(r.Trace, out.Trace...)
			}
			for _, m := range out.Mismatches {
				r.add(m.Drift, m.Sig, m.Detail)
			}
		} else {
			// the process died: a fatal runtime error (concurrent map access) in SDK code is an observation
			st := stderr.String()
			frame := sup.TopFrame(st)
			switch {
			case strings.Contains(st, "fatal error: concurrent map") && strings.HasPrefix(frame, "schema."):
				msg := "concurrent map access"
				if i := strings.Index(st, "fatal error: "); i >= 0 {
					msg = strings.SplitN(st[i+13:], "\n", 2)[0]
				}
				r.add(false, map[string]any{"divergence": "data_race", "location": sharedLoc(c.Shared, locationOf(sdkFrames(st)))},
					map[string]any{"ckind": c.CKind, "origin": c.Origin, "ops": progNames(c.Progs), "goroutines": c.N,
						"fatal": msg, "frame": frame, "stderr": clip(st)})
			default:
				r.HarnessErr = fmt.Sprintf("oneshot process died (%v): %s", werr, clip(st))
				return r
			}
		}
		// race reports of this process
		files, _ := filepath.Glob(logPath + ".*")
		for _, f := range files {
			b, err := os.ReadFile(f)
			if err != nil {
				continue
			}
			for _, rep := range parseRaceLog(string(b)) {
				r.Reports++
				if rep.harness {
					r.HarnessErr = "data race inside the harness itself: " + clip(rep.text)
					return r
				}
				loc := rep.location
				if c.Shared && strings.Contains(loc, " / ") {
					// a race the location table does not know, on a trial whose goroutines were handed one input
					// value: the SDK writes to (or reads while another call writes to) the caller's value
					loc = "callers_input_value"
				}
				r.add(false, map[string]any{"divergence": "data_race", "location": loc},
					map[string]any{"ckind": c.CKind, "origin": c.Origin, "ops": progNames(c.Progs), "goroutines": c.N,
						"access_a": rep.a, "access_b": rep.b, "report": clip(rep.text)})
			}
		}
	}
	r.Keys = append(r.Keys, fmt.Sprintf("%s/%s/%s/n%d", c.CKind, c.Origin, strings.Join(progNames(c.Progs), "+"), c.N))
	return r
}

// sdkFrames lists the SDK functions on the stack of the goroutine a fatal error was raised in (the first
// stack of the dump).
func sdkFrames(stderr string) []string {
	var out []string
	started := false
	for _, l := range strings.Split(stderr, "\n") {
		if strings.HasPrefix(l, "goroutine ") {
			if started {
				break
			}
			started = true
			continue
		}
		if started && strings.HasPrefix(l, sdkPrefix) {
			out = append(out, strings.SplitN(strings.TrimPrefix(l, sdkPrefix), "(0x", 2)[0])
		}
	}
	return out
}

func sharedLoc(shared bool, loc string) string {
	if shared && (strings.Contains(loc, " / ") || strings.HasPrefix(loc, "schema.")) {
		return "callers_input_value"
	}
	return loc
}

// sharedKey: which calls are handed the same value when the input is shared - Unserialize takes the raw form of
// an argument, Validate / Serialize / data-mode ValidateCompatibility the unserialised form.
func (in *instance) sharedKey(op callT) string {
	form := "typed"
	switch {
	case op.Op == "unser":
		form = "raw"
	case op.Op == "compat" && in.ckind == "oneof_struct" && in.origin != "rebuilt":
		form = "map" // argFor: compatibility is asked about the map form, the other operations about the struct
	}
	return fmt.Sprintf("%s:%s:%v", op.Tok, form, op.m())
}

func progNames(progs [][]callT) []string {
	var s []string
	for _, p := range progs {
		var q []string
		for _, o := range p {
			q = append(q, o.Op+":"+o.Tok)
		}
		s = append(s, strings.Join(q, ";"))
	}
	return s
}

// oneshot runs the trials of one race case in this (fresh) process and prints a oneshotOut.
func oneshot() {
	var c caseT
	out := oneshotOut{Race: raceEnabled}
	dec := json.NewDecoder(os.Stdin)
	if err := dec.Decode(&c); err != nil {
		out.HarnessErr = "bad case: " + err.Error()
	} else if pi := sup.Guard(func() { raceTrials(c, &out) }); pi != nil {
		out.HarnessErr = "harness panic: " + pi.Msg + " @ " + pi.Frame
	}
	b, _ := json.Marshal(out)
	os.Stdout.Write(b)
}

func raceTrials(c caseT, out *oneshotOut) {
	info := ckinds[c.CKind]
	if c.N < 2 {
		c.N = 2
	}
	sig := func(op, div string) map[string]any {
		kind := info.kind
		if kind == "units0" {
			kind = "units" // one family: unit definitions with and without multipliers share the parser
		}
		return map[string]any{"kind": kind, "op": op, "divergence": div}
	}
	add := func(sg map[string]any, detail map[string]any) {
		for _, m := range out.Mismatches {
			if fmt.Sprint(m.Sig) == fmt.Sprint(sg) {
				return
			}
		}
		detail["ckind"], detail["origin"], detail["goroutines"] = c.CKind, c.Origin, c.N
		out.Mismatches = append(out.Mismatches, mismatch{Sig: sg, Detail: detail})
	}
	iters := c.Iters
	if iters < 1 {
		iters = 1
	}
	iso := map[string]obs{} // the isolated result of each distinct call, computed once, after the first trial
	for t := 0; t < c.Trials; t++ {
		if c.CKind == "meta" {
			metaTrial(c, out, add)
			out.Trials++
			continue
		}
		in, err := build(c.CKind, c.Origin)
		if err != nil {
			out.HarnessErr = err.Error()
			return
		}
		out.NeedsApply = out.NeedsApply || in.needsApply
		// shared input: one value per distinct call, handed to every goroutine that makes that call
		sharedArgs, sharedBefore := map[string]any{}, map[string]string{}
		if c.Shared {
			for _, prog := range c.Progs {
				for _, op := range prog {
					k := in.sharedKey(op)
					if _, ok := sharedArgs[k]; !ok {
						a, err := in.argFor(op.Op, op.Tok, op.m())
						if err != nil {
							out.HarnessErr = err.Error()
							return
						}
						sharedArgs[k], sharedBefore[k] = a, canon(a)
					}
				}
			}
		}
		results := make([][]obs, c.N)
		var wg sync.WaitGroup
		start := make(chan struct{})
		for g := 0; g < c.N; g++ {
			wg.Add(1)
			go func(g int) {
				defer wg.Done()
				prog := c.Progs[g%len(c.Progs)]
				res := make([]obs, 0, len(prog))
				<-start
				for it := 0; it < iters; it++ {
					for _, op := range prog {
						if c.Shared {
							res = append(res, in.callWith(op.Op, op.Tok, op.m(), sharedArgs[in.sharedKey(op)], true))
						} else {
							res = append(res, in.call(op.Op, op.Tok, op.m()))
						}
					}
				}
				results[g] = res
			}(g)
		}
		close(start)
		wg.Wait()
		out.Trials++
		for k, a := range sharedArgs {
			if after := canon(a); after != sharedBefore[k] {
				add(sig("shared_input", "argument_modified"), map[string]any{"value": k, "shared_input": true,
					"argument": sharedBefore[k] + "  ->  " + after})
			}
		}
		// the isolated result: the same call, alone, on another fresh instance (built afterwards, so that
		// package-level values were first used by the concurrent calls)
		for g := 0; g < c.N; g++ {
			prog := c.Progs[g%len(c.Progs)]
			for i := range results[g] {
				op := prog[i%len(prog)]
				o := results[g][i]
				out.Evals++
				if o.FlatErr != "" {
					out.HarnessErr = "abstraction: " + o.FlatErr
					return
				}
				k := op.Op + ":" + op.Tok
				ref, ok := iso[k]
				if !ok {
					fresh, err := build(c.CKind, c.Origin)
					if err != nil {
						out.HarnessErr = err.Error()
						return
					}
					ref = fresh.call(op.Op, op.Tok, op.m())
					iso[k] = ref
				}
				if o.key() != ref.key() {
					add(sig(op.Op, "result_differs_from_isolated"), map[string]any{"call": k,
						"concurrent": clip(o.key()), "isolated": clip(ref.key()), "err": o.Err, "trial": t})
				}
				if !o.ArgSame && !c.Shared {
					add(sig(op.Op, "argument_modified"), map[string]any{"call": k, "argument": o.ArgDiff})
				}
				if t == 0 && i < len(prog) && in.kind != "steps" {
					if g == 0 && i == 0 {
						out.Trace = append(out.Trace, map[string]any{"ev": "reset", "kind": in.kind, "origin": c.Origin, "ckind": c.CKind})
					}
					out.Trace = append(out.Trace, map[string]any{"ev": "call", "kind": in.kind, "origin": c.Origin, "ckind": c.CKind,
						"op": op.Op, "tok": op.Tok, "m": op.m(), "ok": o.Ok, "rm": o.M, "rn": o.N, "panic": o.Panic != nil,
						"nondet": false, "freshsame": true,
						"argsame": o.ArgSame, "descsame": true, "defsame": true, "dhas": false, "droot": emptyFlat, "dinner": emptyFlat})
				}
			}
		}
		if in.kind == "steps" && in.origin != "plain" {
			runs := map[string]bool{}
			for g := 0; g < c.N; g++ {
				for _, op := range c.Progs[g%len(c.Progs)] {
					runs[op.Tok] = true
				}
			}
			in.seenMu.Lock()
			for run, ids := range in.seen {
				if len(ids) != 1 {
					add(sig("step", "step_data_not_shared"), map[string]any{"run": run, "identities": len(ids), "trial": t})
				}
			}
			in.seenMu.Unlock()
			if n := int(atomic.LoadInt64(in.initCount)); n != len(runs) {
				add(sig("step", "initializer_count"), map[string]any{"runs": len(runs), "initializer_calls": n, "trial": t})
			}
		}
	}
}

// metaTrial: the package-level meta-schemas used by several goroutines at once, as a server describing
// itself and a client rebuilding schemas do.
func metaTrial(c caseT, out *oneshotOut, add func(map[string]any, map[string]any)) {
	in, err := build("objstruct", "fresh")
	if err != nil {
		out.HarnessErr = err.Error()
		return
	}
	desc, err := in.scope.SelfSerialize()
	if err != nil {
		out.HarnessErr = err.Error()
		return
	}
	want := canon(desc)
	res := make([]string, c.N)
	var wg sync.WaitGroup
	start := make(chan struct{})
	for g := 0; g < c.N; g++ {
		wg.Add(1)
		go func(g int) {
			defer wg.Done()
			<-start
			pi := sup.Guard(func() {
				if g%2 == 0 {
					s2, _, err := rebuild(in.scope)
					if err != nil {
						res[g] = "error: " + err.Error()
						return
					}
					d2, err := s2.SelfSerialize()
					if err != nil {
						res[g] = "error: " + err.Error()
						return
					}
					res[g] = canon(d2)
				} else {
					d, err := in.scope.SelfSerialize()
					if err != nil {
						res[g] = "error: " + err.Error()
						return
					}
					res[g] = canon(d)
				}
			})
			if pi != nil {
				res[g] = "panic: " + pi.Msg + " @ " + pi.Frame
			}
		}(g)
	}
	close(start)
	wg.Wait()
	out.Evals += c.N
	for g := range res {
		if res[g] != want {
			add(map[string]any{"kind": "meta", "op": "describe_rebuild", "divergence": "result_differs_from_isolated"},
				map[string]any{"concurrent": clip(res[g]), "isolated": clip(want)})
		}
	}
}
