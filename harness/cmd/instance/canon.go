package main

import (
	"fmt"
	"reflect"
	"sort"
	"strconv"
	"strings"
)

// canon renders a value deterministically and completely: dynamic types are part of the text, maps are
// sorted by their rendered keys, pointers are followed.  Two values render equally iff they are deeply
// equal including their Go types - this is what "equal results" and "argument unchanged" mean here.
func canon(v any) string {
	var b strings.Builder
	canonValue(&b, reflect.ValueOf(v), 0)
	return b.String()
}

func canonValue(b *strings.Builder, v reflect.Value, depth int) {
	if depth > 40 {
		b.WriteString("<deep>")
		return
	}
	if !v.IsValid() {
		b.WriteString("nil")
		return
	}
	switch v.Kind() {
	case reflect.Interface:
		if v.IsNil() {
			b.WriteString("nil")
			return
		}
		canonValue(b, v.Elem(), depth+1)
	case reflect.Pointer:
		if v.IsNil() {
			b.WriteString("(*" + v.Type().Elem().String() + ")nil")
			return
		}
		b.WriteString("&")
		canonValue(b, v.Elem(), depth+1)
	case reflect.Map:
		b.WriteString(v.Type().String())
		if v.IsNil() {
			b.WriteString("(nil)")
			return
		}
		type kv struct{ k, v string }
		items := make([]kv, 0, v.Len())
		for it := v.MapRange(); it.Next(); {
			var kb, vb strings.Builder
			canonValue(&kb, it.Key(), depth+1)
			canonValue(&vb, it.Value(), depth+1)
			items = append(items, kv{kb.String(), vb.String()})
		}
		sort.Slice(items, func(i, j int) bool { return items[i].k < items[j].k })
		b.WriteString("{")
		for i, it := range items {
			if i > 0 {
				b.WriteString(",")
			}
			b.WriteString(it.k + ":" + it.v)
		}
		b.WriteString("}")
	case reflect.Slice, reflect.Array:
		b.WriteString(v.Type().String())
		if v.Kind() == reflect.Slice && v.IsNil() {
			b.WriteString("(nil)")
			return
		}
		b.WriteString("[")
		for i := 0; i < v.Len(); i++ {
			if i > 0 {
				b.WriteString(",")
			}
			canonValue(b, v.Index(i), depth+1)
		}
		b.WriteString("]")
	case reflect.Struct:
		b.WriteString(v.Type().String() + "{")
		for i := 0; i < v.NumField(); i++ {
			if i > 0 {
				b.WriteString(",")
			}
			b.WriteString(v.Type().Field(i).Name + ":")
			f := v.Field(i)
			if !f.CanInterface() {
				b.WriteString("<unexported>")
				continue
			}
			canonValue(b, f, depth+1)
		}
		b.WriteString("}")
	case reflect.String:
		b.WriteString(v.Type().String() + "(" + strconv.Quote(v.String()) + ")")
	case reflect.Bool:
		b.WriteString(v.Type().String() + "(" + strconv.FormatBool(v.Bool()) + ")")
	case reflect.Int, reflect.Int8, reflect.Int16, reflect.Int32, reflect.Int64:
		b.WriteString(v.Type().String() + "(" + strconv.FormatInt(v.Int(), 10) + ")")
	case reflect.Uint, reflect.Uint8, reflect.Uint16, reflect.Uint32, reflect.Uint64, reflect.Uintptr:
		b.WriteString(v.Type().String() + "(" + strconv.FormatUint(v.Uint(), 10) + ")")
	case reflect.Float32, reflect.Float64:
		b.WriteString(v.Type().String() + "(" + strconv.FormatFloat(v.Float(), 'g', -1, 64) + ")")
	default:
		b.WriteString(fmt.Sprintf("%s<%v>", v.Type().String(), v.Kind()))
	}
}
