package main

import (
	"path/filepath"
	"regexp"
	"sort"
	"strings"
)

// A report of the Go race detector: two accesses to one address, at least one a write, unordered by
// happens-before.  Each access is keyed by the innermost frame that belongs to the SDK (file:function);
// a report in which an access has a harness frame ABOVE every SDK frame is the harness's own race and
// is infrastructure trouble, not an observation about the SDK.
type raceReport struct {
	a, b     string // "write units.go:(*UnitsDefinition).updateReCache"
	location string // class of the shared state (binding table below), or the pair itself
	harness  bool
	text     string
}

const sdkPrefix = "go.flow.arcalot.io/pluginsdk/"

var accessRe = regexp.MustCompile(`^(Read|Write|Previous read|Previous write|Atomic read|Atomic write|Previous atomic read|Previous atomic write) at 0x[0-9a-f]+ by (main )?goroutine`)
var genericArgs = regexp.MustCompile(`\[[^\]]*\]`)

// locations: SDK function -> the piece of shared state of spec/Instance.tla it accesses.  Used to group
// the reports of one defect under one signature; a function the table does not know keeps the racing
// pair itself as its location, so a new defect gets a new signature.
var locationTable = []struct{ fn, loc string }{
	{"applySubObjectDefaultValues", "shared_default_map"}, // cell.s
	{"extractObjectDefaultValues", "defaults_cache"},      // defaults.<obj>
	{"jsonUnmarshal", "defaults_cache"},                   // the decoded values the cache holds
	{"GetDefaults", "defaults_cache"},
	{"getSortedMultipliersCache", "unit_cache"}, // unit.sorted
	{"updateReCache", "unit_cache"},             // unit.re, unit.names
	{"(*UnitsDefinition).", "unit_cache"},
	{"AddPathSegment", "shared_error_value"}, // a ConstraintError shared between calls (scratch: its path segments)
	{"inlineShorthand", "shorthand_marks"},   // walk marks of the shorthand guard (scratch L1..L3)
	{"RootObject", "scope_root_memo"},        // link.root: the memoised root object of a scope
	{"isEmptyValue", "property_empty_cache"},
	{"releaseStepData", "step_table"},
	{"setupStepData", "step_table"}, // steps.table
	{"ApplyNamespace", "link"},      // link.<ref>
	// lowest priority: convertData alone (the crashing goroutine of a fatal concurrent map access: it ranges
	// over its raw data, which is shared only when it is the aliased default map)
	{"convertData", "shared_default_map"},
}

func locationOf(fns []string) string {
	for _, e := range locationTable {
		for _, f := range fns {
			if strings.Contains(f, e.fn) {
				return e.loc
			}
		}
	}
	s := append([]string{}, fns...)
	sort.Strings(s)
	return strings.Join(s, " / ")
}

func parseRaceLog(text string) []raceReport {
	var out []raceReport
	for _, block := range strings.Split(text, "==================") {
		if !strings.Contains(block, "WARNING: DATA RACE") {
			continue
		}
		lines := strings.Split(block, "\n")
		type access struct {
			kind   string
			frames [][2]string // function, file
		}
		var accs []access
		cur := -1
		for i := 0; i < len(lines); i++ {
			l := lines[i]
			if m := accessRe.FindStringSubmatch(l); m != nil {
				k := "read"
				if strings.Contains(strings.ToLower(m[1]), "write") {
					k = "write"
				}
				accs = append(accs, access{kind: k})
				cur = len(accs) - 1
				continue
			}
			if strings.HasPrefix(l, "Goroutine ") || strings.HasPrefix(l, "Location ") || strings.HasPrefix(l, "Mutex ") {
				cur = -1
				continue
			}
			if cur >= 0 && strings.HasPrefix(l, "  ") && !strings.HasPrefix(l, "      ") && strings.TrimSpace(l) != "" {
				fn := strings.TrimSpace(l)
				file := ""
				if i+1 < len(lines) {
					file = strings.TrimSpace(lines[i+1])
				}
				accs[cur].frames = append(accs[cur].frames, [2]string{fn, file})
			}
		}
		rep := raceReport{text: strings.TrimSpace(block)}
		var fns []string
		sdk, callerReads := 0, 0
		for _, a := range accs {
			key := ""
			sdkKey := func(f [2]string) string {
				name := strings.TrimPrefix(f[0], sdkPrefix)
				if j := strings.Index(name, "."); j >= 0 {
					name = name[j+1:] // drop the package
				}
				name = genericArgs.ReplaceAllString(strings.TrimSuffix(name, "()"), "")
				return filepath.Base(strings.SplitN(f[1], ":", 2)[0]) + ":" + name
			}
			for i, f := range a.frames {
				fn := f[0]
				if strings.HasPrefix(fn, "main.") || strings.HasPrefix(fn, "verif/harness/") {
					// a harness frame above every SDK frame: either the harness's own access (no SDK frame
					// below: the report is the harness's own race), or a plugin callback (initializer, step or
					// signal handler) the SDK invoked - data the SDK hands from one callback to another without
					// synchronisation is the SDK's race
					for _, g := range a.frames[i+1:] {
						if strings.HasPrefix(g[0], sdkPrefix) {
							key = "callback<-" + sdkKey(g)
							break
						}
					}
					break
				}
				if strings.HasPrefix(fn, sdkPrefix) {
					key = sdkKey(f)
					break
				}
			}
			if key == "" {
				if a.kind == "read" {
					callerReads++ // the harness reading something (a result, an error value) the SDK gave it
				}
				continue
			}
			sdk++
			fns = append(fns, key)
			if rep.a == "" {
				rep.a = a.kind + " " + key
			} else {
				rep.b = a.kind + " " + key
			}
		}
		// One access in the SDK and the other a READ by the caller: the caller reads only what the SDK returned to
		// it (results, errors) or its own arguments, so the SDK is still writing to a value it has handed out (or
		// shares between calls) - the SDK's race.  Both accesses outside the SDK, or the caller WRITING, is the
		// harness's own race.
		if sdk == 1 && len(accs) == 2 && callerReads == 1 {
			if rep.b == "" {
				rep.b = "read <caller reading a returned value>"
			}
			rep.location = locationOf(fns)
			out = append(out, rep)
			continue
		}
		if sdk == 0 || sdk < len(accs) {
			rep.harness = true
			out = append(out, rep)
			continue
		}
		rep.location = locationOf(fns)
		out = append(out, rep)
	}
	return out
}
