// Command units is the conformance driver for C16 (spec/Units.tla).
//
// Cases (from TLC, module UnitsMC):
//
//	{"op":"fmt","def":id,"mults":[..],"n":N,"exp":{"toks":[{c,u,half}..],"ok":..,"h":H}}
//	{"op":"fmth",...}   n = half units (float n/2)
//	{"op":"parse",...}  exp.ok in yes|maybe|no, exp.h expected value in half units
//	{"op":"big","def":"bytes"|"nanos"|..., "seed":S, "count":K}   63-bit sweep (math/big oracle),
//	       emits trace lines for UnitsTrace.tla
//
// The observation is compared here with the expectation the specification computed; the
// result line lists mismatches, each with a signature the orchestrator matches against
// known_findings.json.
package main

import (
	"encoding/json"
	"fmt"
	"math"
	"math/big"
	"math/rand"
	"strconv"
	"strings"
	"unicode"

	"go.flow.arcalot.io/pluginsdk/schema"
	"verif/harness/sup"
)

type tok struct {
	C    int64 `json:"c"`
	U    int   `json:"u"`
	Half bool  `json:"half"`
}

type expT struct {
	Toks []tok  `json:"toks"`
	OK   string `json:"ok"`
	H    int64  `json:"h"`
}

type caseT struct {
	Op    string  `json:"op"`
	Def   string  `json:"def"`
	Mults []int64 `json:"mults"`
	N     int64   `json:"n"`
	Exp   expT    `json:"exp"`
	Seed  int64   `json:"seed"`
	Count int     `json:"count"`
}

type mismatch struct {
	Sig    map[string]any `json:"sig"`
	Detail map[string]any `json:"detail"`
	Drift  bool           `json:"drift,omitempty"`
}

type resT struct {
	Evals      int              `json:"evals"`
	Mismatches []mismatch       `json:"mismatches,omitempty"`
	Trace      []map[string]any `json:"trace,omitempty"`
	BindError  string           `json:"bind_error,omitempty"`
}

// names[u-1] for u = 1..Base: {shortSing, shortPlur, longSing, longPlur}
type defT struct {
	units *schema.UnitsDefinition
	mults []int64 // descending
	names [][4]string
}

func mk(base [4]string, mults []int64, names [][4]string) *defT {
	m := map[int64]*schema.UnitDefinition{}
	for i, x := range mults {
		m[x] = schema.NewUnit(names[i][0], names[i][1], names[i][2], names[i][3])
	}
	var mm map[int64]*schema.UnitDefinition
	if len(m) > 0 {
		mm = m
	}
	u := schema.NewUnits(schema.NewUnit(base[0], base[1], base[2], base[3]), mm)
	return &defT{units: u, mults: mults, names: append(append([][4]string{}, names...), base)}
}

func fromBuiltin(u *schema.UnitsDefinition) *defT {
	var mults []int64
	for m := range u.MultipliersValue {
		mults = append(mults, m)
	}
	// sort descending (independent of the SDK's cache)
	for i := 0; i < len(mults); i++ {
		for j := i + 1; j < len(mults); j++ {
			if mults[j] > mults[i] {
				mults[i], mults[j] = mults[j], mults[i]
			}
		}
	}
	d := &defT{units: u, mults: mults}
	nm := func(x *schema.UnitDefinition) [4]string {
		return [4]string{x.NameShortSingular(), x.NameShortPlural(), x.NameLongSingular(), x.NameLongPlural()}
	}
	for _, m := range mults {
		d.names = append(d.names, nm(u.MultipliersValue[m]))
	}
	d.names = append(d.names, nm(u.BaseUnitValue))
	return d
}

// fresh definitions per lookup so that lazily built caches cannot leak between cases
func getDef(id string) *defT {
	switch id {
	case "sec":
		return fromBuiltin(schema.UnitDurationSeconds)
	case "pct":
		return fromBuiltin(schema.UnitPercentage)
	case "chr":
		return fromBuiltin(schema.UnitCharacters)
	case "bytes":
		return fromBuiltin(schema.UnitBytes)
	case "nanos":
		return fromBuiltin(schema.UnitDurationNanoseconds)
	case "g10":
		return mk([4]string{"u", "us", "unit", "units"}, []int64{10}, [][4]string{{"D", "Ds", "deca", "decas"}})
	case "g12":
		// names that are prefixes of each other
		return mk([4]string{"m", "m", "mi", "mis"}, []int64{12, 4}, [][4]string{{"mm", "mms", "mim", "mims"}, {"ms", "ms", "misx", "misxs"}})
	case "g73":
		// regexp metacharacters in names
		return mk([4]string{"a.b", "a.b", "a+", "a+s"}, []int64{7, 3}, [][4]string{{"(x)", "(x)", "x|y", "x|ys"}, {"[z]", "[z]", "z*", "z*s"}})
	case "gcs":
		// two units whose names differ only in letter case
		return mk([4]string{"mW", "mW", "milliwatt", "milliwatts"}, []int64{1000000, 1000},
			[][4]string{{"MW", "MW", "Megawatt", "Megawatts"}, {"W", "W", "watt", "watts"}})
	case "gfm":
		// basis points: names of the units above the base unit that mean something to fmt, regexp replacement and
		// string escapes ("%", "%d", "$1", a backslash) - a name is data wherever it is used
		return mk([4]string{"bp", "bp", "basispoint", "basispoints"}, []int64{10000, 100},
			[][4]string{{"x$1", "x$1", "time%d", "time%ds"}, {"%", "%", "per\\cent", "per\\cents"}})
	case "gk":
		return mk([4]string{"g", "g", "gram", "grams"}, []int64{1000000, 1000, 10, 2},
			[][4]string{{"t", "t", "tonne", "tonnes"}, {"kg", "kg", "kilo", "kilos"}, {"dag", "dag", "deca", "decas"}, {"dg", "dg", "double", "doubles"}})
	}
	return nil
}

func sameMults(a, b []int64) bool {
	if len(a) != len(b) {
		return false
	}
	for i := range a {
		if a[i] != b[i] {
			return false
		}
	}
	return true
}

func numText(t tok) string {
	s := strconv.FormatInt(t.C, 10)
	if t.Half {
		s += ".5"
	}
	return s
}

// render tokens: form 0 = short, 1 = long; number agreement as the SDK prints it
// (singular for exactly 1); sep between count and name, gap between tokens.
func render(d *defT, toks []tok, long bool, forcePlural *bool, sep, gap string) (string, bool) {
	var sb strings.Builder
	for i, t := range toks {
		if i > 0 {
			sb.WriteString(gap)
		}
		sb.WriteString(numText(t))
		if t.U == 0 {
			continue
		}
		if t.U > len(d.names) {
			sb.WriteString(sep + "qq")
			continue
		}
		sing := t.C == 1 && !t.Half
		if forcePlural != nil {
			sing = !*forcePlural
		}
		idx := 0
		if long {
			idx = 2
		}
		if !sing {
			idx++
		}
		sb.WriteString(sep + d.names[t.U-1][idx])
	}
	return sb.String(), true
}

func approx(a, b float64) bool {
	return math.Abs(a-b) <= 1e-6+1e-9*math.Abs(b)
}

func (r *resT) miss(op, class string, c caseT, detail map[string]any) {
	if len(r.Mismatches) > 20 {
		return
	}
	detail["def"] = c.Def
	r.Mismatches = append(r.Mismatches, mismatch{
		Sig:    map[string]any{"op": op, "class": class},
		Detail: detail,
	})
}

func runFmt(c caseT, d *defT, r *resT) {
	half := c.Op == "fmth"
	for _, long := range []bool{false, true} {
		want, _ := render(d, c.Exp.Toks, long, nil, "", "")
		var got string
		var opname string
		f := float64(c.N)
		if half {
			f = float64(c.N) / 2
		}
		switch {
		case !half && !long:
			opname = "format_short_int"
			got = d.units.FormatShortInt(c.N)
		case !half && long:
			opname = "format_long_int"
			got = d.units.FormatLongInt(c.N)
		case half && !long:
			opname = "format_short_float"
			got = d.units.FormatShortFloat(f)
		default:
			opname = "format_long_float"
			got = d.units.FormatLongFloat(f)
		}
		r.Evals++
		// the property itself: format then parse gives the quantity back
		if !half {
			back, err := d.units.ParseInt(got)
			if err != nil || back != c.N {
				r.miss(opname, "roundtrip", c, map[string]any{"n": c.N, "text": got, "parsed": back, "err": errStr(err)})
			}
			r.Evals++
		}
		backf, err := d.units.ParseFloat(got)
		if err != nil || !approx(backf, f) {
			r.miss(opname, "roundtrip_float", c, map[string]any{"x": f, "text": got, "parsed": backf, "err": errStr(err)})
		}
		r.Evals++
		// integer-valued floats must print like the integer; the model's rendering
		if got != want {
			// the exact rendering is model detail, not part of the property: drift, not a violation
			r.miss(opname, "text", c, map[string]any{"x": f, "text": got, "model": want})
			r.Mismatches[len(r.Mismatches)-1].Drift = true
		}
	}
	if !half {
		// the same through the schema types
		is := schema.NewIntSchema(nil, nil, d.units)
		txt := d.units.FormatShortInt(c.N)
		v, err := is.Unserialize(txt)
		r.Evals++
		if err != nil || v != c.N {
			r.miss("int_schema_unserialize", "roundtrip", c, map[string]any{"n": c.N, "text": txt, "got": fmt.Sprint(v), "err": errStr(err)})
		}
	}
}

func errStr(err error) any {
	if err == nil {
		return nil
	}
	return err.Error()
}

func runParse(c caseT, d *defT, r *resT) {
	t, f := true, false
	type variant struct {
		long   bool
		plural *bool
		sep    string
		gap    string
	}
	variants := []variant{
		{false, nil, "", ""}, {true, nil, "", ""}, {false, &t, " ", " "}, {true, &f, "", " "}, {false, nil, "  ", ""},
	}
	// a bare number directly followed by another count would merge into one number: such
	// token strings are only rendered with a gap
	needGap := false
	for i, k := range c.Exp.Toks {
		if k.U == 0 && i < len(c.Exp.Toks)-1 {
			needGap = true
		}
	}
	for vi, v := range variants {
		if needGap && v.gap == "" {
			continue
		}
		txt, _ := render(d, c.Exp.Toks, v.long, v.plural, v.sep, v.gap)
		if vi == 2 {
			txt = " " + txt + " "
		}
		wantF := float64(c.Exp.H) / 2
		isInt := c.Exp.H%2 == 0
		// ParseFloat
		gf, errF := d.units.ParseFloat(txt)
		r.Evals++
		switch c.Exp.OK {
		case "yes":
			if errF != nil {
				r.miss("parse_float", "rejects_wellformed", c, map[string]any{"text": txt, "err": errStr(errF), "want": wantF})
			} else if !approx(gf, wantF) {
				r.miss("parse_float", "wrong_number", c, map[string]any{"text": txt, "got": gf, "want": wantF})
			}
		case "maybe":
			if errF == nil && !approx(gf, wantF) {
				r.miss("parse_float", "wrong_number", c, map[string]any{"text": txt, "got": gf, "want": wantF})
			}
		case "no":
			if errF == nil {
				r.miss("parse_float", "accepts_malformed", c, map[string]any{"text": txt, "got": gf})
			}
		}
		// ParseInt: an integral quantity written with integral counts
		gi, errI := d.units.ParseInt(txt)
		r.Evals++
		switch {
		case c.Exp.OK == "yes":
			if errI != nil {
				r.miss("parse_int", "rejects_wellformed", c, map[string]any{"text": txt, "err": errStr(errI), "want": c.Exp.H / 2})
			} else if gi != c.Exp.H/2 {
				r.miss("parse_int", "wrong_number", c, map[string]any{"text": txt, "got": gi, "want": c.Exp.H / 2})
			}
		case c.Exp.OK == "maybe":
			if errI == nil && (!isInt || gi != c.Exp.H/2) {
				r.miss("parse_int", "wrong_number", c, map[string]any{"text": txt, "got": gi, "want_half_units": c.Exp.H})
			}
		default:
			if errI == nil {
				r.miss("parse_int", "accepts_malformed", c, map[string]any{"text": txt, "got": gi})
			}
		}
		// through the schema types
		if vi == 0 {
			is := schema.NewIntSchema(nil, nil, d.units)
			v, err := is.Unserialize(txt)
			r.Evals++
			if c.Exp.OK == "yes" && (err != nil || v != c.Exp.H/2) {
				r.miss("int_schema_unserialize", "strict", c, map[string]any{"text": txt, "got": fmt.Sprint(v), "err": errStr(err)})
			}
			if c.Exp.OK == "no" && err == nil {
				r.miss("int_schema_unserialize", "accepts_malformed", c, map[string]any{"text": txt, "got": fmt.Sprint(v)})
			}
			fs := schema.NewFloatSchema(nil, nil, d.units)
			vf, err := fs.Unserialize(txt)
			r.Evals++
			if c.Exp.OK == "yes" && (err != nil || !approx(vf.(float64), wantF)) {
				r.miss("float_schema_unserialize", "strict", c, map[string]any{"text": txt, "got": fmt.Sprint(vf), "err": errStr(err)})
			}
			if c.Exp.OK == "no" && err == nil {
				r.miss("float_schema_unserialize", "accepts_malformed", c, map[string]any{"text": txt, "got": fmt.Sprint(vf)})
			}
		}
	}
}

// runNearMiss: strings that other number parsers take (signs, exponents, hexadecimal, digit separators, special
// values) are not "counts followed by declared unit names": a schema with units has to reject them.
func runNearMiss(c caseT, d *defT, r *resT) {
	for _, txt := range []string{"-5", "+5", "-0", "1e3", "1E-2", "2e0", ".5", "5.", "0x1p-2", "0x10", "0b11", "0o7", "1_000",
		"Inf", "-inf", "+Inf", "infinity", "NaN", "nan", "5-", "--5", "1e", "e3"} {
		if _, err := d.units.ParseInt(txt); err == nil {
			r.miss("parse_int", "accepts_malformed", c, map[string]any{"text": txt})
		}
		if _, err := d.units.ParseFloat(txt); err == nil {
			r.miss("parse_float", "accepts_malformed", c, map[string]any{"text": txt})
		}
		if v, err := schema.NewIntSchema(nil, nil, d.units).Unserialize(txt); err == nil {
			r.miss("int_schema_unserialize", "accepts_malformed", c, map[string]any{"text": txt, "got": fmt.Sprint(v)})
		}
		if v, err := schema.NewFloatSchema(nil, nil, d.units).Unserialize(txt); err == nil {
			r.miss("float_schema_unserialize", "accepts_malformed", c, map[string]any{"text": txt, "got": fmt.Sprint(v)})
		}
		r.Evals += 4
	}
	// unit names are matched as declared: another letter case of a declared name is not a unit (unless that
	// spelling is itself declared)
	declared := map[string]bool{}
	for _, n := range d.names {
		for _, x := range n {
			declared[x] = true
		}
	}
	swap := func(s string) string {
		b := []rune(s)
		for i, c := range b {
			if unicode.IsUpper(c) {
				b[i] = unicode.ToLower(c)
			} else {
				b[i] = unicode.ToUpper(c)
			}
		}
		return string(b)
	}
	seen := map[string]bool{}
	for _, n := range d.names {
		for _, x := range n {
			for _, v := range []string{strings.ToUpper(x), strings.ToLower(x), swap(x)} {
				if v == "" || declared[v] || seen[v] {
					continue
				}
				seen[v] = true
				for _, txt := range []string{"2" + v, "2 " + v} {
					if got, err := d.units.ParseInt(txt); err == nil {
						r.miss("parse_int", "accepts_malformed", c, map[string]any{"text": txt, "got": got, "why": "letter case"})
					}
					if got, err := schema.NewIntSchema(nil, nil, d.units).Unserialize(txt); err == nil {
						r.miss("int_schema_unserialize", "accepts_malformed", c, map[string]any{"text": txt, "got": fmt.Sprint(got), "why": "letter case"})
					}
					r.Evals += 2
				}
			}
		}
	}
	// an integer quantity has integer counts: a count with a decimal point is not one, however it rounds
	base := d.names[len(d.names)-1][0]
	texts := []string{"5.0" + base, "9007199254740993.0" + base, "9007199254740992.5" + base}
	if len(d.mults) > 0 {
		texts = append(texts, "1"+d.names[0][0]+"1.0"+base, "1"+d.names[0][0]+" 0.0"+base)
	}
	for _, txt := range texts {
		if got, err := d.units.ParseInt(txt); err == nil {
			r.miss("parse_int", "accepts_malformed", c, map[string]any{"text": txt, "got": got, "why": "decimal count"})
		}
		if got, err := schema.NewIntSchema(nil, nil, d.units).Unserialize(txt); err == nil {
			r.miss("int_schema_unserialize", "accepts_malformed", c, map[string]any{"text": txt, "got": fmt.Sprint(got), "why": "decimal count"})
		}
		r.Evals += 2
	}
}

// runTwin: a second definition with the same base unit and the same multipliers but other names for the multiplier
// units, used right after the first in the same process (and the first again afterwards): what one definition has
// built must not show through in the other.
func runTwin(c caseT, d *defT, r *resT) {
	if len(d.mults) == 0 {
		return
	}
	base := d.names[len(d.names)-1]
	var names [][4]string
	for i := range d.mults {
		n := d.names[i]
		names = append(names, [4]string{n[0] + "q", n[1] + "q", n[2] + "q", n[3] + "q"})
	}
	twin := mk(base, d.mults, names)
	sample := []int64{1, d.mults[len(d.mults)-1], d.mults[0], d.mults[0]*3 + 1, 12345}
	round := func(who string, x *defT, other *defT) {
		for _, n := range sample {
			for _, long := range []bool{false, true} {
				var txt string
				if long {
					txt = x.units.FormatLongInt(n)
				} else {
					txt = x.units.FormatShortInt(n)
				}
				back, err := x.units.ParseInt(txt)
				r.Evals++
				if err != nil || back != n {
					r.miss("twin_definitions", "roundtrip", c, map[string]any{"who": who, "n": n, "text": txt, "parsed": back, "err": errStr(err)})
				}
			}
		}
		// a name only the other definition declares is not a unit here
		txt := "2" + other.names[0][0]
		if other.names[0][0] != x.names[0][0] {
			if v, err := x.units.ParseInt(txt); err == nil {
				r.miss("twin_definitions", "accepts_foreign_name", c, map[string]any{"who": who, "text": txt, "got": v})
			}
			r.Evals++
		}
	}
	round("first", d, twin)
	round("twin", twin, d)
	round("first_again", d, twin)
}

// runBig sweeps 63-bit quantities and overflowing strings with a math/big oracle and logs
// the digit structure the code produced, for UnitsTrace.tla.
func runBig(c caseT, d *defT, r *resT) {
	rng := rand.New(rand.NewSource(c.Seed))
	var ns []int64
	for _, m := range d.mults {
		for _, k := range []int64{1, 2, 9, 10, 1000} {
			if m <= math.MaxInt64/k {
				ns = append(ns, m*k-1, m*k, m*k+1)
			}
		}
	}
	p := int64(1)
	for i := 0; i < 18; i++ {
		p *= 10
		ns = append(ns, p-1, p, p+1)
	}
	ns = append(ns, math.MaxInt64, math.MaxInt64-1, 1<<53, 1<<53+1, 1<<62, 1<<62+1)
	for i := 0; i < c.Count; i++ {
		ns = append(ns, rng.Int63()>>uint(rng.Intn(62)))
	}
	for _, n := range ns {
		// reference digits by exact integer arithmetic
		rem := new(big.Int).SetInt64(n)
		var toks []tok
		for i, m := range d.mults {
			q, mod := new(big.Int).DivMod(rem, big.NewInt(m), new(big.Int))
			if q.Sign() != 0 {
				toks = append(toks, tok{C: q.Int64(), U: i + 1})
			}
			rem = mod
		}
		if rem.Sign() != 0 || n == 0 {
			toks = append(toks, tok{C: rem.Int64(), U: len(d.mults) + 1})
		}
		for _, long := range []bool{false, true} {
			want, _ := render(d, toks, long, nil, "", "")
			var got, opname string
			if long {
				got, opname = d.units.FormatLongInt(n), "format_long_int"
			} else {
				got, opname = d.units.FormatShortInt(n), "format_short_int"
			}
			r.Evals++
			back, err := d.units.ParseInt(got)
			if err != nil || back != n {
				r.miss(opname, "roundtrip_63bit", c, map[string]any{"n": n, "text": got, "parsed": back, "err": errStr(err)})
			} else if got != want {
				r.miss(opname, "text_63bit", c, map[string]any{"n": n, "text": got, "model": want})
				r.Mismatches[len(r.Mismatches)-1].Drift = true
			}
		}
		if len(r.Trace) < 400 && divisible(d.mults) {
			// what the code printed, as digit structure: ratios to the next larger unit are small
			r.Trace = append(r.Trace, traceLine(d, c.Def, d.units.FormatShortInt(n)))
		}
	}
	// overflowing strings: count x multiplier or the sum beyond int64
	for i := 0; i < c.Count/4+8; i++ {
		var toks []tok
		total := new(big.Int)
		for u := 1; u <= len(d.mults)+1; u++ {
			if rng.Intn(2) == 0 && len(toks) > 0 {
				continue
			}
			cnt := rng.Int63() >> uint(rng.Intn(40))
			if i%3 == 0 {
				cnt = math.MaxInt64 >> uint(rng.Intn(3))
			}
			toks = append(toks, tok{C: cnt, U: u})
			m := int64(1)
			if u <= len(d.mults) {
				m = d.mults[u-1]
			}
			total.Add(total, new(big.Int).Mul(big.NewInt(cnt), big.NewInt(m)))
		}
		txt, _ := render(d, toks, false, nil, "", "")
		got, err := d.units.ParseInt(txt)
		r.Evals++
		if total.IsInt64() {
			if err != nil || got != total.Int64() {
				r.miss("parse_int", "rejects_wellformed_63bit", c, map[string]any{"text": txt, "got": got, "err": errStr(err), "want": total.String()})
			}
		} else if err == nil {
			r.miss("parse_int", "overflow", c, map[string]any{"text": txt, "got": got, "true_value": total.String()})
		}
		gf, errF := d.units.ParseFloat(txt)
		r.Evals++
		wantF, _ := new(big.Float).SetInt(total).Float64()
		if errF == nil && math.Abs(gf-wantF) > 1e-6+1e-9*math.Abs(wantF) {
			r.miss("parse_float", "overflow", c, map[string]any{"text": txt, "got": gf, "true_value": total.String()})
		}
	}
	// random floats: round trip within tolerance; first the quantities far below one base unit and just beside a
	// unit boundary (whatever they print as, the text has to parse back to roughly the same number)
	tiny := []float64{1e-12, 1e-9, 1e-7, 4.9e-7, 5e-7, 5.1e-7, 6e-7, 1e-6, 1.5e-6, 4e-4, 5e-4, 1e-3, 0.0015,
		1.0000004, 59.9999996, 60.0000001, 3600.0000002, 1023.9999999, 1024.0000001, 999.9999995}
	for i := 0; i < c.Count+len(tiny); i++ {
		var x float64
		if i < len(tiny) {
			x = tiny[i]
		} else {
			x = math.Floor(rng.Float64()*math.Pow(10, float64(rng.Intn(15)))*1000) / 1000
		}
		for _, long := range []bool{false, true} {
			var got, opname string
			if long {
				got, opname = d.units.FormatLongFloat(x), "format_long_float"
			} else {
				got, opname = d.units.FormatShortFloat(x), "format_short_float"
			}
			back, err := d.units.ParseFloat(got)
			r.Evals++
			if err != nil || math.Abs(back-x) > 1e-5+1e-9*math.Abs(x) {
				r.miss(opname, "roundtrip_float_random", c, map[string]any{"x": x, "text": got, "parsed": back, "err": errStr(err)})
			}
		}
	}
}

// traceLine tokenises text the SDK printed (longest declared short name first) into
// [count, unit] pairs with counts reduced to what TLC can hold: the top digit is clipped.
func traceLine(d *defT, def string, text string) map[string]any {
	toks := []map[string]any{}
	rest := text
	ok := true
	for rest != "" {
		i := 0
		for i < len(rest) && rest[i] >= '0' && rest[i] <= '9' {
			i++
		}
		if i == 0 {
			ok = false
			break
		}
		cnt, err := strconv.ParseInt(rest[:i], 10, 64)
		if err != nil {
			ok = false
			break
		}
		rest = rest[i:]
		best, bestU := "", 0
		for u, nm := range d.names {
			for _, s := range nm[:2] {
				if strings.HasPrefix(rest, s) && len(s) > len(best) {
					best, bestU = s, u+1
				}
			}
		}
		if bestU == 0 {
			ok = false
			break
		}
		rest = rest[len(best):]
		clipped := cnt
		big := false
		if clipped > 1000000 {
			clipped, big = 1000000, true
		}
		toks = append(toks, map[string]any{"c": clipped, "u": bestU, "big": big})
	}
	// ratios between adjacent multipliers (all small for the built-in sets)
	ratios := []int64{}
	for i := range d.mults {
		next := int64(1)
		if i+1 < len(d.mults) {
			next = d.mults[i+1]
		}
		ratios = append(ratios, d.mults[i]/next)
	}
	return map[string]any{"ev": "fmt", "def": def, "ratios": ratios, "toks": toks, "lexed": ok, "text": text}
}

// divisible: every multiplier is a multiple of the next smaller one (then "digit < ratio" is
// the canonical-form condition UnitsTrace checks)
func divisible(mults []int64) bool {
	for i := 0; i+1 < len(mults); i++ {
		if mults[i]%mults[i+1] != 0 {
			return false
		}
	}
	return true
}

func handle(raw json.RawMessage) any {
	var c caseT
	if err := json.Unmarshal(raw, &c); err != nil {
		return map[string]any{"harness_error": err.Error()}
	}
	d := getDef(c.Def)
	r := &resT{}
	if d == nil {
		r.BindError = "unknown definition " + c.Def
		return r
	}
	if c.Op != "big" && !sameMults(d.mults, c.Mults) {
		r.BindError = fmt.Sprintf("definition %s: specification has multipliers %v, code has %v", c.Def, c.Mults, d.mults)
		return r
	}
	var pi *sup.PanicInfo
	switch c.Op {
	case "fmt", "fmth":
		pi = sup.Guard(func() { runFmt(c, d, r) })
	case "parse":
		pi = sup.Guard(func() { runParse(c, d, r) })
	case "big":
		pi = sup.Guard(func() { runBig(c, d, r); runNearMiss(c, d, r); runTwin(c, d, r) })
	}
	if pi != nil {
		r.miss(c.Op, "panic", c, map[string]any{"panic": pi.Msg, "frame": pi.Frame, "n": c.N, "toks": c.Exp.Toks})
	}
	return r
}

func main() { sup.Main(handle) }
