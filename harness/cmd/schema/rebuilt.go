package main

import (
	"encoding/json"
	"fmt"
	"os"
	"sync/atomic"

	"go.flow.arcalot.io/pluginsdk/schema"
	cz "verif/harness/concretize"
)

// rebuilt.go: C03 on schemas that were NOT built by a constructor.  A map-based object of a vector
// is described (NewScopeSchema(obj).SelfSerialize) and rebuilt from that description
// (schema.UnserializeScope); the rebuilt schema has to behave as its own description says - the
// expectation is the vector's declared outcome.  To expose state shared between schemas, the object
// is rebuilt under a fresh object ID together with a TWIN of the same ID whose declared defaults
// differ (none where the object has some, some where it has none; and other values), and the two
// are exercised in one process in both orders:
//
//	twin first, then the object:  the object's outcome must still be the declared one;
//	object first, then the twin:  the twin's outcome must equal what the twin gives alone (fresh ID).

var freshID int64

func nextID() string {
	return fmt.Sprintf("rb%d_%d", os.Getpid(), atomic.AddInt64(&freshID, 1))
}

func cloneSchema(s *cz.Schema) *cz.Schema {
	b, _ := json.Marshal(s)
	out := &cz.Schema{}
	if err := json.Unmarshal(b, out); err != nil {
		panic("clone: " + err.Error())
	}
	return out
}

func defaultFor(t *cz.Schema) (cz.OptValue, bool) {
	switch t.Kind {
	case "int", "float":
		return cz.OptValue{Some: true, V: &cz.Value{K: "float", Rep: "float64", N: 2}}, true
	case "string":
		return cz.OptValue{Some: true, V: &cz.Value{K: "str", Rep: "string", S: "a"}}, true
	case "bool":
		return cz.OptValue{Some: true, V: &cz.Value{K: "bool", Rep: "bool", B: true}}, true
	}
	return cz.OptValue{}, false
}

func otherDefault(v *cz.Value) *cz.Value {
	switch v.K {
	case "float":
		if v.N <= 2 {
			return &cz.Value{K: "float", Rep: "float64", N: v.N + 2}
		}
		return &cz.Value{K: "float", Rep: "float64", N: v.N - 2}
	case "str":
		if v.S == "a" {
			return &cz.Value{K: "str", Rep: "string", S: "b"}
		}
		return &cz.Value{K: "str", Rep: "string", S: "a"}
	case "bool":
		return &cz.Value{K: "bool", Rep: "bool", B: !v.B}
	}
	return v
}

// twins: the same object with its declared defaults toggled / changed.
func twins(s *cz.Schema) []*cz.Schema {
	toggled, changed := cloneSchema(s), cloneSchema(s)
	differs := false
	for i, p := range s.Props {
		if p.Default.Some {
			toggled.Props[i].Default = cz.OptValue{}
			changed.Props[i].Default = cz.OptValue{Some: true, V: otherDefault(p.Default.V)}
			differs = true
		} else if d, ok := defaultFor(p.Type); ok {
			toggled.Props[i].Default = d
			changed.Props[i].Default = d
			differs = true
		}
	}
	if !differs {
		return nil
	}
	return []*cz.Schema{toggled, changed}
}

// rebuild: describe the object and build a schema from the description.
func rebuild(s *cz.Schema, id string, e *cz.Embedding) (schema.Type, error) {
	c := cloneSchema(s)
	c.ID = id
	b, err := cz.Build(c, e)
	if err != nil {
		return nil, err
	}
	obj, ok := b.Type.(*schema.ObjectSchema)
	if !ok {
		return nil, fmt.Errorf("not a plain object schema")
	}
	var desc any
	var rebuilt *schema.ScopeSchema
	var rerr error
	if pi := guard(func() {
		desc, rerr = schema.NewScopeSchema(obj).SelfSerialize()
		if rerr == nil {
			rebuilt, rerr = schema.UnserializeScope(desc)
		}
	}); pi != nil {
		return nil, fmt.Errorf("describe/rebuild panics: %s", pi.Msg)
	}
	if rerr != nil {
		return nil, rerr
	}
	return rebuilt, nil
}

func sameObs(a, b callOut, e *cz.Embedding, s *cz.Schema) bool {
	if (a.Panic != nil) != (b.Panic != nil) || (a.Err == nil) != (b.Err == nil) {
		return false
	}
	if a.Err != nil || a.Panic != nil {
		return true
	}
	return eqGo(a.Val, b.Val)
}

func rebuiltCheck(c *vecCase, e *cz.Embedding, arg any, r *resT) {
	if c.Op != "unser" || c.S.Kind != "object" || c.S.Layout != "map" || len(c.S.Props) == 0 || len(c.S.Props) > 3 {
		return
	}
	for _, p := range c.S.Props {
		switch p.Type.Kind {
		case "int", "float", "string", "bool":
		default:
			return // descriptions of the other kinds are C09's business
		}
		// decoded defaults do not depend on the rule lists: the objects without rule lists (every combination of
		// required / default / disabled) carry this check, which keeps it cheap
		if len(c.S.Props) > 1 && len(p.RequiredIf)+len(p.RequiredIfNot)+len(p.Conflicts) > 0 {
			return
		}
	}
	report := func(div string, det map[string]any) {
		det["emb"], det["go_arg"] = e.Name, fmt.Sprintf("%#v", arg)
		r.miss(map[string]any{"op": "unser", "entry": "rebuilt", "kind_at_fault": "object", "arg_class": c.Arg.Class(), "divergence": div}, det)
	}
	check := func(t schema.Type, what string) bool {
		o := callUntyped(t, "unser", arg)
		r.Runs++
		if o.Panic != nil {
			r.miss(map[string]any{"op": "unser", "entry": "rebuilt", "kind_at_fault": "object", "arg_class": c.Arg.Coarse(), "divergence": "panic", "frame": o.Panic.Frame},
				map[string]any{"panic": o.Panic.Msg, "emb": e.Name, "how": what, "decodable": c.Arg.Decodable()})
			return false
		}
		if div, d, _ := judge(o, "unser", c.Exp, e, c.S); div != "" {
			d["how"] = what
			report(div, d)
			return false
		}
		return true
	}
	// alone, under a fresh ID
	solo, err := rebuild(c.S, nextID(), e)
	if err != nil {
		r.Skipped++
		return
	}
	if !check(solo, "rebuilt from its own description") {
		return
	}
	empty := map[string]any{}
	for _, tw := range twins(c.S) {
		// the twin alone
		twSolo, err := rebuild(tw, nextID(), e)
		if err != nil {
			continue
		}
		twAloneArg, twAloneEmpty := callUntyped(twSolo, "unser", arg), callUntyped(twSolo, "unser", empty)
		// twin first, then the object (same ID)
		id := nextID()
		t1, err1 := rebuild(tw, id, e)
		o1, err2 := rebuild(c.S, id, e)
		if err1 != nil || err2 != nil {
			continue
		}
		callUntyped(t1, "unser", empty)
		callUntyped(t1, "unser", arg)
		if !check(o1, "after a rebuilt object of the same ID with other defaults was used") {
			return
		}
		// the object first, then the twin (same ID)
		id = nextID()
		o2, err1 := rebuild(c.S, id, e)
		t2, err2 := rebuild(tw, id, e)
		if err1 != nil || err2 != nil {
			continue
		}
		callUntyped(o2, "unser", empty)
		callUntyped(o2, "unser", arg)
		r.Runs += 6
		if !sameObs(callUntyped(t2, "unser", arg), twAloneArg, e, tw) || !sameObs(callUntyped(t2, "unser", empty), twAloneEmpty, e, tw) {
			twb, _ := json.Marshal(tw)
			report("value", map[string]any{"how": "a rebuilt object of the same ID with other defaults gives another outcome after this one was used than alone",
				"twin": string(twb)})
			return
		}
	}
}

// describable: the kinds whose self-description is known to rebuild (the typed / generic variants are C09's).
func describable(s *cz.Schema) bool {
	switch s.Kind {
	case "int", "float", "string", "bool":
		return true
	case "list":
		return !s.Typed && describable(s.Items)
	case "map":
		return !s.Typed && (s.Keys.Kind == "string" || s.Keys.Kind == "int") && describable(s.Keys) && describable(s.Vals)
	}
	return false
}

// rebuildAny rebuilds an arbitrary describable schema from its own description: it is described as the
// property "v" of a wrapper object (NewScopeSchema(wrapper).SelfSerialize), the description is turned back into
// a scope (schema.UnserializeScope) and the property's type is taken out of it.
func rebuildAny(s *cz.Schema, e *cz.Embedding) (schema.Type, error) {
	b, err := cz.Build(s, e)
	if err != nil {
		return nil, err
	}
	wrapper := schema.NewObjectSchema(nextID(), map[string]*schema.PropertySchema{
		"v": schema.NewPropertySchema(b.Type, nil, true, nil, nil, nil, nil, nil),
	})
	var rebuilt *schema.ScopeSchema
	var rerr error
	if pi := guard(func() {
		var desc any
		desc, rerr = schema.NewScopeSchema(wrapper).SelfSerialize()
		if rerr == nil {
			rebuilt, rerr = schema.UnserializeScope(desc)
		}
	}); pi != nil {
		return nil, fmt.Errorf("describe/rebuild panics: %s", pi.Msg)
	}
	if rerr != nil {
		return nil, rerr
	}
	p, ok := rebuilt.RootObject().Properties()["v"]
	if !ok {
		return nil, fmt.Errorf("rebuilt wrapper lost its property")
	}
	return p.Type(), nil
}

// unitVariants: a schema with units must behave the same when its units definition did not pass NewUnits -
// written as a struct literal, or received as a description.
func unitVariants(c *vecCase, e *cz.Embedding, arg any, r *resT) {
	if !c.S.HasLiteralRoute() {
		return
	}
	run := func(t schema.Type, how string) {
		o := callUntyped(t, c.Op, arg)
		r.Runs++
		if o.Panic != nil {
			r.miss(map[string]any{"op": c.Op, "entry": how, "kind_at_fault": c.S.Kind, "arg_class": c.Arg.Coarse(), "divergence": "panic", "frame": o.Panic.Frame},
				map[string]any{"panic": o.Panic.Msg, "emb": e.Name, "go_arg": fmt.Sprintf("%#v", arg), "decodable": c.Arg.Decodable()})
			return
		}
		if div, d, _ := judge(o, c.Op, c.Exp, e, c.S); div != "" {
			d["emb"], d["go_arg"] = e.Name, fmt.Sprintf("%#v", arg)
			r.miss(map[string]any{"op": c.Op, "entry": how, "kind_at_fault": c.S.Kind, "arg_class": c.Arg.Class(), "divergence": div}, d)
		}
	}
	if lit, err := cz.BuildLiteralUnits(c.S, e); err == nil {
		how := "literal" // scalars / enums written as struct literals (enum values without display data)
		if c.S.HasUnits() {
			how = "literal_units"
		}
		run(lit.Type, how)
	}
	if c.S.HasUnits() && describable(c.S) {
		if t, err := rebuildAny(c.S, e); err == nil {
			run(t, "rebuilt")
		} else {
			r.Skipped++
		}
	}
}
