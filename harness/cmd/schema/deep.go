package main

import (
	"encoding/json"
	"fmt"
	"strings"

	"go.flow.arcalot.io/pluginsdk/schema"
)

// deep.go: the deep-nesting sweep of C04.  TLC cannot scale nesting depth; the harness does, up
// to what the decoders themselves can produce (encoding/json: 10 000 levels, CBOR default: 32)
// and a margin above.  Only "returned vs. panic / fatal stack overflow / no return" is
// judged; a fatal error kills the supervised child and is attributed by sup.
//
//	{"fam":"deep","shape":"list"|"map"|"any_list"|"any_map"|"typed_list","depth":N,"via":"direct"|"json"}

type deepCase struct {
	Shape string `json:"shape"`
	Depth int    `json:"depth"`
	Via   string `json:"via"`
	Bad   bool   `json:"bad"` // the innermost leaf is of the wrong type: the error travels up through every level
}

func nestedValue(shape string, depth int, via string, bad bool) (any, error) {
	if via == "json" {
		var sb strings.Builder
		switch shape {
		case "list", "any_list", "typed_list":
			sb.WriteString(strings.Repeat("[", depth))
			sb.WriteString("1")
			sb.WriteString(strings.Repeat("]", depth))
		default:
			sb.WriteString(strings.Repeat(`{"a":`, depth))
			sb.WriteString("1")
			sb.WriteString(strings.Repeat("}", depth))
		}
		var v any
		if err := json.Unmarshal([]byte(sb.String()), &v); err != nil {
			return nil, err
		}
		return v, nil
	}
	var v any = int64(1)
	if bad {
		v = struct{}{}
	}
	for i := 0; i < depth; i++ {
		switch shape {
		case "list", "any_list", "typed_list":
			v = []any{v}
		default:
			v = map[string]any{"a": v}
		}
	}
	return v, nil
}

// recursive schemas: Node{a int, l list[ref Node]} and Dir{m map[string, ref Dir]} (the shapes SchemaMC checks
// at depth 2 and 4: a well-formed value is accepted); here the depth is scaled.
func recSchema(shape string) schema.Type {
	if shape == "rec_list" {
		return schema.NewScopeSchema(schema.NewObjectSchema("Node", map[string]*schema.PropertySchema{
			"a": schema.NewPropertySchema(schema.NewIntSchema(nil, nil, nil), nil, true, nil, nil, nil, nil, nil),
			"l": schema.NewPropertySchema(schema.NewListSchema(schema.NewRefSchema("Node", nil), nil, nil), nil, false, nil, nil, nil, nil, nil),
		}))
	}
	return schema.NewScopeSchema(schema.NewObjectSchema("Dir", map[string]*schema.PropertySchema{
		"m": schema.NewPropertySchema(schema.NewMapSchema(schema.NewStringSchema(nil, nil, nil), schema.NewRefSchema("Dir", nil), nil, nil), nil, false, nil, nil, nil, nil, nil),
	}))
}

func recValue(shape string, depth int) any {
	var v any
	if shape == "rec_list" {
		v = map[string]any{"a": int64(1)}
		for i := 0; i < depth; i++ {
			v = map[string]any{"a": int64(1), "l": []any{v}}
		}
		return v
	}
	v = map[string]any{}
	for i := 0; i < depth; i++ {
		v = map[string]any{"m": map[any]any{"a": v}}
	}
	return v
}

func nestedSchema(shape string, depth int) schema.Type {
	switch shape {
	case "rec_list", "rec_map":
		return recSchema(shape)
	}
	switch shape {
	case "any_list", "any_map":
		return schema.NewAnySchema()
	}
	var t schema.Type = schema.NewIntSchema(nil, nil, nil)
	if shape != "list" && shape != "typed_list" {
		t = schema.NewFloatSchema(nil, nil, nil) // JSON numbers are float64
	}
	for i := 0; i < depth; i++ {
		switch shape {
		case "list", "typed_list":
			t = schema.NewListSchema(t, nil, nil)
		default:
			t = schema.NewMapSchema(schema.NewStringSchema(nil, nil, nil), t, nil, nil)
		}
	}
	return t
}

func runDeep(raw json.RawMessage) any {
	var c deepCase
	if err := json.Unmarshal(raw, &c); err != nil {
		return map[string]any{"harness_error": "bad deep case: " + err.Error()}
	}
	r := &resT{Evals: 1}
	var v any
	var err error
	if c.Shape == "rec_list" || c.Shape == "rec_map" {
		v = recValue(c.Shape, c.Depth)
	} else {
		v, err = nestedValue(c.Shape, c.Depth, c.Via, c.Bad)
	}
	if err != nil {
		// the decoder itself refuses this depth: nothing to hold against the SDK
		r.Skipped++
		return r
	}
	t := nestedSchema(c.Shape, c.Depth)
	var native any
	var accepted bool
	for _, op := range []string{"unser", "compat", "valid", "ser"} {
		arg := v
		if op == "valid" || op == "ser" {
			if !accepted {
				continue
			}
			arg = native
		}
		var res any
		var rerr error
		pi := guard(func() {
			switch op {
			case "unser":
				res, rerr = t.Unserialize(arg)
			case "compat":
				rerr = t.ValidateCompatibility(arg)
			case "valid":
				rerr = t.Validate(arg)
			case "ser":
				res, rerr = t.Serialize(arg)
			}
		})
		r.Runs++
		if pi != nil {
			r.miss(map[string]any{"op": op, "entry": "untyped", "kind_at_fault": "deep:" + c.Shape, "arg_class": fmt.Sprintf("nesting:%s", c.Via),
				"divergence": "panic", "frame": pi.Frame}, map[string]any{"panic": pi.Msg, "depth": c.Depth})
			continue
		}
		if op == "unser" {
			accepted = rerr == nil
			native = res
			if !accepted && (c.Shape == "rec_list" || c.Shape == "rec_map") {
				// the model accepts this well-formed value at every depth it checks: a rejection is exactness (C03)
				r.miss(map[string]any{"op": op, "entry": "untyped", "kind_at_fault": "deep:" + c.Shape, "arg_class": "nesting", "divergence": "rejects"},
					map[string]any{"error": rerr.Error(), "depth": c.Depth})
			}
		}
	}
	return r
}
