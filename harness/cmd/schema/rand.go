package main

import (
	"encoding/json"
	"errors"
	"fmt"
	"math"
	"math/rand"
	"regexp"
	"strconv"

	"go.flow.arcalot.io/pluginsdk/schema"
	cz "verif/harness/concretize"
)

// rand.go: code -> specification.  A seeded generator builds schemas and values beyond the
// universe SchemaMC enumerates (depth up to D, collections up to 5, every representation, every
// token), runs the real entry points and logs one trace line per call for SchemaTrace.tla.
// Values the abstraction cannot express (strings outside the token table, floats that are no
// half units, ...) are run too but only held to the direct invariants (returns; an accepted
// result really satisfies the declared constraints) and counted separately.
//
//	{"fam":"rand","seed":S,"count":K,"depth":D}

type randCase struct {
	Seed    int64 `json:"seed"`
	Count   int   `json:"count"`
	Depth   int   `json:"depth"`
	Objects bool  `json:"objects"` // also generate objects, one-of and self-referential scopes (C03 / C01)
	Chain   bool  `json:"chain"`   // C01: run the round-trip chain on every pair the real Unserialize accepts
}

type gen struct {
	r       *rand.Rand
	objects bool
	nextID  int
}

func (g *gen) pick(n int) int        { return g.r.Intn(n) }
func (g *gen) chance(p float64) bool { return g.r.Float64() < p }

func pickOf[T any](g *gen, xs []T) T { return xs[g.pick(len(xs))] }

var smallInts = []int64{-2, -1, 0, 1, 2, 3, 4, 5, 7, 10, 12, 60, 64, 90, 330}
var edgeInBounds = []int64{cz.IMin, cz.IMin + 1, cz.IMax - 1, cz.IMax}

func (g *gen) modelInt(edge bool) int64 {
	if edge && g.chance(0.25) {
		return pickOf(g, cz.EdgePts)
	}
	return pickOf(g, smallInts)
}

func (g *gen) optBound(vals []int64) cz.OptInt {
	if g.chance(0.4) {
		return cz.OptInt{}
	}
	return cz.OptInt{Some: true, V: pickOf(g, vals)}
}

func ordered(a, b cz.OptInt) (cz.OptInt, cz.OptInt) {
	if a.Some && b.Some && a.V > b.V {
		return b, a
	}
	return a, b
}

var nonSymTokens, allTokens, enumTokens []string

func init() {
	for _, t := range cz.Tokens() {
		allTokens = append(allTokens, t.ID)
		if t.SymKind == "" {
			nonSymTokens = append(nonSymTokens, t.ID)
			if len(t.Text) <= 3 {
				enumTokens = append(enumTokens, t.ID)
			}
		}
	}
}

func (g *gen) unitsOpt() cz.OptStr {
	if g.chance(0.3) {
		return cz.OptStr{Some: true, V: "sec"}
	}
	return cz.OptStr{}
}

func (g *gen) schema(depth int, key bool) *cz.Schema {
	kinds := []string{"int", "float", "string", "bool", "pattern", "enum_int", "enum_string", "any", "list", "map", "list", "map"}
	if key {
		kinds = []string{"string", "int", "enum_string", "enum_int"}
	} else if depth <= 1 {
		kinds = kinds[:8]
	}
	if g.objects && !key && depth >= 2 {
		kinds = append(kinds, "object", "object", "object", "oneof")
	}
	k := pickOf(g, kinds)
	s := &cz.Schema{Kind: k}
	switch k {
	case "object":
		return g.object(depth, false, "")
	case "oneof":
		return g.oneof(depth)
	case "int":
		vals := append(append([]int64{}, smallInts...), edgeInBounds...)
		s.Min, s.Max = ordered(g.optBound(vals), g.optBound(vals))
		s.Units = g.unitsOpt()
	case "float":
		var vals []int64
		for h := int64(-4); h <= 24; h++ {
			vals = append(vals, h)
		}
		for _, e := range cz.EdgePts {
			vals = append(vals, 2*e)
		}
		s.Min, s.Max = ordered(g.optBound(vals), g.optBound(vals))
		s.Units = g.unitsOpt()
	case "string":
		s.Min, s.Max = ordered(g.optBound([]int64{0, 1, 2, 3, 5}), g.optBound([]int64{0, 1, 2, 3, 5, 9}))
		if g.chance(0.4) {
			s.Pattern = cz.OptStr{Some: true, V: pickOf(g, cz.PatternIds)}
		}
	case "enum_int":
		n := g.pick(4)
		seen := map[int64]bool{}
		s.Ints = []int64{}
		for i := 0; i < n; i++ {
			v := pickOf(g, append(append([]int64{}, smallInts...), edgeInBounds...))
			if !seen[v] {
				seen[v] = true
				s.Ints = append(s.Ints, v)
			}
		}
		s.Units = g.unitsOpt()
	case "enum_string":
		n := g.pick(4)
		seen := map[string]bool{}
		s.Strs = []string{}
		for i := 0; i < n; i++ {
			v := pickOf(g, enumTokens)
			if !seen[v] {
				seen[v] = true
				s.Strs = append(s.Strs, v)
			}
		}
		s.Typed = g.chance(0.4)
	case "list":
		s.Items = g.schema(depth-1, false)
		s.Min, s.Max = ordered(g.optBound([]int64{0, 1, 2, 3}), g.optBound([]int64{0, 1, 2, 3, 5}))
		s.Typed = g.chance(0.4)
	case "map":
		s.Keys = g.schema(1, true)
		s.Vals = g.schema(depth-1, false)
		s.Min, s.Max = ordered(g.optBound([]int64{0, 1, 2, 3}), g.optBound([]int64{0, 1, 2, 3, 5}))
		s.Typed = g.chance(0.4)
	}
	return s
}

var propNames = []string{"a", "b", "c", "e", "f", "l", "m", "n", "s", "u", "x"}

// object builds a map-based object with 0..4 properties and random rule wiring.
func (g *gen) object(depth int, forOneOf bool, discField string) *cz.Schema {
	g.nextID++
	o := &cz.Schema{Kind: "object", ID: fmt.Sprintf("O%d", g.nextID), Layout: "map", Props: []*cz.Prop{}}
	n := g.pick(5)
	perm := g.r.Perm(len(propNames))
	var names []string
	for i := 0; i < n; i++ {
		names = append(names, propNames[perm[i]])
	}
	subset := func(self string) []string {
		out := []string{}
		for _, x := range names {
			if x != self && g.chance(0.25) {
				out = append(out, x)
			}
		}
		return out
	}
	for _, nm := range names {
		p := &cz.Prop{Name: nm, Type: g.schema(depth-1, false), Required: g.chance(0.3), RequiredIf: []string{}, RequiredIfNot: []string{}, Conflicts: []string{}}
		switch g.pick(5) {
		case 0:
			p.RequiredIf = subset(nm)
		case 1:
			p.RequiredIfNot = subset(nm)
		case 2:
			p.Conflicts = subset(nm)
		}
		if g.chance(0.1) {
			p.Disabled = true
		}
		if g.chance(0.3) {
			// a default in decoded-JSON form that the type plausibly accepts
			switch p.Type.Kind {
			case "int", "float":
				p.Default = cz.OptValue{Some: true, V: &cz.Value{K: "float", Rep: "float64", N: 2 * int64(g.pick(4))}}
			case "string":
				p.Default = cz.OptValue{Some: true, V: &cz.Value{K: "str", Rep: "string", S: pickOf(g, []string{"a", "ab", "#empty", "1"})}}
			case "bool":
				p.Default = cz.OptValue{Some: true, V: &cz.Value{K: "bool", Rep: "bool", B: g.chance(0.5)}}
			case "list":
				p.Default = cz.OptValue{Some: true, V: &cz.Value{K: "list", Rep: "any", List: []*cz.Value{}}}
			case "any":
				p.Default = cz.OptValue{Some: true, V: &cz.Value{K: "str", Rep: "string", S: "a"}}
			}
		}
		o.Props = append(o.Props, p)
	}
	return o
}

func (g *gen) oneof(depth int) *cz.Schema {
	s := &cz.Schema{Kind: "oneof", Disc: pickOf(g, []string{"string", "int"}), Field: pickOf(g, []string{"type", "kind"}), Inlined: g.chance(0.4)}
	n := 2 + g.pick(2)
	keysS := []string{"a", "b", "1"}
	for i := 0; i < n; i++ {
		m := g.object(depth-1, true, s.Field)
		// the members must agree with the inlining flag (construction-time check of the SDK)
		var props []*cz.Prop
		for _, p := range m.Props {
			if p.Name != s.Field {
				props = append(props, p)
			}
		}
		if props == nil {
			props = []*cz.Prop{}
		}
		if s.Inlined {
			dt := &cz.Schema{Kind: "string"}
			if s.Disc == "int" {
				dt = &cz.Schema{Kind: "int"}
			}
			props = append(props, &cz.Prop{Name: s.Field, Type: dt, Required: true, RequiredIf: []string{}, RequiredIfNot: []string{}, Conflicts: []string{}})
		}
		m.Props = props
		mem := cz.Member{S: m}
		if s.Disc == "int" {
			mem.KeyInt = int64(i + 1)
		} else {
			mem.KeyStr = keysS[i]
		}
		s.Members = append(s.Members, mem)
	}
	return s
}

var signedReps = []string{"int", "int8", "int16", "int32", "int64"}
var allIntReps = []string{"int", "int8", "int16", "int32", "int64", "uint", "uint8", "uint16", "uint32", "uint64"}

func (g *gen) intValue(n int64, native bool) *cz.Value {
	rep := "int64"
	if !native {
		switch {
		case n > cz.IMax:
			rep = pickOf(g, []string{"uint", "uint64"})
		case cz.IsEdge(n) && n > 0:
			rep = pickOf(g, []string{"int", "int64", "uint", "uint64", "uint32", "int32"})
		case cz.IsEdge(n):
			rep = pickOf(g, []string{"int", "int64", "int32"})
		case n < 0:
			rep = pickOf(g, signedReps)
		default:
			rep = pickOf(g, allIntReps)
		}
		if g.chance(0.03) {
			rep = "named"
		}
	}
	return &cz.Value{K: "int", Rep: rep, N: n}
}

func (g *gen) floatValue(native bool) *cz.Value {
	if g.chance(0.1) {
		rep := "float64"
		if !native && g.chance(0.3) {
			rep = "float32"
		}
		return &cz.Value{K: "fspecial", Rep: rep, S: pickOf(g, []string{"nan", "+inf", "-inf"})}
	}
	h := int64(g.pick(29) - 4)
	if g.chance(0.15) {
		h = 2 * pickOf(g, cz.EdgePts)
	}
	rep := "float64"
	if !native {
		rep = pickOf(g, []string{"float64", "float64", "float32"})
		if g.chance(0.03) {
			rep = "named"
		}
	}
	return &cz.Value{K: "float", Rep: rep, N: h}
}

func (g *gen) strValue(native bool, pool []string) *cz.Value {
	rep := "string"
	if !native && g.chance(0.03) {
		rep = "named"
	}
	return &cz.Value{K: "str", Rep: rep, S: pickOf(g, pool)}
}

// scalar raw values of any kind
func (g *gen) anyScalar() *cz.Value {
	switch g.pick(8) {
	case 0:
		return &cz.Value{K: "nil"}
	case 1:
		rep := "bool"
		if g.chance(0.1) {
			rep = "named"
		}
		return &cz.Value{K: "bool", Rep: rep, B: g.chance(0.5)}
	case 2, 3:
		return g.intValue(g.modelInt(true), false)
	case 4:
		return g.floatValue(false)
	case 5, 6:
		return g.strValue(false, allTokens)
	}
	return &cz.Value{K: "junk", S: pickOf(g, []string{"tag", "bigint", "time", "struct", "ptr", "nilptr", "nilre", "func", "chan", "nil_wide", "nil_sub"})}
}

func (g *gen) anyValue(depth int) *cz.Value {
	if depth <= 0 || g.chance(0.6) {
		return g.anyScalar()
	}
	if g.chance(0.5) {
		n := g.pick(4)
		v := &cz.Value{K: "list", Rep: "any", List: []*cz.Value{}}
		for i := 0; i < n; i++ {
			v.List = append(v.List, g.anyValue(depth-1))
		}
		return v
	}
	n := g.pick(4)
	v := &cz.Value{K: "map", Rep: pickOf(g, []string{"any_any", "any_any", "string_any"}), Pairs: [][2]*cz.Value{}}
	for i := 0; i < n; i++ {
		var k *cz.Value
		if v.Rep == "string_any" {
			k = g.strValue(true, nonSymTokens)
		} else {
			k = pickOf(g, []*cz.Value{g.strValue(false, nonSymTokens), g.intValue(pickOf(g, smallInts), false), {K: "bool", Rep: "bool", B: true}})
		}
		v.Pairs = append(v.Pairs, [2]*cz.Value{k, g.anyValue(depth - 1)})
	}
	return v
}

// aimed builds a value that plausibly denotes something for s (raw when !native).
func (g *gen) aimed(s *cz.Schema, native bool, depth int) *cz.Value {
	if !native && g.chance(0.12) {
		return g.anyValue(1)
	}
	switch s.Kind {
	case "int", "enum_int":
		if !native && g.chance(0.25) {
			pool := nonSymTokens
			return g.strValue(false, pool)
		}
		if !native && g.chance(0.15) {
			return g.floatValue(false)
		}
		n := g.modelInt(true)
		if s.Kind == "enum_int" && len(s.Ints) > 0 && g.chance(0.6) {
			n = pickOf(g, s.Ints)
		}
		if native && (n < cz.IMin || n > cz.IMax) {
			n = 1
		}
		return g.intValue(n, native)
	case "float":
		if !native && g.chance(0.25) {
			return g.strValue(false, allTokens)
		}
		if !native && g.chance(0.25) {
			return g.intValue(g.modelInt(true), false)
		}
		return g.floatValue(native)
	case "string", "pattern":
		if native && s.Kind == "pattern" {
			for i := 0; i < 10; i++ {
				id := pickOf(g, nonSymTokens)
				t, _ := cz.TokenByID(id)
				if _, err := regexp.Compile(t.Text); err == nil {
					return &cz.Value{K: "re", S: id}
				}
			}
			return &cz.Value{K: "re", S: "a"}
		}
		if !native && g.chance(0.2) {
			return g.intValue(g.modelInt(true), false)
		}
		if !native && g.chance(0.1) {
			return g.floatValue(false)
		}
		return g.strValue(native, allTokens)
	case "enum_string":
		v := g.strValue(native, enumTokens)
		if len(s.Strs) > 0 && g.chance(0.6) {
			v.S = pickOf(g, s.Strs)
		}
		if native {
			v.Rep = "string"
			if s.Typed {
				v.Rep = "named"
			}
		}
		return v
	case "bool":
		if !native && g.chance(0.5) {
			return pickOf(g, []*cz.Value{g.strValue(false, nonSymTokens), g.intValue(pickOf(g, []int64{0, 1, 2, -1}), false)})
		}
		return &cz.Value{K: "bool", Rep: "bool", B: g.chance(0.5)}
	case "any":
		return g.anyValue(depth)
	case "object":
		v := &cz.Value{K: "map", Rep: "any_any", Pairs: [][2]*cz.Value{}}
		if native || g.chance(0.4) {
			v.Rep = "string_any"
		}
		for _, p := range s.Props {
			if g.chance(0.65) {
				v.Pairs = append(v.Pairs, [2]*cz.Value{{K: "str", Rep: "string", S: p.Name}, g.aimed(p.Type, native, depth-1)})
			}
		}
		if g.chance(0.06) {
			v.Pairs = append(v.Pairs, [2]*cz.Value{{K: "str", Rep: "string", S: "kind"}, g.anyScalar()})
		}
		if !native && g.chance(0.04) {
			v.Pairs = append(v.Pairs, [2]*cz.Value{g.intValue(1, false), g.anyScalar()})
			v.Rep = "any_any"
		}
		return v
	case "oneof":
		m := pickOf(g, s.Members)
		v := g.aimed(m.S, native, depth)
		if v.K != "map" {
			return v
		}
		var d *cz.Value
		if s.Disc == "int" {
			d = g.intValue(m.KeyInt, native)
			if !native && g.chance(0.2) {
				d = &cz.Value{K: "str", Rep: "string", S: fmt.Sprintf("%d", m.KeyInt)}
			}
			if g.chance(0.1) {
				d = g.intValue(7, native)
			}
		} else {
			d = &cz.Value{K: "str", Rep: "string", S: m.KeyStr}
			if g.chance(0.1) {
				d.S = "c"
			}
			if !native && m.KeyStr == "1" && g.chance(0.5) {
				d = g.intValue(1, false)
			}
		}
		// the member's own discriminator property (inlined) is generated by aimed(); replace it
		var pairs [][2]*cz.Value
		for _, p := range v.Pairs {
			if !(p[0].K == "str" && p[0].S == s.Field) {
				pairs = append(pairs, p)
			}
		}
		if pairs == nil {
			pairs = [][2]*cz.Value{}
		}
		if !g.chance(0.08) {
			pairs = append(pairs, [2]*cz.Value{{K: "str", Rep: "string", S: s.Field}, d})
		}
		v.Pairs = pairs
		return v
	case "list":
		n := g.pick(6)
		v := &cz.Value{K: "list", Rep: "any", List: []*cz.Value{}}
		if native || g.chance(0.3) {
			v.Rep = "typed"
		}
		for i := 0; i < n; i++ {
			v.List = append(v.List, g.aimed(s.Items, native, depth-1))
		}
		return v
	case "map":
		n := g.pick(5)
		v := &cz.Value{K: "map", Rep: "any_any", Pairs: [][2]*cz.Value{}}
		if native {
			v.Rep = "typed"
		}
		seen := map[string]bool{}
		for i := 0; i < n; i++ {
			k := g.aimed(s.Keys, native, 1)
			if seen[k.Canon()] {
				continue
			}
			seen[k.Canon()] = true
			v.Pairs = append(v.Pairs, [2]*cz.Value{k, g.aimed(s.Vals, native, depth-1)})
		}
		if !native && g.chance(0.3) {
			allStr := true
			for _, p := range v.Pairs {
				if p[0].K != "str" || p[0].Rep != "string" {
					allStr = false
				}
			}
			if allStr {
				v.Rep = "string_any"
			}
		}
		return v
	}
	return g.anyScalar()
}

func applicable(c *vecCase) []*cz.Embedding {
	var out []*cz.Embedding
	for _, e := range embeddingsFor(c) {
		if !faithful(c, e) {
			continue
		}
		if _, err := cz.Build(c.S, e); err != nil {
			continue
		}
		if _, err := cz.ToGo(c.Arg, e); err != nil {
			continue
		}
		out = append(out, e)
	}
	return out
}

// ---------------------------------------------------------------------------- direct invariants

// satisfiesReal evaluates the declared constraints of s directly on a real native value.
func satisfiesReal(s *cz.Schema, b *cz.Built, v any) (bool, string) {
	switch s.Kind {
	case "int":
		t := b.Type.(*schema.IntSchema)
		n, ok := v.(int64)
		if !ok {
			return false, fmt.Sprintf("result %T is not int64", v)
		}
		if (t.MinValue != nil && n < *t.MinValue) || (t.MaxValue != nil && n > *t.MaxValue) {
			return false, fmt.Sprintf("%d outside the declared bounds", n)
		}
	case "float":
		t := b.Type.(*schema.FloatSchema)
		f, ok := v.(float64)
		if !ok {
			return false, fmt.Sprintf("result %T is not float64", v)
		}
		if t.MinValue != nil && !(f >= *t.MinValue) {
			return false, fmt.Sprintf("%v is not >= min %v", f, *t.MinValue)
		}
		if t.MaxValue != nil && !(f <= *t.MaxValue) {
			return false, fmt.Sprintf("%v is not <= max %v", f, *t.MaxValue)
		}
	case "string":
		t := b.Type.(*schema.StringSchema)
		str, ok := v.(string)
		if !ok {
			return false, fmt.Sprintf("result %T is not string", v)
		}
		if (t.MinValue != nil && int64(len(str)) < *t.MinValue) || (t.MaxValue != nil && int64(len(str)) > *t.MaxValue) {
			return false, fmt.Sprintf("length %d outside the declared bounds", len(str))
		}
		if t.PatternValue != nil && !t.PatternValue.MatchString(str) {
			return false, "pattern not matched"
		}
	}
	return true, ""
}

var hostileStrings = []string{"zz", "hello world", "12x", "1e3", "0b1", "١", "9999999999999999999999", "-", "+", ".", "1.25", "3.14159",
	"1h30m", "2 days", "TRUE ", "t r u e", "\x00", "a\nb", "0777", "1,5", "１", "NaN ", "nAn", "0x10", "1e-1"}

// hostileVal is a value outside the abstraction, in a form that can be written to a replay file.
type hostileVal struct {
	T string   `json:"t"` // string | float64 | float32 | int64 | uint64 | strings
	V string   `json:"v,omitempty"`
	L []string `json:"l,omitempty"`
}

func (h hostileVal) goValue() (any, error) {
	switch h.T {
	case "string":
		return h.V, nil
	case "float64":
		return strconv.ParseFloat(h.V, 64)
	case "float32":
		f, err := strconv.ParseFloat(h.V, 32)
		return float32(f), err
	case "int64":
		return strconv.ParseInt(h.V, 10, 64)
	case "uint64":
		return strconv.ParseUint(h.V, 10, 64)
	case "strings":
		l := make([]any, len(h.L))
		for i, x := range h.L {
			l[i] = x
		}
		return l, nil
	}
	return nil, fmt.Errorf("unknown hostile value type %q", h.T)
}

func (h hostileVal) class() string {
	if h.T == "string" {
		if f, err := strconv.ParseFloat(h.V, 64); err == nil && math.IsNaN(f) {
			return "str:nan"
		}
	}
	return "hostile:" + h.T
}

func (g *gen) hostile() hostileVal {
	switch g.pick(6) {
	case 0:
		return hostileVal{T: "string", V: pickOf(g, hostileStrings)}
	case 1:
		return hostileVal{T: "float64", V: strconv.FormatFloat(g.r.NormFloat64()*math.Pow(10, float64(g.pick(30)-10)), 'g', -1, 64)}
	case 2:
		return hostileVal{T: "int64", V: strconv.FormatInt(g.r.Int63()-g.r.Int63(), 10)}
	case 3:
		return hostileVal{T: "uint64", V: strconv.FormatUint(g.r.Uint64(), 10)}
	case 4:
		return hostileVal{T: "float32", V: strconv.FormatFloat(float64(float32(g.r.NormFloat64())), 'g', -1, 32)}
	}
	n := g.pick(4)
	l := make([]string, n)
	for i := range l {
		l[i] = pickOf(g, hostileStrings)
	}
	return hostileVal{T: "strings", L: l}
}

// runHostile: all four operations on a value outside the abstraction; judged by the direct
// invariants only - every call returns, and what Unserialize accepts satisfies the declared
// constraints of the real schema.
func runHostile(r *resT, s *cz.Schema, b *cz.Built, e *cz.Embedding, h hostileVal) {
	hv, err := h.goValue()
	if err != nil {
		r.Skipped++
		return
	}
	r.Direct++
	replayCase := map[string]any{"fam": "direct", "s": s, "emb": e.Name, "hv": h}
	for _, hop := range []string{"unser", "compat", "valid", "ser"} {
		ho := callUntyped(b.Type, hop, hv)
		r.Runs++
		if ho.Panic != nil {
			r.miss(map[string]any{"op": hop, "entry": "untyped", "kind_at_fault": s.Kind, "arg_class": h.class(),
				"divergence": "panic", "frame": ho.Panic.Frame},
				map[string]any{"panic": ho.Panic.Msg, "go_arg": fmt.Sprintf("%#v", hv), "emb": e.Name, "decodable": true, "case": replayCase})
			continue
		}
		if hop == "unser" && ho.Err == nil {
			if ok, why := satisfiesReal(s, b, ho.Val); !ok {
				r.miss(map[string]any{"op": "unser", "entry": "untyped", "kind_at_fault": s.Kind, "arg_class": h.class(), "divergence": "accepts"},
					map[string]any{"why": why, "go_arg": fmt.Sprintf("%#v", hv), "emb": e.Name, "case": replayCase})
			}
		}
	}
}

type directCase struct {
	S   *cz.Schema `json:"s"`
	Emb string     `json:"emb"`
	HV  hostileVal `json:"hv"`
}

func runDirect(raw json.RawMessage) any {
	var c directCase
	if err := json.Unmarshal(raw, &c); err != nil || c.S == nil {
		return map[string]any{"harness_error": "bad direct case"}
	}
	e := cz.EmbeddingByName(c.Emb)
	if e == nil {
		e = cz.Embeddings[0]
	}
	r := &resT{Evals: 1}
	b, err := cz.Build(c.S, e)
	if err != nil {
		return map[string]any{"harness_error": "cannot build schema: " + err.Error()}
	}
	runHostile(r, c.S, b, e, c.HV)
	return r
}

func runRand(raw json.RawMessage) any {
	var rc randCase
	if err := json.Unmarshal(raw, &rc); err != nil {
		return map[string]any{"harness_error": "bad rand case: " + err.Error()}
	}
	g := &gen{r: rand.New(rand.NewSource(rc.Seed)), objects: rc.Objects}
	r := &resT{Evals: 1, Trace: []map[string]any{}}
	ops := []string{"unser", "unser", "unser", "valid", "ser", "compat"}
	if rc.Chain {
		ops = []string{"unser"}
		r.Evals = 0
	}
	for i := 0; i < rc.Count; i++ {
		depth := 1 + g.pick(rc.Depth)
		s := g.schema(depth, false)
		op := pickOf(g, ops)
		native := op == "valid" || op == "ser"
		if native && g.chance(0.15) {
			native = false // a foreign value on the native paths: "returns"
		}
		arg := g.aimed(s, native, depth)
		c := &vecCase{S: s, Op: op, Arg: arg, Exp: outcome{OK: "maybe"}, Mod: outcome{OK: "maybe"}}
		embs := applicable(c)
		if len(embs) == 0 {
			r.Skipped++
			continue
		}
		e := pickOf(g, embs)
		b, _ := cz.Build(s, e)
		goArg, _ := cz.ToGo(arg, e)
		if rc.Chain {
			accepted, _, _, fails := chainOnce(b.Type, nil, goArg)
			r.Runs += 8
			if accepted {
				r.Evals++
			}
			if len(fails) > 0 {
				f := fails[0]
				sig := map[string]any{"op": "chain", "step": f.step, "entry": "untyped", "kind_at_fault": s.Kind, "arg_class": arg.Coarse(), "divergence": f.div}
				if f.frame != "" {
					sig["frame"] = f.frame
				}
				f.det["case"] = map[string]any{"fam": "schema", "s": s, "op": "chain", "arg": arg, "exp": outcome{OK: "maybe"}, "mod": outcome{OK: "maybe"},
					"sub": []any{}, "wire": outcome{OK: "maybe"}, "emb": e.Name}
				r.miss(sig, f.det)
			}
			continue
		}
		o := callUntyped(b.Type, op, goArg)
		r.Runs++
		if o.Panic != nil {
			r.miss(map[string]any{"op": op, "entry": "untyped", "kind_at_fault": s.Kind, "arg_class": arg.Coarse(), "divergence": "panic",
				"frame": o.Panic.Frame}, map[string]any{"emb": e.Name, "panic": o.Panic.Msg, "go_arg": fmt.Sprintf("%#v", goArg), "decodable": arg.Decodable(),
				"case": map[string]any{"fam": "schema", "s": s, "op": op, "arg": arg, "exp": outcome{OK: "maybe"}, "mod": outcome{OK: "maybe"}, "sub": []any{}, "emb": e.Name}})
			continue
		}
		out := map[string]any{"ok": o.Err == nil}
		if o.Err == nil && (op == "unser" || op == "ser") {
			var a *cz.Value
			var err error
			if op == "unser" {
				a, err = cz.FromGoS(o.Val, e, s)
			} else {
				a, err = cz.FromGo(o.Val, e)
			}
			if err != nil {
				if errors.Is(err, cz.ErrInexpressible) {
					r.Inexpressible++
					continue
				}
				return map[string]any{"harness_error": "cannot abstract result: " + err.Error()}
			}
			out["v"] = a
		}
		r.Trace = append(r.Trace, map[string]any{"ev": "call", "s": s, "op": op, "arg": arg, "out": out, "emb": e.Name,
			"fk": s.Kind, "fc": arg.Class()})

		// values outside the abstraction: direct invariants only
		if i%4 == 0 {
			runHostile(r, s, b, e, g.hostile())
		}
	}
	return r
}
