package main

import (
	"errors"
	"fmt"
	"math"
	"reflect"
	"strings"

	"go.flow.arcalot.io/pluginsdk/schema"
	cz "verif/harness/concretize"
)

// chain.go: C01.  One vector = (schema, raw value the statement lets Unserialize accept).  The
// driver really runs
//
//	v1 = Unserialize(raw); Validate(v1); w1 = Serialize(v1); v2 = Unserialize(w1);
//	v3 = Unserialize(CBOR(w1)) with the real codec exactly as ATP moves payloads; w2 = Serialize(v3)
//
// and checks the property's equalities directly on the Go values (v2 = v1, v3 = v1, w2 = w1, w1 is
// a wire form), the typed entry points against the untyped ones, and the model's native value /
// wire form.  Equality identifies nil and empty slices / maps (and NaN with NaN).

func eqGo(a, b any) bool { return eqVal(reflect.ValueOf(a), reflect.ValueOf(b)) }

func isEmptyContainer(v reflect.Value) bool {
	return (v.Kind() == reflect.Slice || v.Kind() == reflect.Map) && v.Len() == 0
}

func eqVal(a, b reflect.Value) bool {
	for a.IsValid() && a.Kind() == reflect.Interface && !a.IsNil() {
		a = a.Elem()
	}
	for b.IsValid() && b.Kind() == reflect.Interface && !b.IsNil() {
		b = b.Elem()
	}
	if !a.IsValid() || !b.IsValid() {
		return a.IsValid() == b.IsValid()
	}
	if a.Kind() == reflect.Interface || b.Kind() == reflect.Interface { // nil interfaces
		return a.Kind() == b.Kind() && a.IsNil() && b.IsNil()
	}
	if a.Type() != b.Type() {
		return false
	}
	switch a.Kind() {
	case reflect.Float32, reflect.Float64:
		x, y := a.Float(), b.Float()
		return x == y || (math.IsNaN(x) && math.IsNaN(y))
	case reflect.Slice:
		if a.Len() != b.Len() {
			return false
		}
		for i := 0; i < a.Len(); i++ {
			if !eqVal(a.Index(i), b.Index(i)) {
				return false
			}
		}
		return true
	case reflect.Map:
		if a.Len() != b.Len() {
			return false
		}
		used := map[int]bool{}
		bk := b.MapKeys()
		for ia := a.MapRange(); ia.Next(); {
			found := false
			for j, k := range bk {
				if used[j] || !eqVal(ia.Key(), k) {
					continue
				}
				// MapIndex cannot look a NaN key up: walk b
				for ib := b.MapRange(); ib.Next(); {
					if eqVal(ib.Key(), k) && eqVal(ia.Value(), ib.Value()) {
						found = true
						break
					}
				}
				if found {
					used[j] = true
					break
				}
			}
			if !found {
				return false
			}
		}
		return true
	case reflect.Pointer:
		if a.IsNil() || b.IsNil() {
			return a.IsNil() == b.IsNil()
		}
		if a.Type().String() == "*regexp.Regexp" {
			return a.MethodByName("String").Call(nil)[0].String() == b.MethodByName("String").Call(nil)[0].String()
		}
		return eqVal(a.Elem(), b.Elem())
	case reflect.Struct:
		for i := 0; i < a.NumField(); i++ {
			if !a.Type().Field(i).IsExported() {
				continue
			}
			if !eqVal(a.Field(i), b.Field(i)) {
				return false
			}
		}
		return true
	}
	if a.Type().Comparable() {
		return a.Interface() == b.Interface()
	}
	return reflect.DeepEqual(a.Interface(), b.Interface())
}

// notWire returns the first Go type in x that is not part of the serialized form (nil-free trees
// of int64 / float64 / string / bool / []any / map[any]any / map[string]any), or "".
func notWire(x any) string {
	switch v := x.(type) {
	case int64, float64, string, bool:
		return ""
	case []any:
		for _, e := range v {
			if t := notWire(e); t != "" {
				return t
			}
		}
		return ""
	case map[any]any:
		for k, e := range v {
			if t := notWire(k); t != "" {
				return t
			}
			if t := notWire(e); t != "" {
				return t
			}
		}
		return ""
	case map[string]any:
		for _, e := range v {
			if t := notWire(e); t != "" {
				return t
			}
		}
		return ""
	}
	return fmt.Sprintf("%T", x)
}

type chainFail struct {
	step  string // validate | serialize | unserialize_direct | unserialize_cbor | reserialize | cbor | typed_*
	div   string // rejects | value | panic | not_wire
	det   map[string]any
	frame string
}

// chainOnce runs the chain on one real schema; accepted=false when the first Unserialize rejects
// (then there is nothing to chain).
func chainOnce(t schema.Type, typed *cz.TypedOps, raw any) (accepted bool, v1, w1 any, fails []chainFail) {
	fail := func(step, div string, det map[string]any, frame string) {
		fails = append(fails, chainFail{step, div, det, frame})
	}
	call := func(step, op string, arg any) (callOut, bool) {
		o := callUntyped(t, op, arg)
		if o.Panic != nil {
			fail(step, "panic", map[string]any{"panic": o.Panic.Msg, "arg": fmt.Sprintf("%#v", arg)}, o.Panic.Frame)
			return o, false
		}
		if o.Err != nil {
			fail(step, "rejects", map[string]any{"error": o.Err.Error(), "arg": fmt.Sprintf("%#v", arg)}, "")
			return o, false
		}
		return o, true
	}
	u1 := callUntyped(t, "unser", raw)
	if u1.Panic != nil {
		fail("unserialize", "panic", map[string]any{"panic": u1.Panic.Msg}, u1.Panic.Frame)
		return false, nil, nil, fails
	}
	// typed and untyped entry points agree on the raw value ITSELF as well - also where both have to reject:
	// ValidateType / SerializeType against Validate / Serialize when the raw value is of the entry points' type
	// (a NaN float64 on a bounded float schema, ...), UnserializeType against a rejecting Unserialize
	if typed != nil {
		if tv := callTyped(typed, "valid", raw); !tv.NA {
			uv := callUntyped(t, "valid", raw)
			switch {
			case tv.Panic != nil && uv.Panic == nil:
				fail("typed_validate_raw", "panic", map[string]any{"panic": tv.Panic.Msg}, tv.Panic.Frame)
			case tv.Panic == nil && uv.Panic == nil && (tv.Err == nil) != (uv.Err == nil):
				fail("typed_validate_raw", "verdict", map[string]any{"untyped": fmt.Sprint(uv.Err), "typed": fmt.Sprint(tv.Err)}, "")
			}
		}
		if ts := callTyped(typed, "ser", raw); !ts.NA {
			us := callUntyped(t, "ser", raw)
			switch {
			case ts.Panic != nil && us.Panic == nil:
				fail("typed_serialize_raw", "panic", map[string]any{"panic": ts.Panic.Msg}, ts.Panic.Frame)
			case ts.Panic == nil && us.Panic == nil && (ts.Err == nil) != (us.Err == nil):
				fail("typed_serialize_raw", "verdict", map[string]any{"untyped": fmt.Sprint(us.Err), "typed": fmt.Sprint(ts.Err)}, "")
			case ts.Panic == nil && us.Panic == nil && ts.Err == nil && !eqGo(us.Val, ts.Val):
				fail("typed_serialize_raw", "value", map[string]any{"untyped": fmt.Sprintf("%#v", us.Val), "typed": fmt.Sprintf("%#v", ts.Val)}, "")
			}
		}
	}
	if u1.Err != nil {
		if typed != nil {
			tu := callTyped(typed, "unser", raw)
			switch {
			case tu.Panic != nil:
				fail("typed_unserialize", "panic", map[string]any{"panic": tu.Panic.Msg, "untyped": u1.Err.Error()}, tu.Panic.Frame)
			case tu.Err == nil:
				fail("typed_unserialize", "accepts", map[string]any{"untyped": u1.Err.Error(), "typed": fmt.Sprintf("%#v", tu.Val)}, "")
			}
		}
		return false, nil, nil, fails
	}
	v1 = u1.Val
	call("validate", "valid", v1)
	s1, ok := call("serialize", "ser", v1)
	if ok {
		w1 = s1.Val
		if bad := notWire(w1); bad != "" {
			fail("serialize", "not_wire", map[string]any{"type": bad, "wire": fmt.Sprintf("%#v", w1)}, "")
		}
		if u2, ok := call("unserialize_direct", "unser", w1); ok {
			if !eqGo(v1, u2.Val) {
				fail("unserialize_direct", "value", map[string]any{"first": fmt.Sprintf("%#v", v1), "again": fmt.Sprintf("%#v", u2.Val), "wire": fmt.Sprintf("%#v", w1)}, "")
			}
		}
		wc, err := cz.ViaCBOR(w1)
		if err != nil {
			fail("cbor", "rejects", map[string]any{"error": err.Error(), "wire": fmt.Sprintf("%#v", w1)}, "")
		} else if u3, ok := call("unserialize_cbor", "unser", wc); ok {
			if !eqGo(v1, u3.Val) {
				fail("unserialize_cbor", "value", map[string]any{"first": fmt.Sprintf("%#v", v1), "again": fmt.Sprintf("%#v", u3.Val), "decoded": fmt.Sprintf("%#v", wc)}, "")
			}
			call("validate_cbor", "valid", u3.Val)
			if s2, ok := call("reserialize", "ser", u3.Val); ok && !eqGo(w1, s2.Val) {
				fail("reserialize", "value", map[string]any{"first": fmt.Sprintf("%#v", w1), "again": fmt.Sprintf("%#v", s2.Val)}, "")
			}
		}
	}
	// typed entry points return the same results as the untyped ones
	if typed != nil {
		tu := callTyped(typed, "unser", raw)
		switch {
		case tu.Panic != nil:
			fail("typed_unserialize", "panic", map[string]any{"panic": tu.Panic.Msg}, tu.Panic.Frame)
		case tu.Err != nil:
			fail("typed_unserialize", "rejects", map[string]any{"error": tu.Err.Error()}, "")
		case !eqGo(v1, tu.Val):
			fail("typed_unserialize", "value", map[string]any{"untyped": fmt.Sprintf("%#v", v1), "typed": fmt.Sprintf("%#v", tu.Val)}, "")
		}
		if tv := callTyped(typed, "valid", v1); !tv.NA {
			if tv.Panic != nil {
				fail("typed_validate", "panic", map[string]any{"panic": tv.Panic.Msg}, tv.Panic.Frame)
			} else if tv.Err != nil {
				fail("typed_validate", "rejects", map[string]any{"error": tv.Err.Error()}, "")
			}
		}
		if ts := callTyped(typed, "ser", v1); !ts.NA {
			switch {
			case ts.Panic != nil:
				fail("typed_serialize", "panic", map[string]any{"panic": ts.Panic.Msg}, ts.Panic.Frame)
			case ts.Err != nil:
				fail("typed_serialize", "rejects", map[string]any{"error": ts.Err.Error()}, "")
			case w1 != nil && !eqGo(w1, ts.Val):
				fail("typed_serialize", "value", map[string]any{"untyped": fmt.Sprintf("%#v", w1), "typed": fmt.Sprintf("%#v", ts.Val)}, "")
			}
		}
	}
	return true, v1, w1, fails
}

// chainFault: the innermost (schema, raw) whose own chain already fails at the same step.
func chainFault(s *cz.Schema, a *cz.Value, e *cz.Embedding, step string) (kind, class string) {
	kind, class = s.Kind, a.Coarse()
	for depth := 0; depth < 6; depth++ {
		type child struct {
			s *cz.Schema
			v *cz.Value
		}
		var kids []child
		switch {
		case s.Kind == "list" && a.K == "list":
			for _, x := range a.List {
				kids = append(kids, child{s.Items, x})
			}
		case s.Kind == "map" && a.K == "map":
			for _, p := range a.Pairs {
				kids = append(kids, child{s.Keys, p[0]}, child{s.Vals, p[1]})
			}
		case s.Kind == "object" && a.K == "map":
			for _, p := range a.Pairs {
				for _, pr := range s.Props {
					if p[0].K == "str" && pr.Name == p[0].S && pr.Type.Kind != "ref" {
						kids = append(kids, child{pr.Type, p[1]})
					}
				}
			}
		default:
			return
		}
		found := false
		for _, ch := range kids {
			b, err := cz.Build(ch.s, e)
			if err != nil {
				continue
			}
			g, err := cz.ToGo(ch.v, e)
			if err != nil {
				continue
			}
			_, _, _, fails := chainOnce(b.Type, nil, g)
			for _, f := range fails {
				if f.step == step {
					kind, class = ch.s.Kind, ch.v.Coarse()
					s, a = ch.s, ch.v
					found = true
					break
				}
			}
			if found {
				break
			}
		}
		if !found {
			return
		}
	}
	return
}

func runChain(c *vecCase) *resT {
	r := &resT{Evals: 1}
	r.Key = c.S.Shape() + "|chain|" + c.Arg.Key() + "|" + c.Exp.OK
	ran := false
	for _, e := range embeddingsFor(c) {
		if !faithful(c, e) {
			r.Skipped++
			continue
		}
		b, err := cz.Build(c.S, e)
		if err != nil {
			if errors.Is(err, cz.ErrNotRepresentable) {
				r.Skipped++
				continue
			}
			panic(fmt.Sprintf("cannot build schema: %v", err))
		}
		raw, err := cz.ToGo(c.Arg, e)
		if err != nil {
			if errors.Is(err, cz.ErrNotRepresentable) {
				r.Skipped++
				continue
			}
			panic(fmt.Sprintf("cannot concretise argument: %v", err))
		}
		ran = true
		accepted, v1, w1, fails := chainOnce(b.Type, b.Typed, raw)
		r.Runs += 8
		sigOf := func(step, div, frame string) map[string]any {
			kind, class := c.S.Kind, c.Arg.Coarse()
			isTyped := strings.HasPrefix(step, "typed")
			if isTyped {
				class = "native" // the typed entry points are compared on the value the untyped ones produced
				if strings.HasSuffix(step, "_raw") {
					class = c.Arg.Coarse() // ... or on the raw value itself
				}
			} else if step != "unserialize" {
				kind, class = chainFault(c.S, c.Arg, e, step)
			}
			sig := map[string]any{"op": "chain", "step": step, "entry": "untyped", "kind_at_fault": kind, "arg_class": class, "divergence": div}
			if isTyped {
				sig["entry"] = "typed"
			}
			if frame != "" {
				sig["frame"] = frame
			}
			return sig
		}
		if !accepted {
			if len(fails) > 0 { // a panic in the first step / the typed entry points disagree with the rejecting untyped ones
				f := fails[0]
				f.det["emb"], f.det["go_arg"], f.det["decodable"] = e.Name, fmt.Sprintf("%#v", raw), c.Arg.Decodable()
				sg := sigOf(f.step, f.div, f.frame)
				if strings.HasPrefix(f.step, "typed") {
					sg["arg_class"] = c.Arg.Coarse()
				}
				r.miss(sg, f.det)
			}
			if c.Exp.OK == "yes" {
				r.miss(map[string]any{"op": "unser", "entry": "untyped", "kind_at_fault": c.S.Kind, "arg_class": c.Arg.Class(), "divergence": "rejects"},
					map[string]any{"emb": e.Name, "go_arg": fmt.Sprintf("%#v", raw)})
			}
			continue
		}
		// later failures of one chain are consequences of the first: report the first untyped and the first
		// typed one (typed results are compared only where the statement fixes the result)
		seenU, seenT := false, false
		for _, f := range fails {
			isTyped := strings.HasPrefix(f.step, "typed")
			if (isTyped && (seenT || (c.Exp.OK != "yes" && f.div == "value"))) || (!isTyped && seenU) {
				continue
			}
			if isTyped {
				seenT = true
			} else {
				seenU = true
			}
			f.det["emb"], f.det["go_arg"], f.det["decodable"] = e.Name, fmt.Sprintf("%#v", raw), c.Arg.Decodable()
			f.det["all_failed_steps"] = func() []string {
				var out []string
				for _, g := range fails {
					out = append(out, g.step+":"+g.div)
				}
				return out
			}()
			r.miss(sigOf(f.step, f.div, f.frame), f.det)
		}
		// the model's native value and wire form
		if c.Exp.OK == "yes" && c.Exp.V != nil {
			if got, err := cz.FromGoS(v1, e, c.S); err != nil {
				if errors.Is(err, cz.ErrInexpressible) {
					r.Inexpressible++
				}
			} else if got.Canon() != c.Exp.V.Canon() {
				r.miss(map[string]any{"op": "unser", "entry": "untyped", "kind_at_fault": c.S.Kind, "arg_class": c.Arg.Class(), "divergence": "value"},
					map[string]any{"emb": e.Name, "go_arg": fmt.Sprintf("%#v", raw), "result": got.Canon(), "expected": c.Exp.V.Canon()})
			}
		}
		if c.Wire.OK == "yes" && c.Wire.V != nil && w1 != nil && len(fails) == 0 {
			if got, err := cz.FromGo(w1, e); err == nil && got.Canon() != c.Wire.V.Canon() {
				r.miss(map[string]any{"op": "chain", "step": "serialize", "entry": "untyped", "kind_at_fault": c.S.Kind, "arg_class": c.Arg.Class(), "divergence": "value", "drift": true},
					map[string]any{"emb": e.Name, "go_arg": fmt.Sprintf("%#v", raw), "result": got.Canon(), "expected": c.Wire.V.Canon()})
			}
		}
	}
	r.NoForm = !ran
	return r
}
