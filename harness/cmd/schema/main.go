// Command schema is the conformance driver of the schema half (C02, C04; stage 2: C01, C03).
//
// Cases (one JSON value per line):
//
//	{"fam":"bind","what":"strings",...}    the token table TLC exported: verified against the Go
//	                                       standard library (bind_error => Infra)
//	{"fam":"bind","what":"transport",...}  abstract CBOR/JSON/YAML transforms vs. the real codecs
//	{"fam":"schema","s":AST,"op":"unser"|"valid"|"ser"|"compat","arg":Value,
//	 "exp":Outcome,"mod":Outcome,"sub":[..]}   one vector of SchemaMC: exp = the declared outcome
//	                                       (SchemaDecl, the property statement), mod = the
//	                                       operational model's (SchemaSem), sub = declared outcome
//	                                       of each direct child (to localise a divergence)
//	{"fam":"deep","shape":..,"depth":N}    deep-nesting sweep (C04)
//	{"fam":"rand","seed":S,"count":K,"depth":D}   seeded random driver; emits trace lines for
//	                                       SchemaTrace.tla
//
// The driver never decides an expected outcome: it builds the schema through the public
// constructors, concretises the argument under every applicable numeric embedding, runs the
// real entry points (untyped and typed) and compares with exp / mod.  Mismatches carry a
// signature (appendix D): op, entry, kind_at_fault, arg_class, divergence, frame.
//
//	schema gen-strings          prints spec/Strings.tla
package main

import (
	"encoding/json"
	"errors"
	"fmt"
	"math/big"
	"os"
	"regexp"
	"runtime/debug"
	"strings"

	"go.flow.arcalot.io/pluginsdk/schema"
	"verif/harness/catalog"
	cz "verif/harness/concretize"
	"verif/harness/sup"
)

type outcome struct {
	OK string    `json:"ok"` // yes | no | maybe
	V  *cz.Value `json:"v,omitempty"`
}

type vecCase struct {
	Fam  string     `json:"fam"`
	What string     `json:"what"`
	S    *cz.Schema `json:"s"`
	Op   string     `json:"op"`
	Arg  *cz.Value  `json:"arg"`
	Exp  outcome    `json:"exp"`
	Mod  outcome    `json:"mod"`
	Sub  []subNode  `json:"sub"`
	Wire outcome    `json:"wire"` // chain vectors: the model's serialized form
	// path vectors (C17)
	Good  *cz.Value       `json:"good"`
	Path  []string        `json:"path"`
	Fault string          `json:"fault"`
	Key   string          `json:"key"`
	Emb   string          `json:"emb,omitempty"` // replay: restrict to one embedding
	Raw   json.RawMessage `json:"-"`
}

// subNode: declared outcome of one element below a container argument (SchemaDecl!Sub).
type subNode struct {
	OK   string    `json:"ok"`
	Kids []subNode `json:"kids"`
}

type mismatch struct {
	Sig    map[string]any `json:"sig"`
	Detail map[string]any `json:"detail"`
}

type resT struct {
	Evals         int              `json:"evals"`
	Runs          int              `json:"runs,omitempty"`     // (embedding, entry point) executions
	Skipped       int              `json:"skipped,omitempty"`  // embeddings under which the vector has no Go form
	NoForm        bool             `json:"noform,omitempty"`   // no embedding at all could realise the vector
	Fallback      int              `json:"fallback,omitempty"` // typed node built with the untyped constructor
	Inexpressible int              `json:"inexpressible,omitempty"`
	Mismatches    []mismatch       `json:"mismatches,omitempty"`
	Trace         []map[string]any `json:"trace,omitempty"`
	Direct        int              `json:"direct,omitempty"` // values checked by the direct invariants only
	BindError     string           `json:"bind_error,omitempty"`
	Key           string           `json:"key,omitempty"`     // (schema shape, op, argument class, declared outcome)
	Trivial       bool             `json:"trivial,omitempty"` // default configuration accepting a native value
}

func (r *resT) miss(sig, detail map[string]any) {
	if len(r.Mismatches) >= 12 {
		return
	}
	r.Mismatches = append(r.Mismatches, mismatch{Sig: sig, Detail: detail})
}

// ---------------------------------------------------------------------------- panics

// guard is sup.Guard with a frame extraction that keeps pointer-receiver methods whole
// ("schema.(*AnySchema).checkAndConvert"; sup.TopFrame stops at the first parenthesis).
var sdkFrameRe = regexp.MustCompile(`(?m)^go\.flow\.arcalot\.io/pluginsdk/(.+)\([^()]*\)\s*$`)
var typeArgsRe = regexp.MustCompile(`\[[^\]]*\]`)

func topSDKFrame(stack string) string {
	if i := strings.Index(stack, "panic("); i >= 0 {
		stack = stack[i:]
	}
	m := sdkFrameRe.FindStringSubmatch(stack)
	if m == nil {
		return ""
	}
	return typeArgsRe.ReplaceAllString(m[1], "")
}

func guard(f func()) (pi *sup.PanicInfo) {
	defer func() {
		if r := recover(); r != nil {
			pi = &sup.PanicInfo{Msg: fmt.Sprint(r), Frame: topSDKFrame(string(debug.Stack()))}
		}
	}()
	f()
	return nil
}

// ---------------------------------------------------------------------------- running one call

type callOut struct {
	Panic *sup.PanicInfo
	Err   error
	Val   any
	NA    bool // typed entry point not applicable to this argument
}

func callUntyped(t schema.Type, op string, arg any) (out callOut) {
	out.Panic = guard(func() {
		switch op {
		case "unser":
			out.Val, out.Err = t.Unserialize(arg)
		case "valid":
			out.Err = t.Validate(arg)
		case "ser":
			out.Val, out.Err = t.Serialize(arg)
		case "compat":
			out.Err = t.ValidateCompatibility(arg)
		}
	})
	return out
}

func callTyped(t *cz.TypedOps, op string, arg any) (out callOut) {
	out.Panic = guard(func() {
		switch op {
		case "unser":
			out.Val, out.Err = t.Unser(arg)
		case "valid":
			var ok bool
			out.Err, ok = t.Valid(arg)
			out.NA = !ok
		case "ser":
			var ok bool
			out.Val, out.Err, ok = t.Ser(arg)
			out.NA = !ok
		default:
			out.NA = true
		}
	})
	return out
}

// judge compares an observation with an expected outcome; returns "" or the divergence.
func judge(o callOut, op string, exp outcome, e *cz.Embedding, sch *cz.Schema) (div string, detail map[string]any, inexpressible bool) {
	accepted := o.Err == nil
	switch exp.OK {
	case "yes":
		if !accepted {
			return "rejects", map[string]any{"error": o.Err.Error()}, false
		}
	case "no":
		if accepted {
			return "accepts", map[string]any{"result": fmt.Sprintf("%#v", o.Val)}, false
		}
		return "", nil, false
	}
	if !accepted || exp.V == nil || (op != "unser" && op != "ser") {
		return "", nil, false
	}
	if (exp.V.K == "int" && exp.V.N == cz.HugeAmount) || (exp.V.K == "float" && exp.V.N == 2*cz.HugeAmount) {
		return "", nil, false // an amount beyond the model line: compared with math/big by bigAmountCheck
	}
	var got *cz.Value
	var err error
	if op == "unser" {
		got, err = cz.FromGoS(o.Val, e, sch)
	} else {
		got, err = cz.FromGo(o.Val, e)
	}
	if err != nil {
		if errors.Is(err, cz.ErrInexpressible) {
			return "value", map[string]any{"result": fmt.Sprintf("%#v", o.Val), "expected": exp.V.Canon(), "note": err.Error()}, true
		}
		return "value", map[string]any{"result": fmt.Sprintf("%#v", o.Val), "note": err.Error()}, false
	}
	if got.Canon() != exp.V.Canon() {
		return "value", map[string]any{"result": got.Canon(), "expected": exp.V.Canon(), "go": fmt.Sprintf("%#v", o.Val)}, false
	}
	if op == "unser" {
		if e1, g1, ok := exactAtAny(sch, exp.V, got); !ok {
			return "value", map[string]any{"result": g1, "expected": e1, "go": fmt.Sprintf("%#v", o.Val),
				"note": "below an any schema the result is the normalised tree: int64 / float64 / []any / map[any]any"}, false
		}
	}
	return "", nil, false
}

// exactAtAny compares, at every position whose schema is `any`, the expected and the returned value including the
// container representations.
func exactAtAny(s *cz.Schema, exp, got *cz.Value) (string, string, bool) {
	if s == nil || exp == nil || got == nil {
		return "", "", true
	}
	switch s.Kind {
	case "any":
		if exp.CanonExact() != got.CanonExact() {
			return exp.CanonExact(), got.CanonExact(), false
		}
	case "list":
		if exp.K == "list" && got.K == "list" && len(exp.List) == len(got.List) {
			for i := range exp.List {
				if e1, g1, ok := exactAtAny(s.Items, exp.List[i], got.List[i]); !ok {
					return e1, g1, false
				}
			}
		}
	case "map":
		if exp.K == "map" && got.K == "map" {
			for _, p := range exp.Pairs {
				for _, q := range got.Pairs {
					if p[0].Canon() == q[0].Canon() {
						if e1, g1, ok := exactAtAny(s.Vals, p[1], q[1]); !ok {
							return e1, g1, false
						}
					}
				}
			}
		}
	case "object":
		if s.Layout == "map" && exp.K == "map" && got.K == "map" {
			for _, pr := range s.Props {
				var a, b *cz.Value
				for _, p := range exp.Pairs {
					if p[0].S == pr.Name {
						a = p[1]
					}
				}
				for _, p := range got.Pairs {
					if p[0].S == pr.Name {
						b = p[1]
					}
				}
				if e1, g1, ok := exactAtAny(pr.Type, a, b); !ok {
					return e1, g1, false
				}
			}
		}
	}
	return "", "", true
}

// points collects the model integers a vector mentions.
func schemaPoints(s *cz.Schema, f func(int64)) {
	switch s.Kind {
	case "int":
		if s.Min.Some {
			f(s.Min.V)
		}
		if s.Max.Some {
			f(s.Max.V)
		}
	case "float":
		for _, o := range []cz.OptInt{s.Min, s.Max} {
			if o.Some && o.V%2 == 0 {
				f(o.V / 2)
			}
		}
	case "enum_int":
		for _, n := range s.Ints {
			f(n)
		}
	case "list":
		schemaPoints(s.Items, f)
	case "map":
		schemaPoints(s.Keys, f)
		schemaPoints(s.Vals, f)
	case "object":
		for _, p := range s.Props {
			schemaPoints(p.Type, f)
			if p.Default.Some {
				valuePoints(p.Default.V, f)
			}
		}
	case "oneof":
		for _, m := range s.Members {
			if s.Disc == "int" {
				f(m.KeyInt)
			}
			schemaPoints(m.S, f)
		}
	case "scope":
		for _, o := range s.Objects {
			schemaPoints(o, f)
		}
	}
}

func valuePoints(v *cz.Value, f func(int64)) {
	switch v.K {
	case "int":
		f(v.N)
	case "float":
		if v.N%2 == 0 {
			f(v.N / 2)
		}
	case "str", "re":
		if t, ok := cz.TokenByID(v.S); ok && t.SymKind != "" {
			f(t.SymN)
		}
	case "list":
		for _, x := range v.List {
			valuePoints(x, f)
		}
	case "map":
		for _, p := range v.Pairs {
			valuePoints(p[0], f)
			valuePoints(p[1], f)
		}
	case "struct":
		for _, sf := range v.Fields {
			if sf.Val.Some {
				valuePoints(sf.Val.V, f)
			}
		}
	}
}

func hasFloatKind(s *cz.Schema) bool {
	switch s.Kind {
	case "float":
		return true
	case "list":
		return hasFloatKind(s.Items)
	case "map":
		return hasFloatKind(s.Keys) || hasFloatKind(s.Vals)
	case "object":
		for _, p := range s.Props {
			if hasFloatKind(p.Type) {
				return true
			}
		}
	case "oneof":
		for _, m := range s.Members {
			if hasFloatKind(m.S) {
				return true
			}
		}
	case "scope":
		for _, o := range s.Objects {
			if hasFloatKind(o) {
				return true
			}
		}
	}
	return false
}

// faithful: the embedding preserves, for every edge point the vector mentions, "fits in
// int64" - and, when a float schema is involved, the point is exact in float64 (integers
// are converted to float64 there; rounding is not part of the model).
func faithful(c *vecCase, e *cz.Embedding) bool {
	ok := true
	needExact := hasFloatKind(c.S)
	chk := func(n int64) {
		if !cz.IsEdge(n) {
			return
		}
		if !e.Faithful(n) {
			ok = false
			return
		}
		if needExact {
			v, _ := e.Int(n)
			if _, acc := new(big.Float).SetInt(v).Float64(); acc != big.Exact {
				ok = false
			}
		}
	}
	schemaPoints(c.S, chk)
	valuePoints(c.Arg, chk)
	if c.Exp.V != nil {
		valuePoints(c.Exp.V, chk)
	}
	return ok
}

func embeddingsFor(c *vecCase) []*cz.Embedding {
	if c.Emb != "" {
		if e := cz.EmbeddingByName(c.Emb); e != nil {
			return []*cz.Embedding{e}
		}
	}
	if !c.S.HasEdge() && !c.Arg.HasEdge() && (c.Exp.V == nil || !c.Exp.V.HasEdge()) {
		return cz.Embeddings[:1]
	}
	return cz.Embeddings
}

// locate finds the innermost (schema, value) at which the divergence already shows: by running
// the real code on the elements (panics), or by comparing what the real code does with an
// element with the declared outcome of that element (accept / reject).
func locate(c *vecCase, b *cz.Built, e *cz.Embedding, div string) (kind, class string) {
	cls := func(v *cz.Value) string {
		if div == "panic" {
			return v.Coarse()
		}
		return v.Class()
	}
	kind, class = c.S.Kind, cls(c.Arg)
	s, a, sub := c.S, c.Arg, c.Sub
	for depth := 0; depth < 8; depth++ {
		type child struct {
			s *cz.Schema
			v *cz.Value
		}
		var kids []child
		switch {
		case s.Kind == "list" && a.K == "list":
			for _, x := range a.List {
				kids = append(kids, child{s.Items, x})
			}
		case s.Kind == "any" && a.K == "list":
			for _, x := range a.List {
				kids = append(kids, child{s, x})
			}
		case s.Kind == "any" && a.K == "map":
			for _, p := range a.Pairs {
				kids = append(kids, child{s, p[0]}, child{s, p[1]})
			}
		case s.Kind == "map" && a.K == "map":
			for _, p := range a.Pairs {
				kids = append(kids, child{s.Keys, p[0]}, child{s.Vals, p[1]})
			}
		case s.Kind == "object" && a.K == "map":
			// key node (no schema of its own), value node
			for _, p := range a.Pairs {
				var ps *cz.Schema
				if p[0].K == "str" && p[0].Rep == "string" {
					for _, pr := range s.Props {
						if pr.Name == p[0].S && !pr.Disabled {
							ps = pr.Type
						}
					}
				}
				kids = append(kids, child{nil, p[0]}, child{ps, p[1]})
			}
		default:
			return kind, class
		}
		found := false
		for i, ch := range kids {
			exp := ""
			var below []subNode
			if i < len(sub) {
				exp, below = sub[i].OK, sub[i].Kids
			}
			if ch.s == nil || ch.s.Kind == "ref" || (div != "panic" && exp == "") {
				continue
			}
			cb, err := cz.Build(ch.s, e)
			if err != nil {
				continue
			}
			g, err := cz.ToGo(ch.v, e)
			if err != nil {
				continue
			}
			o := callUntyped(cb.Type, c.Op, g)
			hit := false
			switch div {
			case "panic":
				// map iteration order can decide whether the panicking element is reached before an
				// ordinary error ends the call: try a few times
				for try := 0; o.Panic == nil && try < 200; try++ {
					o = callUntyped(cb.Type, c.Op, g)
				}
				hit = o.Panic != nil
			case "accepts":
				hit = o.Panic == nil && o.Err == nil && exp == "no"
			case "rejects":
				hit = o.Panic == nil && o.Err != nil && exp == "yes"
			}
			if hit {
				kind, class = ch.s.Kind, cls(ch.v)
				s, a, sub = ch.s, ch.v, below
				found = true
				break
			}
		}
		if !found {
			return kind, class
		}
	}
	return kind, class
}

// valueFault names the schema kind at the position where an accepted result first differs from
// the declared one (both abstract).
func valueFault(s *cz.Schema, exp, got *cz.Value, objs map[string]*cz.Schema) string {
	if s == nil || exp == nil || got == nil {
		return ""
	}
	switch s.Kind {
	case "scope":
		t := map[string]*cz.Schema{}
		for _, o := range s.Objects {
			t[o.ID] = o
		}
		if k := valueFault(t[s.Root], exp, got, t); k != "" {
			return k
		}
		return "scope"
	case "ref":
		if o, ok := objs[s.ID]; ok {
			return valueFault(o, exp, got, objs)
		}
		return "ref"
	case "list":
		if exp.K == "list" && got.K == "list" && len(exp.List) == len(got.List) {
			for i := range exp.List {
				if exp.List[i].Canon() != got.List[i].Canon() {
					if k := valueFault(s.Items, exp.List[i], got.List[i], objs); k != "" {
						return k
					}
				}
			}
		}
	case "map":
		if exp.K == "map" && got.K == "map" {
			for _, p := range exp.Pairs {
				for _, q := range got.Pairs {
					if p[0].Canon() == q[0].Canon() && p[1].Canon() != q[1].Canon() {
						if k := valueFault(s.Vals, p[1], q[1], objs); k != "" {
							return k
						}
					}
				}
			}
		}
	case "object":
		find := func(v *cz.Value, name string) *cz.Value {
			switch v.K {
			case "map":
				for _, p := range v.Pairs {
					if p[0].K == "str" && p[0].S == name {
						return p[1]
					}
				}
			case "struct":
				for _, f := range v.Fields {
					if f.Name == name && f.Val.Some {
						return f.Val.V
					}
				}
			}
			return nil
		}
		for _, p := range s.Props {
			a, b := find(exp, p.Name), find(got, p.Name)
			if a != nil && b != nil && a.Canon() != b.Canon() {
				// a differing scalar property is this object's business (defaults, presence)
				if k := valueFault(p.Type, a, b, objs); k != "" && !isScalarKind(k) {
					return k
				}
			}
		}
	case "oneof":
		if exp.K == "map" && got.K == "map" {
			strip := func(v *cz.Value) (*cz.Value, *cz.Value) {
				out := &cz.Value{K: "map", Rep: v.Rep, Pairs: [][2]*cz.Value{}}
				var d *cz.Value
				for _, p := range v.Pairs {
					if p[0].K == "str" && p[0].S == s.Field {
						d = p[1]
					} else {
						out.Pairs = append(out.Pairs, p)
					}
				}
				return out, d
			}
			eb, ed := strip(exp)
			gb, _ := strip(got)
			if eb.Canon() == gb.Canon() {
				return "oneof"
			}
			for _, m := range s.Members {
				if ed != nil && ((s.Disc == "int" && ed.K == "int" && ed.N == m.KeyInt) || (s.Disc != "int" && ed.K == "str" && ed.S == m.KeyStr)) {
					if k := valueFault(m.S, exp, got, objs); k != "" {
						return k
					}
				}
			}
		}
	}
	return s.Kind
}

func isScalarKind(k string) bool {
	switch k {
	case "int", "float", "string", "bool", "pattern", "enum_int", "enum_string", "any":
		return true
	}
	return false
}

// bigAmountCheck: a unit string of group "big" accepted by an int / float schema with units must give exactly
// the amount math/big computes for it.
func bigAmountCheck(c *vecCase, o callOut) (string, bool) {
	if c.Op != "unser" || o.Err != nil || c.Arg.K != "str" || !c.S.Units.Some {
		return "", true
	}
	t, ok := cz.TokenByID(c.Arg.S)
	if !ok || !strings.HasPrefix(t.ID, "#big:") {
		return "", true
	}
	set := cz.UnitSetByID(c.S.Units.V)
	if set == nil {
		return "", true
	}
	amount, lexed := cz.BigAmount(t.Text, set)
	if !lexed {
		return fmt.Sprintf("accepted %q, which is no unit string of %s", t.Text, set.ID), false
	}
	switch v := o.Val.(type) {
	case int64:
		if big.NewInt(v).Cmp(amount) != 0 {
			return fmt.Sprintf("%q denotes %s, Unserialize returned %d", t.Text, amount, v), false
		}
	case float64:
		want, _ := new(big.Float).SetInt(amount).Float64()
		if v != want {
			return fmt.Sprintf("%q denotes %s, Unserialize returned %v", t.Text, amount, v), false
		}
	}
	return "", true
}

func runVector(c *vecCase) *resT {
	r := &resT{Evals: 1}
	r.Key = c.S.Shape() + "|" + c.Op + "|" + c.Arg.Key() + "|" + c.Exp.OK
	r.Trivial = c.S.Trivial() && c.Exp.OK == "yes"
	ran := false
	for _, e := range embeddingsFor(c) {
		if !faithful(c, e) {
			r.Skipped++
			continue
		}
		b, err := cz.Build(c.S, e)
		if err != nil {
			if errors.Is(err, cz.ErrNotRepresentable) {
				r.Skipped++
				continue
			}
			panic(fmt.Sprintf("cannot build schema: %v", err))
		}
		arg, err := cz.ToGo(c.Arg, e)
		if err != nil {
			if errors.Is(err, cz.ErrNotRepresentable) {
				r.Skipped++
				continue
			}
			panic(fmt.Sprintf("cannot concretise argument: %v", err))
		}
		if b.TypedFallback {
			r.Fallback++
		}
		if !ran {
			rebuiltCheck(c, e, arg, r)
			unitVariants(c, e, arg, r)
		}
		ran = true
		// a native struct value with empty list / map fields has a second concretisation: those fields left nil
		args := []any{arg}
		if c.Op == "valid" || c.Op == "ser" {
			if nv, ok := cz.NilContainerVariant(c.Arg); ok {
				if arg2, err := cz.ToGo(nv, e); err == nil {
					args = append(args, arg2)
				}
			}
		}
		for variant, arg := range args {
			type entry struct {
				name string
				out  callOut
			}
			entries := []entry{{"untyped", callUntyped(b.Type, c.Op, arg)}}
			if b.Typed != nil && c.Op != "compat" {
				if o := callTyped(b.Typed, c.Op, arg); !o.NA {
					entries = append(entries, entry{"typed", o})
				}
			}
			untypedDiv := ""
			for _, en := range entries {
				r.Runs++
				o := en.out
				base := func(div string) (map[string]any, map[string]any) {
					kind, class := locate(c, b, e, div)
					sig := map[string]any{"op": c.Op, "entry": en.name, "kind_at_fault": kind, "arg_class": class, "divergence": div}
					det := map[string]any{"emb": e.Name, "go_arg": fmt.Sprintf("%#v", arg), "decodable": c.Arg.Decodable()}
					if variant == 1 {
						det["variant"] = "empty list / map fields of the struct left nil (never assigned)"
					}
					return sig, det
				}
				if o.Panic != nil {
					if en.name == "untyped" {
						untypedDiv = "panic"
					} else if untypedDiv == "panic" {
						continue // the typed entry point delegates: same defect
					}
					sig, det := base("panic")
					sig["frame"] = o.Panic.Frame
					det["panic"] = o.Panic.Msg
					r.miss(sig, det)
					continue
				}
				div, d, inexp := judge(o, c.Op, c.Exp, e, c.S)
				if inexp {
					r.Inexpressible++
				}
				if div == "" {
					if msg, ok := bigAmountCheck(c, o); !ok {
						div, d = "value", map[string]any{"math_big": msg}
					}
				}
				if en.name == "untyped" {
					untypedDiv = div
				} else if div != "" && div == untypedDiv {
					continue // the typed entry point delegates: same defect
				}
				if div != "" {
					sig, det := base(div)
					for k, v := range d {
						det[k] = v
					}
					if div == "value" && c.Op == "unser" && c.Exp.V != nil && o.Err == nil {
						if got, err := cz.FromGoS(o.Val, e, c.S); err == nil {
							if k := valueFault(c.S, c.Exp.V, got, nil); k != "" {
								sig["kind_at_fault"] = k
							}
						}
					}
					r.miss(sig, det)
					continue
				}
				// agreement with the statement; model detail beyond it is drift
				if mdiv, md, _ := judge(o, c.Op, c.Mod, e, c.S); mdiv != "" {
					sig, det := base(mdiv)
					sig["drift"] = true
					for k, v := range md {
						det[k] = v
					}
					r.miss(sig, det)
				}
			}
		}
	}
	r.NoForm = !ran
	return r
}

// ---------------------------------------------------------------------------- bind checks

type bindCase struct {
	What    string              `json:"what"`
	Toks    []json.RawMessage   `json:"toks"`
	Dec     [][]json.RawMessage `json:"dec"`
	FTok    [][]json.RawMessage `json:"ftok"`
	IMax    int64               `json:"imax"`
	IMin    int64               `json:"imin"`
	SymLen  int64               `json:"symlen"`
	Layouts map[string]struct {
		Recv   string          `json:"recv"`
		Fields []catalog.Field `json:"fields"`
	} `json:"layouts"`
	Cases []cz.TransportCase `json:"cases"`
}

func checkStrings(b *bindCase) string {
	if b.IMax != cz.IMax || b.IMin != cz.IMin || b.SymLen != cz.SymLen {
		return fmt.Sprintf("Values.tla IMin/IMax/SymLen = %d/%d/%d, the harness assumes %d/%d/%d", b.IMin, b.IMax, b.SymLen, cz.IMin, cz.IMax, cz.SymLen)
	}
	if err := cz.CheckSecUnits(); err != nil {
		return err.Error()
	}
	if err := cz.CheckUnitSets(); err != nil {
		return err.Error()
	}
	// struct layouts of SchemaAST.tla against the real struct types of harness/catalog
	if len(b.Layouts) != len(catalog.Layouts) {
		return fmt.Sprintf("SchemaAST.tla has %d layouts, harness/catalog %d", len(b.Layouts), len(catalog.Layouts))
	}
	for _, l := range catalog.Layouts {
		tl, ok := b.Layouts[l.ID]
		if !ok {
			return "SchemaAST.tla lacks the layout " + l.ID
		}
		if (tl.Recv == "pointer") != l.Pointer {
			return "layout " + l.ID + ": receiver kind differs"
		}
		wb, _ := json.Marshal(l.Fields)
		gb, _ := json.Marshal(tl.Fields)
		if string(wb) != string(gb) {
			return fmt.Sprintf("layout %s: SchemaAST.tla says %s, the struct type %s", l.ID, gb, wb)
		}
	}
	if err := cz.CheckSymbolic(); err != nil {
		return err.Error()
	}
	seen := map[string]bool{}
	for _, raw := range b.Toks {
		var row struct {
			ID string `json:"id"`
			cz.TokAttr
		}
		if err := json.Unmarshal(raw, &row); err != nil {
			return "token row: " + err.Error()
		}
		t, ok := cz.TokenByID(row.ID)
		if !ok {
			return fmt.Sprintf("Strings.tla has the token %q, the harness does not", row.ID)
		}
		seen[row.ID] = true
		want, err := cz.Attr(t)
		if err != nil {
			return err.Error()
		}
		wb, _ := json.Marshal(want)
		var got cz.TokAttr = row.TokAttr
		if got.UToks == nil {
			got.UToks = []cz.UTok{}
		}
		gb, _ := json.Marshal(got)
		if string(wb) != string(gb) {
			return fmt.Sprintf("token %q: Strings.tla says %s, the standard library %s (regenerate spec/Strings.tla)", row.ID, gb, wb)
		}
	}
	for _, t := range cz.Tokens() {
		if !seen[t.ID] {
			return fmt.Sprintf("the harness has the token %q, Strings.tla does not (regenerate spec/Strings.tla)", t.ID)
		}
	}
	checkRender := func(rows [][]json.RawMessage, what string, want func(int64) string) string {
		for _, row := range rows {
			var n int64
			var id string
			if len(row) != 2 || json.Unmarshal(row[0], &n) != nil || json.Unmarshal(row[1], &id) != nil {
				return what + ": malformed row"
			}
			if w := want(n); w != id {
				return fmt.Sprintf("%s[%d] = %q in Strings.tla, the standard library renders token %q", what, n, id, w)
			}
		}
		return ""
	}
	if msg := checkRender(b.Dec, "DecTok", func(n int64) string {
		if cz.IsEdge(n) {
			return fmt.Sprintf("#d:%d", n)
		}
		t, ok := cz.TokenByText(fmt.Sprintf("%d", n))
		if !ok {
			return "?"
		}
		return t.ID
	}); msg != "" {
		return msg
	}
	return checkRender(b.FTok, "FTok", func(h int64) string {
		if h%2 == 0 && cz.IsEdge(h/2) {
			return fmt.Sprintf("#f:%d", h)
		}
		t, ok := cz.TokenByText(fmt.Sprintf("%f", float64(h)/2))
		if !ok {
			return "?"
		}
		return t.ID
	})
}

// ---------------------------------------------------------------------------- handler

func handle(raw json.RawMessage) any {
	var head struct {
		Fam string `json:"fam"`
	}
	if err := json.Unmarshal(raw, &head); err != nil {
		return map[string]any{"harness_error": "bad case: " + err.Error()}
	}
	switch head.Fam {
	case "bind":
		var b bindCase
		if err := json.Unmarshal(raw, &b); err != nil {
			return map[string]any{"harness_error": "bad bind case: " + err.Error()}
		}
		r := &resT{Evals: 1}
		switch b.What {
		case "strings":
			r.BindError = checkStrings(&b)
		case "transport":
			if err := cz.CheckTransport(b.Cases); err != nil {
				r.BindError = err.Error()
			}
			r.Evals = len(b.Cases)
		default:
			r.BindError = "unknown bind table " + b.What
		}
		return r
	case "schema":
		var c vecCase
		if err := json.Unmarshal(raw, &c); err != nil {
			return map[string]any{"harness_error": "bad vector: " + err.Error()}
		}
		if c.S == nil || c.Arg == nil {
			return map[string]any{"harness_error": "vector without schema or argument"}
		}
		if c.Op == "chain" {
			return runChain(&c)
		}
		if c.Op == "path_unser" || c.Op == "path_valid" {
			if c.Good == nil {
				return map[string]any{"harness_error": "path vector without the valid input"}
			}
			return runPath(&c)
		}
		return runVector(&c)
	case "deep":
		return runDeep(raw)
	case "rand":
		return runRand(raw)
	case "direct":
		return runDirect(raw)
	}
	return map[string]any{"harness_error": "unknown case family " + head.Fam}
}

func main() {
	if len(os.Args) > 1 && os.Args[1] == "gen-strings" {
		s, err := cz.GenStringsTLA()
		if err != nil {
			fmt.Fprintln(os.Stderr, err)
			os.Exit(2)
		}
		fmt.Print(s)
		return
	}
	// A runaway recursion is fatal once the stack limit is reached; the default limit of 1 GB takes
	// seconds to fill.  128 MB is far above what any finite case needs (the 12 000-deep nesting sweep
	// uses a few MB of stack) and makes "exhausts the stack" show within a fraction of a second.
	debug.SetMaxStack(128 << 20)
	sup.Main(handle)
}
