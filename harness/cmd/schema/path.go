package main

import (
	"errors"
	"fmt"
	"regexp"
	"strings"

	"go.flow.arcalot.io/pluginsdk/schema"
	cz "verif/harness/concretize"
)

// path.go: C17.  One vector = (schema, valid input, the same input with a single fault, the path
// ErrPath.tla expects, fault kind).  The real Unserialize / Validate must accept the valid input,
// reject the faulty one, the error must be (wrap) a *schema.ConstraintError, and its Path - after
// removing the decoration the containers put around a segment ("[1]", "{k}", "[k]") and the one-of
// annotation segments ("{oneof[a]}") - must be the expected sequence of property names, list
// indices and map keys.  For an undeclared key: the path of the object, optionally followed by
// the key, and the message names the key.

var oneofSeg = regexp.MustCompile(`^\{oneof\[.*\]\}$`)

func normalisePath(p []string) []string {
	out := []string{}
	for _, seg := range p {
		if oneofSeg.MatchString(seg) {
			continue
		}
		if len(seg) >= 2 && ((seg[0] == '[' && seg[len(seg)-1] == ']') || (seg[0] == '{' && seg[len(seg)-1] == '}')) {
			seg = seg[1 : len(seg)-1]
		}
		out = append(out, seg)
	}
	return out
}

func samePath(a, b []string) bool {
	if len(a) != len(b) {
		return false
	}
	for i := range a {
		if a[i] != b[i] {
			return false
		}
	}
	return true
}

// owners walks the schema along the expected path: owners[i] is the container that has to
// contribute segment i ("list", "map", "object", "struct"; a member object reached through a
// one-of is "oneof>object"), leaf the schema kind at the end.
func owners(s *cz.Schema, path []string, fault string) (own []string, leaf string) {
	presence := fault == "missing_required" || fault == "conflict" || fault == "required_if" || fault == "required_if_not"
	prefix := ""
	for len(path) > 0 {
		switch s.Kind {
		case "list":
			own, s, path, prefix = append(own, prefix+"list"), s.Items, path[1:], ""
		case "map":
			own, s, path, prefix = append(own, prefix+"map"), s.Vals, path[1:], ""
		case "object":
			var next *cz.Schema
			for _, p := range s.Props {
				if p.Name == path[0] {
					next = p.Type
				}
			}
			k := "object"
			if s.Layout != "map" {
				k = "struct"
			}
			own = append(own, prefix+k)
			if next == nil || (presence && len(path) == 1) {
				return own, s.Kind
			}
			s, path, prefix = next, path[1:], ""
		case "oneof":
			var next *cz.Schema
			for _, m := range s.Members {
				for _, p := range m.S.Props {
					if p.Name == path[0] {
						next = m.S
					}
				}
			}
			if next == nil {
				return own, s.Kind
			}
			s, prefix = next, "oneof>"
		default:
			return own, s.Kind
		}
	}
	for s.Kind == "oneof" && false {
	}
	return own, s.Kind
}

func runPath(c *vecCase) *resT {
	r := &resT{Evals: 1}
	op := "unser"
	if c.Op == "path_valid" {
		op = "valid"
	}
	r.Key = c.S.Shape() + "|" + c.Op + "|" + c.Fault + "|" + strings.Join(c.Path, "/")
	ran := false
	for _, e := range embeddingsFor(c) {
		if !faithful(c, e) {
			r.Skipped++
			continue
		}
		b, err := cz.Build(c.S, e)
		if err != nil {
			if errors.Is(err, cz.ErrNotRepresentable) {
				r.Skipped++
				continue
			}
			panic(fmt.Sprintf("cannot build schema: %v", err))
		}
		bad, err1 := cz.ToGo(c.Arg, e)
		good, err2 := cz.ToGo(c.Good, e)
		if err1 != nil || err2 != nil {
			r.Skipped++
			continue
		}
		ran = true
		// expected segments: tokens are rendered, indices / names stay
		want := []string{}
		for _, seg := range c.Path {
			if t, ok := cz.TokenByID(seg); ok && t.SymKind == "" {
				want = append(want, t.Text)
			} else {
				want = append(want, seg)
			}
		}
		own, leaf := owners(c.S, c.Path, c.Fault)
		sig := func(div string) map[string]any {
			return map[string]any{"op": c.Op, "entry": "untyped", "kind_at_fault": leaf, "arg_class": c.Fault, "divergence": div}
		}
		det := func() map[string]any {
			return map[string]any{"emb": e.Name, "go_arg": fmt.Sprintf("%#v", bad), "expected_path": want, "fault": c.Fault}
		}
		og := callUntyped(b.Type, op, good)
		ob := callUntyped(b.Type, op, bad)
		r.Runs += 2
		if og.Panic != nil || ob.Panic != nil {
			p := og.Panic
			if p == nil {
				p = ob.Panic
			}
			d := det()
			d["panic"] = p.Msg
			s := sig("panic")
			s["frame"] = p.Frame
			r.miss(s, d)
			continue
		}
		if og.Err != nil {
			d := det()
			d["error"] = og.Err.Error()
			r.miss(sig("good_rejected"), d)
			continue
		}
		if ob.Err == nil {
			r.miss(sig("accepts"), det())
			continue
		}
		var ce *schema.ConstraintError
		if !errors.As(ob.Err, &ce) {
			d := det()
			d["error"] = ob.Err.Error()
			d["error_type"] = fmt.Sprintf("%T", ob.Err)
			r.miss(sig("not_constraint_error"), d)
			continue
		}
		got := normalisePath(ce.Path)
		ok := samePath(got, want)
		if c.Fault == "extra_key" {
			keyText := c.Key
			if t, tok := cz.TokenByID(c.Key); tok && t.SymKind == "" {
				keyText = t.Text
			}
			ok = (ok || samePath(got, append(append([]string{}, want...), keyText))) && strings.Contains(ce.Error(), keyText)
		}
		// the same call once more on the same schema instance: an error object (or its path) shared between
		// calls shows as a path that differs the second time
		if ok {
			ob2 := callUntyped(b.Type, op, bad)
			r.Runs++
			var ce2 *schema.ConstraintError
			if ob2.Panic == nil && ob2.Err != nil && errors.As(ob2.Err, &ce2) {
				got2 := normalisePath(ce2.Path)
				ok2 := samePath(got2, want)
				if c.Fault == "extra_key" {
					ok2 = ok2 || (len(got2) == len(want)+1 && samePath(got2[:len(want)], want))
				}
				if !ok2 {
					d := det()
					d["path"], d["first_path"], d["error"] = got2, got, ob2.Err.Error()
					sg := sig("path")
					sg["lost_at"], sg["kind_at_fault"], sg["arg_class"] = "second_call", leaf, c.Fault
					r.miss(sg, d)
					continue
				}
			} else if ob2.Panic != nil || ob2.Err == nil {
				d := det()
				sg := sig("path")
				sg["lost_at"], sg["arg_class"] = "second_call", c.Fault
				d["note"] = "the second identical call did not reject with a constraint error"
				r.miss(sg, d)
				continue
			}
		}
		if !ok {
			d := det()
			d["path"], d["raw_path"], d["error"] = got, ce.Path, ob.Err.Error()
			sg := sig("path")
			// the container whose segment is the first one missing / wrong
			i := 0
			for i < len(got) && i < len(want) && got[i] == want[i] {
				i++
			}
			switch {
			case i < len(own):
				// a container drops / garbles its segment whatever lies below: one signature per container
				sg["lost_at"], sg["kind_at_fault"], sg["arg_class"] = own[i], own[i], "any_fault"
			case i < len(want):
				sg["lost_at"] = "leaf"
			default:
				sg["lost_at"] = "extra_segment"
			}
			r.miss(sg, d)
		}
	}
	r.NoForm = !ran
	return r
}
