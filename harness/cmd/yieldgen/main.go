// Command yieldgen writes a `go build -overlay` file that replaces atp/client.go and atp/server.go of the
// repository under test by copies in which a yield point `vh("y:<file>:<line>.pre")` precedes every statement
// of every function body. The points are generated from the CURRENT sources, so they follow edits: a new
// statement or a moved unlock is a preemption point for the delay exploration of C06 without anybody
// having to add a hook.
//
//	yieldgen -repo /repo -out <dir>      writes <dir>/overlay.json, <dir>/client.go, <dir>/server.go
package main

import (
	"encoding/json"
	"flag"
	"fmt"
	"go/ast"
	"go/format"
	"go/parser"
	"go/token"
	"os"
	"path/filepath"
	"sort"
)

// collect the byte offsets at which a yield point is inserted: the start of every statement that is an
// element of a block, case or comm clause (existing vh calls and bare declarations excepted)
type point struct {
	off  int
	line int
	edge bool // at the edge of a critical section: the statement takes a lock, or follows an unlock / wake-up / send
}

// selName returns the selector name of a call statement (x.Lock() -> "Lock", close(ch) -> "close").
func selName(s ast.Stmt) string {
	var c *ast.CallExpr
	switch x := s.(type) {
	case *ast.ExprStmt:
		c, _ = x.X.(*ast.CallExpr)
	case *ast.DeferStmt:
		return ""
	}
	if c == nil {
		return ""
	}
	switch f := c.Fun.(type) {
	case *ast.SelectorExpr:
		return f.Sel.Name
	case *ast.Ident:
		return f.Name
	}
	return ""
}

// releases: after this statement another goroutine may run on what it protected or announced
func releases(s ast.Stmt) bool {
	if _, ok := s.(*ast.SendStmt); ok {
		return true
	}
	switch selName(s) {
	case "Unlock", "RUnlock", "Done", "Broadcast", "Signal", "close":
		return true
	}
	return false
}

func isVH(s ast.Stmt) bool {
	switch x := s.(type) {
	case *ast.ExprStmt:
		if c, ok := x.X.(*ast.CallExpr); ok {
			if id, ok := c.Fun.(*ast.Ident); ok && id.Name == "vh" {
				return true
			}
		}
	case *ast.DeferStmt:
		if id, ok := x.Call.Fun.(*ast.Ident); ok && id.Name == "vh" {
			return true
		}
	}
	return false
}

func collect(fset *token.FileSet, f *ast.File) []point {
	var pts []point
	add := func(list []ast.Stmt) {
		var prev ast.Stmt
		for _, s := range list {
			if isVH(s) {
				continue
			}
			switch s.(type) {
			case *ast.DeclStmt, *ast.EmptyStmt, *ast.CaseClause, *ast.CommClause:
				continue
			}
			p := fset.Position(s.Pos())
			n := selName(s)
			edge := n == "Lock" || n == "RLock" || n == "Wait" || (prev != nil && releases(prev))
			pts = append(pts, point{off: p.Offset, line: p.Line, edge: edge})
			prev = s
		}
	}
	ast.Inspect(f, func(n ast.Node) bool {
		switch x := n.(type) {
		case *ast.BlockStmt:
			add(x.List)
		case *ast.CaseClause:
			add(x.Body)
		case *ast.CommClause:
			add(x.Body)
		}
		return true
	})
	return pts
}

func main() {
	repo := flag.String("repo", "/repo", "repository under test")
	out := flag.String("out", "", "output directory")
	flag.Parse()
	if *out == "" {
		fmt.Fprintln(os.Stderr, "usage: yieldgen -repo <dir> -out <dir>")
		os.Exit(2)
	}
	overlay := map[string]map[string]string{"Replace": {}}
	total := 0
	for _, name := range []string{"client.go", "server.go"} {
		src := filepath.Join(*repo, "atp", name)
		data, err := os.ReadFile(src)
		if err != nil {
			fmt.Fprintln(os.Stderr, err)
			os.Exit(2)
		}
		fset := token.NewFileSet()
		f, err := parser.ParseFile(fset, src, data, 0)
		if err != nil {
			fmt.Fprintln(os.Stderr, err)
			os.Exit(2)
		}
		pts := collect(fset, f)
		sort.Slice(pts, func(a, b int) bool { return pts[a].off > pts[b].off })
		for _, p := range pts { // from the end, so that earlier offsets stay valid
			tag := "y"
			if p.edge {
				tag = "y:e" // the delay exploration holds these first: windows between critical sections
			}
			ins := []byte(fmt.Sprintf("vh(%q); ", fmt.Sprintf("%s:%s:%d.pre", tag, name, p.line)))
			data = append(data[:p.off], append(ins, data[p.off:]...)...)
		}
		total += len(pts)
		out2, err := format.Source(data)
		if err != nil {
			fmt.Fprintln(os.Stderr, "instrumented source does not parse:", err)
			os.Exit(2)
		}
		dst := filepath.Join(*out, name)
		if err := os.WriteFile(dst, out2, 0o644); err != nil {
			fmt.Fprintln(os.Stderr, err)
			os.Exit(2)
		}
		overlay["Replace"][src] = dst
	}
	b, _ := json.MarshalIndent(overlay, "", " ")
	if err := os.WriteFile(filepath.Join(*out, "overlay.json"), b, 0o644); err != nil {
		fmt.Fprintln(os.Stderr, err)
		os.Exit(2)
	}
	fmt.Printf("%d yield points\n", total)
}
