package main

// Seeded random generator of (consumer, producer) pairs, deeper (depth <= 5) and more varied
// than the enumerated universe of CompatMC: random bounds, nested containers, objects with up
// to four properties, scopes with up to three objects and arbitrary (also cyclic) references,
// one-ofs, nested scopes, ints and floats with units, typed lists and maps, histories, properties with defaults (scalar kinds) and disabled properties; the producer is the consumer itself, the consumer with ONE feature
// changed at a random position, or an unrelated schema.  Only well-formed schemas are emitted
// (the same WF as spec/Compat.tla; CompatTrace.tla re-checks it).

import (
	"bufio"
	"encoding/json"
	"flag"
	"fmt"
	"math/rand"
	"os"
)

type gen struct {
	r *rand.Rand
}

var propNames = []string{"p", "q", "r", "s", "v", "next"}
var fieldNames = []string{"kind", "type", "d"}
var objectIDs = []string{"A", "B", "C", "T", "O"}
var keyKinds = map[string]bool{"int": true, "string": true, "enum_int": true, "enum_string": true}

func (g *gen) bounds() (*opt, *opt) {
	var mn, mx *opt
	mn, mx = &opt{}, &opt{}
	if g.r.Intn(2) == 0 {
		mn = &opt{Some: true, V: int64(g.r.Intn(8))}
	}
	if g.r.Intn(2) == 0 {
		lo := int64(0)
		if mn.Some {
			lo = mn.V
		}
		mx = &opt{Some: true, V: lo + int64(g.r.Intn(5))}
	}
	return mn, mx
}

func (g *gen) values() []int64 {
	var vs []int64
	for v := int64(1); v <= 5; v++ {
		if g.r.Intn(3) == 0 {
			vs = append(vs, v)
		}
	}
	if len(vs) == 0 {
		vs = []int64{int64(1 + g.r.Intn(5))}
	}
	return vs
}

func (g *gen) leaf(keyOnly bool) *ast {
	kinds := []string{"int", "int", "float", "float", "string", "string", "bool", "pattern", "any", "enum_int", "enum_string"}
	if keyOnly {
		kinds = []string{"int", "string", "string", "enum_int", "enum_string"}
	}
	k := kinds[g.r.Intn(len(kinds))]
	a := &ast{Kind: k}
	switch k {
	case "int", "float", "string":
		a.Min, a.Max = g.bounds()
		if k != "string" && g.r.Intn(4) == 0 {
			a.Units = unitSets[g.r.Intn(len(unitSets))]
		}
	case "enum_int", "enum_string":
		a.Values, a.Named = g.values(), g.r.Intn(2) == 0
		// one in five: values 65.. ("A"..), a string enum spelling them as one-character strings
		if g.r.Intn(5) == 0 {
			for i := range a.Values {
				a.Values[i] += 64
			}
			if k == "enum_string" {
				a.Spell = []string{"rune", "rune", "mixed"}[g.r.Intn(3)]
			}
		}
	}
	return a
}

var displayShapes = []string{"none", "name", "desc", "icon", "all"}
var unitSets = []string{"bytes", "time", "custom"}
var typedItemKinds = map[string]bool{"int": true, "float": true, "string": true, "bool": true}

func typedListOK(a *ast) bool { return a.Items != nil && typedItemKinds[a.Items.Kind] }
func typedMapOK(a *ast) bool {
	return a.Keys != nil && a.Vals != nil && (a.Keys.Kind == "int" || a.Keys.Kind == "string") && typedItemKinds[a.Vals.Kind]
}

func hasUnits(a *ast) bool {
	if a == nil {
		return false
	}
	switch a.Kind {
	case "int", "float":
		return a.units() != "none"
	case "list":
		return hasUnits(a.Items)
	case "map":
		return hasUnits(a.Keys) || hasUnits(a.Vals)
	case "object":
		for _, p := range a.Props {
			if hasUnits(p.Type) {
				return true
			}
		}
	case "scope":
		for _, o := range a.Objects {
			if hasUnits(o) {
				return true
			}
		}
	case "oneof":
		for _, m := range a.Members {
			if hasUnits(m.Obj) {
				return true
			}
		}
	}
	return false
}

// schema generates a schema of at most the given depth; ids = object IDs references may name
// (nil outside a scope)
func (g *gen) schema(depth int, ids []string) *ast {
	if depth <= 1 || g.r.Intn(100) < 25 {
		if len(ids) > 0 && g.r.Intn(4) == 0 {
			return &ast{Kind: "ref", ID: ids[g.r.Intn(len(ids))]}
		}
		return g.leaf(false)
	}
	switch n := g.r.Intn(100); {
	case n < 20:
		a := &ast{Kind: "list", Items: g.schema(depth-1, ids)}
		a.Min, a.Max = g.bounds()
		if typedListOK(a) && g.r.Intn(2) == 0 {
			a.Impl = "typed"
		}
		return a
	case n < 38:
		a := &ast{Kind: "map", Keys: g.leaf(true), Vals: g.schema(depth-1, ids)}
		a.Min, a.Max = g.bounds()
		if typedMapOK(a) && g.r.Intn(2) == 0 {
			a.Impl = "typed"
		}
		return a
	case n < 62:
		o := g.object(depth, ids, objectIDs[g.r.Intn(len(objectIDs))])
		// a free position may hold a struct-mapped object or a typed wrapper
		if !o.IDUnenforced {
			switch g.r.Intn(10) {
			case 0:
				o.Impl = "mapped"
			case 1:
				o.Impl = "typed"
			}
		}
		return o
	case n < 74:
		return g.oneof(depth, ids)
	case n < 90:
		return g.scope(depth)
	default:
		if len(ids) > 0 {
			return &ast{Kind: "ref", ID: ids[g.r.Intn(len(ids))]}
		}
		return g.object(depth, ids, objectIDs[g.r.Intn(len(objectIDs))])
	}
}

// prop draws the flags of a property: required 1/2, a default 1/3 where the type is a scalar kind,
// disabled 1/6
func (g *gen) prop(name string, t *ast) prop {
	p := prop{Name: name, Required: g.r.Intn(2) == 0, Type: t}
	if defaultKinds[t.Kind] && g.r.Intn(3) == 0 {
		p.HasDefault = true
	}
	p.Disabled = g.r.Intn(6) == 0
	if g.r.Intn(3) == 0 {
		p.Display = displayShapes[1+g.r.Intn(4)]
	}
	return p
}

func (g *gen) object(depth int, ids []string, id string) *ast {
	a := &ast{Kind: "object", ID: id, IDUnenforced: g.r.Intn(5) == 0, Props: []prop{}}
	n := g.r.Intn(4)
	if g.r.Intn(8) != 0 && n == 0 {
		n = 1
	}
	perm := g.r.Perm(len(propNames))
	for i := 0; i < n; i++ {
		a.Props = append(a.Props, g.prop(propNames[perm[i]], g.schema(depth-1, ids)))
	}
	// rules between fields: two properties conflict / one is required if (not) the other is set
	if len(a.Props) >= 2 && g.r.Intn(4) == 0 {
		i, j := 0, 1
		if g.r.Intn(2) == 0 {
			i, j = 1, 0
		}
		pi, pj := &a.Props[i], &a.Props[j]
		switch g.r.Intn(3) {
		case 0:
			pi.Conflicts, pj.Conflicts = []string{pj.Name}, []string{pi.Name}
		case 1:
			pi.RequiredIf = []string{pj.Name}
		default:
			pi.RequiredIfNot = []string{pj.Name}
		}
	}
	return a
}

func without(l []string, name string) []string {
	out := []string{}
	for _, x := range l {
		if x != name {
			out = append(out, x)
		}
	}
	return out
}

func has(l []string, name string) bool {
	for _, x := range l {
		if x == name {
			return true
		}
	}
	return false
}

// stripRules removes a (removed) property's name from the rules of the others
func stripRules(a *ast, name string) {
	for i := range a.Props {
		p := &a.Props[i]
		p.Conflicts, p.RequiredIf, p.RequiredIfNot = without(p.Conflicts, name), without(p.RequiredIf, name), without(p.RequiredIfNot, name)
	}
}

// setInline makes every member of the one-of declare the discriminator field with the discriminator's
// kind; false if a member is not a literal object (a reference's target is not the one-of's to change)
func setInline(a *ast) bool {
	kind := "string"
	if a.Disc == "int" {
		kind = "int"
	}
	for _, m := range a.Members {
		if m.Obj.Kind != "object" {
			return false
		}
	}
	for _, m := range a.Members {
		o := m.Obj
		found := false
		for i := range o.Props {
			if o.Props[i].Name == a.Field {
				o.Props[i].Type = &ast{Kind: kind, Min: &opt{}, Max: &opt{}}
				o.Props[i].HasDefault = false
				found = true
			}
		}
		if !found {
			o.Props = append(o.Props, prop{Name: a.Field, Required: true, Type: &ast{Kind: kind, Min: &opt{}, Max: &opt{}}})
		}
	}
	a.Inline = true
	return true
}

// unsetInline removes the discriminator field from the members
func unsetInline(a *ast) {
	for _, m := range a.Members {
		if m.Obj.Kind != "object" {
			continue
		}
		o := m.Obj
		ps := []prop{}
		for _, p := range o.Props {
			if p.Name != a.Field {
				ps = append(ps, p)
			}
		}
		o.Props = ps
		stripRules(o, a.Field)
	}
	a.Inline = false
}

func (g *gen) oneof(depth int, ids []string) *ast {
	a := &ast{Kind: "oneof", Disc: "string", Field: fieldNames[g.r.Intn(len(fieldNames))]}
	if g.r.Intn(3) == 0 {
		a.Disc = "int"
	}
	n := 1 + g.r.Intn(3)
	perm := g.r.Perm(4)
	for i := 0; i < n; i++ {
		var o *ast
		if len(ids) > 0 && g.r.Intn(3) == 0 {
			o = &ast{Kind: "ref", ID: ids[g.r.Intn(len(ids))]}
		} else {
			o = g.object(depth-1, ids, objectIDs[g.r.Intn(len(objectIDs))])
		}
		a.Members = append(a.Members, member{Key: int64(perm[i] + 1), Obj: o})
	}
	if g.r.Intn(3) == 0 {
		setInline(a)
	}
	return a
}

func (g *gen) scope(depth int) *ast {
	n := 1 + g.r.Intn(3)
	perm := g.r.Perm(len(objectIDs))
	var ids []string
	for i := 0; i < n; i++ {
		ids = append(ids, objectIDs[perm[i]])
	}
	a := &ast{Kind: "scope", Root: ids[0]}
	mapped := g.r.Intn(6) == 0 // a scope of struct-mapped objects
	for _, id := range ids {
		o := g.object(depth-1, ids, id)
		if mapped && !o.IDUnenforced {
			o.Impl = "mapped"
		}
		a.Objects = append(a.Objects, o)
	}
	return a
}

// ---------------------------------------------------------------------------------- WF

func lookup(table []*ast, id string) *ast {
	for _, o := range table {
		if o.ID == id {
			return o
		}
	}
	return nil
}

func denote(a *ast, table []*ast) *ast {
	switch a.Kind {
	case "object":
		return a
	case "ref":
		return lookup(table, a.ID)
	case "scope":
		return lookup(a.Objects, a.Root)
	}
	return nil
}

func boundsOK(a *ast) bool {
	if a.Min == nil || a.Max == nil {
		return false
	}
	if a.Min.Some && a.Min.V < 0 || a.Max.Some && a.Max.V < 0 {
		return false
	}
	return !(a.Min.Some && a.Max.Some && a.Min.V > a.Max.V)
}

func wf(a *ast, table []*ast) bool {
	if a == nil {
		return false
	}
	switch a.Kind {
	case "int", "float":
		u := a.units()
		return boundsOK(a) && (u == "none" || u == "bytes" || u == "time" || u == "custom")
	case "string":
		return boundsOK(a) && a.units() == "none"
	case "bool", "pattern", "any":
		return true
	case "enum_int", "enum_string":
		seen := map[int64]bool{}
		for _, v := range a.Values {
			if seen[v] {
				return false
			}
			seen[v] = true
		}
		if a.Kind == "enum_int" && a.spell() != "token" {
			return false
		}
		if sp := a.spell(); sp != "token" {
			if sp != "rune" && sp != "mixed" {
				return false
			}
			for _, v := range a.Values {
				if v < 33 || v > 126 {
					return false
				}
			}
		}
		return len(a.Values) > 0
	case "list":
		return boundsOK(a) && wf(a.Items, table) && (a.impl() == "plain" || a.impl() == "typed" && typedListOK(a))
	case "map":
		return boundsOK(a) && a.Keys != nil && keyKinds[a.Keys.Kind] && wf(a.Keys, table) && wf(a.Vals, table) &&
			(a.impl() == "plain" || a.impl() == "typed" && typedMapOK(a))
	case "object":
		seen := map[string]bool{}
		for _, p := range a.Props {
			if seen[p.Name] || !wf(p.Type, table) || (p.HasDefault && !defaultKinds[p.Type.Kind]) {
				return false
			}
			if !has(displayShapes, p.display()) {
				return false
			}
			for _, l := range [][]string{p.Conflicts, p.RequiredIf, p.RequiredIfNot} {
				for _, n := range l {
					declared := false
					for _, q := range a.Props {
						declared = declared || q.Name == n
					}
					if n == p.Name || !declared {
						return false
					}
				}
			}
			seen[p.Name] = true
		}
		switch a.impl() {
		case "plain":
		case "mapped", "typed":
			if a.IDUnenforced {
				return false
			}
			for _, p := range a.Props {
				if !mappedNames[p.Name] {
					return false
				}
			}
		default:
			return false
		}
		return a.ID != ""
	case "ref":
		return lookup(table, a.ID) != nil
	case "scope":
		seen := map[string]bool{}
		for _, o := range a.Objects {
			if o.Kind != "object" || o.impl() == "typed" || seen[o.ID] || !wf(o, a.Objects) {
				return false
			}
			seen[o.ID] = true
		}
		return lookup(a.Objects, a.Root) != nil
	case "oneof":
		if len(a.Members) == 0 || (a.Disc != "string" && a.Disc != "int") {
			return false
		}
		seen := map[int64]bool{}
		for _, m := range a.Members {
			if seen[m.Key] || m.Obj == nil {
				return false
			}
			seen[m.Key] = true
			if m.Obj.Kind != "object" && m.Obj.Kind != "ref" && m.Obj.Kind != "scope" {
				return false
			}
			if m.Obj.Kind == "object" && m.Obj.impl() == "typed" {
				return false
			}
			if !wf(m.Obj, table) {
				return false
			}
			declares := false
			want := "string"
			if a.Disc == "int" {
				want = "int"
			}
			for _, p := range denote(m.Obj, table).Props {
				if p.Name == a.Field {
					declares = true
					if p.Type.Kind != want {
						return false
					}
				}
			}
			if declares != a.Inline {
				return false
			}
		}
		return true
	}
	return false
}

// ---------------------------------------------------------------------------------- mutation

func clone(a *ast) *ast {
	b, _ := json.Marshal(a)
	var c ast
	if err := json.Unmarshal(b, &c); err != nil {
		panic(err)
	}
	return &c
}

type site struct {
	n     *ast
	isKey bool   // map key position: only key kinds
	fixed bool   // object of a scope table / one-of member: the kind has to stay
	table []*ast // enclosing scope's objects
	scope *ast   // enclosing scope if n is one of its table objects
}

func sites(a *ast, table []*ast, isKey, fixed bool, scope *ast, out *[]site) {
	*out = append(*out, site{a, isKey, fixed, table, scope})
	switch a.Kind {
	case "list":
		sites(a.Items, table, false, false, nil, out)
	case "map":
		sites(a.Keys, table, true, false, nil, out)
		sites(a.Vals, table, false, false, nil, out)
	case "object":
		for i := range a.Props {
			sites(a.Props[i].Type, table, false, false, nil, out)
		}
	case "scope":
		for _, o := range a.Objects {
			sites(o, a.Objects, false, true, a, out)
		}
	case "oneof":
		for _, m := range a.Members {
			sites(m.Obj, table, false, true, nil, out)
		}
	}
}

func renameRefs(a *ast, from, to string) {
	switch a.Kind {
	case "ref":
		if a.ID == from {
			a.ID = to
		}
	case "list":
		renameRefs(a.Items, from, to)
	case "map":
		renameRefs(a.Vals, from, to)
	case "object":
		for i := range a.Props {
			renameRefs(a.Props[i].Type, from, to)
		}
	case "oneof":
		for _, m := range a.Members {
			renameRefs(m.Obj, from, to)
		}
	case "scope": // references inside a nested scope belong to that scope
	}
}

// mutate changes ONE feature of the node; returns a description or "" if nothing applied
func (g *gen) mutate(s site) string {
	a := s.n
	tableIDs := []string{}
	for _, o := range s.table {
		tableIDs = append(tableIDs, o.ID)
	}
	// a change of kind is possible everywhere the kind is free
	if !s.fixed && g.r.Intn(4) == 0 {
		var n *ast
		for i := 0; i < 10; i++ {
			if s.isKey {
				n = g.leaf(true)
			} else {
				n = g.schema(2, tableIDs)
			}
			if n.Kind != a.Kind {
				old := a.Kind
				*a = *n
				return "kind " + old + "->" + n.Kind
			}
		}
		return ""
	}
	switch a.Kind {
	case "int", "float", "string", "list", "map":
		if (a.Kind == "list" || a.Kind == "map") && g.r.Intn(2) == 0 {
			return "" // let the walk pick a child instead
		}
		if (a.Kind == "int" || a.Kind == "float") && g.r.Intn(5) == 0 {
			old := a.units()
			for a.units() == old {
				a.Units = append([]string{"none"}, unitSets...)[g.r.Intn(4)]
			}
			return "units"
		}
		if (a.Kind == "list" && typedListOK(a) || a.Kind == "map" && typedMapOK(a)) && g.r.Intn(5) == 0 {
			if a.impl() == "typed" {
				a.Impl = "plain"
			} else {
				a.Impl = "typed"
			}
			return a.Kind + " impl"
		}
		// half of the bound mutations aim at a range that cannot overlap the original one
		if g.r.Intn(2) == 0 {
			if a.Max.Some && g.r.Intn(2) == 0 {
				lo := a.Max.V + 1 + int64(g.r.Intn(3))
				a.Min = &opt{Some: true, V: lo}
				a.Max = &opt{}
				if g.r.Intn(2) == 0 {
					a.Max = &opt{Some: true, V: lo + int64(g.r.Intn(3))}
				}
				return "range above"
			}
			if a.Min.Some && a.Min.V > 0 {
				hi := a.Min.V - 1 - int64(g.r.Intn(int(a.Min.V)))
				a.Max = &opt{Some: true, V: hi}
				a.Min = &opt{}
				if g.r.Intn(2) == 0 {
					a.Min = &opt{Some: true, V: int64(g.r.Intn(int(hi) + 1))}
				}
				return "range below"
			}
		}
		which := &a.Min
		name := "min"
		if g.r.Intn(2) == 0 {
			which, name = &a.Max, "max"
		}
		if (*which).Some && g.r.Intn(2) == 0 {
			*which = &opt{}
			return name + " unset"
		}
		*which = &opt{Some: true, V: int64(g.r.Intn(12))}
		return name + " set"
	case "enum_int", "enum_string":
		switch g.r.Intn(4) {
		case 3:
			// the other enum kind over the same numbers, the string enum spelling them as runes
			for _, v := range a.Values {
				if v < 33 || v > 126 {
					return ""
				}
			}
			if a.Kind == "enum_int" {
				a.Kind, a.Spell = "enum_string", []string{"rune", "mixed"}[g.r.Intn(2)]
			} else {
				a.Kind, a.Spell = "enum_int", ""
			}
			return "enum kind, same numbers"
		case 0:
			a.Named = !a.Named
			return "enum named"
		case 1:
			if len(a.Values) > 1 {
				i := g.r.Intn(len(a.Values))
				a.Values = append(append([]int64{}, a.Values[:i]...), a.Values[i+1:]...)
				return "enum value removed"
			}
			fallthrough
		default:
			for v := int64(1); v <= 6; v++ {
				has := false
				for _, x := range a.Values {
					has = has || x == v
				}
				if !has && g.r.Intn(2) == 0 {
					a.Values = append(a.Values, v)
					return "enum value added"
				}
			}
		}
		return ""
	case "object":
		switch g.r.Intn(12) {
		case 11:
			if len(a.Props) > 0 {
				i := g.r.Intn(len(a.Props))
				old := a.Props[i].display()
				for a.Props[i].display() == old {
					a.Props[i].Display = displayShapes[g.r.Intn(5)]
				}
				return "property display"
			}
			return ""
		case 10:
			if len(a.Props) >= 2 {
				perm := g.r.Perm(len(a.Props))
				pi, pj := &a.Props[perm[0]], &a.Props[perm[1]]
				if has(pi.Conflicts, pj.Name) {
					pi.Conflicts, pj.Conflicts = without(pi.Conflicts, pj.Name), without(pj.Conflicts, pi.Name)
				} else {
					pi.Conflicts, pj.Conflicts = append(without(pi.Conflicts, pj.Name), pj.Name), append(without(pj.Conflicts, pi.Name), pi.Name)
				}
				return "property conflicts"
			}
			return ""
		case 9:
			switch {
			case a.impl() != "plain":
				a.Impl = "plain"
			case !s.fixed && g.r.Intn(2) == 0:
				a.Impl = "typed"
			default:
				a.Impl = "mapped"
			}
			return "object impl"
		case 0:
			nid := objectIDs[g.r.Intn(len(objectIDs))]
			if nid == a.ID {
				nid = a.ID + "x"
			}
			if s.scope != nil {
				if lookup(s.table, nid) != nil {
					return ""
				}
				for _, o := range s.table {
					renameRefs(o, a.ID, nid)
				}
				if s.scope.Root == a.ID {
					s.scope.Root = nid
				}
			}
			a.ID = nid
			return "object id"
		case 1:
			a.IDUnenforced = !a.IDUnenforced
			return "id_unenforced"
		case 2:
			if len(a.Props) > 0 {
				i := g.r.Intn(len(a.Props))
				gone := a.Props[i].Name
				a.Props = append(append([]prop{}, a.Props[:i]...), a.Props[i+1:]...)
				stripRules(a, gone)
				return "property removed"
			}
			return ""
		case 3:
			for _, n := range propNames {
				has := false
				for _, p := range a.Props {
					has = has || p.Name == n
				}
				if !has {
					a.Props = append(a.Props, g.prop(n, g.schema(2, tableIDs)))
					return "property added"
				}
			}
			return ""
		case 4:
			// the consumer's required property with a default / disabled, the producer lacking it
			// (the walk's swap decides which side is which)
			if len(a.Props) > 0 {
				i := g.r.Intn(len(a.Props))
				if a.Props[i].Required && (a.Props[i].HasDefault || a.Props[i].Disabled) {
					gone := a.Props[i].Name
					a.Props = append(append([]prop{}, a.Props[:i]...), a.Props[i+1:]...)
					stripRules(a, gone)
					return "flagged required property removed"
				}
			}
			return ""
		case 5:
			if len(a.Props) > 0 {
				i := g.r.Intn(len(a.Props))
				if a.Props[i].HasDefault || defaultKinds[a.Props[i].Type.Kind] {
					a.Props[i].HasDefault = !a.Props[i].HasDefault
					return "property default"
				}
			}
			return ""
		case 6:
			if len(a.Props) > 0 {
				i := g.r.Intn(len(a.Props))
				a.Props[i].Disabled = !a.Props[i].Disabled
				return "property disabled"
			}
			return ""
		default:
			if len(a.Props) > 0 {
				i := g.r.Intn(len(a.Props))
				a.Props[i].Required = !a.Props[i].Required
				return "property required"
			}
			return ""
		}
	case "oneof":
		switch g.r.Intn(5) {
		case 0:
			if a.Disc == "int" {
				a.Disc = "string"
			} else {
				a.Disc = "int"
			}
			if a.Inline && !setInline(a) {
				return ""
			}
			return "discriminator kind"
		case 1:
			old := a.Field
			for a.Field == old {
				a.Field = fieldNames[g.r.Intn(len(fieldNames))]
			}
			// an inlining one-of: the members declare the new field too and keep the old one - they stay
			// pairwise compatible with the original's, only the discriminator's name differs
			if a.Inline && !setInline(a) {
				return ""
			}
			return "discriminator field"
		case 4:
			if a.Inline {
				unsetInline(a)
			} else if !setInline(a) {
				return ""
			}
			return "discriminator inlined"
		case 2:
			if len(a.Members) > 1 {
				i := g.r.Intn(len(a.Members))
				a.Members = append(append([]member{}, a.Members[:i]...), a.Members[i+1:]...)
				return "member removed"
			}
			fallthrough
		default:
			for k := int64(1); k <= 5; k++ {
				has := false
				for _, m := range a.Members {
					has = has || m.Key == k
				}
				if !has {
					a.Members = append(a.Members, member{Key: k, Obj: g.object(2, tableIDs, objectIDs[g.r.Intn(len(objectIDs))])})
					if a.Inline {
						setInline(a)
					}
					return "member added"
				}
			}
		}
		return ""
	case "ref":
		if len(tableIDs) > 1 {
			old := a.ID
			for a.ID == old {
				a.ID = tableIDs[g.r.Intn(len(tableIDs))]
			}
			return "ref target"
		}
	}
	return ""
}

func sameTopKind(a, b *ast) bool { return a.Kind == b.Kind }

func (g *gen) pair(depth int) caseT {
	var a *ast
	for {
		if g.r.Intn(100) < 40 {
			a = g.scope(depth)
		} else {
			a = g.schema(depth, nil)
		}
		if wf(a, nil) {
			break
		}
	}
	c := caseT{A: a, Mode: "direct"}
	switch n := g.r.Intn(100); {
	case n < 15:
		c.B, c.How = clone(a), "identical"
		switch g.r.Intn(4) {
		case 0:
			c.Mode = "self"
		case 1:
			if a.Kind == "scope" {
				c.Mode = "ra"
			}
		}
	case n < 72:
		for try := 0; try < 40 && c.B == nil; try++ {
			b := clone(a)
			var ss []site
			sites(b, nil, false, false, nil, &ss)
			how := g.mutate(ss[g.r.Intn(len(ss))])
			if how != "" && wf(b, nil) {
				c.B, c.How = b, "mutated: "+how
			}
		}
		if c.B == nil {
			c.B, c.How = clone(a), "identical"
		} else if g.r.Intn(2) == 0 {
			c.A, c.B = c.B, c.A
			c.How += " (consumer side)"
		}
	default:
		for try := 0; ; try++ {
			var b *ast
			if a.Kind == "scope" && g.r.Intn(2) == 0 {
				b = g.scope(depth)
			} else {
				b = g.schema(depth, nil)
			}
			if wf(b, nil) && (try > 6 || g.r.Intn(3) == 0 || sameTopKind(a, b)) {
				c.B, c.How = b, "unrelated"
				break
			}
		}
	}
	if c.Mode == "direct" && c.B.Kind == "scope" && g.r.Intn(3) == 0 {
		c.Mode = "rb"
	}
	// history: one side parsed unit-suffixed strings before the call
	c.Hist = "none"
	if g.r.Intn(2) == 0 {
		var hs []string
		if hasUnits(c.A) {
			hs = append(hs, "a")
		}
		if hasUnits(c.B) && c.Mode != "self" {
			hs = append(hs, "b")
		}
		if len(hs) > 0 {
			c.Hist = hs[g.r.Intn(len(hs))]
		}
	}
	return c
}

func genMain(args []string) {
	fs := flag.NewFlagSet("gen", flag.ExitOnError)
	seed := fs.Int64("seed", 1, "seed")
	count := fs.Int("count", 1000, "number of pairs")
	out := fs.String("out", "", "output file (ndjson)")
	depth := fs.Int("depth", 5, "maximal depth")
	_ = fs.Parse(args)
	if *out == "" {
		fmt.Fprintln(os.Stderr, "usage: compat gen -seed S -count K -out file")
		os.Exit(2)
	}
	g := &gen{r: rand.New(rand.NewSource(*seed))}
	f, err := os.Create(*out)
	if err != nil {
		fmt.Fprintln(os.Stderr, err)
		os.Exit(2)
	}
	w := bufio.NewWriterSize(f, 1<<20)
	enc := json.NewEncoder(w)
	for i := 0; i < *count; i++ {
		d := 2 + g.r.Intn(*depth-1)
		c := g.pair(d)
		if err := enc.Encode(&c); err != nil {
			fmt.Fprintln(os.Stderr, err)
			os.Exit(2)
		}
	}
	_ = w.Flush()
	_ = f.Close()
}
