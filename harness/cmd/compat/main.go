// Command compat is the conformance driver for C15 (spec/Compat.tla).
//
// Cases (one JSON object per line; from TLC module CompatMC, or from "compat gen"):
//
//	{"a":AST,"b":AST,"mode":"direct"|"self"|"rb"|"ra","exp":"reject"|"accept"|"open","rules":[..]}
//
// a is the consumer, b the producer.  Both are built through the public constructors of
// /repo/schema from the AST; mode "self" hands the consumer itself over as the producer, "rb" /
// "ra" replace the producer / consumer (a scope) by the scope rebuilt from its own description
// (SelfSerialize + schema.UnserializeScope; UnserializeScope returns unlinked references, so the
// driver calls ApplySelf() on the result - that missing link step is C09/C10's business).
// a.ValidateCompatibility(b) is called -reps times (Go randomises map iteration on every range);
// the observation is the tally of verdicts.  A fatal stack overflow kills the child process and is
// attributed to the case by harness/sup.
//
//	compat gen -seed S -count K -out file     writes K seeded random pairs (deeper and more
//	                                          varied than the enumeration) as cases without "exp"
package main

import (
	"encoding/json"
	"flag"
	"fmt"
	"os"
	"reflect"
	"runtime/debug"
	"sort"
	"strconv"
	"strings"
	"sync"

	"go.flow.arcalot.io/pluginsdk/schema"
	"verif/harness/sup"
)

// ---------------------------------------------------------------------------------- AST

type opt struct {
	Some bool  `json:"some"`
	V    int64 `json:"v"`
}

// prop: has_default = the property declares a default value (rendered by defaultFor to fit the type),
// disabled = the property is switched off with .Disable(reason).  Always written (TLC records of one
// family carry the same fields).
type prop struct {
	Name       string `json:"name"`
	Required   bool   `json:"required"`
	Type       *ast   `json:"type"`
	HasDefault bool   `json:"has_default"`
	Disabled   bool   `json:"disabled"`
	// rules between the fields of a value (names of other properties of the object); never null
	Conflicts     []string `json:"conflicts"`
	RequiredIf    []string `json:"required_if"`
	RequiredIfNot []string `json:"required_if_not"`
	// which parts of the property's display exist: none | name | desc | icon | all
	Display string `json:"display"`
}

func (p prop) display() string {
	if p.Display == "" {
		return "none"
	}
	return p.Display
}

// displayFor: the display value of a shape; none is the nil interface
func displayFor(shape, name string) (schema.Display, error) {
	n, d, i := "Property "+name, "Documentation of "+name, "<svg/>"
	switch shape {
	case "none":
		return nil, nil
	case "name":
		return schema.NewDisplayValue(&n, nil, nil), nil
	case "desc":
		return schema.NewDisplayValue(nil, &d, nil), nil
	case "icon":
		return schema.NewDisplayValue(nil, nil, &i), nil
	case "all":
		return schema.NewDisplayValue(&n, &d, &i), nil
	}
	return nil, fmt.Errorf("unknown display shape %q", shape)
}

func names(l []string) []string {
	out := append([]string{}, l...)
	sort.Strings(out)
	return out
}

func sameNames(a, b []string) bool {
	a, b = names(a), names(b)
	if len(a) != len(b) {
		return false
	}
	for i := range a {
		if a[i] != b[i] {
			return false
		}
	}
	return true
}

type member struct {
	Key int64 `json:"key"`
	Obj *ast  `json:"obj"`
}

type ast struct {
	Kind         string   `json:"kind"`
	Min          *opt     `json:"min,omitempty"`
	Max          *opt     `json:"max,omitempty"`
	Values       []int64  `json:"values,omitempty"`
	Named        bool     `json:"named,omitempty"`
	Spell        string   `json:"spell,omitempty"` // string enum: token (default) | rune | mixed
	Items        *ast     `json:"items,omitempty"`
	Keys         *ast     `json:"keys,omitempty"`
	Vals         *ast     `json:"vals,omitempty"`
	ID           string   `json:"id,omitempty"`
	Props        []prop   `json:"props,omitempty"`
	IDUnenforced bool     `json:"id_unenforced,omitempty"`
	Impl         string   `json:"impl,omitempty"`  // object: plain (default) | mapped | typed; list, map: plain | typed
	Units        string   `json:"units,omitempty"` // int, float: none (default) | bytes | time | custom
	Root         string   `json:"root,omitempty"`
	Objects      []*ast   `json:"objects,omitempty"`
	Disc         string   `json:"disc,omitempty"`
	Field        string   `json:"field,omitempty"`
	Inline       bool     `json:"inline,omitempty"` // one-of: the discriminator is a property of every member
	Members      []member `json:"members,omitempty"`
}

// MarshalJSON writes exactly the fields of the kind (never null: TLC's reader rejects it).
func (a *ast) MarshalJSON() ([]byte, error) {
	m := map[string]any{"kind": a.Kind}
	bounds := func() {
		mn, mx := opt{}, opt{}
		if a.Min != nil {
			mn = *a.Min
		}
		if a.Max != nil {
			mx = *a.Max
		}
		m["min"], m["max"] = mn, mx
	}
	switch a.Kind {
	case "int", "float", "string":
		bounds()
		m["units"] = a.units()
	case "enum_int", "enum_string":
		vs := append([]int64{}, a.Values...)
		sort.Slice(vs, func(i, j int) bool { return vs[i] < vs[j] })
		m["values"], m["named"], m["spell"] = vs, a.Named, a.spell()
	case "list":
		bounds()
		m["items"], m["impl"] = a.Items, a.impl()
	case "map":
		bounds()
		m["keys"], m["vals"], m["impl"] = a.Keys, a.Vals, a.impl()
	case "object":
		ps := append([]prop{}, a.Props...)
		sort.Slice(ps, func(i, j int) bool { return ps[i].Name < ps[j].Name })
		for i := range ps {
			ps[i].Conflicts, ps[i].RequiredIf, ps[i].RequiredIfNot = names(ps[i].Conflicts), names(ps[i].RequiredIf), names(ps[i].RequiredIfNot)
			ps[i].Display = ps[i].display()
		}
		m["id"], m["props"], m["id_unenforced"], m["impl"] = a.ID, ps, a.IDUnenforced, a.impl()
	case "ref":
		m["id"] = a.ID
	case "scope":
		os := append([]*ast{}, a.Objects...)
		sort.Slice(os, func(i, j int) bool { return os[i].ID < os[j].ID })
		m["root"], m["objects"] = a.Root, os
	case "oneof":
		ms := append([]member{}, a.Members...)
		sort.Slice(ms, func(i, j int) bool { return ms[i].Key < ms[j].Key })
		m["disc"], m["field"], m["members"], m["inline"] = a.Disc, a.Field, ms, a.Inline
	}
	return json.Marshal(m)
}

type caseT struct {
	A     *ast     `json:"a"`
	B     *ast     `json:"b"`
	Mode  string   `json:"mode"`
	Hist  string   `json:"hist,omitempty"` // none (default) | a | b: that side parsed unit-suffixed strings first
	Exp   string   `json:"exp,omitempty"`
	Rules []string `json:"rules,omitempty"`
	How   string   `json:"how,omitempty"`
}

// stripDisplays: the AST with every property's display cleared
func stripDisplays(a *ast) (*ast, bool) {
	b, _ := json.Marshal(a)
	var c ast
	if err := json.Unmarshal(b, &c); err != nil {
		return nil, false
	}
	found := false
	var walk func(n *ast)
	walk = func(n *ast) {
		if n == nil {
			return
		}
		walk(n.Items)
		walk(n.Keys)
		walk(n.Vals)
		for i := range n.Props {
			if n.Props[i].display() != "none" {
				found = true
				n.Props[i].Display = "none"
			}
			walk(n.Props[i].Type)
		}
		for _, o := range n.Objects {
			walk(o)
		}
		for _, m := range n.Members {
			walk(m.Obj)
		}
	}
	walk(&c)
	return &c, found
}

type resT struct {
	Evals      int    `json:"evals"`
	Nil        int    `json:"nil"`
	Err        int    `json:"err"`
	Panic      int    `json:"panic"`
	Frame      string `json:"frame,omitempty"`
	Msg        string `json:"msg,omitempty"`
	FirstErr   string `json:"first_err,omitempty"`
	Skip       string `json:"skip,omitempty"`        // the rebuilt mode is not applicable (not describable)
	DisplayDep string `json:"display_dep,omitempty"` // the verdict differs from the one with every property display cleared
	Divergence string `json:"divergence,omitempty"`  // panic | nondeterministic | accepts | rejects
	BindError  string `json:"bind_error,omitempty"`
	HarnessErr string `json:"harness_error,omitempty"`
}

// ---------------------------------------------------------------------------------- builder

// binding table: AST kind -> the SDK's type ID (checked on every built schema)
var typeIDs = map[string]schema.TypeID{
	"int": schema.TypeIDInt, "float": schema.TypeIDFloat, "string": schema.TypeIDString,
	"bool": schema.TypeIDBool, "pattern": schema.TypeIDPattern, "any": schema.TypeIDAny,
	"enum_int": schema.TypeIDIntEnum, "enum_string": schema.TypeIDStringEnum,
	"list": schema.TypeIDList, "map": schema.TypeIDMap, "object": schema.TypeIDObject,
	"ref": schema.TypeIDRef, "scope": schema.TypeIDScope,
}

type bindErr string

func (b bindErr) Error() string { return string(b) }

func (a *ast) units() string {
	if a.Units == "" {
		return "none"
	}
	return a.Units
}

// ---- units.  A unit set fills private caches when it first parses a unit-suffixed string.

// unitLeaf: a built int / float with units and a text its unit set parses
type unitLeaf struct {
	t    schema.Type
	def  *schema.UnitsDefinition
	text string
}

// collector of the side being built (children of sup handle their cases one after the other)
var unitLeaves *[]unitLeaf

func customUnits() *schema.UnitsDefinition {
	return schema.NewUnits(
		schema.NewUnit("t", "t", "tick", "ticks"),
		map[int64]*schema.UnitDefinition{
			10:   schema.NewUnit("dt", "dt", "decatick", "decaticks"),
			1000: schema.NewUnit("kt", "kt", "kilotick", "kiloticks"),
		})
}

// unitsFor: the unit set of the binding table and a text it parses
func unitsFor(kind, units string) (*schema.UnitsDefinition, string, error) {
	switch units {
	case "none":
		return nil, "", nil
	case "bytes":
		return schema.UnitBytes, "5kB", nil
	case "time":
		if kind == "float" {
			return schema.UnitDurationSeconds, "2m", nil
		}
		return schema.UnitDurationNanoseconds, "5ms", nil
	case "custom":
		return customUnits(), "5kt", nil
	}
	return nil, "", fmt.Errorf("unknown unit set %q", units)
}

// useUnits: the schema reads the text (the value may violate its bounds - the unit set has parsed it by
// then); that the unit set does parse the text is checked on the set itself
func useUnits(l unitLeaf) error {
	var err error
	if pi := sup.Guard(func() {
		_, _ = l.t.Unserialize(l.text)
		_, err = l.def.ParseFloat(l.text)
	}); pi != nil {
		return fmt.Errorf("parsing %q panicked: %s @%s", l.text, pi.Msg, pi.Frame)
	}
	if err != nil {
		return fmt.Errorf("the unit set does not parse %q: %v", l.text, err)
	}
	return nil
}

// usePackageUnits: an unrelated schema parses with every package-level unit set the universe names; from
// then on these sets are in the "used" state for the whole process, whatever cases the child ran before.
var packageUnitsOnce sync.Once
var packageUnitsErr error

func usePackageUnits() error {
	packageUnitsOnce.Do(func() {
		for _, k := range []string{"int", "float"} {
			for _, u := range []string{"bytes", "time"} {
				def, text, _ := unitsFor(k, u)
				var t schema.Type = schema.NewIntSchema(nil, nil, def)
				if k == "float" {
					t = schema.NewFloatSchema(nil, nil, def)
				}
				if err := useUnits(unitLeaf{t, def, text}); err != nil && packageUnitsErr == nil {
					packageUnitsErr = err
				}
			}
		}
	})
	return packageUnitsErr
}

func scalarWithUnits(a *ast) (schema.Type, error) {
	def, text, err := unitsFor(a.Kind, a.units())
	if err != nil {
		return nil, err
	}
	var t schema.Type
	if a.Kind == "int" {
		is := schema.NewIntSchema(ip(a.Min), ip(a.Max), def)
		if (is.Units() != nil) != (def != nil) {
			return nil, bindErr("int schema built with units does not report them")
		}
		t = is
	} else {
		fs := schema.NewFloatSchema(fp(a.Min), fp(a.Max), def)
		if (fs.Units() != nil) != (def != nil) {
			return nil, bindErr("float schema built with units does not report them")
		}
		t = fs
	}
	if def != nil && unitLeaves != nil {
		*unitLeaves = append(*unitLeaves, unitLeaf{t, def, text})
	}
	return t, nil
}

// ---- typed lists and maps over scalar element types

func typedList(a *ast, it schema.Type) (schema.Type, error) {
	switch a.Items.Kind {
	case "int":
		return schema.NewTypedListSchema[int64](it.(schema.TypedType[int64]), ip(a.Min), ip(a.Max)), nil
	case "float":
		return schema.NewTypedListSchema[float64](it.(schema.TypedType[float64]), ip(a.Min), ip(a.Max)), nil
	case "string":
		return schema.NewTypedListSchema[string](it.(schema.TypedType[string]), ip(a.Min), ip(a.Max)), nil
	case "bool":
		return schema.NewTypedListSchema[bool](it.(schema.TypedType[bool]), ip(a.Min), ip(a.Max)), nil
	}
	return nil, fmt.Errorf("typed list of %s (not well-formed: scalar items only)", a.Items.Kind)
}

func typedMapK[K comparable](a *ast, k schema.TypedType[K], v schema.Type) (schema.Type, error) {
	switch a.Vals.Kind {
	case "int":
		return schema.NewTypedMapSchema[K, int64](k, v.(schema.TypedType[int64]), ip(a.Min), ip(a.Max)), nil
	case "float":
		return schema.NewTypedMapSchema[K, float64](k, v.(schema.TypedType[float64]), ip(a.Min), ip(a.Max)), nil
	case "string":
		return schema.NewTypedMapSchema[K, string](k, v.(schema.TypedType[string]), ip(a.Min), ip(a.Max)), nil
	case "bool":
		return schema.NewTypedMapSchema[K, bool](k, v.(schema.TypedType[bool]), ip(a.Min), ip(a.Max)), nil
	}
	return nil, fmt.Errorf("typed map with %s values (not well-formed: scalar values only)", a.Vals.Kind)
}

func typedMap(a *ast, k, v schema.Type) (schema.Type, error) {
	switch a.Keys.Kind {
	case "int":
		return typedMapK[int64](a, k.(schema.TypedType[int64]), v)
	case "string":
		return typedMapK[string](a, k.(schema.TypedType[string]), v)
	}
	return nil, fmt.Errorf("typed map with %s keys (not well-formed: int or string keys only)", a.Keys.Kind)
}

func (a *ast) impl() string {
	if a.Impl == "" {
		return "plain"
	}
	return a.Impl
}

// mappedT is the one Go struct struct-mapped and typed objects are bound to: a field for every property
// name of MappedNames (spec/Compat.tla).  Schema comparison never touches the fields' types.
type mappedT struct {
	P    any `json:"p"`
	Q    any `json:"q"`
	R    any `json:"r"`
	S    any `json:"s"`
	V    any `json:"v"`
	Next any `json:"next"`
	X    any `json:"x"`
	Y    any `json:"y"`
	Z    any `json:"z"`
	C    any `json:"c"`
}

var mappedNames = map[string]bool{"p": true, "q": true, "r": true, "s": true, "v": true, "next": true,
	"x": true, "y": true, "z": true, "c": true}

func ip(o *opt) *int64 {
	if o == nil || !o.Some {
		return nil
	}
	v := o.V
	return &v
}

func fp(o *opt) *float64 {
	if o == nil || !o.Some {
		return nil
	}
	v := float64(o.V)
	return &v
}

func token(n int64) string { return fmt.Sprintf("v%d", n) }

func (a *ast) spell() string {
	if a.Spell == "" {
		return "token"
	}
	return a.Spell
}

// spelled: how the string enum a writes its value n - the token "v<n>" or the one-character string with the
// code point n (what Go's integer-to-string conversion yields); "mixed": the least value as a rune
func (a *ast) spelled(n int64) (string, error) {
	asRune := a.spell() == "rune"
	if a.spell() == "mixed" {
		asRune = true
		for _, v := range a.Values {
			if v < n {
				asRune = false
			}
		}
	}
	if !asRune {
		return token(n), nil
	}
	if n < 33 || n > 126 {
		return "", fmt.Errorf("enum value %d spelled as a rune (not well-formed: printable characters only)", n)
	}
	return string(rune(n)), nil
}
func mkey(n int64) string { return fmt.Sprintf("k%d", n) }

// display of an enum value: named = it carries a display name; an unnamed value has no display value at all
// (odd n) or one with a description only (even n)
func display(named bool, n int64) *schema.DisplayValue {
	if !named {
		if n%2 == 0 {
			d := fmt.Sprintf("Documentation of value %d", n)
			return schema.NewDisplayValue(nil, &d, nil)
		}
		return nil
	}
	s := fmt.Sprintf("Value %d", n)
	return schema.NewDisplayValue(&s, nil, nil)
}

func build(a *ast) (schema.Type, error) {
	t, err := build1(a)
	if err != nil {
		return nil, err
	}
	want, ok := typeIDs[a.Kind]
	if a.Kind == "oneof" {
		want, ok = schema.TypeIDOneOfString, true
		if a.Disc == "int" {
			want = schema.TypeIDOneOfInt
		}
	}
	if !ok {
		return nil, fmt.Errorf("unknown kind %q", a.Kind)
	}
	if t.TypeID() != want {
		return nil, bindErr(fmt.Sprintf("kind %s built as %T has type ID %q, the binding table says %q", a.Kind, t, t.TypeID(), want))
	}
	return t, nil
}

func build1(a *ast) (schema.Type, error) {
	if a == nil {
		return nil, fmt.Errorf("missing schema node")
	}
	switch a.Kind {
	case "int", "float":
		return scalarWithUnits(a)
	case "string":
		if a.units() != "none" {
			return nil, fmt.Errorf("string with units (not well-formed)")
		}
		return schema.NewStringSchema(ip(a.Min), ip(a.Max), nil), nil
	case "bool":
		return schema.NewBoolSchema(), nil
	case "pattern":
		return schema.NewPatternSchema(), nil
	case "any":
		return schema.NewAnySchema(), nil
	case "enum_int":
		m := map[int64]*schema.DisplayValue{}
		for _, v := range a.Values {
			m[v] = display(a.Named, v)
		}
		return schema.NewIntEnumSchema(m, nil), nil
	case "enum_string":
		m := map[string]*schema.DisplayValue{}
		for _, v := range a.Values {
			sv, err := a.spelled(v)
			if err != nil {
				return nil, err
			}
			m[sv] = display(a.Named, v)
		}
		return schema.NewStringEnumSchema(m), nil
	case "list":
		it, err := build(a.Items)
		if err != nil {
			return nil, err
		}
		if a.impl() == "typed" {
			return typedList(a, it)
		}
		return schema.NewListSchema(it, ip(a.Min), ip(a.Max)), nil
	case "map":
		k, err := build(a.Keys)
		if err != nil {
			return nil, err
		}
		v, err := build(a.Vals)
		if err != nil {
			return nil, err
		}
		if a.impl() == "typed" {
			return typedMap(a, k, v)
		}
		return schema.NewMapSchema(k, v, ip(a.Min), ip(a.Max)), nil
	case "object":
		if a.impl() == "typed" {
			return buildTyped(a)
		}
		return buildObject(a)
	case "ref":
		return schema.NewRefSchema(a.ID, nil), nil
	case "scope":
		var root *schema.ObjectSchema
		var others []*schema.ObjectSchema
		for _, o := range a.Objects {
			ob, err := buildObject(o)
			if err != nil {
				return nil, err
			}
			if o.ID == a.Root {
				root = ob
			} else {
				others = append(others, ob)
			}
		}
		if root == nil {
			return nil, fmt.Errorf("scope without its root object %q", a.Root)
		}
		return schema.NewScopeSchema(root, others...), nil
	case "oneof":
		if a.Disc == "int" {
			m := map[int64]schema.Object{}
			for _, mb := range a.Members {
				o, err := buildMember(mb.Obj)
				if err != nil {
					return nil, err
				}
				m[mb.Key] = o
			}
			o := schema.NewOneOfIntSchema[any](m, a.Field, a.Inline)
			if o.DiscriminatorInlined != a.Inline || o.DiscriminatorFieldName() != a.Field {
				return nil, bindErr("int one-of built with another discriminator / inlining than the AST says")
			}
			return o, nil
		}
		m := map[string]schema.Object{}
		for _, mb := range a.Members {
			o, err := buildMember(mb.Obj)
			if err != nil {
				return nil, err
			}
			m[mkey(mb.Key)] = o
		}
		o := schema.NewOneOfStringSchema[any](m, a.Field, a.Inline)
		if o.DiscriminatorInlined != a.Inline || o.DiscriminatorFieldName() != a.Field {
			return nil, bindErr("string one-of built with another discriminator / inlining than the AST says")
		}
		return o, nil
	}
	return nil, fmt.Errorf("unknown kind %q", a.Kind)
}

func buildMember(a *ast) (schema.Object, error) {
	t, err := build(a)
	if err != nil {
		return nil, err
	}
	o, ok := t.(schema.Object)
	if !ok {
		return nil, fmt.Errorf("one-of member of kind %s is not an object", a.Kind)
	}
	return o, nil
}

// buildTyped: the typed wrapper around a struct-mapped object
func buildTyped(a *ast) (schema.Type, error) {
	ps, err := buildProps(a)
	if err != nil {
		return nil, err
	}
	if a.IDUnenforced {
		return nil, fmt.Errorf("typed object %s with an unenforced ID (not well-formed)", a.ID)
	}
	o := schema.NewTypedObject[mappedT](a.ID, ps)
	if k := o.ReflectedType().Kind(); k != reflect.Struct {
		return nil, bindErr(fmt.Sprintf("typed object %s reflects as %s, expected a struct", a.ID, k))
	}
	if err := checkFlags(a, o); err != nil {
		return nil, err
	}
	return o, nil
}

func buildObject(a *ast) (*schema.ObjectSchema, error) {
	if a.Kind != "object" {
		return nil, fmt.Errorf("expected an object, got %s", a.Kind)
	}
	ps, err := buildProps(a)
	if err != nil {
		return nil, err
	}
	var o *schema.ObjectSchema
	switch impl := a.impl(); {
	case impl == "mapped" && !a.IDUnenforced:
		o = schema.NewStructMappedObjectSchema[mappedT](a.ID, ps)
		if k := o.ReflectedType().Kind(); k != reflect.Struct {
			return nil, bindErr(fmt.Sprintf("struct-mapped object %s reflects as %s, expected a struct", a.ID, k))
		}
	case impl != "plain":
		return nil, fmt.Errorf("object %s: impl %s not applicable here (not well-formed)", a.ID, impl)
	case a.IDUnenforced:
		o = schema.NewUnenforcedIDObjectSchema(a.ID, ps)
	default:
		o = schema.NewObjectSchema(a.ID, ps)
	}
	if err := checkFlags(a, o); err != nil {
		return nil, err
	}
	return o, nil
}

func buildProps(a *ast) (map[string]*schema.PropertySchema, error) {
	ps := map[string]*schema.PropertySchema{}
	for _, p := range a.Props {
		t, err := build(p.Type)
		if err != nil {
			return nil, err
		}
		var def *string
		if p.HasDefault {
			d, ok := defaultFor(p.Type)
			if !ok {
				return nil, fmt.Errorf("property %s of kind %s declares a default (not well-formed: scalar kinds only)", p.Name, p.Type.Kind)
			}
			def = &d
		}
		disp, err := displayFor(p.display(), p.Name)
		if err != nil {
			return nil, err
		}
		ps[p.Name] = schema.NewPropertySchema(t, disp, p.Required, names(p.RequiredIf), names(p.RequiredIfNot),
			names(p.Conflicts), def, nil)
		if p.Disabled {
			ps[p.Name] = ps[p.Name].Disable(disabledReason)
		}
		if a.impl() != "plain" && !mappedNames[p.Name] {
			return nil, fmt.Errorf("%s object %s with property %s outside the mapped names (not well-formed)", a.impl(), a.ID, p.Name)
		}
	}
	return ps, nil
}

// checkFlags: the flags of the AST are what the SDK's accessors report on the built object (binding)
func checkFlags(a *ast, o schema.Object) error {
	if o.ID() != a.ID || o.IDUnenforced() != a.IDUnenforced {
		return bindErr(fmt.Sprintf("object %s (unenforced %v) built as %s (unenforced %v)", a.ID, a.IDUnenforced, o.ID(), o.IDUnenforced()))
	}
	defaults := o.GetDefaults()
	for _, p := range a.Props {
		built, ok := o.Properties()[p.Name]
		if !ok {
			return bindErr(fmt.Sprintf("object %s built without its property %s", a.ID, p.Name))
		}
		_, inDefaults := defaults[p.Name]
		if (built.Default() != nil) != p.HasDefault || inDefaults != p.HasDefault {
			return bindErr(fmt.Sprintf("property %s.%s: has_default=%v in the AST, Default()!=nil is %v, in GetDefaults() %v",
				a.ID, p.Name, p.HasDefault, built.Default() != nil, inDefaults))
		}
		if !sameNames(built.Conflicts(), p.Conflicts) || !sameNames(built.RequiredIf(), p.RequiredIf) ||
			!sameNames(built.RequiredIfNot(), p.RequiredIfNot) {
			return bindErr(fmt.Sprintf("property %s.%s: the rules between fields of the built property differ from the AST", a.ID, p.Name))
		}
		sh := p.display()
		bd := built.Display()
		if (bd == nil) != (sh == "none") ||
			bd != nil && ((bd.Name() != nil) != (sh == "name" || sh == "all") || (bd.Description() != nil) != (sh == "desc" || sh == "all") ||
				(bd.Icon() != nil) != (sh == "icon" || sh == "all")) {
			return bindErr(fmt.Sprintf("property %s.%s: display shape %s in the AST, the built property's display differs", a.ID, p.Name, sh))
		}
		if built.Disabled != p.Disabled || built.Required() != p.Required {
			return bindErr(fmt.Sprintf("property %s.%s: disabled=%v required=%v in the AST, the built property says %v / %v",
				a.ID, p.Name, p.Disabled, p.Required, built.Disabled, built.Required()))
		}
	}
	return nil
}

const disabledReason = "switched off by the generator"

var defaultKinds = map[string]bool{"int": true, "float": true, "string": true, "bool": true, "enum_int": true, "enum_string": true}

// defaultFor renders a default value (JSON, as the SDK expects it) that is a value of the type.
func defaultFor(t *ast) (string, bool) {
	clamp := func(v int64) int64 {
		if t.Min != nil && t.Min.Some && v < t.Min.V {
			v = t.Min.V
		}
		if t.Max != nil && t.Max.Some && v > t.Max.V {
			v = t.Max.V
		}
		return v
	}
	switch t.Kind {
	case "int", "float":
		return strconv.FormatInt(clamp(3), 10), true
	case "string":
		return strconv.Quote(strings.Repeat("x", int(clamp(1)))), true
	case "bool":
		return "true", true
	case "enum_int":
		if len(t.Values) == 0 {
			return "", false
		}
		return strconv.FormatInt(t.Values[0], 10), true
	case "enum_string":
		if len(t.Values) == 0 {
			return "", false
		}
		sv, err := t.spelled(t.Values[0])
		if err != nil {
			return "", false
		}
		return strconv.Quote(sv), true
	}
	return "", false
}

// rebuild = Rebuild(Describe(s)): SelfSerialize, UnserializeScope, and the link step the SDK
// leaves to the caller.  ok=false: this scope cannot be described / rebuilt (C09's subject).
func rebuild(t schema.Type) (schema.Type, string) {
	sc, ok := t.(*schema.ScopeSchema)
	if !ok {
		return nil, "not a scope"
	}
	var out schema.Type
	why := ""
	pi := sup.Guard(func() {
		ser, err := sc.SelfSerialize()
		if err != nil {
			why = "describe: " + err.Error()
			return
		}
		re, err := schema.UnserializeScope(ser)
		if err != nil {
			why = "rebuild: " + err.Error()
			return
		}
		re.ApplySelf()
		out = re
	})
	if pi != nil {
		return nil, "rebuild panic: " + pi.Msg + " @" + pi.Frame
	}
	return out, why
}

// ---------------------------------------------------------------------------------- one case

var reps = flag.Int("reps", 20, "calls of ValidateCompatibility per case")

func clip(s string, n int) string {
	if len(s) > n {
		return s[:n] + "..."
	}
	return s
}

func handle(raw json.RawMessage) any {
	var c caseT
	if err := json.Unmarshal(raw, &c); err != nil {
		return map[string]any{"harness_error": err.Error()}
	}
	r := &resT{}
	if err := usePackageUnits(); err != nil {
		r.HarnessErr = "package-level unit sets: " + err.Error()
		return r
	}
	var A, B schema.Type
	var berr error
	var leavesA, leavesB []unitLeaf
	pi := sup.Guard(func() {
		defer func() { unitLeaves = nil }()
		unitLeaves = &leavesA
		A, berr = build(c.A)
		if berr != nil {
			return
		}
		if c.Mode == "self" {
			B = A
			return
		}
		unitLeaves = &leavesB
		B, berr = build(c.B)
	})
	if pi != nil {
		r.HarnessErr = "building the schemas panicked (generated schema not accepted by the constructors): " + pi.Msg + " @" + pi.Frame
		return r
	}
	if berr != nil {
		if be, ok := berr.(bindErr); ok {
			r.BindError = string(be)
		} else {
			r.HarnessErr = berr.Error()
		}
		return r
	}
	// the history: the directly built side parses unit-suffixed strings before anything else
	var used []unitLeaf
	switch c.Hist {
	case "", "none":
	case "a":
		used = leavesA
	case "b":
		used = leavesB
	default:
		r.HarnessErr = "unknown history " + c.Hist
		return r
	}
	for _, l := range used {
		if err := useUnits(l); err != nil {
			r.HarnessErr = err.Error()
			return r
		}
	}
	switch c.Mode {
	case "rb":
		nb, why := rebuild(B)
		if nb == nil {
			r.Skip = why
			return r
		}
		B = nb
	case "ra":
		na, why := rebuild(A)
		if na == nil {
			r.Skip = why
			return r
		}
		A = na
	case "direct", "self":
	default:
		r.HarnessErr = "unknown mode " + c.Mode
		return r
	}
	for i := 0; i < *reps; i++ {
		var err error
		pi := sup.Guard(func() { err = A.ValidateCompatibility(B) })
		r.Evals++
		switch {
		case pi != nil:
			r.Panic++
			if r.Frame == "" {
				r.Frame, r.Msg = pi.Frame, clip(pi.Msg, 300)
			}
		case err != nil:
			r.Err++
			if r.FirstErr == "" {
				r.FirstErr = clip(err.Error(), 300)
			}
		default:
			r.Nil++
		}
	}
	// compare with the expectation the specification computed (absent for recorded pairs:
	// those are judged by CompatTrace.tla)
	switch {
	case r.Panic > 0:
		r.Divergence = "panic"
	case r.Nil > 0 && r.Err > 0:
		r.Divergence = "nondeterministic"
	case c.Exp == "reject" && r.Nil > 0:
		r.Divergence = "accepts"
	case c.Exp == "accept" && r.Err > 0:
		r.Divergence = "rejects"
	}
	// documentation blindness: the same pair with every property display cleared gets the same verdict
	if r.Divergence == "" && (c.Mode == "direct" || c.Mode == "self") {
		a0, fa := stripDisplays(c.A)
		b0, fb := stripDisplays(c.B)
		if (fa || fb) && a0 != nil && b0 != nil {
			var err0 error
			var A0, B0 schema.Type
			pi := sup.Guard(func() {
				var e error
				if A0, e = build(a0); e != nil {
					return
				}
				B0 = A0
				if c.Mode != "self" {
					if B0, e = build(b0); e != nil {
						A0 = nil
						return
					}
				}
				err0 = A0.ValidateCompatibility(B0)
			})
			if pi == nil && A0 != nil && (err0 == nil) != (r.Nil > 0) {
				r.DisplayDep = fmt.Sprintf("verdict nil=%v with the displays, nil=%v without", r.Nil > 0, err0 == nil)
			}
		}
	}
	return r
}

func main() {
	// legitimate recursion over generated schemas is a few dozen frames deep; a small limit
	// makes the fatal overflow on recursive scopes quick instead of filling 1 GB first
	debug.SetMaxStack(16 << 20)
	if len(os.Args) > 1 && os.Args[1] == "gen" {
		genMain(os.Args[2:])
		return
	}
	sup.Main(handle)
}
