package main

// Modes "hello" and "hello_srv": the sequential parts of a session that spec/ATPHello.tla models - the handshake
// at both ends and Execute with the legacy (v1) framing - played op by op against the real client / the real
// server. Every op is one action of the environment of ATPHello.tla (EnvHello, EnvAnswer, EnvEnd, EnvFailWrites;
// CliSend, CliEnd, OutFails) or the start of a client call (ReadSchema, Execute); the system settles after
// each op, so the recorded hook trace is an interleaving the model has to accept.

import (
	"context"
	"fmt"
	"sort"
	"strings"
	"time"

	"github.com/fxamacker/cbor/v2"
	"go.flow.arcalot.io/pluginsdk/atp"
	"go.flow.arcalot.io/pluginsdk/schema"
	"verif/harness/sched"
)

func mustCBOR(v any) []byte {
	b, err := cbor.Marshal(v)
	if err != nil {
		panic(err)
	}
	return b
}

var junkBytes = []byte{0xff, 0x1c, 0x1c, 0x00} // a break code outside an indefinite-length item: malformed

func runHello(sc scenario, res *result) {
	w := &world{sc: sc, res: map[string]*execResult{}, sigTo: map[string]chan schema.Input{},
		sigFrm: map[string]chan schema.Input{}, sigStop: map[string]chan struct{}{}, sigSenders: map[string][]chan struct{}{},
		closeC: make(chan error, 1), spawned: map[string]bool{}}
	w.s = sched.New(sched.Free)
	w.s.Classify = classify
	if sc.DelayKey != "" {
		// one gate occurrence is held until the script says "release" (overlapping calls in a chosen order)
		w.s.SetDelay(sc.DelayKey, sc.DelayNth)
		w.s.SetMode(sched.Delay)
	}
	atp.VerifHook = w.s.Hook
	defer func() { atp.VerifHook = nil }()
	w.c2s = sched.NewPipe("c2s", w.s, 1<<20) // writes are buffered: a call's write never waits for the peer
	w.s2c = sched.NewPipe("s2c", w.s, 1<<20)
	plug := w.plugin()
	w.plug = plug
	ser, err := plug.SelfSerialize()
	if err != nil {
		res.FollowErr = "SelfSerialize: " + err.Error()
		return
	}
	me := sched.GoID()
	w.s.SetRole("env")
	dec := cbor.NewDecoder(sched.ReadEnd{P: w.c2s})
	w.cli = atp.NewClientWithLogger(sched.Duplex{In: w.s2c, Out: w.c2s}, nil)
	hsDone := make(chan error, 1)
	hsStarted, outEnded := false, false
	settle := func() { w.s.WaitSettled(stepTimeout) }
	helloItem := func(kind string) []byte {
		var ver int64
		if n, err := fmt.Sscanf(kind, "ok%d", &ver); n == 1 && err == nil {
			return mustCBOR(atp.HelloMessage{Version: ver, Schema: ser})
		}
		if n, err := fmt.Sscanf(kind, "bad%d", &ver); n == 1 && err == nil {
			return mustCBOR(atp.HelloMessage{Version: ver, Schema: map[string]any{"steps": "not a map"}})
		}
		switch kind {
		case "junk":
			return junkBytes
		case "part":
			b := mustCBOR(atp.HelloMessage{Version: 1, Schema: ser})
			return b[:len(b)/2]
		case "wd":
			return mustCBOR(atp.WorkDoneMessage{StepID: "step", OutputID: "success", OutputData: map[string]any{"message": "hello x"}})
		}
		panic("unknown hello kind " + kind)
	}
	// the environment takes an item off the client's stream only when the model's action does (Head(c2s)); one
	// reader goroutine decodes item by item, the operations pop what has arrived (the system is settled between
	// operations, so what was written has arrived)
	items := make(chan cbor.RawMessage, 64)
	go func() {
		w.s.SetRole("env:reader")
		defer close(items)
		for {
			var raw cbor.RawMessage
			if dec.Decode(&raw) != nil {
				return
			}
			items <- raw
		}
	}()
	take := func(v any) bool {
		select {
		case raw, ok := <-items:
			return ok && cbor.Unmarshal(raw, v) == nil
		case <-time.After(20 * time.Millisecond):
			return false
		}
	}
	for _, op := range sc.Ops {
		switch op.Op {
		case "hs":
			hsStarted = true
			go func() {
				w.s.SetRole("hs")
				_, err := w.cli.ReadSchema()
				hsDone <- err
			}()
		case "env_hello":
			var start any
			if !take(&start) {
				break // nothing to answer (the model's EnvHello is not enabled either): the operation is skipped
			}
			w.s.Emit(me, "f.hello", map[string]any{"kind": op.Kind})
			_, _ = w.s2c.Write(helloItem(op.Kind))
		case "exec":
			rs := runSpec{ID: op.Run, Beh: "ok"}
			w.sc.Runs = append(w.sc.Runs, rs)
			w.spawnCaller(op.Run)
		case "env_answer":
			var ws atp.WorkStartMessage
			if !take(&ws) {
				break // no work-start to answer: skipped
			}
			tag := ""
			if m, ok := ws.Config.(map[any]any); ok {
				tag, _ = m["name"].(string)
			}
			w.s.Emit(me, "f.answer", map[string]any{"kind": op.Kind, "run": tag})
			b := mustCBOR(atp.WorkDoneMessage{StepID: "step", OutputID: "success", OutputData: map[string]any{"message": "hello " + tag}})
			switch op.Kind {
			case "wd":
				_, _ = w.s2c.Write(b)
			case "junk":
				_, _ = w.s2c.Write(junkBytes)
			case "part":
				_, _ = w.s2c.Write(b[:len(b)/2])
			}
		case "env_end":
			if !outEnded {
				w.s.Emit(me, "f.end", map[string]any{"kind": op.Kind})
				if op.Kind == "ioerr" {
					w.s2c.CutErr = sched.ErrInjected
				}
				w.s2c.CloseWrite()
				outEnded = true
			}
		case "env_fail_writes":
			w.s.Emit(me, "f.failwrites", map[string]any{})
			w.c2s.FailWrites()
		case "release":
			if w.s.IsParked(sc.DelayKey) {
				res.DelayHit = true
				_ = w.s.Release(sc.DelayKey, stepTimeout)
			}
		default:
			res.FollowErr = "unknown op " + op.Op
			return
		}
		settle()
	}
	// a faithful plugin answers whatever is still asked once the held call runs on
	for round := 0; round < 6 && sc.DelayKey != ""; round++ {
		settle()
		if w.s.IsParked(sc.DelayKey) {
			res.DelayHit = true
			_ = w.s.Release(sc.DelayKey, stepTimeout)
			continue
		}
		var ws atp.WorkStartMessage
		if !take(&ws) {
			break
		}
		tag := ""
		if m, ok := ws.Config.(map[any]any); ok {
			tag, _ = m["name"].(string)
		}
		w.s.Emit(me, "f.answer", map[string]any{"kind": "wd", "run": tag})
		_, _ = w.s2c.Write(mustCBOR(atp.WorkDoneMessage{StepID: "step", OutputID: "success", OutputData: map[string]any{"message": "hello " + tag}}))
	}
	// the stream always ends eventually: then everything that was started has to return
	if !outEnded {
		settle()
		w.s.Emit(me, "f.end", map[string]any{"kind": "eof"})
		w.s2c.CloseWrite()
	}
	settle()
	callersDone := make(chan struct{})
	go func() { w.callWG.Wait(); close(callersDone) }()
	deadline := time.Now().Add(8 * time.Second)
	cDone, hDone := false, !hsStarted
	quiet := 0
	for !(cDone && hDone) {
		select {
		case <-callersDone:
			cDone = true
			callersDone = nil
		case err := <-hsDone:
			hDone = true
			if err != nil {
				res.Results["#schema"] = execResult{St: "err", Err: err.Error(), Returns: 1}
			} else {
				res.Results["#schema"] = execResult{St: "ok", Returns: 1}
			}
		case <-time.After(300 * time.Microsecond):
			if sched.Settled() {
				quiet++
			} else {
				quiet = 0
			}
			if quiet >= 30 || time.Now().After(deadline) {
				res.Stuck = true
				for _, g := range sched.BlockedSDK() {
					res.StuckDetail = append(res.StuckDetail, fmt.Sprintf("%s [%s] %s", w.s.Role(g.ID), g.State, strings.TrimSpace(g.Top)))
				}
				sort.Strings(res.StuckDetail)
				cDone, hDone = true, true
			}
		}
	}
	w.mu.Lock()
	for id, e := range w.res {
		res.Results[id] = *e
	}
	w.mu.Unlock()
	res.Events = w.s.Events()
	w.c2s.CloseRead()
}

// an undescribable plugin: a typed list cannot describe itself (known finding of C09), so SelfSerialize fails
type undescIn struct {
	L []string `json:"l"`
}

func undescribablePlugin() *schema.CallableSchema {
	in := schema.NewScopeSchema(schema.NewStructMappedObjectSchema[undescIn]("In", map[string]*schema.PropertySchema{
		"l": prop(schema.NewTypedListSchema[string](schema.NewStringSchema(nil, nil, nil), nil, nil)),
	}))
	out := schema.NewScopeSchema(schema.NewStructMappedObjectSchema[stepOut]("Out", map[string]*schema.PropertySchema{
		"message": prop(schema.NewStringSchema(nil, nil, nil)),
	}))
	return schema.NewCallableSchema(schema.NewCallableStep[undescIn]("step", in,
		map[string]*schema.StepOutputSchema{"success": schema.NewStepOutputSchema(out, nil, false)}, nil,
		func(_ context.Context, _ undescIn) (string, any) { return "success", stepOut{Message: "x"} }))
}

func runHelloServer(sc scenario, res *result) {
	w := &world{sc: sc, res: map[string]*execResult{}, spawned: map[string]bool{}}
	w.s = sched.New(sched.Free)
	w.s.Classify = classify
	atp.VerifHook = w.s.Hook
	defer func() { atp.VerifHook = nil }()
	w.c2s = sched.NewPipe("c2s", w.s, 1<<20)
	w.s2c = sched.NewPipe("s2c", w.s, 1<<20)
	var plug *schema.CallableSchema
	if sc.HelloBad == "undescribable" {
		plug = undescribablePlugin()
		if _, err := plug.SelfSerialize(); err == nil {
			res.FollowErr = "the undescribable plugin describes itself: the harness has no such schema any more"
			return
		}
	} else {
		plug = w.plugin()
	}
	me := sched.GoID()
	w.s.SetRole("env")
	ctx, cancel := context.WithCancel(context.Background())
	defer cancel()
	w.srvC = make(chan int, 1)
	go func() {
		w.s.SetRole("srv")
		errs := atp.RunATPServer(ctx, sched.ReadEnd{P: w.c2s}, sched.WriteEnd{P: w.s2c}, plug)
		w.s2c.CloseWrite()
		w.srvC <- len(errs)
	}()
	settle := func() { w.s.WaitSettled(stepTimeout) }
	settle()
	ended := false
	nws := 0
	for _, op := range sc.Ops {
		switch op.Op {
		case "cli_send":
			// every work-start has a run ID of its own: x1, x2, ... in the order of sending
			kinds := op.Kinds
			if len(kinds) == 0 {
				kinds = []string{op.Kind}
			}
			var b []byte
			for _, k := range kinds {
				run := ""
				switch k {
				case "start":
					b = append(b, mustCBOR(nil)...)
				case "ws":
					nws++
					run = fmt.Sprintf("x%d", nws)
					b = append(b, mustCBOR(atp.RuntimeMessage{MessageID: atp.MessageTypeWorkStart, RunID: run,
						MessageData: atp.WorkStartMessage{StepID: "step", Config: map[string]any{"name": run, "beh": "ok"}}})...)
				case "junk":
					b = append(b, junkBytes...)
				case "part":
					x := mustCBOR(atp.RuntimeMessage{MessageID: atp.MessageTypeWorkStart, RunID: "xp",
						MessageData: atp.WorkStartMessage{StepID: "step", Config: map[string]any{"name": "xp", "beh": "ok"}}})
					b = append(b, x[:len(x)/2]...)
				}
				w.s.Emit(me, "e.send", map[string]any{"kind": k, "run": run})
			}
			_, _ = w.c2s.Write(b)
		case "cli_end":
			if !ended {
				w.s.Emit(me, "e.end", map[string]any{})
				w.c2s.CloseWrite()
				ended = true
			}
		case "out_fail":
			w.s.Emit(me, "e.outfail", map[string]any{})
			w.s2c.FailWrites()
		default:
			res.FollowErr = "unknown op " + op.Op
			return
		}
		settle()
	}
	// what the server wrote (only ever a hello)
	res.Received = []string{}
	if !ended {
		settle()
		// the handshake is over or the server is waiting for the client; the session ends here
		w.s.Emit(me, "e.end", map[string]any{})
		w.c2s.CloseWrite()
	}
	hdec := cbor.NewDecoder(sched.ReadEnd{P: w.s2c})
	gotHello := make(chan bool, 1)
	after := make(chan string, 64)
	go func() {
		var h atp.HelloMessage
		if hdec.Decode(&h) == nil && h.Version == atp.ProtocolVersion && h.Schema != nil {
			gotHello <- true
			for {
				var m atp.DecodedRuntimeMessage
				if hdec.Decode(&m) != nil {
					close(after)
					return
				}
				kind := fmt.Sprintf("id%d", m.MessageID)
				switch m.MessageID {
				case atp.MessageTypeWorkDone:
					kind = "wd"
				case atp.MessageTypeError:
					var e atp.ErrorMessage
					_ = cbor.Unmarshal(m.RawMessageData, &e)
					kind = "err"
					if e.ServerFatal {
						kind = "err_server"
					} else if e.StepFatal {
						kind = "err_step"
					}
				}
				after <- kind + ":" + m.RunID
			}
		}
		gotHello <- false
	}()
	select {
	case n := <-w.srvC:
		res.ServerRet, res.ServerErrs = true, n
	case <-time.After(8 * time.Second):
		res.Stuck = true
		for _, g := range sched.BlockedSDK() {
			res.StuckDetail = append(res.StuckDetail, fmt.Sprintf("%s [%s] %s", w.s.Role(g.ID), g.State, strings.TrimSpace(g.Top)))
		}
		sort.Strings(res.StuckDetail)
	}
	select {
	case ok := <-gotHello:
		if ok {
			res.Received = append(res.Received, "hello")
			// the server has returned and closed its output: what it wrote behind the hello
			tmo := time.After(2 * time.Second)
		drain:
			for {
				select {
				case m, more := <-after:
					if !more {
						break drain
					}
					res.Received = append(res.Received, m)
				case <-tmo:
					break drain
				}
			}
		}
	case <-time.After(2 * time.Second):
	}
	res.Events = w.s.Events()
}
