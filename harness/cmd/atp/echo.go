package main

import (
	"bytes"
	"context"
	"fmt"
	"math"
	"reflect"
	"sort"
	"strings"
	"time"

	"go.flow.arcalot.io/pluginsdk/atp"
	"verif/harness/sched"

	"github.com/fxamacker/cbor/v2"
	"go.flow.arcalot.io/pluginsdk/schema"
)

// The "echo" step: a structurally rich input that the handler returns unchanged, used to compare what
// Client.Execute delivers with what CallableSchema.CallStep returns in-process for the same input
// (C05: payload fidelity is decided by the real codec, not by the model).

type echoNested struct {
	K string  `json:"k"`
	V []int64 `json:"v"`
}

type echoData struct {
	I int64             `json:"i"`
	F float64           `json:"f"`
	S string            `json:"s"`
	B bool              `json:"b"`
	L []string          `json:"l"`
	M map[string]int64  `json:"m"`
	N *echoNested       `json:"n"`
	E string            `json:"e"`
	A any               `json:"a"`
	O *int64            `json:"o"`
	D map[int64]float64 `json:"d"`
}

func optProp(t schema.Type) *schema.PropertySchema {
	return schema.NewPropertySchema(t, nil, false, nil, nil, nil, nil, nil)
}

func echoScope(id string) *schema.ScopeSchema {
	nested := schema.NewStructMappedObjectSchema[echoNested](id+"Nested", map[string]*schema.PropertySchema{
		"k": prop(schema.NewStringSchema(schema.IntPointer(1), nil, nil)),
		"v": prop(schema.NewListSchema(schema.NewIntSchema(nil, nil, nil), nil, schema.IntPointer(4))),
	})
	return schema.NewScopeSchema(schema.NewStructMappedObjectSchema[echoData](id, map[string]*schema.PropertySchema{
		"i": prop(schema.NewIntSchema(nil, schema.IntPointer(1<<62), nil)),
		"f": prop(schema.NewFloatSchema(nil, schema.PointerTo(1e9), nil)),
		"s": prop(schema.NewStringSchema(nil, schema.IntPointer(40), nil)),
		"b": prop(schema.NewBoolSchema()),
		"l": prop(schema.NewListSchema(schema.NewStringSchema(nil, nil, nil), nil, nil)),
		"m": prop(schema.NewMapSchema(schema.NewStringSchema(nil, nil, nil), schema.NewIntSchema(nil, nil, schema.UnitDurationSeconds), nil, nil)),
		"n": optProp(schema.NewRefSchema(id+"Nested", nil)),
		"e": prop(schema.NewStringEnumSchema(map[string]*schema.DisplayValue{
			"red":   schema.NewDisplayValue(schema.PointerTo("Red"), nil, nil),
			"green": schema.NewDisplayValue(schema.PointerTo("Green"), nil, nil),
		})),
		"a": optProp(schema.NewAnySchema()),
		"o": optProp(schema.NewIntSchema(nil, nil, nil)),
		"d": optProp(schema.NewMapSchema(schema.NewIntSchema(nil, nil, nil), schema.NewFloatSchema(nil, nil, nil), nil, nil)),
	}), nested)
}

func echoStep() schema.CallableStep {
	return schema.NewCallableStep[echoData](
		"echo", echoScope("EchoIn"),
		map[string]*schema.StepOutputSchema{"success": schema.NewStepOutputSchema(echoScope("EchoOut"), nil, false)},
		nil,
		func(_ context.Context, in echoData) (string, any) { return "success", in },
	)
}

// The "opt" step: every property of its input is optional or defaulted, so that an empty object is a valid input
// while "no input at all" (nil) is not an object and must come back as the step's error.
type optData struct {
	X int64  `json:"x"`
	Y string `json:"y"`
}

func optScope(id string) *schema.ScopeSchema {
	return schema.NewScopeSchema(schema.NewStructMappedObjectSchema[optData](id, map[string]*schema.PropertySchema{
		"x": schema.NewPropertySchema(schema.NewIntSchema(nil, nil, nil), nil, false, nil, nil, nil, schema.PointerTo("7"), nil),
		"y": optProp(schema.NewStringSchema(nil, nil, nil)),
	}))
}

func optStep() schema.CallableStep {
	return schema.NewCallableStep[optData](
		"opt", optScope("OptIn"),
		map[string]*schema.StepOutputSchema{"success": schema.NewStepOutputSchema(optScope("OptOut"), nil, false)},
		nil,
		func(_ context.Context, in optData) (string, any) { return "success", in },
	)
}

func optInputs() []any {
	return []any{nil, map[string]any{}, map[string]any{"x": 5}, map[string]any{"y": "s"}, "not a map", map[any]any{"x": "9", "y": "t"}, []any{}}
}

// echoInputs: raw inputs as a decoder or a careless caller may hand them over; index = payload number.
func echoInputs() []any {
	base := func() map[string]any {
		return map[string]any{"i": 7, "f": 1.5, "s": "x", "b": true, "l": []any{"a", "b"}, "m": map[string]any{"k": 3}, "e": "red"}
	}
	with := func(kv ...any) map[string]any {
		m := base()
		for i := 0; i+1 < len(kv); i += 2 {
			if kv[i+1] == nil {
				delete(m, kv[i].(string))
			} else {
				m[kv[i].(string)] = kv[i+1]
			}
		}
		return m
	}
	return []any{
		base(),
		with("i", uint8(200), "f", 3, "s", 12, "b", "yes"),
		with("i", "42", "f", "2.5", "m", map[any]any{"a": "1m30s", "b": uint64(9)}),
		with("n", map[string]any{"k": "key", "v": []any{1, uint16(2), 3.0}}),
		with("a", map[string]any{"deep": []any{1, "two", 3.5, map[any]any{"x": true}}}),
		with("o", int32(-5), "d", map[any]any{1: 1.25, uint8(2): 2}),
		with("l", []string{}, "m", map[string]int64{}),
		with("s", "héllo wörld ✓", "e", "green"),
		with("i", int64(1)<<62, "f", 1e9),
		// rejected by the input schema: the step's error must come back
		with("i", uint64(1)<<63),
		with("e", "blue"),
		with("s", nil),
		with("n", map[string]any{"k": "", "v": []any{}}),
		with("l", "not a list"),
		with("zzz", 1),
		"not a map at all",
		with("f", 1e10),
		with("n", map[string]any{"k": "k", "v": []any{1, 2, 3, 4, 5}}),
		// (19..21) valid again: non-finite floats - CBOR carries them, the schemas without bounds accept them
		with("d", map[any]any{1: math.Inf(1), 2: math.Inf(-1)}),
		with("a", map[string]any{"nan": math.NaN(), "inf": []any{math.Inf(1), 1.5}}),
		with("f", math.Inf(-1), "d", map[any]any{7: math.NaN()}),
	}
}

// cborNormal is what a value looks like after travelling as ATP transports it.
func cborNormal(v any) (any, error) {
	b, err := cbor.Marshal(v)
	if err != nil {
		return nil, err
	}
	var out any
	if err := cbor.Unmarshal(b, &out); err != nil {
		return nil, err
	}
	return out, nil
}

// sameWire compares two decoded wire values; byte-identical CBOR encodings (canonical map order is
// not assumed: maps are compared structurally).
func sameWire(a, b any) bool {
	if reflect.DeepEqual(a, b) {
		return true
	}
	ea, err1 := cbor.CoreDetEncOptions().EncMode()
	if err1 != nil {
		return false
	}
	ba, err := ea.Marshal(a)
	if err != nil {
		return false
	}
	bb, err := ea.Marshal(b)
	if err != nil {
		return false
	}
	return bytes.Equal(ba, bb)
}

type echoExpect struct {
	OutputID string
	Wire     any
	Err      string
}

// inProcess computes what calling the step directly returns for the payload.
func inProcess(plug *schema.CallableSchema, runID string, stepID string, payload any) echoExpect {
	id, data, err := plug.CallStep(context.Background(), runID, stepID, payload)
	if err != nil {
		return echoExpect{Err: err.Error()}
	}
	w, err := cborNormal(data)
	if err != nil {
		return echoExpect{Err: fmt.Sprintf("cbor: %v", err)}
	}
	return echoExpect{OutputID: id, Wire: w}
}

// ------------------------------------------------------------------ the "waitsig" step (C05: signals reach the run they are addressed to)
// Its output is the token its signal handler was given, so a signal that reaches another run shows up as
// another run's result.
type waitsigData struct{ ch chan string }

type tokIn struct {
	Token string `json:"token"`
}

func waitsigStep() schema.CallableStep {
	in := schema.NewScopeSchema(schema.NewStructMappedObjectSchema[stepIn]("WaitIn", map[string]*schema.PropertySchema{
		"name": prop(schema.NewStringSchema(nil, nil, nil)),
		"beh":  prop(schema.NewStringSchema(nil, nil, nil)),
	}))
	out := schema.NewScopeSchema(schema.NewStructMappedObjectSchema[stepOut]("WaitOut", map[string]*schema.PropertySchema{
		"message": prop(schema.NewStringSchema(nil, nil, nil)),
	}))
	tokScope := schema.NewScopeSchema(schema.NewStructMappedObjectSchema[tokIn]("Tok", map[string]*schema.PropertySchema{
		"token": prop(schema.NewStringSchema(nil, nil, nil)),
	}))
	tok := schema.NewCallableSignal[*waitsigData, tokIn]("tok", tokScope, nil, func(_ context.Context, d *waitsigData, in tokIn) {
		select {
		case d.ch <- in.Token:
		default:
		}
	})
	return schema.NewCallableStepWithSignals[*waitsigData, stepIn](
		"waitsig", in,
		map[string]*schema.StepOutputSchema{"success": schema.NewStepOutputSchema(out, nil, false)},
		map[string]schema.CallableSignal{"tok": tok},
		map[string]*schema.SignalSchema{},
		nil,
		func() *waitsigData { return &waitsigData{ch: make(chan string, 4)} },
		func(_ context.Context, d *waitsigData, in stepIn) (string, any) {
			select {
			case t := <-d.ch:
				return "success", stepOut{Message: t}
			case <-time.After(22 * time.Second):
				return "success", stepOut{Message: "no signal arrived"}
			}
		},
	)
}

// waitStepsBegun waits until the server has accepted n work-starts (event s.start: the run is registered with the server) - the settle heuristic alone
// is not enough on a loaded machine: a signal sent before its run's work-start has been handled is (rightly)
// answered with "unknown run" and dropped, which would be a fault of the harness, not of the code under test.
func (w *world) waitStepsBegun(n int, timeout time.Duration) bool {
	deadline := time.Now().Add(timeout)
	for {
		c := 0
		for _, e := range w.s.Events() {
			if e.Point == "s.start" {
				c++
			}
		}
		if c >= n {
			return true
		}
		if time.Now().After(deadline) {
			return false
		}
		time.Sleep(2 * time.Millisecond)
	}
}

// runSharedSig: sc.Runs overlapping calls of "waitsig" that were all given ONE signalsToStep channel; one signal per
// run, addressed by its run ID, sent in the rotated order sc.Seed.  Every call must return the token addressed to it
// (what CallStep + CallSignal return in-process).
func runSharedSig(sc scenario, res *result) {
	w := &world{sc: sc, res: map[string]*execResult{}, spawned: map[string]bool{}}
	w.s = sched.New(sched.Free)
	w.s.Classify = classify
	atp.VerifHook = w.s.Hook
	defer func() { atp.VerifHook = nil }()
	w.c2s = sched.NewPipe("c2s", w.s, sc.Cap)
	w.s2c = sched.NewPipe("s2c", w.s, sc.Cap)
	ctx, cancel := context.WithCancel(context.Background())
	defer cancel()
	plug := w.plugin()
	srvC := make(chan int, 1)
	go func() {
		errs := atp.RunATPServer(ctx, sched.ReadEnd{P: w.c2s}, sched.WriteEnd{P: w.s2c}, plug)
		w.s2c.CloseWrite()
		srvC <- len(errs)
	}()
	cli := atp.NewClientWithLogger(sched.Duplex{In: w.s2c, Out: w.c2s}, nil)
	if _, err := cli.ReadSchema(); err != nil {
		res.FollowErr = "handshake: " + err.Error()
		return
	}
	shared := make(chan schema.Input)
	type ret struct {
		id string
		r  atp.ExecutionResult
	}
	rets := make(chan ret, len(sc.Runs))
	for _, rs := range sc.Runs {
		rs := rs
		w.res[rs.ID] = &execResult{St: "none"}
		go func() {
			rets <- ret{rs.ID, cli.Execute(schema.Input{RunID: rs.ID, ID: "waitsig", InputData: map[string]any{"name": rs.ID, "beh": "ok"}}, shared, nil)}
		}()
	}
	n := len(sc.Runs)
	if !w.waitStepsBegun(n, 20*time.Second) {
		res.FollowErr = "the steps of the overlapping calls did not all begin"
		return
	}
	w.s.WaitSettled(stepTimeout) // every call has registered and its write loop waits on the shared channel
	for k := 0; k < n; k++ {
		id := sc.Runs[(k+int(sc.Seed))%n].ID
		w.s.Emit(sched.GoID(), "e.sig", map[string]any{"run": id}) // the caller addresses its next signal (before the send)
		select {
		case shared <- schema.Input{RunID: id, ID: "tok", InputData: map[string]any{"token": "token for " + id}}:
		case <-time.After(20 * time.Second):
			res.FollowErr = "nobody takes a signal from the shared channel"
			return
		}
	}
	deadline := time.After(35 * time.Second)
	for k := 0; k < n; k++ {
		select {
		case x := <-rets:
			e := w.res[x.id]
			e.Returns++
			if x.r.Error != nil {
				e.St, e.Err = "err", x.r.Error.Error()
				continue
			}
			e.St, e.Output = "ok", x.r.OutputID
			if m, ok := x.r.OutputData.(map[any]any); ok {
				e.Got, _ = m["message"].(string)
			} else if m, ok := x.r.OutputData.(map[string]any); ok {
				e.Got, _ = m["message"].(string)
			}
			e.TokenOK = e.Got == "token for "+x.id
		case <-deadline:
			res.Stuck = true
			for _, g := range sched.BlockedSDK() {
				res.StuckDetail = append(res.StuckDetail, fmt.Sprintf("%s [%s] %s", w.s.Role(g.ID), g.State, strings.TrimSpace(g.Top)))
			}
			sort.Strings(res.StuckDetail)
			k = n
		}
	}
	close(shared)
	closed := make(chan error, 1)
	go func() { closed <- cli.Close() }()
	select {
	case <-closed:
	case <-time.After(8 * time.Second):
		res.Stuck = true
		res.StuckDetail = append(res.StuckDetail, "Close does not return")
	}
	select {
	case <-srvC:
		res.ServerRet = true
	case <-time.After(3 * time.Second):
	}
	for id, e := range w.res {
		res.Results[id] = *e
	}
	res.Events = w.s.Events()
}

// ------------------------------------------------------------------ the "initfail" step (C07: a panicking step-data initializer)
// Its step-data initializer panics for the FIRST run that is started with beh = "initpanic" in a session - the
// initializer has no arguments, so the request is handed over through the world; the handler itself succeeds.
func (w *world) initfailStep() schema.CallableStep {
	in := schema.NewScopeSchema(schema.NewStructMappedObjectSchema[stepIn]("InitIn", map[string]*schema.PropertySchema{
		"name": prop(schema.NewStringSchema(nil, nil, nil)),
		"beh":  prop(schema.NewStringSchema(nil, nil, nil)),
	}))
	out := schema.NewScopeSchema(schema.NewStructMappedObjectSchema[stepOut]("InitOut", map[string]*schema.PropertySchema{
		"message": prop(schema.NewStringSchema(nil, nil, nil)),
	}))
	return schema.NewCallableStepWithSignals[*waitsigData, stepIn](
		"initfail", in,
		map[string]*schema.StepOutputSchema{"success": schema.NewStepOutputSchema(out, nil, false)},
		map[string]schema.CallableSignal{},
		map[string]*schema.SignalSchema{},
		nil,
		func() *waitsigData {
			w.mu.Lock()
			n := w.initCalls
			w.initCalls++
			w.mu.Unlock()
			if n == 0 {
				panic("the step-data initializer panics for the first run")
			}
			return &waitsigData{ch: make(chan string, 1)}
		},
		func(_ context.Context, _ *waitsigData, in stepIn) (string, any) {
			if w.stepGate != nil {
				w.stepGate(in.Name)
			}
			return "success", stepOut{Message: "hello " + in.Name}
		},
	)
}

// runReuseSig: a run ID used again right after its first call has returned, while the server goroutine of the FIRST
// run is still inside the Write call of its work-done (the bytes are with the client, the call has not returned: a
// write that returns late).  The second run is started and waits for its signal; only then does the first run's
// goroutine run on; then the signal for the second run is sent.  Whatever the first run's goroutine still does
// after its work-done must not touch the second run: the second call returns the token of ITS signal.
func runReuseSig(sc scenario, res *result) {
	w := &world{sc: sc, res: map[string]*execResult{}, spawned: map[string]bool{}}
	w.s = sched.New(sched.Free)
	w.s.Classify = classify
	atp.VerifHook = w.s.Hook
	defer func() { atp.VerifHook = nil }()
	w.c2s = sched.NewPipe("c2s", w.s, sc.Cap)
	w.s2c = sched.NewPipe("s2c", w.s, sc.Cap)
	ctx, cancel := context.WithCancel(context.Background())
	defer cancel()
	plug := w.plugin()
	srvC := make(chan int, 1)
	go func() {
		errs := atp.RunATPServer(ctx, sched.ReadEnd{P: w.c2s}, sched.WriteEnd{P: w.s2c}, plug)
		w.s2c.CloseWrite()
		srvC <- len(errs)
	}()
	cli := atp.NewClientWithLogger(sched.Duplex{In: w.s2c, Out: w.c2s}, nil)
	if _, err := cli.ReadSchema(); err != nil {
		res.FollowErr = "handshake: " + err.Error()
		return
	}
	w.s.Reset()
	w.s2c.PostGate = true
	w.s.SetDelay("t.s2c.write.post", 1) // the first server write of the session: the work-done of the first call
	w.s.SetMode(sched.Delay)
	defer w.s.SetMode(sched.Free)
	type ret struct {
		id string
		r  atp.ExecutionResult
	}
	begun := 0
	call := func(label, token string) *execResult {
		e := &execResult{St: "none"}
		w.res[label] = e
		to := make(chan schema.Input)
		done := make(chan atp.ExecutionResult, 1)
		go func() {
			done <- cli.Execute(schema.Input{RunID: "r1", ID: "waitsig", InputData: map[string]any{"name": "r1", "beh": "ok"}}, to, nil)
		}()
		begun++
		if !w.waitStepsBegun(begun, 20*time.Second) {
			res.FollowErr = "the step of the " + label + " call did not begin"
			return e
		}
		w.s.WaitSettled(stepTimeout) // registered, the step waits for its signal
		if label == "second" {
			// the first run's goroutine runs on only now
			if !w.s.IsParked("t.s2c.write.post") {
				res.FollowErr = "the first run's writer is not parked behind its work-done"
			} else if err := w.s.Release("t.s2c.write.post", stepTimeout); err != nil {
				res.FollowErr = "release: " + err.Error()
			}
		}
		select {
		case to <- schema.Input{RunID: "r1", ID: "tok", InputData: map[string]any{"token": token}}:
		case <-time.After(20 * time.Second):
			res.FollowErr = "nobody takes the signal of the " + label + " call"
		}
		close(to)
		select {
		case r := <-done:
			e.Returns++
			if r.Error != nil {
				e.St, e.Err = "err", r.Error.Error()
				return e
			}
			e.St, e.Output = "ok", r.OutputID
			if m, ok := r.OutputData.(map[any]any); ok {
				e.Got, _ = m["message"].(string)
			} else if m, ok := r.OutputData.(map[string]any); ok {
				e.Got, _ = m["message"].(string)
			}
			e.TokenOK = e.Got == token
		case <-time.After(25 * time.Second):
			res.Stuck = true
			for _, g := range sched.BlockedSDK() {
				res.StuckDetail = append(res.StuckDetail, fmt.Sprintf("%s [%s] %s", w.s.Role(g.ID), g.State, strings.TrimSpace(g.Top)))
			}
			sort.Strings(res.StuckDetail)
		}
		return e
	}
	call("first", "token of the first call")
	if !res.Stuck && res.FollowErr == "" {
		call("second", "token of the second call")
	}
	w.s.SetMode(sched.Free)
	if res.FollowErr != "" {
		// the scene could not be set: no verdict from this session (and no Close behind a call that was abandoned)
		res.Events = w.s.Events()
		return
	}
	closed := make(chan error, 1)
	go func() { closed <- cli.Close() }()
	select {
	case <-closed:
	case <-time.After(8 * time.Second):
		res.Stuck = true
		res.StuckDetail = append(res.StuckDetail, "Close does not return")
	}
	select {
	case <-srvC:
		res.ServerRet = true
	case <-time.After(3 * time.Second):
	}
	for id, e := range w.res {
		res.Results[id] = *e
	}
	res.Events = w.s.Events()
}
