// Command atp drives the real ATP client and server (atp/client.go, atp/server.go) for the
// conformance checks of C05-C08 against spec/ATP.tla.
//
// One case = one scenario (JSON). Modes:
//
//	replay  a behaviour of the specification (sequence of action labels) is executed by opening
//	        one gate at a time (spec -> code);
//	delay   a fixed workload runs freely except that one gate occurrence is held until every
//	        other goroutine is blocked (systematic delay exploration, code -> spec);
//	free    the workload runs without interference (stress).
//
// Every run returns its hook trace for validation by spec/ATPTrace.tla, the results of the
// Execute calls, and a structural verdict on liveness (stuck = nothing runnable, calls pending).
package main

import (
	"bytes"
	"context"
	"encoding/json"
	"errors"
	"io"

	"fmt"
	"github.com/fxamacker/cbor/v2"
	"sort"
	"strings"
	"sync"
	"time"

	"go.flow.arcalot.io/pluginsdk/atp"
	"go.flow.arcalot.io/pluginsdk/schema"
	"verif/harness/sched"
	"verif/harness/sup"
)

type runSpec struct {
	Echo   int    `json:"echo"` // > 0: call the "echo" step with payload number Echo-1 instead of "step"
	ID     string `json:"id"`
	Sig    bool   `json:"sig"`    // pass a signalsToStep channel and send one signal
	BadSig bool   `json:"badsig"` // the signal's payload is rejected by the handler's schema
	Beh    string `json:"beh"`    // ok | err | panic | nostep (Execute with a blank step ID)
	Emit   bool   `json:"emit"`   // pass a signalsFromStep channel
	// with As: pass the VERY channel the other caller of that run ID passes (a retry of the identical call)
	ShareFrom bool   `json:"share_from"`
	As        string `json:"as"`    // run ID to use instead of ID (a run ID used again, or - with Dup - while it is in flight)
	Dup       bool   `json:"dup"`   // As names a run ID that another caller of the same phase uses at the same time
	Step      string `json:"step"`  // with Echo > 0: "" = the echo step, "opt" = the all-optional step, "nosuch" = a step the plugin does not have
	After     string `json:"after"` // the step of this run finishes only when the caller of run After has returned (a slow step)
}

type action struct {
	A string `json:"a"`
	R string `json:"r"`
	N int    `json:"n"` // writes: number of fragments (2 = split); fills: fragments taken
}

type workload struct {
	Phases [][]string `json:"phases"` // runs started concurrently per phase
	Close  string     `json:"close"`  // end | race | none
}

type scriptOp struct {
	Op      string `json:"op"`   // send | partial | eof | finish | cancel | hold_reader | release_reader
	Kind    string `json:"kind"` // ws | sig | cd | bad | junk
	Run     string `json:"run"`
	Beh     string `json:"beh"`     // ok | err | panic | baddata | declared_error
	Variant string `json:"variant"` // see clientMessage
	Cut     int    `json:"cut"`     // partial: number of bytes written
}

type clientOp struct {
	Op   string `json:"op"` // exec | reply | unsol | garbage | partial | close_out | close_in | close | settle
	Run  string `json:"run"`
	Kind string `json:"kind"`
	// hello_srv: several items written with ONE Write call (the server's decoder gets them with one Read)
	Kinds []string `json:"kinds"`
	Emit  bool     `json:"emit"`
	Sig   bool     `json:"sig"` // exec: pass a signalsToStep channel that the caller leaves open
	// reply: the debug logs the work-done carries: "" | lf | crlf | cr (a progress bar redrawn with bare CRs) | blank
	// (only line ends) | long
	Logs string `json:"logs"`
}

// debugLogs renders a debug-log class of a scripted work-done.
func debugLogs(class string) string {
	switch class {
	case "lf":
		return "first line\nsecond line\n"
	case "crlf":
		return "first line\r\nsecond line\r\n"
	case "cr":
		return "progress 10%\rprogress 50%\rprogress 100%\rdone\n"
	case "blank":
		return "\n\r\n\n\r"
	case "long":
		return strings.Repeat("a fairly long debug line without any meaning\n", 200) + "last line without line end"
	}
	return ""
}

type faultSpec struct {
	Kind  string `json:"kind"` // eof | ioerr | corrupt | bitflip | lowzero
	At    int64  `json:"at"`   // byte offset of the server-to-client stream (after the hello unless Hello is set)
	Hello bool   `json:"hello"`
	Mask  int    `json:"mask"` // bitflip: the bit(s) inverted at that offset (0 = the lowest bit)
}

// corruptByte applies a corrupt / bitflip / lowzero fault to one byte.
func (f *faultSpec) corruptByte(b byte) byte {
	switch f.Kind {
	case "corrupt":
		return b ^ 0xff
	case "bitflip":
		return b ^ f.flipMask()
	case "lowzero":
		return b & 0xe0
	}
	return b
}

// flipMask is the mask a bitflip fault applies.
func (f *faultSpec) flipMask() byte {
	if f.Mask > 0 && f.Mask < 256 {
		return byte(f.Mask)
	}
	return 0x01
}

type scenario struct {
	Ops       []clientOp `json:"ops"`
	Fault     *faultSpec `json:"fault"`
	Version   int64      `json:"version"`
	HelloBad  string     `json:"hello_bad"` // "" | version | schema | garbage
	Script    []scriptOp `json:"script"`
	CutAt     int        `json:"cut_at"` // > 0: the byte stream of the script is cut at this offset, then EOF
	Mode      string     `json:"mode"`
	Cap       int        `json:"cap"`
	Frag      bool       `json:"frag"`
	Runs      []runSpec  `json:"runs"`
	Schedule  []action   `json:"schedule"`
	Work      workload   `json:"workload"`
	DelayKey  string     `json:"delay_key"`
	DelayNth  int        `json:"delay_nth"`
	Delay2Key string     `json:"delay2_key"` // optional second held gate occurrence (pairs of delays)
	Delay2Nth int        `json:"delay2_nth"`
	Seed      int64      `json:"seed"`
	// v1echo: the plugin writes its work-done as legacy v1 plugins did - no step_id key (the field came with the v2
	// envelope), debug logs present
	V1Legacy bool   `json:"v1_legacy"`
	ID       string `json:"id"`
}

type execResult struct {
	Fidelity string `json:"fidelity,omitempty"` // echo runs: "" = same as in-process, else what differs
	Got      string `json:"got,omitempty"`      // the "message" of the output (which run's result this is)
	St       string `json:"st"`                 // ok | err | none
	Output   string `json:"output,omitempty"`
	TokenOK  bool   `json:"token_ok"`
	Err      string `json:"err,omitempty"`
	Returns  int    `json:"returns"`
}

type result struct {
	ID         string                `json:"id"`
	Events     []sched.Event         `json:"events"`
	Results    map[string]execResult `json:"results"`
	CloseRet   bool                  `json:"close_ret"`
	CloseErr   string                `json:"close_err,omitempty"`
	ServerRet  bool                  `json:"server_ret"`
	ServerErrs int                   `json:"server_errs"`
	// server sessions: the ServerErrors RunATPServer returned and the error messages it wrote, both as
	// "run|stepFatal|serverFatal|text", in order
	ServerErrList []string `json:"server_err_list,omitempty"`
	WireErrList   []string `json:"wire_err_list,omitempty"`
	Stuck         bool     `json:"stuck"`
	ServerStalled bool     `json:"server_stalled"`
	StuckDetail   []string `json:"stuck_detail,omitempty"`
	FollowErr     string   `json:"follow_err,omitempty"`
	FollowAt      int      `json:"follow_at"`
	Gates         []string `json:"gates,omitempty"`
	DelayHit      bool     `json:"delay_hit"`
	Steps         int      `json:"steps"`
	Panic         string   `json:"panic,omitempty"`
	// server mode
	Accepted  map[string]int `json:"accepted,omitempty"`
	Terminals map[string]int `json:"terminals,omitempty"`
	Received  []string       `json:"received,omitempty"`
	StreamLen int            `json:"stream_len,omitempty"`
	// client mode: calls still pending while the stream was still open, and what an independent strict decode of
	// the (faulted) bytes written so far says: clean | waiting (an item is incomplete) | garbage (a decode error)
	PendingOpen   []string `json:"pending_open,omitempty"`
	StreamVerdict string   `json:"stream_verdict,omitempty"`
}

// ------------------------------------------------------------------ plugin under test
type stepIn struct {
	Name string `json:"name"`
	Beh  string `json:"beh"`
}
type stepOut struct {
	Message string `json:"message"`
}
type sigIn struct {
	Name string `json:"name"`
}

type world struct {
	s          *sched.Sched
	sc         scenario
	c2s        *sched.Pipe
	s2c        *sched.Pipe
	cli        atp.Client
	res        map[string]*execResult
	mu         sync.Mutex
	sigTo      map[string]chan schema.Input
	sigFrm     map[string]chan schema.Input
	initCalls  int // calls of the "initfail" step's initializer in this session
	srvErrList []string
	sigStop    map[string]chan struct{}
	sigSenders map[string][]chan struct{}
	callWG     sync.WaitGroup
	closeC     chan error
	srvC       chan int
	cancel     context.CancelFunc
	spawned    map[string]bool
	stepGate   func(run string)
	plug       *schema.CallableSchema
	dupRet     map[string]chan struct{} // run ID -> closed when the first caller using it has returned
	stepWaits  map[string]string        // run ID whose step waits -> run ID whose caller it waits for
}

func prop(t schema.Type) *schema.PropertySchema {
	return schema.NewPropertySchema(t, nil, true, nil, nil, nil, nil, nil)
}

func (w *world) plugin() *schema.CallableSchema {
	in := schema.NewScopeSchema(schema.NewStructMappedObjectSchema[stepIn]("In", map[string]*schema.PropertySchema{
		"name": prop(schema.NewStringSchema(nil, nil, nil)),
		"beh":  prop(schema.NewStringSchema(nil, nil, nil)),
	}))
	out := schema.NewScopeSchema(schema.NewStructMappedObjectSchema[stepOut]("Out", map[string]*schema.PropertySchema{
		"message": prop(schema.NewStringSchema(nil, nil, nil)),
	}))
	sigScope := schema.NewScopeSchema(schema.NewStructMappedObjectSchema[sigIn]("Sig", map[string]*schema.PropertySchema{
		"name": prop(schema.NewStringSchema(nil, nil, nil)),
	}))
	sig := schema.NewCallableSignal[any, sigIn]("sig", sigScope, nil, func(_ context.Context, _ any, in sigIn) {
		w.s.Gate(sched.GoID(), "h.sig|"+in.Name)
	})
	step := schema.NewCallableStepWithSignals[any, stepIn](
		"step", in,
		map[string]*schema.StepOutputSchema{
			"success": schema.NewStepOutputSchema(out, nil, false),
			"error":   schema.NewStepOutputSchema(out, nil, true),
		},
		map[string]schema.CallableSignal{"sig": sig},
		map[string]*schema.SignalSchema{},
		nil, nil,
		func(_ context.Context, _ any, in stepIn) (string, any) {
			w.s.Gate(sched.GoID(), "h.step|"+in.Name)
			if w.stepGate != nil {
				w.stepGate(in.Name)
			}
			switch in.Beh {
			case "err":
				return "undeclared", stepOut{Message: "x"}
			case "panic":
				panic("step handler panics on request")
			case "panic_int":
				panic(42)
			case "panic_err":
				panic(fmt.Errorf("step handler panics with an error value"))
			case "panic_struct":
				panic(struct{ A int }{7})
			case "panic_nilmap":
				var m map[string]int
				m["x"] = 1 // a runtime error
			case "baddata":
				return "success", 5
			case "declared_error":
				return "error", stepOut{Message: "hello " + in.Name}
			}
			return "success", stepOut{Message: "hello " + in.Name}
		},
	)
	return schema.NewCallableSchema(step, echoStep(), optStep(), waitsigStep(), w.initfailStep())
}

// ------------------------------------------------------------------ hook classification
func msgKind(m any) (string, string) {
	switch v := m.(type) {
	case nil:
		return "start", ""
	case atp.RuntimeMessage:
		switch v.MessageID {
		case atp.MessageTypeWorkStart:
			return "ws", v.RunID
		case atp.MessageTypeSignal:
			return "sig", v.RunID
		case atp.MessageTypeClientDone:
			return "cd", ""
		}
		return fmt.Sprintf("id%d", v.MessageID), v.RunID
	case atp.WorkStartMessage:
		return "v1ws", ""
	}
	return "other", ""
}

func kvMap(kv []any) map[string]any {
	m := map[string]any{}
	for i := 0; i+1 < len(kv); i += 2 {
		k, _ := kv[i].(string)
		switch v := kv[i+1].(type) {
		case nil:
			if k == "err" {
				m[k] = false
			}
		case error:
			m[k] = true
			m[k+"text"] = v.Error()
		case string, bool, int, int64, uint32:
			m[k] = v
		default:
			if k == "err" {
				m[k] = v != nil
			}
		}
	}
	return m
}

var inAll sync.Map // goroutine -> *[]string : runs delivered inside sendErrorToAll

func classify(point string, kv []any) (string, map[string]any, string) {
	m := kvMap(kv)
	run, _ := m["run"].(string)
	g := sched.GoID()
	if strings.HasPrefix(point, "y:") {
		return point, nil, "" // statement-level yield point inserted by cmd/yieldgen (build overlay)
	}
	switch point {
	// ---- client gates
	case "c.send.pre":
		k, r := msgKind(kv[1])
		return "c.send.pre|" + k + "|" + r, nil, ""
	case "c.register.pre", "c.wait.pre", "c.deliver.pre", "c.sigfwd.pre", "c.v1decode.pre", "c.v1lock.pre":
		return point + "|" + run, nil, ""
	case "c.deliverAll.pre":
		l := []string{}
		inAll.Store(g, &l)
		return point, nil, ""
	case "c.check.pre", "c.loopExit.pre", "c.close.wait.pre":
		return point, nil, ""
	case "c.decode.pre":
		return "", nil, "loop"
	case "c.close.pre":
		return point, nil, "close"
	case "c.wloop.begin.pre":
		return point + "|" + run, nil, "wloop:" + run
	// ---- client events
	case "c.exec":
		return "", m, "caller:" + run
	case "c.send", "c.sent":
		k, r := msgKind(kv[1])
		return "", map[string]any{"kind": k, "run": r}, ""
	case "c.deliver":
		if p, ok := inAll.Load(g); ok {
			l := p.(*[]string)
			if f, _ := m["found"].(bool); f {
				*l = append(*l, run)
			}
			return "", nil, ""
		}
		return "", m, ""
	case "c.deliverAll":
		runs := []string{}
		if p, ok := inAll.Load(g); ok {
			runs = *(p.(*[]string))
			inAll.Delete(g)
		}
		sort.Strings(runs)
		return "", map[string]any{"runs": runs, "n": m["n"]}, ""
	case "c.loop.start":
		return "", nil, ""
	case "c.register", "c.wait", "c.take", "c.decode", "c.sigfwd", "c.errmsg", "c.unknown", "c.check",
		"c.loopExit", "c.wloop.begin", "c.wloop.exit", "c.close.done", "c.close.ret", "c.v1decode":
		return "", m, ""
	// ---- server gates
	case "s.send.pre":
		return fmt.Sprintf("s.send.pre|%v|%s", m["id"], run), nil, ""
	case "s.errq.pre", "s.run.exit.pre", "s.return.pre":
		return point, nil, ""
	case "s.closure.select.pre":
		return point, nil, "closure"
	case "s.recv.pre":
		return "", nil, "srvloop"
	// ---- server events
	case "s.closure.begin":
		return "", nil, "closure"
	case "s.step.begin":
		return "", nil, "step:" + run
	case "s.sig.begin":
		return "", nil, "sig:" + run
	case "s.recv", "s.start", "s.signal", "s.stdin.close", "s.errq", "s.errq.close", "s.step.end", "s.step.panic",
		"s.step.done", "s.sig.done", "s.send", "s.sent", "s.closure.recv", "s.closure.fatal", "s.closure.exit", "s.return":
		return "", m, ""
	}
	return "", m, ""
}

// ------------------------------------------------------------------ scenario execution
const stepTimeout = 3 * time.Second

func (w *world) runSpec(id string) runSpec {
	for _, r := range w.sc.Runs {
		if r.ID == id {
			return r
		}
	}
	return runSpec{ID: id, Beh: "ok"}
}

func (w *world) spawnCaller(id string) {
	rs := w.runSpec(id)
	var to chan schema.Input
	var from chan schema.Input
	if rs.Sig {
		to = make(chan schema.Input)
		w.mu.Lock()
		w.sigTo[id] = to
		w.sigStop[id] = make(chan struct{})
		w.mu.Unlock()
	}
	if rs.Emit {
		w.mu.Lock()
		key := id
		if rs.ShareFrom && rs.As != "" {
			key = rs.As
		}
		if ch, ok := w.sigFrm[key]; ok {
			from = ch
		} else {
			from = make(chan schema.Input, 4)
			w.sigFrm[key] = from
		}
		w.mu.Unlock()
	}
	w.mu.Lock()
	w.res[id] = &execResult{St: "none"}
	w.spawned[id] = true
	w.mu.Unlock()
	w.callWG.Add(1)
	go func() {
		defer w.callWG.Done()
		var toR <-chan schema.Input
		if to != nil {
			toR = to
		}
		var fromW chan<- schema.Input
		if from != nil {
			fromW = from
		}
		stepID := "step"
		if rs.Beh == "nostep" {
			stepID = "" // the server answers with a step-fatal error that carries no run ID
		}
		var payload any = map[string]any{"name": id, "beh": rs.Beh}
		var want *echoExpect
		if rs.Echo > 0 {
			stepID = "echo"
			ins := echoInputs()
			switch rs.Step {
			case "opt":
				stepID, ins = "opt", optInputs()
			case "nosuch":
				stepID = "nosuch"
			}
			payload = ins[(rs.Echo-1)%len(ins)]
			x := inProcess(w.plug, id+"-inprocess", stepID, payload)
			want = &x
		}
		runID := id
		if rs.As != "" {
			runID = rs.As
			if rs.Echo == 0 {
				payload = map[string]any{"name": runID, "beh": rs.Beh}
			}
		}
		r := w.cli.Execute(schema.Input{RunID: runID, ID: stepID, InputData: payload}, toR, fromW)
		w.mu.Lock()
		defer w.mu.Unlock()
		if ch, ok := w.dupRet[runID]; ok {
			// one of the two callers of this run ID is back: the step may finish, signal channels are closed
			select {
			case <-ch:
			default:
				close(ch)
			}
			if rs.Dup || w.stepWaits[runID] == runID {
				go w.closeSignal(id)
			}
		}
		e := w.res[id]
		e.Returns++
		if r.Error != nil && strings.Contains(r.Error.Error(), "duplicate run ID") {
			e.St, e.Err = "dup", r.Error.Error()
			return
		}
		if want != nil {
			switch {
			case want.Err != "" && r.Error == nil:
				e.Fidelity = "in-process call fails (" + want.Err + ") but Execute succeeded"
			case want.Err == "" && r.Error != nil:
				e.Fidelity = "in-process call succeeds but Execute failed: " + r.Error.Error()
			case want.Err == "" && (r.OutputID != want.OutputID || !sameWire(r.OutputData, want.Wire)):
				e.Fidelity = fmt.Sprintf("output differs: over ATP (%s, %#v), in-process (%s, %#v)", r.OutputID, r.OutputData, want.OutputID, want.Wire)
			}
			if r.Error != nil {
				e.St, e.Err = "err", r.Error.Error()
			} else {
				e.St, e.Output, e.TokenOK = "ok", r.OutputID, e.Fidelity == ""
			}
			return
		}
		if r.Error != nil {
			e.St, e.Err = "err", r.Error.Error()
			if strings.Contains(e.Err, "failed to write work start") {
				e.St = "werr"
			}
			return
		}
		e.St, e.Output = "ok", r.OutputID
		if mm, ok := r.OutputData.(map[any]any); ok {
			if msg, ok := mm["message"].(string); ok {
				e.Got = msg
				if msg == "hello "+id {
					e.TokenOK = true
				}
			}
		}
	}()
}

func (w *world) sendSignal(id string) {
	rs := w.runSpec(id)
	w.mu.Lock()
	ch := w.sigTo[id]
	stop := w.sigStop[id]
	var done chan struct{}
	if ch != nil {
		done = make(chan struct{})
		w.sigSenders[id] = append(w.sigSenders[id], done)
	}
	w.mu.Unlock()
	if ch == nil {
		return
	}
	defer close(done)
	runID := id
	if rs.As != "" {
		runID = rs.As
	}
	var data any = map[string]any{"name": runID}
	if rs.BadSig {
		data = map[string]any{"bogus": 1}
	}
	select {
	case ch <- schema.Input{RunID: runID, ID: "sig", InputData: data}:
	case <-stop:
	}
}

// closeSignal closes the caller's signalsToStep channel (after abandoning a send nobody receives)
func (w *world) closeSignal(id string) {
	w.mu.Lock()
	ch := w.sigTo[id]
	stop := w.sigStop[id]
	senders := w.sigSenders[id]
	delete(w.sigTo, id)
	delete(w.sigSenders, id)
	w.mu.Unlock()
	if ch != nil {
		close(stop)
		for _, d := range senders {
			<-d
		}
		close(ch)
	}
}

func (w *world) spawnClose() {
	go func() {
		err := w.cli.Close()
		w.closeC <- err
	}()
}

// gate keys for the specification's actions; "" = the step happens by itself once enabled
func (w *world) do(a action) error {
	rel := func(key string) error { return w.s.Release(key, stepTimeout) }
	switch a.A {
	case "ExecBegin":
		w.spawnCaller(a.R)
		w.s.WaitSettled(stepTimeout)
		return nil
	case "Register":
		return rel("c.register.pre|" + a.R)
	case "SendLock":
		return rel("c.send.pre|ws|" + a.R)
	case "SendWrite", "WWrite", "CloseWrite":
		w.c2s.Force(a.N == 2, 0)
		return rel("t.c2s.write.pre")
	case "SendDone", "SendFail", "Take", "WDone", "CloseWritten", "LoopDecode", "SrvDecode", "StepWritten",
		"HWritten", "SrvCrashed", "StepEmit", "StepEmitted", "SrvLateClose":
		w.s.WaitSettled(stepTimeout)
		return nil
	case "GetResult":
		return rel("c.wait.pre|" + a.R)
	case "LoopFill", "LoopDecodeErr":
		w.s2c.Force(false, a.N)
		return rel("t.s2c.read.pre")
	case "LoopHandle":
		// whichever gate the read loop reached for this message
		for _, k := range w.s.ParkedKeys() {
			if strings.HasPrefix(k, "c.deliver.pre|") || strings.HasPrefix(k, "c.sigfwd.pre|") {
				return rel(k)
			}
		}
		w.s.WaitSettled(stepTimeout)
		return nil
	case "LoopFailAll":
		return rel("c.deliverAll.pre")
	case "LoopCheck":
		return rel("c.check.pre")
	case "LoopExit":
		return rel("c.loopExit.pre")
	case "WBegin":
		return rel("c.wloop.begin.pre|" + a.R)
	case "WLock":
		go w.sendSignal(a.R)
		return rel("c.send.pre|sig|" + a.R)
	case "WExit":
		w.closeSignal(a.R)
		w.s.WaitSettled(stepTimeout)
		return nil
	case "CloseCancel":
		w.spawnClose()
		return rel("c.close.pre")
	case "CloseBegin":
		w.s.WaitSettled(stepTimeout)
		return nil
	case "CloseLock":
		return rel("c.send.pre|cd|")
	case "CloseReturn":
		return rel("c.close.wait.pre")
	case "SrvFill", "SrvDecodeErr":
		w.c2s.Force(false, a.N)
		return rel("t.c2s.read.pre")
	case "SrvErrSend":
		return rel("s.errq.pre|srvloop")
	case "SrvHandle":
		if w.s.IsParked("s.errq.pre|srvloop") {
			return rel("s.errq.pre|srvloop")
		}
		w.s.WaitSettled(stepTimeout)
		return nil
	case "SrvRunExit":
		return rel("s.run.exit.pre")
	case "StepFinish", "StepFinishAs":
		return rel("h.step|" + a.R)
	case "StepFail":
		return rel("s.errq.pre|step:" + a.R)
	case "StepLock":
		return rel("s.send.pre|2|" + a.R)
	case "StepWrite", "HWrite":
		w.s2c.Force(a.N == 2, 0)
		return rel("t.s2c.write.pre")
	case "SigFinish", "SigFinishAs":
		if w.s.IsParked("s.errq.pre|sig:" + a.R) {
			return rel("s.errq.pre|sig:" + a.R)
		}
		return rel("h.sig|" + a.R)
	case "HRecv", "HClosed":
		return rel("s.closure.select.pre")
	case "HLock":
		for _, k := range w.s.ParkedKeys() {
			if strings.HasPrefix(k, "s.send.pre|5|") {
				return rel(k)
			}
		}
		return rel("s.send.pre|5|")
	case "SrvReturn":
		return rel("s.return.pre")
	}
	return fmt.Errorf("unknown action %q", a.A)
}

func (w *world) start() error {
	w.s.Classify = classify
	atp.VerifHook = w.s.Hook
	w.c2s = sched.NewPipe("c2s", w.s, w.sc.Cap)
	w.s2c = sched.NewPipe("s2c", w.s, w.sc.Cap)
	if w.sc.Frag {
		// seeded fragmentation and coalescing: messages split in two at a pseudo-random offset, reads
		// take a pseudo-random number of the fragments available
		seed := uint64(w.sc.Seed)*2654435761 + 12345
		next := func() uint64 { seed ^= seed << 13; seed ^= seed >> 7; seed ^= seed << 17; return seed }
		for _, p := range []*sched.Pipe{w.c2s, w.s2c} {
			p.SplitAt = func(n int, size int) int {
				if n <= 2 || size < 2 || next()%3 == 0 { // the handshake is not fragmented
					return 0
				}
				return 1 + int(next()%uint64(size-1))
			}
			p.MaxFrags = func(n int, avail int) int {
				if next()%2 == 0 {
					return 0
				}
				return 1 + int(next()%uint64(avail))
			}
		}
	}
	ctx, cancel := context.WithCancel(context.Background())
	w.cancel = cancel
	plug := w.plugin()
	w.plug = w.plugin() // a second instance for the in-process comparison (own step data)
	w.srvC = make(chan int, 1)
	go func() {
		errs := atp.RunATPServer(ctx, sched.ReadEnd{P: w.c2s}, sched.WriteEnd{P: w.s2c}, plug)
		// a plugin process that exits closes its output
		w.s2c.CloseWrite()
		w.mu.Lock()
		for _, e := range errs {
			// what the caller of RunATPServer is told, entry by entry (the entries must be distinct values)
			if e == nil {
				w.srvErrList = append(w.srvErrList, "<nil>")
				continue
			}
			text := "<nil>"
			if e.Err != nil {
				text = e.Err.Error()
			}
			w.srvErrList = append(w.srvErrList, fmt.Sprintf("%s|%t|%t|%s", e.RunID, e.StepFatal, e.ServerFatal, text))
		}
		w.mu.Unlock()
		w.srvC <- len(errs)
	}()
	w.cli = atp.NewClientWithLogger(sched.Duplex{In: w.s2c, Out: w.c2s}, nil)
	// handshake outside the recorded session; in controlled mode every gate except the closure
	// handler's select is opened as it is reached, so that the server ends up at its steady gates
	hs := make(chan error, 1)
	go func() {
		_, err := w.cli.ReadSchema()
		hs <- err
	}()
	for {
		select {
		case err := <-hs:
			if err != nil {
				return fmt.Errorf("handshake: %w", err)
			}
			w.parkServer()
			return nil
		default:
			w.parkServerOnce()
		}
	}
}

// wait for the end of the session or a structural deadlock
func (w *world) finish(res *result, wantClose bool) {
	callersDone := make(chan struct{})
	go func() { w.callWG.Wait(); close(callersDone) }()
	deadline := time.Now().Add(20 * time.Second)
	cDone, clDone, sDone := false, !wantClose, false
	quiet := 0
	for !(cDone && clDone && sDone) {
		select {
		case <-callersDone:
			cDone = true
			callersDone = nil
		case err := <-w.closeC:
			clDone = true
			res.CloseRet = true
			if err != nil {
				res.CloseErr = err.Error()
			}
		case n := <-w.srvC:
			sDone = true
			res.ServerRet = true
			res.ServerErrs = n
		case <-time.After(300 * time.Microsecond):
			if cDone && clDone && !wantClose {
				// nobody closes the session: the server legitimately keeps waiting for input
				return
			}
			if sched.Settled() {
				quiet++
			} else {
				quiet = 0
			}
			if quiet >= 20 || time.Now().After(deadline) {
				clientBlocked := false
				for _, g := range sched.BlockedSDK() {
					res.StuckDetail = append(res.StuckDetail, fmt.Sprintf("%s [%s] %s", w.s.Role(g.ID), g.State, strings.TrimSpace(g.Top)))
					if strings.Contains(g.Stack, "atp.(*client)") {
						clientBlocked = true
					}
				}
				sort.Strings(res.StuckDetail)
				if cDone && clDone && !clientBlocked {
					// every call has returned and no client goroutine is left: only the server has not
					// returned yet (e.g. it waits, up to its 60 s send timeout, for somebody to read a
					// message) - reported separately, not a stuck client
					res.ServerStalled = true
					return
				}
				res.Stuck = true
				return
			}
		}
	}
}

func runScenario(sc scenario) (res *result) {
	res = &result{ID: sc.ID, Results: map[string]execResult{}}
	if sc.Mode == "client" {
		runClientScenario(sc, res)
		return
	}
	if sc.Mode == "sharedsig" {
		runSharedSig(sc, res)
		return
	}
	if sc.Mode == "reusesig" {
		runReuseSig(sc, res)
		return
	}
	if sc.Mode == "v1echo" {
		runV1Echo(sc, res)
		return
	}
	if sc.Mode == "hello" {
		runHello(sc, res)
		return
	}
	if sc.Mode == "hello_srv" {
		runHelloServer(sc, res)
		return
	}
	mode := sched.Free
	if sc.Mode == "replay" {
		mode = sched.Controlled
	}
	w := &world{sc: sc, res: map[string]*execResult{}, sigTo: map[string]chan schema.Input{},
		sigFrm: map[string]chan schema.Input{}, sigStop: map[string]chan struct{}{}, sigSenders: map[string][]chan struct{}{}, closeC: make(chan error, 1), spawned: map[string]bool{}}
	w.s = sched.New(mode)
	if err := w.start(); err != nil {
		res.FollowErr = err.Error()
		return
	}
	defer func() {
		// the session is over: what the clean-up below provokes (context cancellation) is not part of it
		res.Events = w.s.Events()
		w.s.StopRecording()
		w.s.SetMode(sched.Free)
		w.cancel()
		w.mu.Lock()
		for id, e := range w.res {
			res.Results[id] = *e
		}
		w.mu.Unlock()
		atp.VerifHook = nil
	}()
	wantClose := false
	switch sc.Mode {
	case "server":
		w.serverSession(res)
	case "client":
		// handled by runClientScenario (no real server)
	case "replay":
		// the server's idle goroutines wait at their steady gates; follow the schedule
		w.s.Reset()
		for i, a := range sc.Schedule {
			if a.A == "CloseCancel" {
				wantClose = true
			}
			if err := w.do(a); err != nil {
				res.FollowErr = fmt.Sprintf("%s(%s): %v", a.A, a.R, err)
				res.FollowAt = i
				if cf, ok := err.(*sched.ErrCannotFollow); ok {
					res.StuckDetail = cf.Parked
				}
				break
			}
			res.Steps = i + 1
		}
		// let everything run to completion
		w.s.SetMode(sched.Free)
		for _, r := range sc.Runs {
			w.closeSignal(r.ID)
		}
		w.finish(res, wantClose)
	case "delay", "free":
		for _, r := range sc.Runs {
			watch := func(step, caller string) {
				if w.dupRet == nil {
					w.dupRet, w.stepWaits = map[string]chan struct{}{}, map[string]string{}
				}
				if _, ok := w.dupRet[caller]; !ok {
					w.dupRet[caller] = make(chan struct{})
				}
				w.stepWaits[step] = caller
			}
			if r.As != "" && r.Dup {
				// the step of a run ID used by two callers runs until one of them (the one refused as a duplicate) is back
				watch(r.As, r.As)
			}
			if r.After != "" {
				watch(r.ID, r.After)
			}
		}
		if w.dupRet != nil {
			w.stepGate = func(run string) {
				if c, ok := w.stepWaits[run]; ok {
					<-w.dupRet[c]
				}
			}
		}
		w.s.Reset()
		if sc.Mode == "delay" {
			w.s.SetDelay(sc.DelayKey, sc.DelayNth)
			if sc.Delay2Key != "" {
				w.s.SetDelay(sc.Delay2Key, sc.Delay2Nth)
			}
			w.s.SetMode(sched.Delay)
			stop := make(chan struct{})
			relDone := make(chan int, 1)
			go func() { relDone <- w.s.ReleaseDelayed(stop) }()
			defer func() {
				close(stop)
				res.DelayHit = <-relDone > 0
			}()
		}
		wantClose = sc.Work.Close == "end" || sc.Work.Close == "race"
		for pi, ph := range sc.Work.Phases {
			var sigs []string
			for _, id := range ph {
				w.spawnCaller(id)
				if w.runSpec(id).Sig {
					sigs = append(sigs, id)
				}
			}
			for _, id := range sigs {
				id := id
				go func() { w.sendSignal(id); w.closeSignal(id) }()
			}
			if sc.Work.Close == "race" && pi == len(sc.Work.Phases)-1 {
				w.spawnClose()
			}
			// next phase when the callers of this one have returned (or the run is stuck)
			if !w.waitCallers(res) {
				break
			}
		}
		if sc.Work.Close == "end" && !res.Stuck {
			w.spawnClose()
		}
		if !res.Stuck {
			w.finish(res, wantClose)
		}
		res.Gates = w.s.GateLog()
	}
	return
}

// waitCallers waits for all spawned callers; false if the run is structurally stuck
func (w *world) waitCallers(res *result) bool {
	done := make(chan struct{})
	go func() { w.callWG.Wait(); close(done) }()
	quiet := 0
	deadline := time.Now().Add(20 * time.Second)
	for {
		select {
		case <-done:
			return true
		case <-time.After(300 * time.Microsecond):
			if sched.Settled() {
				quiet++
			} else {
				quiet = 0
			}
			if quiet >= 30 || time.Now().After(deadline) {
				// the delayed goroutine counts as blocked only while it is held: give it time
				if w.s.IsParkedAny() {
					quiet = 0
					if !time.Now().After(deadline) {
						continue
					}
				}
				res.Stuck = true
				for _, g := range sched.BlockedSDK() {
					res.StuckDetail = append(res.StuckDetail, fmt.Sprintf("%s [%s] %s", w.s.Role(g.ID), g.State, strings.TrimSpace(g.Top)))
				}
				sort.Strings(res.StuckDetail)
				return false
			}
		}
	}
}

// parkServer releases gates until the server's goroutines wait at their steady gates
// (closure handler before its select; run loop blocked in Read)
func (w *world) parkServer() {
	for i := 0; i < 50; i++ {
		if !w.parkServerOnce() {
			return
		}
	}
}

func (w *world) parkServerOnce() bool {
	w.s.WaitSettled(stepTimeout)
	moved := false
	for _, k := range w.s.ParkedKeys() {
		if k != "s.closure.select.pre" {
			_ = w.s.Release(k, stepTimeout)
			moved = true
		}
	}
	if !moved {
		time.Sleep(50 * time.Microsecond)
	}
	return moved
}

// ------------------------------------------------------------------ C07: scripted client against the real server
func clientMessage(op scriptOp) []byte {
	enc := func(v any) []byte {
		b, err := cbor.Marshal(v)
		if err != nil {
			panic(err)
		}
		return b
	}
	stepID, runID := "step", op.Run
	var cfg any = map[string]any{"name": op.Run, "beh": op.Beh}
	switch op.Kind {
	case "ws":
		var data any
		switch op.Variant {
		case "unknown_step":
			stepID = "nope"
		case "init_step":
			stepID = "initfail" // a step with an initializer (which panics for the first run of a session that asks for it)
		case "bad_input":
			cfg = "not a map"
		case "nil_key_input":
			cfg = map[any]any{nil: "b", "name": op.Run, "beh": op.Beh}
		case "no_run":
			runID = ""
		case "no_step":
			stepID = ""
		}
		data = atp.WorkStartMessage{StepID: stepID, Config: cfg}
		if op.Variant == "payload_type" {
			data = "a string where a work-start message belongs"
		}
		if op.Variant == "no_run_key" {
			// the envelope has no run_id key at all (a missing field, not an empty one)
			return enc(map[string]any{"id": atp.MessageTypeWorkStart, "data": data})
		}
		return enc(atp.RuntimeMessage{MessageID: atp.MessageTypeWorkStart, RunID: runID, MessageData: data})
	case "sig":
		sigID := "sig"
		var d any = map[string]any{"name": op.Run}
		switch op.Variant {
		case "unknown_signal":
			sigID = "nope"
		case "bad_data":
			d = map[string]any{"bogus": 1}
		case "nil_key":
			d = map[any]any{nil: "b", "name": op.Run} // a CBOR map with a null key: well-formed, wrongly typed
		case "nil_only_key":
			d = map[any]any{nil: "b"}
		case "no_run":
			runID = ""
		}
		var data any = atp.SignalMessage{SignalID: sigID, Data: d}
		if op.Variant == "payload_type" {
			data = 17
		}
		if op.Variant == "no_run_key" {
			return enc(map[string]any{"id": atp.MessageTypeSignal, "data": data})
		}
		return enc(atp.RuntimeMessage{MessageID: atp.MessageTypeSignal, RunID: runID, MessageData: data})
	case "cd":
		return enc(atp.RuntimeMessage{MessageID: atp.MessageTypeClientDone, RunID: "", MessageData: map[string]any{}})
	case "bad":
		switch op.Variant {
		case "error_id":
			return enc(atp.RuntimeMessage{MessageID: atp.MessageTypeError, RunID: op.Run, MessageData: map[string]any{}})
		case "workdone_id":
			return enc(atp.RuntimeMessage{MessageID: atp.MessageTypeWorkDone, RunID: op.Run, MessageData: map[string]any{}})
		case "missing_fields":
			return enc(map[string]any{"foo": 1}) // decodes to a runtime message with ID 0
		}
		return enc(atp.RuntimeMessage{MessageID: 99, RunID: op.Run, MessageData: map[string]any{}})
	case "junk":
		switch op.Variant {
		case "int":
			return enc(42)
		case "array":
			return enc([]any{1, "x"})
		case "reserved":
			return []byte{0xff, 0xff, 0xff}
		}
		return []byte{0x1c} // reserved additional information: not well-formed CBOR
	}
	panic("unknown script message kind " + op.Kind)
}

func (w *world) serverSession(res *result) {
	w.s.Reset()
	res.Accepted, res.Terminals = map[string]int{}, map[string]int{}
	role := func(r string) { w.s.SetRole(r) }
	// reader: the client keeps reading and decodes what the server sends
	var readerPaused chan struct{}
	readerDone := make(chan struct{})
	go func() {
		defer close(readerDone)
		role("env:reader")
		dec := cbor.NewDecoder(sched.Duplex{In: w.s2c, Out: w.c2s})
		for {
			// a client that is slow to read: the script holds the reader back ("hold_reader" / "release_reader")
			w.mu.Lock()
			p := readerPaused
			w.mu.Unlock()
			if p != nil {
				<-p
			}
			var m atp.DecodedRuntimeMessage
			if err := dec.Decode(&m); err != nil {
				return
			}
			kind := fmt.Sprintf("id%d", m.MessageID)
			switch m.MessageID {
			case atp.MessageTypeWorkDone:
				kind = "wd"
				w.mu.Lock()
				res.Terminals[m.RunID]++
				w.mu.Unlock()
			case atp.MessageTypeError:
				var e atp.ErrorMessage
				_ = cbor.Unmarshal(m.RawMessageData, &e)
				kind = "err"
				w.mu.Lock()
				res.WireErrList = append(res.WireErrList, fmt.Sprintf("%s|%t|%t|%s", m.RunID, e.StepFatal, e.ServerFatal, e.Error))
				w.mu.Unlock()
				if e.ServerFatal {
					kind = "err_server"
				} else if e.StepFatal {
					kind = "err_step"
					if m.RunID != "" {
						w.mu.Lock()
						res.Terminals[m.RunID]++
						w.mu.Unlock()
					}
				}
			}
			w.mu.Lock()
			res.Received = append(res.Received, kind+":"+m.RunID)
			w.mu.Unlock()
		}
	}()
	// step handlers wait for their "finish" op
	gates := map[string]chan struct{}{}
	for _, op := range w.sc.Script {
		if op.Op == "finish" || (op.Op == "send" && op.Kind == "ws") {
			if _, ok := gates[op.Run]; !ok {
				gates[op.Run] = make(chan struct{})
			}
		}
	}
	w.stepGate = func(run string) {
		w.mu.Lock()
		g := gates[run]
		w.mu.Unlock()
		if g != nil {
			<-g
		}
	}
	released := map[string]bool{}
	release := func(run string) {
		if g, ok := gates[run]; ok && !released[run] {
			released[run] = true
			close(g)
		}
	}
	// writer: the script, sequentially; optionally cut at a byte offset
	role("env:writer")
	g := sched.GoID()
	written := 0
	ended := false
	for _, op := range w.sc.Script {
		if ended {
			break
		}
		switch op.Op {
		case "finish":
			release(op.Run)
			w.s.WaitSettled(stepTimeout)
		case "eof":
			w.s.Emit(g, "e.eof", map[string]any{})
			w.c2s.CloseWrite()
			ended = true
		case "cancel":
			// the server's context is cancelled (what a SIGTERM does to a plugin process)
			w.s.Emit(g, "e.cancel", map[string]any{})
			w.cancel()
			w.s.WaitSettled(stepTimeout)
		case "hold_reader":
			w.mu.Lock()
			if readerPaused == nil {
				readerPaused = make(chan struct{})
			}
			w.mu.Unlock()
		case "release_reader":
			w.mu.Lock()
			if readerPaused != nil {
				close(readerPaused)
				readerPaused = nil
			}
			w.mu.Unlock()
			w.s.WaitSettled(stepTimeout)
		case "send", "partial":
			b := clientMessage(op)
			whole := true
			if op.Op == "partial" && op.Cut > 0 && op.Cut < len(b) {
				b, whole = b[:op.Cut], false
			}
			if w.sc.CutAt > 0 && written+len(b) > w.sc.CutAt {
				b, whole = b[:w.sc.CutAt-written], false
			}
			if len(b) > 0 {
				// abstract kind and the run ID the server's reply will carry (spec/ATPServerEnv.tla)
				kind, run := op.Kind, op.Run
				switch {
				case op.Kind == "ws" && (op.Variant == "no_run" || op.Variant == "no_step" || op.Variant == "no_run_key"):
					kind, run = "wsbad", ""
				case op.Kind == "ws" && op.Variant == "payload_type":
					kind = "wsbad"
				case op.Kind == "sig" && (op.Variant == "no_run" || op.Variant == "no_run_key"):
					kind, run = "bad", ""
				case op.Kind == "sig" && op.Variant == "payload_type":
					kind = "bad"
				case op.Kind == "bad":
					run = ""
				case op.Kind == "cd" || op.Kind == "junk":
					run = ""
				}
				w.s.Emit(g, "e.send", map[string]any{"kind": kind, "run": run, "whole": whole, "variant": op.Variant})
				_, err := w.c2s.Write(b)
				written += len(b)
				if err != nil {
					w.s.Emit(g, "e.wfail", map[string]any{})
				}
			}
			if !whole || (w.sc.CutAt > 0 && written >= w.sc.CutAt) {
				w.s.Emit(g, "e.eof", map[string]any{})
				w.c2s.CloseWrite()
				ended = true
			}
		}
	}
	res.StreamLen = written
	w.mu.Lock()
	if readerPaused != nil {
		close(readerPaused)
		readerPaused = nil
	}
	w.mu.Unlock()
	if !ended {
		// the input always ends eventually
		w.s.WaitSettled(stepTimeout)
		w.s.Emit(g, "e.eof", map[string]any{})
		w.c2s.CloseWrite()
	}
	for run := range gates {
		release(run)
	}
	// the server must return once input has ended and steps have finished
	deadline := time.Now().Add(8 * time.Second)
	quiet := 0
	for {
		select {
		case n := <-w.srvC:
			res.ServerRet = true
			res.ServerErrs = n
			<-readerDone
			w.mu.Lock()
			res.ServerErrList = append([]string{}, w.srvErrList...)
			w.mu.Unlock()
			for _, e := range w.s.Events() {
				if e.Point == "s.start" {
					if r, ok := e.KV["run"].(string); ok {
						res.Accepted[r]++
					}
				}
			}
			return
		case <-time.After(300 * time.Microsecond):
			if sched.Settled() {
				quiet++
			} else {
				quiet = 0
			}
			if quiet >= 30 || time.Now().After(deadline) {
				res.Stuck = true
				if quiet < 30 {
					res.StuckDetail = append(res.StuckDetail, "livelock [running] goroutines keep running but the server does not return")
				}
				for _, g := range sched.BlockedSDK() {
					res.StuckDetail = append(res.StuckDetail, fmt.Sprintf("%s [%s] %s", w.s.Role(g.ID), g.State, strings.TrimSpace(g.Top)))
				}
				sort.Strings(res.StuckDetail)
				return
			}
		}
	}
}

// ------------------------------------------------------------------ C05 over the legacy v1 framing
// runV1Echo: the real client against a minimal ATP v1 server written here around the REAL CallableSchema
// (hello with version 1, then per unwrapped work-start one unwrapped work-done; v1 carries no run IDs and no
// error messages, so calls are strictly serial and a step error ends the stream). Every Execute result is
// compared with the in-process call, as in v3.
func runV1Echo(sc scenario, res *result) {
	w := &world{sc: sc, res: map[string]*execResult{}, sigTo: map[string]chan schema.Input{},
		sigFrm: map[string]chan schema.Input{}, sigStop: map[string]chan struct{}{}, sigSenders: map[string][]chan struct{}{},
		closeC: make(chan error, 1), spawned: map[string]bool{}}
	w.s = sched.New(sched.Free)
	w.s.Classify = classify
	atp.VerifHook = w.s.Hook
	defer func() { atp.VerifHook = nil }()
	w.c2s = sched.NewPipe("c2s", w.s, sc.Cap)
	w.s2c = sched.NewPipe("s2c", w.s, sc.Cap)
	if sc.Frag {
		seed := uint64(sc.Seed)*2654435761 + 99991
		next := func() uint64 { seed ^= seed << 13; seed ^= seed >> 7; seed ^= seed << 17; return seed }
		for _, p := range []*sched.Pipe{w.c2s, w.s2c} {
			p.SplitAt = func(n int, size int) int {
				if size < 2 || next()%3 == 0 {
					return 0
				}
				return 1 + int(next()%uint64(size-1))
			}
			p.MaxFrags = func(n int, avail int) int { return 1 + int(next()%uint64(avail)) }
		}
	}
	plug := w.plugin()
	w.plug = w.plugin()
	go func() {
		dec := cbor.NewDecoder(sched.ReadEnd{P: w.c2s})
		enc := cbor.NewEncoder(sched.WriteEnd{P: w.s2c})
		defer w.s2c.CloseWrite()
		var start any
		if dec.Decode(&start) != nil {
			return
		}
		ser, err := plug.SelfSerialize()
		if err != nil || enc.Encode(atp.HelloMessage{Version: 1, Schema: ser}) != nil {
			return
		}
		n := 0
		for {
			var ws atp.WorkStartMessage
			if dec.Decode(&ws) != nil {
				return
			}
			n++
			id, data, err := plug.CallStep(context.Background(), fmt.Sprintf("v1-%d", n), ws.StepID, ws.Config)
			if err != nil {
				return // v1 has no error message: the plugin gives up
			}
			var wd any = atp.WorkDoneMessage{StepID: ws.StepID, OutputID: id, OutputData: data}
			if sc.V1Legacy {
				wd = map[string]any{"output_id": id, "output_data": data, "debug_logs": debugLogs([]string{"lf", "cr", "crlf", "blank", "long"}[n%5])}
			}
			if enc.Encode(wd) != nil {
				return
			}
		}
	}()
	w.cli = atp.NewClientWithLogger(sched.Duplex{In: w.s2c, Out: w.c2s}, nil)
	if _, err := w.cli.ReadSchema(); err != nil {
		res.FollowErr = "v1 handshake: " + err.Error()
		return
	}
	for _, rs := range sc.Runs {
		w.spawnCaller(rs.ID)
		done := make(chan struct{})
		go func() { w.callWG.Wait(); close(done) }()
		select {
		case <-done:
		case <-time.After(15 * time.Second):
			res.Stuck = true
			for _, g := range sched.BlockedSDK() {
				res.StuckDetail = append(res.StuckDetail, fmt.Sprintf("%s [%s] %s", w.s.Role(g.ID), g.State, strings.TrimSpace(g.Top)))
			}
			return
		}
		if rs.Sig {
			// a caller that passed a signalsToStep channel closes it once its call is back (the v1 framing has no
			// signals: the channel is simply not used)
			w.closeSignal(rs.ID)
			w.s.WaitSettled(stepTimeout)
		}
	}
	// Close returns (a v1 session has no read loop and no client-done message to wait for)
	closed := make(chan error, 1)
	go func() { closed <- w.cli.Close() }()
	select {
	case <-closed:
		res.CloseRet = true
	case <-time.After(8 * time.Second):
		res.Stuck = true
		res.StuckDetail = append(res.StuckDetail, "Close does not return")
	}
	w.c2s.CloseWrite()
	w.mu.Lock()
	for id, e := range w.res {
		res.Results[id] = *e
	}
	w.mu.Unlock()
	res.Events = w.s.Events()
}

// ------------------------------------------------------------------ C08: real client against a scripted, breaking server stream
type fakeServer struct {
	w      *world
	mu     sync.Mutex
	cond   *sync.Cond
	got    map[string]int
	inEOF  bool
	legit  map[string]bool // runs for which an intact work-done was written
	sent   int64           // bytes written to the client after the hello
	stream []byte          // everything written after the hello (for the independent decode)
	frames [][]byte        // the same, message by message
}

func runClientScenario(sc scenario, res *result) {
	w := &world{sc: sc, res: map[string]*execResult{}, sigTo: map[string]chan schema.Input{},
		sigFrm: map[string]chan schema.Input{}, sigStop: map[string]chan struct{}{}, sigSenders: map[string][]chan struct{}{},
		closeC: make(chan error, 1), spawned: map[string]bool{}}
	w.s = sched.New(sched.Free)
	w.s.Classify = classify
	atp.VerifHook = w.s.Hook
	defer func() { atp.VerifHook = nil }()
	w.c2s = sched.NewPipe("c2s", w.s, 0)
	w.s2c = sched.NewPipe("s2c", w.s, 1<<20) // the fake server's writes never block
	fs := &fakeServer{w: w, got: map[string]int{}, legit: map[string]bool{}}
	fs.cond = sync.NewCond(&fs.mu)
	version := sc.Version
	if version == 0 {
		version = 3
	}
	enc := func(v any) []byte {
		b, err := cbor.Marshal(v)
		if err != nil {
			panic(err)
		}
		return b
	}
	// hello
	plug := w.plugin()
	ser, err := plug.SelfSerialize()
	if err != nil {
		res.FollowErr = "SelfSerialize: " + err.Error()
		return
	}
	var hello []byte
	switch sc.HelloBad {
	case "version":
		hello = enc(atp.HelloMessage{Version: 99, Schema: ser})
	case "schema":
		hello = enc(atp.HelloMessage{Version: version, Schema: map[string]any{"steps": "not a map"}})
	case "garbage":
		hello = []byte{0xff, 0x00, 0x1c}
	default:
		hello = enc(atp.HelloMessage{Version: version, Schema: ser})
	}
	if sc.Fault != nil && sc.Fault.Hello {
		applyFault(w.s2c, sc.Fault, 0)
	}
	// reader of the client's messages
	go func() {
		w.s.SetRole("env:reader")
		dec := cbor.NewDecoder(sched.Duplex{In: w.c2s, Out: w.s2c})
		var start any
		if err := dec.Decode(&start); err != nil {
			return
		}
		_, _ = w.s2c.Write(hello)
		fs.mu.Lock()
		fs.got["#hello"] = 1
		fs.cond.Broadcast()
		fs.mu.Unlock()
		for {
			if version == 1 {
				var ws atp.WorkStartMessage
				if err := dec.Decode(&ws); err != nil {
					break
				}
				fs.mu.Lock()
				fs.got["#v1"]++
				fs.cond.Broadcast()
				fs.mu.Unlock()
				continue
			}
			var m atp.DecodedRuntimeMessage
			if err := dec.Decode(&m); err != nil {
				break
			}
			if m.MessageID == atp.MessageTypeWorkStart {
				fs.mu.Lock()
				fs.got[m.RunID]++
				fs.cond.Broadcast()
				fs.mu.Unlock()
			}
		}
		fs.mu.Lock()
		fs.inEOF = true
		fs.cond.Broadcast()
		fs.mu.Unlock()
	}()
	w.cli = atp.NewClientWithLogger(sched.Duplex{In: w.s2c, Out: w.c2s}, nil)
	// handshake
	hsErr := make(chan error, 1)
	go func() {
		_, err := w.cli.ReadSchema()
		hsErr <- err
	}()
	// a corrupted length can make the decoder wait for bytes that never come: the stream then ends
	go func() {
		fs.mu.Lock()
		for fs.got["#hello"] == 0 {
			fs.cond.Wait()
		}
		fs.mu.Unlock()
		time.Sleep(2 * time.Millisecond)
		w.s.WaitSettled(stepTimeout)
		select {
		case err := <-hsErr:
			hsErr <- err
		default:
			if sc.HelloBad != "" || (sc.Fault != nil && sc.Fault.Hello) {
				w.s2c.CloseWrite()
			}
		}
	}()
	select {
	case err := <-hsErr:
		if err != nil {
			res.Results["#schema"] = execResult{St: "err", Err: err.Error(), Returns: 1}
			if sc.HelloBad == "" && (sc.Fault == nil || !sc.Fault.Hello) {
				res.FollowErr = "handshake failed without a fault: " + err.Error()
			}
		} else {
			res.Results["#schema"] = execResult{St: "ok", Returns: 1}
		}
	case <-time.After(10 * time.Second):
		res.Stuck = true
		res.StuckDetail = []string{"ReadSchema did not return"}
		return
	}
	if res.Results["#schema"].St != "ok" {
		return
	}
	w.s.WaitSettled(stepTimeout)
	w.s.Reset()
	if sc.Fault != nil && !sc.Fault.Hello {
		applyFault(w.s2c, sc.Fault, int64(len(hello)))
	}
	g := sched.GoID()
	w.s.SetRole("env:writer")
	put := func(b []byte) {
		fs.stream = append(fs.stream, b...)
		fs.frames = append(fs.frames, append([]byte{}, b...))
		_, _ = w.s2c.Write(b)
	}
	waitGot := func(key string) bool {
		deadline := time.Now().Add(300 * time.Millisecond)
		fs.mu.Lock()
		defer fs.mu.Unlock()
		for fs.got[key] == 0 && !fs.inEOF {
			if time.Now().After(deadline) {
				return false
			}
			fs.mu.Unlock()
			time.Sleep(100 * time.Microsecond)
			fs.mu.Lock()
		}
		return fs.got[key] > 0
	}
	wantClose := false
	outClosed := false
	v1pending := 0
	for _, op := range sc.Ops {
		switch op.Op {
		case "exec":
			rs := runSpec{ID: op.Run, Beh: "ok", Emit: op.Emit, Sig: op.Sig}
			w.sc.Runs = append(w.sc.Runs, rs)
			w.spawnCaller(op.Run)
			if version == 1 {
				v1pending++
			}
		case "reply":
			key := op.Run
			if version == 1 {
				key = "#v1"
			}
			if outClosed || !waitGot(key) {
				break
			}
			if version == 1 {
				put(enc(atp.WorkDoneMessage{StepID: "step", OutputID: "success", OutputData: map[string]any{"message": "hello " + op.Run}}))
				fs.legit[op.Run] = true
				break // (not continue: the settle below keeps v1 calls strictly serial)
			}
			if op.Kind == "err" {
				w.s.Emit(g, "f.reply", map[string]any{"run": op.Run, "kind": "err"})
				put(enc(atp.RuntimeMessage{MessageID: atp.MessageTypeError, RunID: op.Run,
					MessageData: atp.ErrorMessage{Error: "step failed", StepFatal: true}}))
			} else {
				w.s.Emit(g, "f.reply", map[string]any{"run": op.Run, "kind": "ok"})
				fs.legit[op.Run] = true
				put(enc(atp.RuntimeMessage{MessageID: atp.MessageTypeWorkDone, RunID: op.Run,
					MessageData: atp.WorkDoneMessage{StepID: "step", OutputID: "success", OutputData: map[string]any{"message": "hello " + op.Run},
						DebugLogs: debugLogs(op.Logs)}}))
			}
		case "unsol":
			if outClosed {
				break
			}
			var m any
			run := ""
			switch op.Kind {
			case "err_server":
				m = atp.RuntimeMessage{MessageID: atp.MessageTypeError, RunID: "", MessageData: atp.ErrorMessage{Error: "fatal", StepFatal: true, ServerFatal: true}}
			case "err_none":
				// a non-fatal error: about no run in particular, or (op.Run) about a pending, finished or unknown run
				run = op.Run
				m = atp.RuntimeMessage{MessageID: atp.MessageTypeError, RunID: op.Run, MessageData: atp.ErrorMessage{Error: "note"}}
			case "err_step":
				m = atp.RuntimeMessage{MessageID: atp.MessageTypeError, RunID: "", MessageData: atp.ErrorMessage{Error: "step fatal without run", StepFatal: true}}
			case "bad":
				m = atp.RuntimeMessage{MessageID: 77, RunID: "", MessageData: map[string]any{}}
			case "sig":
				run = op.Run
				m = atp.RuntimeMessage{MessageID: atp.MessageTypeSignal, RunID: op.Run, MessageData: atp.SignalMessage{SignalID: "sig", Data: map[string]any{"name": op.Run}}}
			case "wd_dup":
				run = op.Run
				fs.legit[op.Run] = true
				m = atp.RuntimeMessage{MessageID: atp.MessageTypeWorkDone, RunID: op.Run,
					MessageData: atp.WorkDoneMessage{StepID: "step", OutputID: "success", OutputData: map[string]any{"message": "dup"}}}
			}
			w.s.Emit(g, "f.unsol", map[string]any{"kind": op.Kind, "run": run})
			put(enc(m))
		case "garbage":
			if outClosed {
				break
			}
			w.s.Emit(g, "f.garbage", map[string]any{})
			put([]byte{0xff, 0x1c, 0x1c, 0x00})
		case "partial":
			if outClosed || !waitGot(op.Run) {
				break
			}
			b := enc(atp.RuntimeMessage{MessageID: atp.MessageTypeWorkDone, RunID: op.Run,
				MessageData: atp.WorkDoneMessage{StepID: "step", OutputID: "success", OutputData: map[string]any{"message": "hello " + op.Run}}})
			w.s.Emit(g, "f.partial", map[string]any{"run": op.Run})
			put(b[:len(b)/2])
			w.s2c.CloseWrite()
			outClosed = true
		case "close_out":
			if !outClosed {
				w.s.Emit(g, "f.close_out", map[string]any{})
				if op.Kind == "ioerr" {
					w.s2c.CutErr = sched.ErrInjected
				}
				w.s2c.CloseWrite()
				outClosed = true
			}
		case "close_in":
			w.c2s.CloseRead()
		case "close":
			wantClose = true
			w.spawnClose()
		}
		w.s.WaitSettled(stepTimeout)
	}
	// the stream always ends eventually
	if !outClosed {
		w.s.WaitSettled(stepTimeout)
		if sc.Fault != nil && !sc.Fault.Hello && (sc.Fault.Kind == "corrupt" || sc.Fault.Kind == "bitflip" || sc.Fault.Kind == "lowzero") {
			res.StreamVerdict = independentStream(fs.stream, sc.Fault, version)
			w.mu.Lock()
			for id, e := range w.res {
				if e.Returns == 0 {
					res.PendingOpen = append(res.PendingOpen, id)
				}
			}
			w.mu.Unlock()
			sort.Strings(res.PendingOpen)
		}
		w.s.Emit(g, "f.close_out", map[string]any{})
		w.s2c.CloseWrite()
	}
	w.c2s.CloseRead() // nobody reads the client's messages any more: its writes fail instead of blocking
	// wait for every call to return, or a structural deadlock
	callersDone := make(chan struct{})
	go func() { w.callWG.Wait(); close(callersDone) }()
	deadline := time.Now().Add(8 * time.Second)
	cDone, clDone := false, !wantClose
	quiet := 0
	for !(cDone && clDone) {
		select {
		case <-callersDone:
			cDone = true
			callersDone = nil
		case err := <-w.closeC:
			clDone = true
			res.CloseRet = true
			if err != nil {
				res.CloseErr = err.Error()
			}
		case <-time.After(300 * time.Microsecond):
			if sched.Settled() {
				quiet++
			} else {
				quiet = 0
			}
			if quiet >= 30 || time.Now().After(deadline) {
				res.Stuck = true
				for _, g := range sched.BlockedSDK() {
					res.StuckDetail = append(res.StuckDetail, fmt.Sprintf("%s [%s] %s", w.s.Role(g.ID), g.State, strings.TrimSpace(g.Top)))
				}
				sort.Strings(res.StuckDetail)
				cDone, clDone = true, true
			}
		}
	}
	w.mu.Lock()
	for id, e := range w.res {
		res.Results[id] = *e
	}
	w.mu.Unlock()
	res.Events = w.s.Events()
	// independent decode of what the client could have read: which runs have an intact work-done
	res.Received = independentDecode(fs.frames, sc.Fault, version)
	res.StreamLen = len(fs.stream)
}

// applyFault arms the pipe with a positional fault (offset relative to base)
func applyFault(p *sched.Pipe, f *faultSpec, base int64) {
	switch f.Kind {
	case "eof":
		p.CutAfter = base + f.At
		if p.CutAfter == 0 {
			p.CutAfter = -1
		}
	case "ioerr":
		p.CutAfter = base + f.At
		if p.CutAfter == 0 {
			p.CutAfter = -1
		}
		p.CutErr = sched.ErrInjected
	case "corrupt":
		p.FlipAt = base + f.At
	case "bitflip":
		p.FlipAt = base + f.At
		p.FlipMask = f.flipMask()
	case "lowzero":
		p.FlipAt = base + f.At
		p.FlipLowZero = true
	}
}

// independentStream decodes the bytes the scripted server has written so far, with the fault applied, the way a
// strict stream decoder sees them: "garbage" if some item fails to decode, "waiting" if the last item is
// incomplete, "clean" otherwise.
func independentStream(stream []byte, f *faultSpec, version int64) string {
	b := append([]byte{}, stream...)
	if f.At >= 0 && f.At < int64(len(b)) {
		b[f.At] = f.corruptByte(b[f.At])
	}
	strict, err := cbor.DecOptions{ExtraReturnErrors: cbor.ExtraDecErrorUnknownField}.DecMode()
	if err != nil {
		panic(err)
	}
	dec := strict.NewDecoder(bytes.NewReader(b))
	for {
		var err error
		if version == 1 {
			var m atp.WorkDoneMessage
			err = dec.Decode(&m)
		} else {
			var m atp.DecodedRuntimeMessage
			err = dec.Decode(&m)
		}
		switch {
		case err == nil:
			continue
		case err == io.EOF:
			return "clean"
		case errors.Is(err, io.ErrUnexpectedEOF):
			return "waiting"
		default:
			return "garbage"
		}
	}
}

// independentDecode decides, message by message and independently of the client, which work-done messages
// survive the fault intact: a message lying entirely before a cut, or whose bytes - with the inverted byte
// applied if it falls inside - still decode to a well-formed work-done. Result: "wd:<run>" per such message.
func independentDecode(frames [][]byte, f *faultSpec, version int64) []string {
	out := []string{}
	// a message is intact only if every key is one the protocol defines (a garbled key is not "intact")
	strict, err := cbor.DecOptions{ExtraReturnErrors: cbor.ExtraDecErrorUnknownField}.DecMode()
	if err != nil {
		panic(err)
	}
	off := int64(0)
	for _, fr := range frames {
		b := append([]byte{}, fr...)
		start, end := off, off+int64(len(fr))
		off = end
		if f != nil && !f.Hello {
			switch f.Kind {
			case "eof", "ioerr":
				if f.At < end {
					continue // cut before the end of this message
				}
			case "corrupt", "bitflip", "lowzero":
				if f.At >= start && f.At < end {
					b[f.At-start] = f.corruptByte(b[f.At-start])
				}
			}
		}
		if version == 1 {
			var m atp.WorkDoneMessage
			if strict.Unmarshal(b, &m) == nil {
				out = append(out, "wd:#v1")
			}
			continue
		}
		var m atp.DecodedRuntimeMessage
		if strict.Unmarshal(b, &m) != nil {
			continue
		}
		if m.MessageID == atp.MessageTypeWorkDone {
			var wd atp.WorkDoneMessage
			if strict.Unmarshal(m.RawMessageData, &wd) == nil {
				out = append(out, "wd:"+m.RunID)
			}
		}
	}
	return out
}

func handle(raw json.RawMessage) any {
	var sc scenario
	if err := json.Unmarshal(raw, &sc); err != nil {
		return map[string]any{"harness_error": err.Error()}
	}
	res := runScenario(sc)
	// goroutines of the SDK that outlive the session (a server waiting out its 60 s send timeout, a stuck
	// caller) would call the next session's hook: give them a moment, then ask for a fresh process
	for i := 0; i < 20 && len(sched.BlockedSDK()) > 0; i++ {
		time.Sleep(200 * time.Microsecond)
	}
	if len(sched.BlockedSDK()) > 0 {
		sup.RequestRestart()
	}
	return res
}

func main() { sup.Main(handle) }
