// Command scopes is the conformance driver for C14 (spec/Scopes.tla).
//
// Cases:
//
//	{"op":"tree","tid":..,"tree":AST,"ext":{table:AST},"states":[{hist,link,vr,next}],
//	 "canon":{"nstab":{ns:table},"k":K,"inl":[AST]?,"raws":[{raw,exp}]},"gen":{"seed":S,"n":N,"deep":[..]},"skip":[raw..]}
//	    one tree of ScopesMC with every distinct link state TLC found (one witness sequence each plus
//	    all calls possible in that state) and the inputs of the canonical fully linked state
//	{"op":"rand","seed":S,"size":Z,"n":N,"deep":[..]}
//	    one seeded random run on a bigger tree; emits trace lines for ScopesTrace.tla
//
// The tree is built with the public constructors only; links are observed through
// ObjectReady()/GetObject() (pointer identity and the marker property of the object).
package main

import (
	"encoding/json"
	"fmt"
	"os"
	"reflect"
	"runtime/pprof"
	"strings"

	"go.flow.arcalot.io/pluginsdk/schema"
	"verif/harness/sup"
)

type actT struct {
	Op    string `json:"op"`
	Scope string `json:"scope"`
	NS    string `json:"ns"`
	Table string `json:"table"`
}

type nextT struct {
	Act  actT              `json:"act"`
	Diff map[string]string `json:"diff"`
	VR   map[string]bool   `json:"vr"`
}

type stateT struct {
	Hist []actT            `json:"hist"`
	Link map[string]string `json:"link"`
	VR   map[string]bool   `json:"vr"`
	Next []nextT           `json:"next"`
}

type rawT struct {
	K     string `json:"k"`
	S     string `json:"s"`
	Items []struct {
		Key string `json:"key"`
		Val *rawT  `json:"val"`
	} `json:"items"`
}

type expT struct {
	OK bool  `json:"ok"`
	V  *rawT `json:"v"`
}

type canonT struct {
	// CLink: the link table of the canonical fully linked state; RB / RBVR: link table and
	// ValidateReferences verdict of the tree rebuilt from its description (one ApplySelf on the root)
	CLink map[string]string `json:"clink"`
	RB    map[string]string `json:"rb"`
	RBVR  bool              `json:"rbvr"`
	NsTab map[string]string `json:"nstab"`
	K     int               `json:"k"`
	Inl   []*T              `json:"inl"`
	Raws  []struct {
		Raw *rawT `json:"raw"`
		Exp expT  `json:"exp"`
	} `json:"raws"`
}

type genT struct {
	Seed int64 `json:"seed"`
	N    int   `json:"n"`
	Deep []int `json:"deep"`
}

type caseT struct {
	Op     string          `json:"op"`
	Tid    json.RawMessage `json:"tid"`
	Tree   *T              `json:"tree"`
	Ext    map[string]*T   `json:"ext"`
	States []stateT        `json:"states"`
	Canon  *canonT         `json:"canon"`
	Gen    genT            `json:"gen"`
	Skip   []string        `json:"skip"`
	// SkipLoops: leave out the inputs that lead a chain of single-property shorthands back to
	// its start (set by the orchestrator after such an input killed the process once)
	SkipLoops bool  `json:"skip_loops"`
	Seed      int64 `json:"seed"`
	Size      int   `json:"size"`
	N         int   `json:"n"`
	Deep      []int `json:"deep"`
}

type mismatch struct {
	Sig    map[string]any `json:"sig"`
	Detail map[string]any `json:"detail"`
	Drift  bool           `json:"drift,omitempty"`
}

type resT struct {
	Evals      int              `json:"evals"`
	Steps      int              `json:"steps"`
	Inputs     int              `json:"inputs"`
	Deepest    int              `json:"deepest"`
	Loops      int              `json:"loops"`
	Spelled    int              `json:"spelled"` // inputs also run in their shorthand spelling
	Mismatches []mismatch       `json:"mismatches,omitempty"`
	Trace      []map[string]any `json:"trace,omitempty"`
	Keys       []string         `json:"keys,omitempty"`
	BindError  string           `json:"bind_error,omitempty"`
	HarnessErr string           `json:"harness_error,omitempty"`
	lastErr    string
}

func (r *resT) add(drift bool, sig map[string]any, detail map[string]any) {
	if len(r.Mismatches) < 40 {
		r.Mismatches = append(r.Mismatches, mismatch{Sig: sig, Detail: detail, Drift: drift})
	}
}

// ---------------------------------------------------------------- a session: one tree being driven

type session struct {
	tree        *T
	ext         map[string]*T
	w           *world
	extW        map[string]*schema.ScopeSchema
	refTags     []string
	sites       map[string]site
	inTree      map[string]bool // scope tags of the tree proper (not of the external scopes)
	treeObj     map[string]bool // object tags of the tree proper
	treeRefTags []string
	extNS       []string // tags of the external scopes that themselves wait for a namespace
}

func newSession(tree *T, ext map[string]*T) *session {
	s := &session{tree: tree, ext: ext, w: newWorld(true), extW: map[string]*schema.ScopeSchema{}, sites: map[string]site{}}
	s.w.index(tree)
	s.inTree = map[string]bool{}
	for g := range s.w.scopeAST {
		s.inTree[g] = true
	}
	s.treeObj = map[string]bool{}
	for g := range s.w.objAST {
		s.treeObj[g] = true
	}
	var st []site
	refSites(tree, nil, "", &st)
	for _, x := range st {
		s.treeRefTags = append(s.treeRefTags, x.ref.Tag)
	}
	for _, name := range sortedKeys(ext) {
		s.w.index(ext[name])
		refSites(ext[name], nil, "", &st)
	}
	for _, x := range st {
		s.refTags = append(s.refTags, x.ref.Tag)
		s.sites[x.ref.Tag] = x
	}
	for _, name := range sortedKeys(ext) {
		var es []site
		refSites(ext[name], nil, "", &es)
		for _, x := range es {
			if x.ref.NS != "" {
				s.extNS = append(s.extNS, ext[name].Tag)
				break
			}
		}
	}
	// the external scopes exist before the tree (separately constructed, inner scopes first)
	for _, name := range sortedKeys(ext) {
		var ss []*T
		scopesPostOrder(ext[name], &ss)
		for _, sc := range ss {
			s.w.buildScope(sc)
		}
		s.extW[name] = s.w.scopes[ext[name].Tag]
	}
	return s
}

// step performs one application; a "self" on a scope that does not exist yet constructs it.
func (s *session) step(a actT) *sup.PanicInfo {
	return sup.Guard(func() {
		switch a.Op {
		case "self":
			if sc, ok := s.w.scopes[a.Scope]; ok {
				sc.ApplySelf()
			} else {
				s.w.buildScope(s.w.scopeAST[a.Scope])
			}
		case "ns":
			if s.w.scopes[a.Scope] == nil || s.extW[a.Table] == nil {
				panic(harnessErr("HARNESS: call on a scope or table that does not exist: " + a.Scope + "/" + a.Table))
			}
			s.w.scopes[a.Scope].ApplyNamespace(s.extW[a.Table].Objects(), a.NS)
		default:
			panic(harnessErr("HARNESS: unknown action " + a.Op))
		}
	})
}

func (s *session) vr() map[string]bool {
	out := map[string]bool{}
	for g, sc := range s.w.scopes {
		if !s.inTree[g] {
			continue
		}
		out[g] = sc.ValidateReferences() == nil
	}
	for _, g := range s.extNS {
		out[g] = s.w.scopes[g].ValidateReferences() == nil
	}
	return out
}

func isHarnessPanic(pi *sup.PanicInfo) bool {
	return pi != nil && strings.HasPrefix(pi.Msg, "HARNESS: ")
}

// judgeStep compares the observed link table and ValidateReferences verdicts with the expectation.
func (s *session) judgeStep(res *resT, a actT, before, want map[string]string, wantVR map[string]bool, ctx map[string]any) bool {
	got := s.w.observe(s.refTags)
	ok := true
	for _, g := range s.refTags {
		if got[g] == want[g] {
			continue
		}
		ok = false
		st := s.sites[g]
		class := "wrong_object"
		switch {
		case before != nil && before[g] == want[g] && st.ref.NS != a.NS:
			class = "other_namespace_touched"
		case before != nil && before[g] == want[g]:
			class = "outside_scope_touched"
		case got[g] == "None":
			class = "not_linked"
		case want[g] == "None":
			class = "linked_without_application"
		case st.ref.NS == "":
			class = "not_lexically_nearest"
		}
		refns := "self"
		if st.ref.NS != "" {
			refns = "external"
		}
		res.add(false, map[string]any{"op": "apply_" + a.Op, "class": class, "refns": refns, "under": st.under},
			merge(ctx, map[string]any{"ref": g, "ref_ns": st.ref.NS, "ref_id": st.ref.ID, "expected": want[g], "observed": got[g], "act": a}))
	}
	vr := s.vr()
	// the property's own statement on the real values: ValidateReferences() = nil exactly when every
	// reference below that scope answers ObjectReady()
	for _, g := range s.refTags {
		if r, has := s.w.refs[g]; has && (r.ValidateReferences() == nil) != r.ObjectReady() {
			ok = false
			res.add(false, map[string]any{"op": "validate_references", "class": fmt.Sprintf("ref_verdict_%v_linked_%v", r.ValidateReferences() == nil, r.ObjectReady())},
				merge(ctx, map[string]any{"ref": g, "links": got, "act": a}))
		}
	}
	for g, v := range vr {
		all := true
		var st []site
		refSites(s.w.scopeAST[g], nil, "", &st)
		for _, x := range st {
			if r, okr := s.w.refs[x.ref.Tag]; !okr || !r.ObjectReady() {
				all = false
			}
		}
		if all != v {
			ok = false
			res.add(false, map[string]any{"op": "validate_references", "class": fmt.Sprintf("verdict_%v_all_linked_%v", v, all)},
				merge(ctx, map[string]any{"scope": g, "links": got, "act": a}))
		}
	}
	for g, v := range vr {
		if w, has := wantVR[g]; has && w != v {
			ok = false
			res.add(false, map[string]any{"op": "validate_references", "class": fmt.Sprintf("verdict_%v_expected_%v", v, w)},
				merge(ctx, map[string]any{"scope": g, "links": got, "act": a}))
		}
	}
	return ok
}

func merge(a, b map[string]any) map[string]any {
	out := map[string]any{}
	for k, v := range a {
		out[k] = v
	}
	for k, v := range b {
		out[k] = v
	}
	return out
}

func applyDiff(l map[string]string, d map[string]string) map[string]string {
	out := map[string]string{}
	for k, v := range l {
		out[k] = v
	}
	for k, v := range d {
		out[k] = v
	}
	return out
}

func panicSig(a actT, pi *sup.PanicInfo) map[string]any {
	return map[string]any{"op": "apply_" + a.Op, "class": "panic", "frame": pi.Frame}
}

// replay drives a fresh session through hist (+ one more call); only the last step is judged
// (every proper prefix of a witness is the witness-or-equivalent of another exported state).
func replayAndJudge(res *resT, c *caseT, hist []actT, last *nextT, st *stateT) {
	s := newSession(c.Tree, c.Ext)
	ctx := map[string]any{"hist": hist}
	for i, a := range hist {
		pi := s.step(a)
		res.Steps++
		if pi != nil {
			if isHarnessPanic(pi) {
				res.HarnessErr = pi.Msg
				return
			}
			res.add(false, panicSig(a, pi), merge(ctx, map[string]any{"at": i, "act": a, "panic": pi.Msg}))
			return
		}
	}
	if last == nil {
		var a actT
		if len(hist) > 0 {
			a = hist[len(hist)-1]
		} else {
			a = actT{Op: "init"}
		}
		s.judgeStep(res, a, nil, st.Link, st.VR, ctx)
		res.Evals++
		return
	}
	before := s.w.observe(s.refTags)
	pi := s.step(last.Act)
	res.Steps++
	if pi != nil {
		if isHarnessPanic(pi) {
			res.HarnessErr = pi.Msg
			return
		}
		res.add(false, panicSig(last.Act, pi), merge(ctx, map[string]any{"act": last.Act, "panic": pi.Msg}))
		return
	}
	s.judgeStep(res, last.Act, before, applyDiff(st.Link, last.Diff), last.VR, ctx)
	res.Evals++
}

// ---------------------------------------------------------------- scope vs inlined scope

type pair struct {
	orig, inl *schema.ScopeSchema
	twin      *schema.ScopeSchema // the tree with no property disabled (nil: nothing is disabled)
	rb        *schema.ScopeSchema // the tree rebuilt from its own description (nil: not available)
	rbJudge   bool                // its values are comparable (map-based objects only)
	rbSelf    map[string]string   // rebuilt: observed links after UnserializeScope
	rbSelfVR  bool
	rbNS      map[string]string // rebuilt: observed links after the canonical namespaces
	rbNSVR    bool
	sites     map[string]site
	lastOK    bool // verdict and value of the scope's Unserialize in the latest compare()
	lastVal   any
	late      bool // evaluating the inputs that were put off because they may recurse forever
}

// buildPair constructs the tree and its inlined variant, both fully linked with nstab.
func buildPair(res *resT, tree *T, ext map[string]*T, nstab map[string]string, k int, tlcInl []*T) (*pair, *T) {
	x := lex{ext: ext, nstab: nstab}
	inl := inline(tree, tree, k, x)
	if len(tlcInl) == 1 && canon(tlcInl[0]) != canon(inl) {
		res.BindError = "the harness inliner disagrees with Scopes!Inline: " + canon(inl)[:200]
		return nil, nil
	}
	s := newSession(tree, ext)
	var order []*T
	scopesPostOrder(tree, &order)
	var failed bool
	for _, sc := range order {
		a := actT{Op: "self", Scope: sc.Tag}
		if pi := s.step(a); pi != nil {
			res.add(false, panicSig(a, pi), map[string]any{"act": a, "panic": pi.Msg, "phase": "pair"})
			failed = true
			break
		}
	}
	if failed {
		return nil, inl
	}
	top := s.w.scopes[tree.Tag]
	wi := newWorld(false)
	var itop *schema.ScopeSchema
	if pi := sup.Guard(func() { itop = wi.buildScope(inl) }); pi != nil {
		res.add(false, map[string]any{"op": "apply_self", "class": "panic", "frame": pi.Frame},
			map[string]any{"panic": pi.Msg, "phase": "inlined"})
		return nil, inl
	}
	for _, ns := range sortedKeys(nstab) {
		a := actT{Op: "ns", Scope: tree.Tag, NS: ns, Table: nstab[ns]}
		if pi := s.step(a); pi != nil {
			res.add(false, panicSig(a, pi), map[string]any{"act": a, "panic": pi.Msg, "phase": "pair"})
			return nil, inl
		}
		if pi := sup.Guard(func() { itop.ApplyNamespace(s.extW[nstab[ns]].Objects(), ns) }); pi != nil {
			res.add(false, panicSig(a, pi), map[string]any{"act": a, "panic": pi.Msg, "phase": "inlined"})
			return nil, inl
		}
	}
	// the external scopes that wait for a namespace themselves get it too
	for _, ns := range sortedKeys(nstab) {
		for _, g := range s.extNS {
			a := actT{Op: "ns", Scope: g, NS: ns, Table: nstab[ns]}
			if pi := s.step(a); pi != nil {
				res.add(false, panicSig(a, pi), map[string]any{"act": a, "panic": pi.Msg, "phase": "pair"})
				return nil, inl
			}
		}
	}
	if err := top.ValidateReferences(); err != nil {
		res.add(false, map[string]any{"op": "validate_references", "class": "verdict_false_expected_true"},
			map[string]any{"phase": "pair", "error": err.Error()})
		return nil, inl
	}
	if err := itop.ValidateReferences(); err != nil {
		res.add(false, map[string]any{"op": "validate_references", "class": "verdict_false_expected_true"},
			map[string]any{"phase": "inlined", "error": err.Error()})
		return nil, inl
	}
	p := &pair{orig: top, inl: itop, sites: s.sites}
	throughHolders(res, s, tree, ext, nstab)
	if tw := enabledTwin(tree); tw != nil {
		ws := newSession(tw, ext)
		pi := sup.Guard(func() {
			var order []*T
			scopesPostOrder(tw, &order)
			for _, sc := range order {
				ws.w.buildScope(sc)
			}
			for _, ns := range sortedKeys(nstab) {
				ws.w.scopes[tw.Tag].ApplyNamespace(ws.extW[nstab[ns]].Objects(), ns)
				for _, g := range ws.extNS {
					ws.w.scopes[g].ApplyNamespace(ws.extW[nstab[ns]].Objects(), ns)
				}
			}
		})
		if pi == nil {
			p.twin = ws.w.scopes[tw.Tag]
		}
	}
	p.rebuild(res, s, tree, nstab)
	return p, inl
}

type linker interface {
	ApplyNamespace(objects map[string]*schema.ObjectSchema, namespace string)
	ValidateReferences() error
}

// throughHolders links a fresh copy of the tree through every kind of holder that has an ApplyNamespace /
// ValidateReferences of its own (a step output, a property, a list, a map, an object holding the scope as a
// property type): the references must end up exactly as when the scope itself is given the namespaces, and
// the holder's ValidateReferences must agree with the link state.
func throughHolders(res *resT, ref *session, tree *T, ext map[string]*T, nstab map[string]string) {
	want := ref.w.observe(ref.refTags)
	holders := map[string]func(top *schema.ScopeSchema) linker{
		"step_output": func(top *schema.ScopeSchema) linker { return schema.NewStepOutputSchema(top, nil, false) },
		"property": func(top *schema.ScopeSchema) linker {
			return schema.NewPropertySchema(top, nil, false, nil, nil, nil, nil, nil)
		},
		"list": func(top *schema.ScopeSchema) linker { return schema.NewListSchema(top, nil, nil) },
		"map": func(top *schema.ScopeSchema) linker {
			return schema.NewMapSchema(schema.NewStringSchema(nil, nil, nil), top, nil, nil)
		},
		"object": func(top *schema.ScopeSchema) linker {
			return schema.NewObjectSchema("Holder", map[string]*schema.PropertySchema{
				"held": schema.NewPropertySchema(top, nil, false, nil, nil, nil, nil, nil)})
		},
	}
	for _, name := range sortedKeys(holders) {
		hs := newSession(tree, ext)
		var h linker
		var vrWrong string
		pi := sup.Guard(func() {
			var order []*T
			scopesPostOrder(tree, &order)
			for _, sc := range order {
				hs.w.buildScope(sc)
			}
			h = holders[name](hs.w.scopes[tree.Tag])
			check := func(stage string) {
				all := true
				for _, g := range hs.treeRefTags {
					if r, ok := hs.w.refs[g]; !ok || !r.ObjectReady() {
						all = false
					}
				}
				if (h.ValidateReferences() == nil) != all && vrWrong == "" {
					vrWrong = fmt.Sprintf("%s: ValidateReferences()=nil is %v, every reference linked is %v", stage, !all, all)
				}
			}
			h.ApplyNamespace(nil, schema.SelfNamespace)
			check("after the self namespace")
			for _, ns := range sortedKeys(nstab) {
				h.ApplyNamespace(hs.extW[nstab[ns]].Objects(), ns)
				check("after " + ns)
				for _, g := range hs.extNS {
					hs.w.scopes[g].ApplyNamespace(hs.extW[nstab[ns]].Objects(), ns)
				}
			}
		})
		res.Evals++
		if pi != nil {
			if isHarnessPanic(pi) {
				res.HarnessErr = pi.Msg
				return
			}
			res.add(false, map[string]any{"op": "apply_ns", "class": "panic", "frame": pi.Frame, "holder": name},
				map[string]any{"panic": pi.Msg, "nstab": nstab})
			continue
		}
		if vrWrong != "" {
			res.add(false, map[string]any{"op": "validate_references", "class": "not_iff_all_linked", "holder": name},
				map[string]any{"what": vrWrong, "nstab": nstab})
		}
		got := hs.w.observe(hs.refTags)
		for _, g := range hs.refTags {
			if got[g] == want[g] {
				continue
			}
			class := "wrong_object"
			if got[g] == "None" {
				class = "not_linked"
			}
			st := hs.sites[g]
			refns := "self"
			if st.ref.NS != "" {
				refns = "external"
			}
			res.add(false, map[string]any{"op": "apply_ns", "class": class, "refns": refns, "under": st.under, "holder": name},
				map[string]any{"ref": g, "ref_ns": st.ref.NS, "ref_id": st.ref.ID, "through_scope": want[g], "through_holder": got[g], "nstab": nstab})
		}
	}
}

// rebuild: the same tree received as a description. SelfSerialize -> UnserializeScope applies the
// root scope to itself once; nothing was constructed scope by scope.
func (p *pair) rebuild(res *resT, s *session, tree *T, nstab map[string]string) {
	var rb *schema.ScopeSchema
	var err error
	pi := sup.Guard(func() {
		var desc any
		if desc, err = p.orig.SelfSerialize(); err == nil {
			rb, err = schema.UnserializeScope(desc)
		}
	})
	if pi != nil || err != nil {
		// whether a schema can be described and accepted back is C09/C10's business
		msg := ""
		if pi != nil {
			msg = pi.Msg
		} else {
			msg = err.Error()
		}
		res.add(true, map[string]any{"op": "rebuild", "class": "not_describable"}, map[string]any{"error": msg})
		return
	}
	w := newWorld(true)
	w.index(tree)
	for o, tag := range s.w.objTag { // the external objects are shared
		if !s.treeObj[tag] {
			w.objTag[o] = tag
		}
	}
	if !w.mapRebuilt(tree, rb) {
		res.add(true, map[string]any{"op": "rebuild", "class": "shape_differs"}, map[string]any{"note": "the rebuilt schema is not shaped like the tree"})
		return
	}
	p.rbSelf = w.observe(s.treeRefTags)
	p.rbSelfVR = rb.ValidateReferences() == nil
	for _, ns := range sortedKeys(nstab) {
		a := actT{Op: "ns", Scope: tree.Tag, NS: ns, Table: nstab[ns]}
		if pi := sup.Guard(func() { rb.ApplyNamespace(s.extW[nstab[ns]].Objects(), ns) }); pi != nil {
			sig := panicSig(a, pi)
			sig["variant"] = "rebuilt"
			res.add(false, sig, map[string]any{"act": a, "panic": pi.Msg, "phase": "rebuilt"})
			return
		}
	}
	p.rbNS = w.observe(s.treeRefTags)
	p.rbNSVR = rb.ValidateReferences() == nil
	p.rb = rb
	p.rbJudge = mapBased(tree)
}

// judgeRebuilt compares the rebuilt tree's links with the specification's.
func (p *pair) judgeRebuilt(res *resT, s map[string]site, c *canonT) {
	if p.rbSelf == nil || c.RB == nil {
		return
	}
	check := func(phase string, got, want map[string]string, gotVR, wantVR bool) {
		for g, o := range got {
			if want[g] == o {
				continue
			}
			class := "wrong_object"
			if o == "None" {
				class = "not_linked"
			} else if want[g] == "None" {
				class = "linked_without_application"
			}
			refns := "self"
			if s[g].ref.NS != "" {
				refns = "external"
			}
			res.add(false, map[string]any{"op": "apply_self", "class": class, "refns": refns, "under": s[g].under, "variant": "rebuilt"},
				map[string]any{"phase": phase, "ref": g, "expected": want[g], "observed": o,
					"note": "tree rebuilt from its own description (SelfSerialize -> UnserializeScope)"})
		}
		if gotVR != wantVR {
			res.add(false, map[string]any{"op": "validate_references", "class": fmt.Sprintf("verdict_%v_expected_%v", gotVR, wantVR), "variant": "rebuilt"},
				map[string]any{"phase": phase, "links": got})
		}
		res.Evals++
	}
	check("after UnserializeScope", p.rbSelf, c.RB, p.rbSelfVR, c.RBVR)
	if p.rbNS != nil {
		check("after the namespaces", p.rbNS, c.CLink, p.rbNSVR, true)
	}
}

type outcome struct {
	ok  bool
	v   any
	err string
	pi  *sup.PanicInfo
}

func guarded(f func() (any, error)) outcome {
	var o outcome
	o.pi = sup.Guard(func() {
		v, err := f()
		if err != nil {
			o.err = err.Error()
			return
		}
		o.ok, o.v = true, v
	})
	return o
}

// compare runs Unserialize / Validate / Serialize on the scope and on the inlined scope.
// mk builds a fresh copy of the input for every call. Returns the scope's verdict.
func (p *pair) compare(res *resT, mkIn func() any, exp *expT, label map[string]any) (accepted, judged bool) {
	// marker for the orchestrator: which input was in flight if the process dies (fatal stack overflow).
	// Full text only for the inputs predicted to be dangerous; the stack dump must stay within sup's clip.
	res.Inputs++
	if s, ok := label["raw"].(string); ok && (p.late || strings.HasPrefix(s, "deep:")) {
		fmt.Fprintf(os.Stderr, "C14-AT %s\n", s)
	} else {
		fmt.Fprintf(os.Stderr, "C14-AT #%d\n", res.Inputs)
	}
	a := guarded(func() (any, error) { return p.orig.Unserialize(mkIn()) })
	b := guarded(func() (any, error) { return p.inl.Unserialize(mkIn()) })
	res.Evals += 2
	p.lastOK, p.lastVal = a.ok, a.v
	if a.pi != nil || b.pi != nil {
		pi := a.pi
		if pi == nil {
			pi = b.pi
		}
		res.add(false, map[string]any{"op": "unserialize", "class": "panic", "frame": pi.Frame},
			merge(label, map[string]any{"panic": pi.Msg, "scope_panics": a.pi != nil, "inlined_panics": b.pi != nil}))
		return false, false
	}
	if a.ok != b.ok {
		res.add(false, map[string]any{"op": "unserialize", "class": "accept_differs"},
			merge(label, map[string]any{"scope_ok": a.ok, "inlined_ok": b.ok, "scope_err": a.err, "inlined_err": b.err}))
		return a.ok, true
	}
	if a.ok && !reflect.DeepEqual(a.v, b.v) {
		res.add(false, map[string]any{"op": "unserialize", "class": "value_differs"},
			merge(label, map[string]any{"scope": fmt.Sprintf("%#v", a.v), "inlined": fmt.Sprintf("%#v", b.v)}))
		return a.ok, true
	}
	if p.rb != nil {
		// the tree rebuilt from its description must behave like the tree it describes
		c := guarded(func() (any, error) { return p.rb.Unserialize(mkIn()) })
		res.Evals++
		switch {
		case c.pi != nil:
			res.add(false, map[string]any{"op": "unserialize", "class": "panic", "frame": c.pi.Frame, "variant": "rebuilt"},
				merge(label, map[string]any{"panic": c.pi.Msg}))
		case c.ok != a.ok:
			res.add(false, map[string]any{"op": "unserialize", "class": "accept_differs", "variant": "rebuilt"},
				merge(label, map[string]any{"scope_ok": a.ok, "rebuilt_ok": c.ok, "scope_err": a.err, "rebuilt_err": c.err}))
		case a.ok && p.rbJudge && !reflect.DeepEqual(a.v, c.v):
			res.add(false, map[string]any{"op": "unserialize", "class": "value_differs", "variant": "rebuilt"},
				merge(label, map[string]any{"scope": fmt.Sprintf("%#v", a.v), "rebuilt": fmt.Sprintf("%#v", c.v)}))
		}
	}
	if p.twin != nil && !a.ok {
		// An input the scope rejects, possibly because it sets a disabled property: Validate and Serialize
		// never look at the flag, so its unserialized form (obtained from the twin without disabled
		// properties) must fare alike on the scope, the inlined scope and the rebuilt scope.
		if n := guarded(func() (any, error) { return p.twin.Unserialize(mkIn()) }); n.ok {
			p.validateSerialize(res, n.v, merge(label, map[string]any{"via": "value that sets a disabled property"}))
		}
	}
	if exp != nil {
		if exp.OK != a.ok {
			res.add(true, map[string]any{"op": "unserialize", "class": "model_verdict"},
				merge(label, map[string]any{"model_ok": exp.OK, "code_ok": a.ok, "err": a.err}))
		} else if a.ok && !reflect.DeepEqual(normalize(a.v), exp.V.toGo()) {
			res.add(true, map[string]any{"op": "unserialize", "class": "model_value"},
				merge(label, map[string]any{"model": exp.V.toGo(), "code": normalize(a.v)}))
		}
	}
	if !a.ok {
		res.lastErr = a.err
		return false, true
	}
	// the unserialized value through Validate and Serialize of both schemas (not for very deep
	// chains: ListSchema.Serialize validates the whole subtree at every level and one-of Validate
	// runs a compatibility pass over the whole subtree at every level - quadratic in the depth)
	if d, ok := label["depth"].(int); ok && d > 200 {
		return true, true
	}
	p.validateSerialize(res, a.v, label)
	return true, true
}

// validateSerialize: a value in unserialized form through Validate and Serialize of the variants.
func (p *pair) validateSerialize(res *resT, v any, label map[string]any) {
	va := guarded(func() (any, error) { return nil, p.orig.Validate(v) })
	vb := guarded(func() (any, error) { return nil, p.inl.Validate(v) })
	sa := guarded(func() (any, error) { return p.orig.Serialize(v) })
	sb := guarded(func() (any, error) { return p.inl.Serialize(v) })
	res.Evals += 4
	for _, q := range []struct {
		op   string
		x, y outcome
	}{{"validate", va, vb}, {"serialize", sa, sb}} {
		switch {
		case q.x.pi != nil || q.y.pi != nil:
			pi := q.x.pi
			if pi == nil {
				pi = q.y.pi
			}
			if q.x.pi != nil && q.y.pi != nil {
				// both panic alike: not a difference between reference and object (C04's business)
				res.add(true, map[string]any{"op": q.op, "class": "panic_both", "frame": pi.Frame}, merge(label, map[string]any{"panic": pi.Msg}))
			} else {
				res.add(false, map[string]any{"op": q.op, "class": "panic", "frame": pi.Frame},
					merge(label, map[string]any{"panic": pi.Msg, "scope_panics": q.x.pi != nil, "inlined_panics": q.y.pi != nil}))
			}
		case q.x.ok != q.y.ok:
			res.add(false, map[string]any{"op": q.op, "class": "accept_differs"},
				merge(label, map[string]any{"scope_err": q.x.err, "inlined_err": q.y.err}))
		case q.x.ok && !reflect.DeepEqual(q.x.v, q.y.v):
			res.add(false, map[string]any{"op": q.op, "class": "value_differs"},
				merge(label, map[string]any{"scope": fmt.Sprintf("%#v", q.x.v), "inlined": fmt.Sprintf("%#v", q.y.v)}))
		}
	}
	if p.rb != nil && p.rbJudge {
		vc := guarded(func() (any, error) { return nil, p.rb.Validate(v) })
		sc := guarded(func() (any, error) { return p.rb.Serialize(v) })
		res.Evals += 2
		for _, q := range []struct {
			op   string
			x, y outcome
		}{{"validate", va, vc}, {"serialize", sa, sc}} {
			switch {
			case q.y.pi != nil && q.x.pi == nil:
				res.add(false, map[string]any{"op": q.op, "class": "panic", "frame": q.y.pi.Frame, "variant": "rebuilt"},
					merge(label, map[string]any{"panic": q.y.pi.Msg}))
			case q.x.pi == nil && q.y.pi == nil && q.x.ok != q.y.ok:
				res.add(false, map[string]any{"op": q.op, "class": "accept_differs", "variant": "rebuilt"},
					merge(label, map[string]any{"scope_err": q.x.err, "rebuilt_err": q.y.err}))
			}
		}
	}
}

func (r *rawT) toGo() any {
	switch r.K {
	case "str":
		return r.S
	case "bool":
		return true
	case "list":
		out := make([]any, len(r.Items))
		for i, it := range r.Items {
			out[i] = it.Val.toGo()
		}
		return out
	case "map":
		out := map[string]any{}
		for _, it := range r.Items {
			out[it.Key] = it.Val.toGo()
		}
		return out
	}
	return nil
}

// normalize turns typed slices and maps into []any / map[string]any.
func normalize(v any) any {
	rv := reflect.ValueOf(v)
	switch rv.Kind() {
	case reflect.Slice:
		out := make([]any, rv.Len())
		for i := range out {
			out[i] = normalize(rv.Index(i).Interface())
		}
		return out
	case reflect.Map:
		out := map[string]any{}
		for it := rv.MapRange(); it.Next(); {
			out[fmt.Sprint(it.Key().Interface())] = normalize(it.Value().Interface())
		}
		return out
	case reflect.Interface, reflect.Pointer:
		if rv.IsNil() {
			return nil
		}
		return normalize(rv.Elem().Interface())
	}
	return v
}

// ---------------------------------------------------------------- cases

func bindCheck() string {
	if schema.SelfNamespace != "" {
		return "SelfNamespace is no longer the empty string"
	}
	w := newWorld(false)
	kinds := map[string]schema.TypeID{"leaf": schema.TypeIDString, "list": schema.TypeIDList, "map": schema.TypeIDMap,
		"ref": schema.TypeIDRef, "obj": schema.TypeIDObject}
	for k, id := range kinds {
		t := map[string]*T{"leaf": leaf(), "list": listOf(leaf()), "map": mapOf(leaf()), "ref": refT("r", "", "A"),
			"obj": objT("A", "a", []P{{Name: "a", Type: leaf()}})}[k]
		if got := w.buildType(t).TypeID(); got != id {
			return fmt.Sprintf("kind %s builds type %s, want %s", k, got, id)
		}
	}
	sc := w.buildScope(scopeT("s", "A", []*T{objT("A", "a", []P{{Name: "a", Type: leaf()}})}))
	if sc.TypeID() != schema.TypeIDScope || sc.Root() != "A" {
		return "scope construction"
	}
	return ""
}

func runTree(c *caseT) *resT {
	res := &resT{}
	if c.Tree == nil {
		res.HarnessErr = "tree case without tree"
		return res
	}
	for i := range c.States {
		st := &c.States[i]
		replayAndJudge(res, c, st.Hist, nil, st)
		for j := range st.Next {
			replayAndJudge(res, c, st.Hist, &st.Next[j], st)
		}
		if res.HarnessErr != "" {
			return res
		}
	}
	if c.Canon == nil {
		return res
	}
	p, inl := buildPair(res, c.Tree, c.Ext, c.Canon.NsTab, c.Canon.K, c.Canon.Inl)
	if p == nil {
		return res
	}
	p.judgeRebuilt(res, p.sites, c.Canon)
	skip := map[string]bool{}
	for _, s := range c.Skip {
		skip[s] = true
	}
	x := lex{ext: c.Ext, nstab: c.Canon.NsTab}
	g := newGraph(c.Tree, x)
	// inputs that may recurse forever are evaluated last, so that a fatal stack overflow costs nothing else
	var late []func()
	for _, r := range c.Canon.Raws {
		key := canon(r.Raw)
		if skip[key] {
			continue
		}
		raw, exp := r.Raw, r.Exp
		f := func() {
			p.compare(res, func() any { return raw.toGo() }, &exp, map[string]any{"raw": key, "origin": "model"})
		}
		if g.hasLoop(c.Tree, c.Tree, raw.toGo(), map[node]bool{}) {
			res.Loops++
			late = append(late, f)
			continue
		}
		f()
	}
	late = append(late, generated(res, p, g, c.Tree, inl, c.Gen, skip)...)
	if !c.SkipLoops {
		p.late = true
		for _, f := range late {
			f()
		}
	}
	return res
}

func handler(raw json.RawMessage) any {
	var c caseT
	if err := json.Unmarshal(raw, &c); err != nil {
		return &resT{HarnessErr: "bad case: " + err.Error()}
	}
	if be := bindCheck(); be != "" {
		return &resT{BindError: be}
	}
	switch c.Op {
	case "tree":
		return runTree(&c)
	case "rand":
		return runRand(&c)
	}
	return &resT{HarnessErr: "unknown op " + c.Op}
}

func main() {
	if f := os.Getenv("C14_PROFILE"); f != "" && len(os.Args) > 1 && os.Args[1] == "-child" {
		if w, err := os.Create(f); err == nil {
			_ = pprof.StartCPUProfile(w)
			defer pprof.StopCPUProfile()
		}
	}
	sup.Main(handler)
}
