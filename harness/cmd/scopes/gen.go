package main

import (
	"fmt"
	"math/rand"
	"reflect"
	"sort"
)

// ---------------------------------------------------------------- inputs generated from the abstract tree
// (references are resolved lexically on the AST - the harness never looks at the real links here)

type node struct{ obj, env *T }

type graph struct {
	x     lex
	succ  map[node][]node
	recur map[node]bool // the object can reach itself
	reach map[node]bool // the object is, or can reach, a recursive object
}

func (g *graph) firstObjs(t *T, env *T, out *[]node) {
	switch t.Kind {
	case "obj":
		*out = append(*out, node{t, env})
	case "ref":
		o, e := g.x.target(t, env)
		if o != nil {
			*out = append(*out, node{o, e})
		}
	case "scope":
		if r := t.objByID(t.ID); r != nil {
			*out = append(*out, node{r, t})
		}
	default:
		for _, k := range t.Sub {
			g.firstObjs(k, env, out)
		}
	}
}

func newGraph(root *T, x lex) *graph {
	g := &graph{x: x, succ: map[node][]node{}, recur: map[node]bool{}, reach: map[node]bool{}}
	var start []node
	g.firstObjs(root, root, &start)
	todo := append([]node{}, start...)
	for len(todo) > 0 {
		n := todo[len(todo)-1]
		todo = todo[:len(todo)-1]
		if _, seen := g.succ[n]; seen {
			continue
		}
		var ss []node
		for _, p := range n.obj.Props {
			if p.Dis == "" { // a disabled property accepts nothing: no acceptable input passes through it
				g.firstObjs(p.Type, n.env, &ss)
			}
		}
		g.succ[n] = ss
		todo = append(todo, ss...)
	}
	for n := range g.succ {
		seen := map[node]bool{}
		st := append([]node{}, g.succ[n]...)
		for len(st) > 0 {
			m := st[len(st)-1]
			st = st[:len(st)-1]
			if seen[m] {
				continue
			}
			seen[m] = true
			st = append(st, g.succ[m]...)
		}
		g.recur[n] = seen[n]
	}
	for n := range g.succ {
		if g.recur[n] {
			g.reach[n] = true
			continue
		}
		seen := map[node]bool{}
		st := append([]node{}, g.succ[n]...)
		for len(st) > 0 {
			m := st[len(st)-1]
			st = st[:len(st)-1]
			if seen[m] {
				continue
			}
			seen[m] = true
			if g.recur[m] {
				g.reach[n] = true
				break
			}
			st = append(st, g.succ[m]...)
		}
	}
	return g
}

func (g *graph) typeReaches(t *T, env *T) bool {
	var ns []node
	g.firstObjs(t, env, &ns)
	for _, n := range ns {
		if g.reach[n] {
			return true
		}
	}
	return false
}

// minimal valid input (required properties only); ok=false when a required cycle allows none
func (g *graph) minimal(t *T, env *T, guard map[node]bool) (any, bool) {
	switch t.Kind {
	case "leaf":
		return "x", true
	case "list":
		return []any{}, true
	case "map":
		return map[string]any{}, true
	case "oneof":
		for i, m := range t.Sub {
			if v, ok := g.minimal(m, env, guard); ok {
				if mm, isMap := v.(map[string]any); isMap {
					mm[discField] = keys[i]
					return mm, true
				}
			}
		}
		return map[string]any{}, false
	case "ref":
		o, e := g.x.target(t, env)
		return g.minimal(o, e, guard)
	case "scope":
		return g.minimal(t.objByID(t.ID), t, guard)
	}
	n := node{t, env}
	if guard[n] {
		return map[string]any{}, false
	}
	guard[n] = true
	defer delete(guard, n)
	out := map[string]any{}
	ok := true
	for _, p := range t.Props {
		if p.Req {
			v, o := g.minimal(p.Type, env, guard)
			out[p.Name] = v
			ok = ok && o
		}
	}
	return out, ok
}

// chain: a valid input that follows the recursion n objects deep; returns the depth reached
func (g *graph) chain(t *T, env *T, n int) (any, int) {
	switch t.Kind {
	case "leaf":
		return "x", 0
	case "list":
		if n > 0 && g.typeReaches(t.Sub[0], env) {
			c, d := g.chain(t.Sub[0], env, n)
			return []any{c}, d
		}
		return []any{}, 0
	case "map":
		if n > 0 && g.typeReaches(t.Sub[0], env) {
			c, d := g.chain(t.Sub[0], env, n)
			return map[string]any{"ka": c}, d
		}
		return map[string]any{}, 0
	case "oneof":
		pick := 0
		for i, m := range t.Sub {
			if _, sat := g.minimal(m, env, map[node]bool{}); sat && g.typeReaches(m, env) {
				pick = i
				break
			}
		}
		c, d := g.chain(t.Sub[pick], env, n)
		if mm, ok := c.(map[string]any); ok {
			mm[discField] = keys[pick]
		}
		return c, d
	case "ref":
		o, e := g.x.target(t, env)
		return g.chain(o, e, n)
	case "scope":
		return g.chain(t.objByID(t.ID), t, n)
	}
	out := map[string]any{}
	for _, p := range t.Props {
		if p.Req {
			v, _ := g.minimal(p.Type, env, map[node]bool{})
			out[p.Name] = v
		}
	}
	if len(t.Props) > 0 && t.Props[0].Name == t.Tag {
		out[t.Tag] = "x"
	}
	depth := 1
	if n > 1 {
		for _, p := range t.Props {
			if _, sat := g.minimal(p.Type, env, map[node]bool{}); p.Dis == "" && sat && g.typeReaches(p.Type, env) {
				c, d := g.chain(p.Type, env, n-1)
				out[p.Name] = c
				depth += d
				break
			}
		}
	}
	return out, depth
}

var junk = []func() any{
	func() any { return "x" },
	func() any { return true },
	func() any { return []any{} },
	func() any { return map[string]any{} },
	func() any { return map[string]any{"zz": "x"} },
	func() any { return []any{"x"} },
}

// random: mostly valid inputs with an occasional deviation (wrong shape, unknown key, foreign
// marker, bad discriminator); markers lists all marker names of the tree
func (g *graph) random(t *T, env *T, rng *rand.Rand, depth int, fault float64, markers []string) any {
	if rng.Float64() < fault {
		return junk[rng.Intn(len(junk))]()
	}
	switch t.Kind {
	case "leaf":
		return "x"
	case "list":
		n := rng.Intn(3)
		if depth <= 0 {
			n = 0
		}
		out := make([]any, n)
		for i := range out {
			out[i] = g.random(t.Sub[0], env, rng, depth-1, fault, markers)
		}
		return out
	case "map":
		n := rng.Intn(3)
		if depth <= 0 {
			n = 0
		}
		out := map[string]any{}
		for i := 0; i < n; i++ {
			out[[]string{"ka", "kb"}[i]] = g.random(t.Sub[0], env, rng, depth-1, fault, markers)
		}
		return out
	case "oneof":
		i := rng.Intn(len(t.Sub))
		c := g.random(t.Sub[i], env, rng, depth, fault, markers)
		if mm, ok := c.(map[string]any); ok {
			switch {
			case rng.Float64() < fault:
				mm[discField] = "zz"
			case rng.Float64() < fault:
			default:
				mm[discField] = keys[i]
			}
		}
		return c
	case "ref":
		o, e := g.x.target(t, env)
		return g.random(o, e, rng, depth, fault, markers)
	case "scope":
		return g.random(t.objByID(t.ID), t, rng, depth, fault, markers)
	}
	out := map[string]any{}
	if depth < -8 {
		return out // a cycle of required properties: no finite valid input exists
	}
	for _, p := range t.Props {
		if p.Req || (depth > 0 && rng.Intn(2) == 0) {
			if rng.Float64() < fault/2 {
				continue
			}
			out[p.Name] = g.random(p.Type, env, rng, depth-1, fault, markers)
		}
	}
	if rng.Float64() < fault && len(markers) > 0 {
		out[markers[rng.Intn(len(markers))]] = "x"
	}
	return out
}

func markersOf(tree *T, ext map[string]*T) []string {
	var os []*T
	objsIn(tree, &os)
	for _, n := range sortedKeys(ext) {
		objsIn(ext[n], &os)
	}
	seen := map[string]bool{}
	var out []string
	for _, o := range os {
		if !seen[o.Tag] {
			seen[o.Tag] = true
			out = append(out, o.Tag)
		}
	}
	sort.Strings(out)
	return out
}

func deepCopy(v any) any {
	switch x := v.(type) {
	case map[string]any:
		out := make(map[string]any, len(x))
		for k, e := range x {
			out[k] = deepCopy(e)
		}
		return out
	case []any:
		out := make([]any, len(x))
		for i, e := range x {
			out[i] = deepCopy(e)
		}
		return out
	}
	return v
}

// generated: harness-made inputs beyond the model's: random ones and chains that follow the
// recursion of the graph to great depth.  Only the relation between scope and inlined scope is
// judged, plus: a chain accepted at small depths must be accepted at every depth.
// omissions: inputs that leave out whole sub-objects at every level (absent / empty / one property), so
// that declared defaults and the defaults of absent by-value sub-objects come into play
func (g *graph) omissions(t *T, env *T, depth int) []any {
	switch t.Kind {
	case "leaf":
		return []any{"x"}
	case "list":
		out := []any{[]any{}}
		if depth > 0 {
			for _, c := range g.omissions(t.Sub[0], env, depth-1) {
				out = append(out, []any{c})
			}
		}
		return out
	case "map":
		out := []any{map[string]any{}}
		if depth > 0 {
			for _, c := range g.omissions(t.Sub[0], env, depth-1) {
				out = append(out, map[string]any{"ka": c})
			}
		}
		return out
	case "oneof":
		var out []any
		for i, m := range t.Sub {
			for _, c := range g.omissions(m, env, depth) {
				if mm, ok := c.(map[string]any); ok {
					mm[discField] = keys[i]
					out = append(out, mm)
				}
			}
		}
		return out
	case "ref":
		o, e := g.x.target(t, env)
		return g.omissions(o, e, depth)
	case "scope":
		return g.omissions(t.objByID(t.ID), t, depth)
	}
	out := []any{map[string]any{}}
	if depth <= 0 {
		return out
	}
	for _, p := range t.Props {
		for _, c := range g.omissions(p.Type, env, depth-1) {
			out = append(out, map[string]any{p.Name: c})
		}
	}
	return out
}

// contract rewrites an input into the single-property shorthand wherever that is possible: a map holding
// exactly the only property of a single-property object is replaced by the value of that property when the
// latter is not itself a map (a map would be read as the object's map spelling again).
func (g *graph) contract(t *T, env *T, v any) any {
	switch t.Kind {
	case "leaf":
		return v
	case "ref":
		o, e := g.x.target(t, env)
		if o == nil {
			return v
		}
		return g.contract(o, e, v)
	case "scope":
		return g.contract(t.objByID(t.ID), t, v)
	case "list":
		l, ok := v.([]any)
		if !ok {
			return v
		}
		out := make([]any, len(l))
		for i, x := range l {
			out[i] = g.contract(t.Sub[0], env, x)
		}
		return out
	case "map":
		m, ok := v.(map[string]any)
		if !ok {
			return v
		}
		out := map[string]any{}
		for k, x := range m {
			out[k] = g.contract(t.Sub[0], env, x)
		}
		return out
	case "oneof":
		m, ok := v.(map[string]any)
		if !ok {
			return v
		}
		for i, mem := range t.Sub {
			if m[discField] == keys[i] {
				rest := map[string]any{}
				for k, x := range m {
					if k != discField {
						rest[k] = x
					}
				}
				c, isMap := g.contract(mem, env, rest).(map[string]any)
				if !isMap {
					return v // a one-of member must stay a map: it carries the discriminator
				}
				c[discField] = keys[i]
				return c
			}
		}
		return v
	}
	m, ok := v.(map[string]any)
	if !ok {
		return v
	}
	out := map[string]any{}
	for k, x := range m {
		out[k] = x
	}
	for _, p := range t.Props {
		if x, has := m[p.Name]; has {
			out[p.Name] = g.contract(p.Type, env, x)
		}
	}
	if len(t.Props) == 1 && len(out) == 1 && t.Props[0].Dis == "" {
		if inner, has := out[t.Props[0].Name]; has && inner != nil {
			if _, isMap := inner.(map[string]any); !isMap {
				return inner
			}
		}
	}
	return out
}

// spellings: the input as given and with every possible single-property shorthand; both go through the
// usual comparisons, and the scope must give both the same verdict and value ("self-referential object
// graphs work on all finite inputs": a finite tree stays acceptable whichever way its nodes are spelled).
func (g *graph) spellings(res *resT, p *pair, tree *T, v any, label map[string]any, skip map[string]bool) (accepted bool) {
	p.compare(res, func() any { return deepCopy(v) }, nil, label)
	okL, vL := p.lastOK, p.lastVal
	accepted = okL
	short := g.contract(tree, tree, deepCopy(v))
	key := canon(short)
	if key == canon(v) || skip[key] || g.hasLoop(tree, tree, short, map[node]bool{}) {
		return
	}
	_, judged := p.compare(res, func() any { return deepCopy(short) }, nil, merge(label, map[string]any{"raw": key, "spelling": "shorthand"}))
	if !judged {
		return
	}
	res.Spelled++
	if okL != p.lastOK || (okL && !reflect.DeepEqual(vL, p.lastVal)) {
		res.add(false, map[string]any{"op": "unserialize", "class": "shorthand_differs"},
			map[string]any{"longhand": canon(v), "shorthand": key, "longhand_ok": okL, "shorthand_ok": p.lastOK,
				"shorthand_error": res.lastErr,
				"note":            "the same finite value, written with maps and with the single-property shorthand"})
	}
	return accepted
}

func generated(res *resT, p *pair, g *graph, tree, inl *T, gen genT, skip map[string]bool) (late []func()) {
	rng := rand.New(rand.NewSource(gen.Seed))
	if gen.N > 0 {
		oms := g.omissions(tree, tree, 3)
		if len(oms) > 60 {
			oms = oms[:60]
		}
		for _, v := range oms {
			v := v
			key := canon(v)
			if skip[key] || g.hasLoop(tree, tree, v, map[node]bool{}) {
				continue
			}
			g.spellings(res, p, tree, v, map[string]any{"raw": key, "origin": "omission"}, skip)
		}
	}
	markers := markersOf(tree, g.x.ext)
	for i := 0; i < gen.N; i++ {
		fault := 0.0
		if i%3 != 0 {
			fault = 0.12
		}
		v := g.random(tree, tree, rng, 2+rng.Intn(4), fault, markers)
		key := canon(v)
		if skip[key] {
			continue
		}
		f := func() {
			g.spellings(res, p, tree, v, map[string]any{"raw": key, "origin": "random"}, skip)
		}
		if g.hasLoop(tree, tree, v, map[node]bool{}) {
			res.Loops++
			late = append(late, f)
			continue
		}
		f()
	}
	if len(gen.Deep) == 0 || !g.typeReaches(tree, tree) {
		return
	}
	if _, sat := g.minimal(tree, tree, map[node]bool{}); !sat {
		return // required properties that cannot be satisfied: the root accepts nothing
	}
	// the choices of chain() do not depend on n, so the objects visited are eventually periodic with
	// pre-period + period <= number of objects: if every chain up to that length (+ the two ending
	// forms) is accepted, a deeper chain repeats only what has been accepted already
	smallOK := true
	bound := len(g.succ) + 3
	if bound > 60 {
		bound = 60
	}
	for n := 1; n <= bound; n++ {
		v, d := g.chain(tree, tree, n)
		if d < n {
			return late // the recursion is not reachable through acceptable inputs at this depth
		}
		key := fmt.Sprintf("deep:%d", n)
		if skip[key] {
			continue
		}
		ok := g.spellings(res, p, tree, v, map[string]any{"raw": key, "origin": "chain", "depth": d}, skip)
		smallOK = smallOK && ok
	}
	if !smallOK {
		res.add(true, map[string]any{"op": "unserialize", "class": "chain_generator"}, map[string]any{"note": "a generated chain was rejected at small depth", "error": res.lastErr})
		return late
	}
	for _, n := range gen.Deep {
		key := fmt.Sprintf("deep:%d", n)
		if skip[key] {
			continue
		}
		v, d := g.chain(tree, tree, n)
		ok, judged := p.compare(res, func() any { return deepCopy(v) }, nil, map[string]any{"raw": key, "origin": "chain", "depth": d})
		if d > res.Deepest {
			res.Deepest = d
		}
		if judged && !ok {
			res.add(false, map[string]any{"op": "unserialize", "class": "depth_dependent"},
				map[string]any{"depth": d, "error": res.lastErr, "note": "every chain shorter than one full period is accepted, this one (same objects, repeated) is rejected"})
		}
	}
	return late
}

// hasLoop predicts (for scheduling only, never for a verdict) that v leads a chain of
// single-property shorthands back to an object it already passed with the same value.
func (g *graph) hasLoop(t *T, env *T, v any, seen map[node]bool) bool {
	switch t.Kind {
	case "leaf":
		return false
	case "ref":
		o, e := g.x.target(t, env)
		return o != nil && g.hasLoop(o, e, v, seen)
	case "scope":
		return g.hasLoop(t.objByID(t.ID), t, v, seen)
	case "list":
		if l, ok := v.([]any); ok {
			for _, x := range l {
				if g.hasLoop(t.Sub[0], env, x, map[node]bool{}) {
					return true
				}
			}
		}
		return false
	case "map":
		if m, ok := v.(map[string]any); ok {
			for _, x := range m {
				if g.hasLoop(t.Sub[0], env, x, map[node]bool{}) {
					return true
				}
			}
		}
		return false
	case "oneof":
		m, ok := v.(map[string]any)
		if !ok {
			return false
		}
		for i, mem := range t.Sub {
			if m[discField] == keys[i] {
				rest := map[string]any{}
				for k, x := range m {
					if k != discField {
						rest[k] = x
					}
				}
				return g.hasLoop(mem, env, rest, map[node]bool{})
			}
		}
		return false
	}
	if m, ok := v.(map[string]any); ok {
		for _, p := range t.Props {
			if x, has := m[p.Name]; has && g.hasLoop(p.Type, env, x, map[node]bool{}) {
				return true
			}
		}
		return false
	}
	if len(t.Props) != 1 {
		return false
	}
	n := node{t, env}
	if seen[n] {
		return true
	}
	seen[n] = true
	return g.hasLoop(t.Props[0].Type, env, v, seen)
}

// ---------------------------------------------------------------- random trees (code -> spec)

type treeGen struct {
	rng     *rand.Rand
	size    int
	n       int
	nscopes int
	nss     []string
	home    map[string]string // namespace -> its canonical table
	ext     map[string]*T
}

func (tg *treeGen) tag(prefix string) string {
	tg.n++
	return fmt.Sprintf("%s%d", prefix, tg.n)
}

func ids(s *T) []string {
	out := make([]string, len(s.Sub))
	for i, o := range s.Sub {
		out[i] = o.ID
	}
	return out
}

func (tg *treeGen) genExt() {
	tg.ext = map[string]*T{}
	pool := []string{"X", "Y", "B", "A"}
	for i := 0; i < 2+tg.rng.Intn(2); i++ {
		name := fmt.Sprintf("U%d", i+1)
		nobj := 1 + tg.rng.Intn(3)
		var objs []*T
		var oids []string
		for j := 0; j < nobj; j++ {
			oids = append(oids, pool[j])
		}
		for j := 0; j < nobj; j++ {
			tag := tg.tag("x")
			props := []P{{Name: tag, Type: leaf()}}
			if tg.rng.Intn(2) == 0 {
				r := refT(tg.tag("e"), "", oids[tg.rng.Intn(len(oids))])
				var t *T
				switch tg.rng.Intn(3) {
				case 0:
					t = r
				case 1:
					t = listOf(r)
				default:
					t = mapOf(r)
				}
				props = append(props, P{Name: "nx", Type: t})
			}
			objs = append(objs, objT(oids[j], tag, props))
		}
		tg.ext[name] = scopeT(tg.tag("u"), "X", objs)
	}
	tables := sortedKeys(tg.ext)
	tg.nss = []string{"na", "nb", "nc"}[:2+tg.rng.Intn(2)]
	tg.home = map[string]string{}
	for _, ns := range tg.nss {
		tg.home[ns] = tables[tg.rng.Intn(len(tables))]
	}
	// some external scopes wait for a namespace themselves (chains S -> na:X -> nb:Y, and cycles when the
	// namespace's table is the scope's own)
	for _, name := range tables {
		if tg.rng.Intn(3) != 0 {
			continue
		}
		sc := tg.ext[name]
		o := sc.Sub[tg.rng.Intn(len(sc.Sub))]
		ns := tg.nss[tg.rng.Intn(len(tg.nss))]
		hid := ids(tg.ext[tg.home[ns]])
		r := refT(tg.tag("e"), ns, hid[tg.rng.Intn(len(hid))])
		var t *T = r
		if tg.rng.Intn(2) == 0 {
			t = listOf(r)
		}
		o.Props = append(o.Props, P{Name: "nz", Type: t})
	}
}

func (tg *treeGen) genRef(scopeIDs []string) *T {
	if tg.rng.Intn(5) < 3 {
		return refT(tg.tag("r"), "", scopeIDs[tg.rng.Intn(len(scopeIDs))])
	}
	ns := tg.nss[tg.rng.Intn(len(tg.nss))]
	hid := ids(tg.ext[tg.home[ns]])
	return refT(tg.tag("r"), ns, hid[tg.rng.Intn(len(hid))])
}

func (tg *treeGen) genObj(id string, scopeIDs []string, depth, level int) *T {
	tag := tg.tag("o")
	var props []P
	if tg.rng.Intn(100) < 85 {
		props = append(props, P{Name: tag, Type: leaf()})
	}
	np := 1 + tg.rng.Intn(1+tg.size)
	for i := 0; i < np; i++ {
		pr := P{Name: fmt.Sprintf("p%d", i+1), Req: tg.rng.Intn(10) == 0, Type: tg.genType(scopeIDs, depth, level+1)}
		if !pr.Req {
			switch tg.rng.Intn(16) {
			case 0:
				pr.Dis = "plain"
			case 1:
				pr.Dis = "reason"
			}
		}
		props = append(props, pr)
	}
	return objT(id, tag, props)
}

func (tg *treeGen) genType(scopeIDs []string, depth, level int) *T {
	w := tg.rng.Intn(100)
	if level >= 4 {
		if w < 25 {
			return leaf()
		}
		return tg.genRef(scopeIDs)
	}
	switch {
	case w < 12:
		return leaf()
	case w < 50:
		return tg.genRef(scopeIDs)
	case w < 62:
		return listOf(tg.genType(scopeIDs, depth, level+1))
	case w < 72:
		return mapOf(tg.genType(scopeIDs, depth, level+1))
	case w < 84:
		n := 1 + tg.rng.Intn(3)
		var ms []*T
		for i := 0; i < n; i++ {
			switch v := tg.rng.Intn(10); {
			case v < 6:
				ms = append(ms, tg.genRef(scopeIDs))
			case v < 9 || depth >= 3 || tg.nscopes >= 3+tg.size:
				ms = append(ms, tg.genObj(fmt.Sprintf("M%d", tg.n), scopeIDs, depth, level+1))
			default:
				ms = append(ms, tg.genScope(depth+1))
			}
		}
		return oneOf(ms...)
	case w < 90 || depth >= 3 || tg.nscopes >= 3+tg.size:
		return tg.genObj(fmt.Sprintf("N%d", tg.n), scopeIDs, depth, level+1)
	}
	return tg.genScope(depth + 1)
}

func (tg *treeGen) genScope(depth int) *T {
	tg.nscopes++
	tag := tg.tag("s")
	pool := []string{"A", "B", "C", "D"}
	tg.rng.Shuffle(len(pool), func(i, j int) { pool[i], pool[j] = pool[j], pool[i] })
	oids := pool[:1+tg.rng.Intn(2+tg.size/2)]
	objs := make([]*T, len(oids))
	for i, id := range oids {
		objs[i] = tg.genObj(id, oids, depth, 0)
	}
	return scopeT(tag, oids[0], objs)
}

func pairsOf(m map[string]string) [][]string {
	out := [][]string{}
	for _, k := range sortedKeys(m) {
		out = append(out, []string{k, m[k]})
	}
	return out
}

func runRand(c *caseT) *resT {
	res := &resT{}
	tg := &treeGen{rng: rand.New(rand.NewSource(c.Seed)), size: c.Size}
	tg.genExt()
	tree := tg.genScope(1)
	nssAll := append(append([]string{}, tg.nss...), "nz") // nz: a namespace no reference uses
	s := newSession(tree, tg.ext)
	res.Trace = append(res.Trace, map[string]any{"ev": "build", "run": c.Seed, "tree": tree, "ext": tg.ext, "nss": nssAll})
	res.Keys = append(res.Keys, shapeKey(tree))
	record := func(a actT) bool {
		before := s.w.observe(s.refTags)
		_ = before
		pi := s.step(a)
		res.Steps++
		if pi != nil {
			if isHarnessPanic(pi) {
				res.HarnessErr = pi.Msg
			} else {
				res.add(false, panicSig(a, pi), map[string]any{"seed": c.Seed, "act": a, "panic": pi.Msg})
			}
			return false
		}
		vr := [][]any{}
		m := s.vr()
		for _, g := range sortedKeys(m) {
			vr = append(vr, []any{g, m[g]})
		}
		res.Trace = append(res.Trace, map[string]any{"ev": a.Op, "scope": a.Scope, "ns": a.NS, "table": a.Table,
			"link": pairsOf(s.w.observe(s.refTags)), "vr": vr})
		return true
	}
	var order []*T
	scopesPostOrder(tree, &order)
	for _, sc := range order {
		if !record(actT{Op: "self", Scope: sc.Tag}) {
			return res
		}
	}
	tables := sortedKeys(tg.ext)
	tableIDs := func(name string) map[string]bool {
		out := map[string]bool{}
		for _, id := range ids(tg.ext[name]) {
			out[id] = true
		}
		return out
	}
	targets := append([]*T{}, order...)
	for _, g := range s.extNS {
		targets = append(targets, s.w.scopeAST[g])
	}
	for i, k := 0, 2+tg.rng.Intn(7); i < k; i++ {
		sc := targets[tg.rng.Intn(len(targets))]
		if !s.inTree[sc.Tag] && tg.rng.Intn(2) == 0 {
			continue // (re-applying an external scope to itself is not part of the model's calls)
		}
		if s.inTree[sc.Tag] && tg.rng.Intn(2) == 0 {
			if !record(actT{Op: "self", Scope: sc.Tag}) {
				return res
			}
			continue
		}
		ns, table := nssAll[tg.rng.Intn(len(nssAll))], tables[tg.rng.Intn(len(tables))]
		if missing(sc, tableIDs(table), ns) {
			continue // documented panic: not part of the judged behaviour
		}
		if !record(actT{Op: "ns", Scope: sc.Tag, NS: ns, Table: table}) {
			return res
		}
	}
	for _, ns := range tg.nss {
		if !record(actT{Op: "ns", Scope: tree.Tag, NS: ns, Table: tg.home[ns]}) {
			return res
		}
		for _, g := range s.extNS {
			if !record(actT{Op: "ns", Scope: g, NS: ns, Table: tg.home[ns]}) {
				return res
			}
		}
	}
	p, inl := buildPair(res, tree, tg.ext, tg.home, 2, nil)
	if p == nil {
		return res
	}
	if p.rbSelf != nil {
		res.Trace = append(res.Trace, map[string]any{"ev": "rebuilt", "scope": tree.Tag, "ns": "", "table": "",
			"link": pairsOf(p.rbSelf), "vr": [][]any{{tree.Tag, p.rbSelfVR}}})
		if p.rbNS != nil {
			res.Trace = append(res.Trace, map[string]any{"ev": "rebuilt_ns", "scope": tree.Tag, "ns": "", "table": "",
				"link": pairsOf(p.rbNS), "vr": [][]any{{tree.Tag, p.rbNSVR}}})
		}
	}
	late := generated(res, p, newGraph(tree, lex{ext: tg.ext, nstab: tg.home}), tree, inl, genT{Seed: c.Seed, N: c.N, Deep: c.Deep}, map[string]bool{})
	if !c.SkipLoops {
		p.late = true
		for _, f := range late {
			f()
		}
	}
	return res
}

func shapeKey(t *T) string {
	var ss []*T
	scopesPostOrder(t, &ss)
	var st []site
	refSites(t, nil, "", &st)
	kinds := map[string]int{}
	for _, x := range st {
		k := x.under
		if x.ref.NS != "" {
			k += "@"
		}
		kinds[k]++
	}
	return fmt.Sprintf("scopes=%d refs=%s", len(ss), canon(kinds))
}
