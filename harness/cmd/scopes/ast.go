package main

import (
	"encoding/json"
	"fmt"
	"sort"

	"go.flow.arcalot.io/pluginsdk/schema"
)

// T is the abstract schema tree of spec/Scopes.tla: one record family for every kind.
type T struct {
	Kind  string `json:"kind"`
	ID    string `json:"id"`
	NS    string `json:"ns"`
	Tag   string `json:"tag"`
	Sub   []*T   `json:"sub"`
	Props []P    `json:"props"`
}

// P is a property of an object.
type P struct {
	Name string `json:"name"`
	Req  bool   `json:"req"`
	Type *T     `json:"type"`
	Def  string `json:"def"` // declared default ("" = none; else the text of a string default)
	Dis  string `json:"dis"` // "" in use, "plain" disabled without a reason, "reason" disabled with one
}

// The Go struct layouts of struct-mapped objects (an object names its layout in the ns field).
type sLeaf struct {
	Mode string `json:"mode"`
	Tag  string `json:"tag"`
}
type sMid struct {
	Engine sLeaf  `json:"engine"`
	Note   string `json:"note"`
}
type sRoot struct {
	Cfg  sMid   `json:"cfg"`
	Alt  sLeaf  `json:"alt"`
	Name string `json:"name"`
}

const discField = "_t"

var keys = []string{"k1", "k2", "k3", "k4"}

func (t *T) kids() []*T {
	if t.Kind == "obj" {
		out := make([]*T, len(t.Props))
		for i := range t.Props {
			out[i] = t.Props[i].Type
		}
		return out
	}
	return t.Sub
}

func mk(kind, id, ns, tag string, sub []*T, props []P) *T {
	if sub == nil {
		sub = []*T{}
	}
	if props == nil {
		props = []P{}
	}
	return &T{Kind: kind, ID: id, NS: ns, Tag: tag, Sub: sub, Props: props}
}

func leaf() *T                           { return mk("leaf", "", "", "", nil, nil) }
func listOf(t *T) *T                     { return mk("list", "", "", "", []*T{t}, nil) }
func mapOf(t *T) *T                      { return mk("map", "", "", "", []*T{t}, nil) }
func oneOf(ms ...*T) *T                  { return mk("oneof", "", "", "", ms, nil) }
func refT(tag, ns, id string) *T         { return mk("ref", id, ns, tag, nil, nil) }
func objT(id, tag string, p []P) *T      { return mk("obj", id, "", tag, nil, p) }
func scopeT(tag, root string, o []*T) *T { return mk("scope", root, "", tag, o, nil) }

func (t *T) objByID(id string) *T {
	for _, o := range t.Sub {
		if o.ID == id {
			return o
		}
	}
	return nil
}

func canon(v any) string {
	b, _ := json.Marshal(v)
	var x any
	_ = json.Unmarshal(b, &x)
	b, _ = json.Marshal(x) // map keys sorted
	return string(b)
}

// ---------------------------------------------------------------- walks

type site struct {
	ref   *T
	chain []*T   // enclosing scopes, outermost first
	under string // kind of the immediate container
}

func refSites(t *T, chain []*T, under string, out *[]site) {
	if t.Kind == "ref" {
		*out = append(*out, site{ref: t, chain: append([]*T{}, chain...), under: under})
		return
	}
	c := chain
	if t.Kind == "scope" {
		c = append(append([]*T{}, chain...), t)
	}
	u := t.Kind
	if t.Kind == "obj" {
		u = "prop"
	}
	for _, k := range t.kids() {
		refSites(k, c, u, out)
	}
}

func scopesPostOrder(t *T, out *[]*T) {
	for _, k := range t.kids() {
		scopesPostOrder(k, out)
	}
	if t.Kind == "scope" {
		*out = append(*out, t)
	}
}

func objsIn(t *T, out *[]*T) {
	if t.Kind == "obj" {
		*out = append(*out, t)
	}
	for _, k := range t.kids() {
		objsIn(k, out)
	}
}

// missing: the references for which ApplyNamespace(objs, ns) on t is documented to panic
func missing(t *T, ids map[string]bool, ns string) bool {
	switch t.Kind {
	case "ref":
		return t.NS == ns && !ids[t.ID]
	case "scope":
		o := ids
		if ns == "" {
			o = map[string]bool{}
			for _, x := range t.Sub {
				o[x.ID] = true
			}
		}
		for _, k := range t.Sub {
			if missing(k, o, ns) {
				return true
			}
		}
		return false
	}
	for _, k := range t.kids() {
		if missing(k, ids, ns) {
			return true
		}
	}
	return false
}

// ---------------------------------------------------------------- inlining (mirror of Scopes!Inline)

type lex struct {
	ext   map[string]*T
	nstab map[string]string
}

func (x lex) target(r *T, env *T) (*T, *T) {
	e := env
	if r.NS != "" {
		e = x.ext[x.nstab[r.NS]]
	}
	if e == nil {
		return nil, nil
	}
	return e.objByID(r.ID), e
}

func inline(t *T, env *T, k int, x lex) *T {
	switch t.Kind {
	case "leaf":
		return t
	case "ref":
		o, e := x.target(t, env)
		if k == 0 {
			c := *e
			c.ID = t.ID
			return &c
		}
		return inline(o, e, k-1, x)
	case "obj":
		c := *t
		c.Props = make([]P, len(t.Props))
		for i, p := range t.Props {
			c.Props[i] = P{Name: p.Name, Req: p.Req, Def: p.Def, Dis: p.Dis, Type: inline(p.Type, env, k, x)}
		}
		return &c
	case "scope":
		c := *t
		c.Sub = make([]*T, len(t.Sub))
		for i, s := range t.Sub {
			c.Sub[i] = inline(s, t, k, x)
		}
		return &c
	}
	c := *t
	c.Sub = make([]*T, len(t.Sub))
	for i, s := range t.Sub {
		c.Sub[i] = inline(s, env, k, x)
	}
	return &c
}

// ---------------------------------------------------------------- building real schemas

// world holds the real schema values built from one abstract tree, and who is who.
type world struct {
	scopeAST map[string]*T
	scopes   map[string]*schema.ScopeSchema
	refs     map[string]*schema.RefSchema
	objTag   map[*schema.ObjectSchema]string
	objAST   map[string]*T
	memo     bool // nested scopes are looked up by tag (main tree) instead of being built in place
}

func newWorld(memo bool) *world {
	return &world{
		scopeAST: map[string]*T{}, scopes: map[string]*schema.ScopeSchema{},
		refs: map[string]*schema.RefSchema{}, objTag: map[*schema.ObjectSchema]string{},
		objAST: map[string]*T{}, memo: memo,
	}
}

func (w *world) index(t *T) {
	var ss []*T
	scopesPostOrder(t, &ss)
	for _, s := range ss {
		w.scopeAST[s.Tag] = s
	}
	var os []*T
	objsIn(t, &os)
	for _, o := range os {
		w.objAST[o.Tag] = o
	}
}

func (w *world) buildType(t *T) schema.Type {
	switch t.Kind {
	case "leaf":
		return schema.NewStringSchema(nil, nil, nil)
	case "list":
		return schema.NewListSchema(w.buildType(t.Sub[0]), nil, nil)
	case "map":
		return schema.NewMapSchema(schema.NewStringSchema(nil, nil, nil), w.buildType(t.Sub[0]), nil, nil)
	case "oneof":
		ms := map[string]schema.Object{}
		for i, m := range t.Sub {
			ms[keys[i]] = w.buildType(m).(schema.Object)
		}
		return schema.NewOneOfStringSchema[any](ms, discField, false)
	case "ref":
		var r *schema.RefSchema
		if t.NS == "" {
			r = schema.NewRefSchema(t.ID, nil)
		} else {
			r = schema.NewNamespacedRefSchema(t.ID, t.NS, nil)
		}
		if w.memo {
			w.refs[t.Tag] = r
		}
		return r
	case "obj":
		return w.buildObj(t)
	case "scope":
		if w.memo {
			s, ok := w.scopes[t.Tag]
			if !ok {
				panic(harnessErr(fmt.Sprintf("HARNESS: inner scope %q used before it was constructed", t.Tag)))
			}
			return s
		}
		return w.buildScope(t)
	}
	panic(harnessErr("HARNESS: unknown kind " + t.Kind))
}

type harnessErr string

func (w *world) buildObj(t *T) *schema.ObjectSchema {
	props := map[string]*schema.PropertySchema{}
	for _, p := range t.Props {
		var def *string
		if p.Def != "" {
			d := p.Def // JSON text of an object / list default, or the bare text of a string default
			if d[0] != '{' && d[0] != '[' {
				b, _ := json.Marshal(p.Def)
				d = string(b)
			}
			def = &d
		}
		ps := schema.NewPropertySchema(w.buildType(p.Type), nil, p.Req, nil, nil, nil, def, nil)
		switch p.Dis {
		case "plain":
			ps.Disabled = true
		case "reason":
			ps.Disable("superseded")
		}
		props[p.Name] = ps
	}
	var o *schema.ObjectSchema
	switch t.NS {
	case "":
		o = schema.NewObjectSchema(t.ID, props)
	case "Leaf":
		o = schema.NewStructMappedObjectSchema[sLeaf](t.ID, props)
	case "Mid":
		o = schema.NewStructMappedObjectSchema[sMid](t.ID, props)
	case "Root":
		o = schema.NewStructMappedObjectSchema[sRoot](t.ID, props)
	default:
		panic(harnessErr("HARNESS: unknown struct layout " + t.NS))
	}
	if w.memo {
		w.objTag[o] = t.Tag
	}
	return o
}

// buildScope constructs the scope exactly as user code does: objects first, then
// NewScopeSchema(root, others...) which applies the scope to itself.
func (w *world) buildScope(t *T) *schema.ScopeSchema {
	var root *schema.ObjectSchema
	var others []*schema.ObjectSchema
	for _, o := range t.Sub {
		b := w.buildObj(o)
		if o.ID == t.ID && root == nil {
			root = b
		} else {
			others = append(others, b)
		}
	}
	if root == nil {
		panic(harnessErr("HARNESS: scope without root " + t.Tag))
	}
	s := schema.NewScopeSchema(root, others...)
	if w.memo {
		w.scopes[t.Tag] = s
	}
	return s
}

// observe reports, for every reference of the abstract trees, the tag of the object it is linked to.
func (w *world) observe(tags []string) map[string]string {
	out := map[string]string{}
	for _, g := range tags {
		r, ok := w.refs[g]
		if !ok || !r.ObjectReady() {
			out[g] = "None"
			continue
		}
		o, isObj := r.GetObject().(*schema.ObjectSchema)
		tag, known := w.objTag[o]
		switch {
		case !isObj:
			out[g] = fmt.Sprintf("?%T", r.GetObject())
		case !known:
			out[g] = "?unknown:" + o.ID()
		default:
			out[g] = tag
			// the marker property, where the object has one, must be there as well
			if ast := w.objAST[tag]; ast != nil && len(ast.Props) > 0 && ast.Props[0].Name == tag {
				if _, has := r.GetObject().Properties()[tag]; !has {
					out[g] = "?nomarker:" + tag
				}
			}
		}
	}
	return out
}

func sortedKeys[V any](m map[string]V) []string {
	out := make([]string, 0, len(m))
	for k := range m {
		out = append(out, k)
	}
	sort.Strings(out)
	return out
}

func mapBased(t *T) bool {
	var os []*T
	objsIn(t, &os)
	for _, o := range os {
		if o.NS != "" {
			return false
		}
	}
	return true
}

// mapRebuilt walks a schema rebuilt from a description in parallel with the abstract tree it was
// described from and records who is who (references and objects by tag). ok=false: the shapes differ.
func (w *world) mapRebuilt(t *T, typ schema.Type) bool {
	switch t.Kind {
	case "leaf":
		return typ.TypeID() == schema.TypeIDString
	case "ref":
		r, ok := typ.(*schema.RefSchema)
		if !ok || r.ID() != t.ID || r.Namespace() != t.NS {
			return false
		}
		w.refs[t.Tag] = r
		return true
	case "list":
		l, ok := typ.(interface{ Items() schema.Type })
		return ok && w.mapRebuilt(t.Sub[0], l.Items())
	case "map":
		m, ok := typ.(interface{ Values() schema.Type })
		return ok && w.mapRebuilt(t.Sub[0], m.Values())
	case "oneof":
		o, ok := typ.(interface {
			Types() map[string]schema.Object
		})
		if !ok || len(o.Types()) != len(t.Sub) {
			return false
		}
		for i, m := range t.Sub {
			mt, has := o.Types()[keys[i]]
			if !has || !w.mapRebuilt(m, mt) {
				return false
			}
		}
		return true
	case "obj":
		o, ok := typ.(*schema.ObjectSchema)
		return ok && w.mapRebuiltObj(t, o)
	case "scope":
		s, ok := typ.(*schema.ScopeSchema)
		if !ok || s.Root() != t.ID || len(s.Objects()) != len(t.Sub) {
			return false
		}
		w.scopes[t.Tag] = s
		for _, o := range t.Sub {
			ro, has := s.Objects()[o.ID]
			if !has || !w.mapRebuiltObj(o, ro) {
				return false
			}
		}
		return true
	}
	return false
}

func (w *world) mapRebuiltObj(t *T, o *schema.ObjectSchema) bool {
	if o == nil || o.ID() != t.ID || len(o.Properties()) != len(t.Props) {
		return false
	}
	w.objTag[o] = t.Tag
	for _, p := range t.Props {
		rp, has := o.Properties()[p.Name]
		if !has || !w.mapRebuilt(p.Type, rp.Type()) {
			return false
		}
	}
	return true
}

// enabledTwin: the same tree with no property disabled (used to obtain the unserialized form of
// inputs that set a disabled property, which Validate and Serialize must treat alike on the
// scope and on the inlined scope). Returns nil when nothing is disabled.
func enabledTwin(t *T) *T {
	any := false
	var cp func(t *T) *T
	cp = func(t *T) *T {
		c := *t
		c.Sub = make([]*T, len(t.Sub))
		for i, k := range t.Sub {
			c.Sub[i] = cp(k)
		}
		c.Props = make([]P, len(t.Props))
		for i, p := range t.Props {
			if p.Dis != "" {
				any = true
			}
			c.Props[i] = P{Name: p.Name, Req: p.Req, Def: p.Def, Type: cp(p.Type)}
		}
		return &c
	}
	out := cp(t)
	if !any {
		return nil
	}
	return out
}
