// Package fakei declares an INTERFACE type that is named error and is not the predeclared
// error: its only method is Fail.
package fakei

type error interface{ Fail() string }

type failer struct{ s string }

func (f failer) Fail() string { return f.s }

// Ptr is a nil pointer to the interface type, for reflect.TypeOf(Ptr).Elem().
var Ptr *error

// New returns an implementation.
func New(s string) any { return failer{s} }
