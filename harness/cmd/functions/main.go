// Command functions is the conformance driver for C18 (spec/Funcs.tla).
//
// Cases:
//
//	{"op":"bind","native":[{schema,type}..],"types":[{id,iface,nilable,err}..],"errtokens":[class..]}
//	      the abstraction tables of FuncsMC, checked here against the real schemas
//	      (ReflectedType) and package reflect; a difference is bind_error (infrastructure)
//	{"op":"new","dyn":b,"params":[type..],"results":[type..],"inputs":[schema..],"natives":[type..],
//	 "out":[schema]|[],"err":b,"exp":{"verdict":"yes"|"maybe"|"no","rule":..}}
//	      one cell of the matrix: a handler of that signature is synthesised with reflect.FuncOf +
//	      reflect.MakeFunc, the declaration is built with the public schema constructors, and
//	      NewCallableFunction / NewDynamicCallableFunction decides
//	{"op":"call", ...the cell..., "call":{"args":[tok..],"bad":p,"beh":{"k","r"}},
//	 "exp":{"kind":"value"|"void"|"error"|"open_shape"|"open_panic","tok":t,"reported":b}}
//	      one call on an accepted cell
//	{"op":"rand","seed":S,"count":K}
//	      seeded random functions and calls beyond the matrix (nested schemas, up to 6 parameters,
//	      more foreign types, up to 4 results); every constructor verdict and every call is logged as
//	      a trace line for spec/FuncsTrace.tla - no expectation is computed here
//	{"op":"outside"}
//	      variadic and non-function handlers: outside the property's matrix, run for coverage;
//	      surprises are reported as drift
//
// The expectation always comes from the specification; this program compares (the Go function
// meets mirrors the operator Meets) and additionally evaluates the statement directly on the
// real values: what Call returned against what the synthesised handler really returned.
package main

import (
	"encoding/json"
	"errors"
	"fmt"
	"math/rand"
	"reflect"
	"regexp"
	"sort"
	"strings"

	"go.flow.arcalot.io/pluginsdk/schema"
	"verif/harness/cmd/functions/fake"
	"verif/harness/cmd/functions/fakee"
	"verif/harness/cmd/functions/fakei"
	"verif/harness/sup"
)

// ---------------------------------------------------------------------------- case / result shapes

type behT struct {
	K string `json:"k"`
	R []int  `json:"r"`
}

type callT struct {
	Args []int `json:"args"`
	Bad  int   `json:"bad"`
	Beh  behT  `json:"beh"`
}

type expT struct {
	Verdict  string `json:"verdict"`
	Rule     string `json:"rule"`
	Kind     string `json:"kind"`
	Tok      int    `json:"tok"`
	Reported bool   `json:"reported"`
}

type attrT struct {
	ID      string `json:"id"`
	Iface   bool   `json:"iface"`
	Nilable bool   `json:"nilable"`
	Err     bool   `json:"err"`
}

type caseT struct {
	Op      string   `json:"op"`
	Dyn     bool     `json:"dyn"`
	Params  []string `json:"params"`
	Results []string `json:"results"`
	Inputs  []string `json:"inputs"`  // schema ids
	Natives []string `json:"natives"` // their native types according to the specification
	Out     []string `json:"out"`     // schema id, or empty
	Err     bool     `json:"err"`
	Call    callT    `json:"call"`
	Exp     expT     `json:"exp"`
	// bind
	Native []struct {
		Schema string `json:"schema"`
		Type   string `json:"type"`
	} `json:"native"`
	Types     []attrT  `json:"types"`
	Errtokens []string `json:"errtokens"`
	// rand
	Seed  int64 `json:"seed"`
	Count int   `json:"count"`
}

type mismatch struct {
	Sig    map[string]any `json:"sig"`
	Detail map[string]any `json:"detail"`
	Drift  bool           `json:"drift,omitempty"`
}

type resT struct {
	Evals      int              `json:"evals"`
	Mismatches []mismatch       `json:"mismatches,omitempty"`
	Trace      []map[string]any `json:"trace,omitempty"`
	BindError  string           `json:"bind_error,omitempty"`
	Skipped    int              `json:"skipped,omitempty"` // call vectors on a cell the code did not accept
	Open       map[string]int   `json:"open,omitempty"`    // observations in cases the statement leaves open
	Outside    []map[string]any `json:"outside,omitempty"`
	Stats      map[string]int   `json:"stats,omitempty"`
}

func (r *resT) open(k string) {
	if r.Open == nil {
		r.Open = map[string]int{}
	}
	r.Open[k]++
}

func (r *resT) stat(k string) {
	if r.Stats == nil {
		r.Stats = map[string]int{}
	}
	r.Stats[k]++
}

func (r *resT) miss(sig map[string]any, detail map[string]any, drift bool) {
	if len(r.Mismatches) < 40 {
		r.Mismatches = append(r.Mismatches, mismatch{Sig: sig, Detail: detail, Drift: drift})
	}
}

// ---------------------------------------------------------------------------- Go types and their ids

// PtrErr is a pointer-receiver error implementation that also has Code (so *PtrErr is a CodedError).
type PtrErr struct{ Msg string }

func (p *PtrErr) Error() string { return "ptrerr:" + p.Msg }

// Code makes *PtrErr a CodedError.
func (p *PtrErr) Code() int { return len(p.Msg) }

// ValErr is a value-receiver error implementation (not nilable).
type ValErr struct{ Msg string }

func (v ValErr) Error() string { return "valerr:" + v.Msg }

// CodedError is an interface embedding error.
type CodedError interface {
	error
	Code() int
}

// MyString is a named string type.
type MyString string

type strT string

func (s strT) String() string { return string(s) }

// foreignT is the type of the value that stands in for "an argument that is not of the declared type".
type foreignT struct{ Z int }

var (
	errorType    = reflect.TypeOf((*error)(nil)).Elem()
	anyType      = reflect.TypeOf((*any)(nil)).Elem()
	stringerType = reflect.TypeOf((*fmt.Stringer)(nil)).Elem()
	codedType    = reflect.TypeOf((*CodedError)(nil)).Elem()
	fakeType     = reflect.TypeOf(fake.Type)
	fakeiType    = reflect.TypeOf(fakei.Ptr).Elem()
	fakeeType    = reflect.TypeOf(fakee.Type)
	ptrErrType   = reflect.TypeOf(&PtrErr{})
	valErrType   = reflect.TypeOf(ValErr{})
	regexpType   = reflect.TypeOf(&regexp.Regexp{})
)

// universe: the type ids of FuncsMC
var universe = map[string]reflect.Type{
	"int64":                   reflect.TypeOf(int64(0)),
	"float64":                 reflect.TypeOf(float64(0)),
	"string":                  reflect.TypeOf(""),
	"bool":                    reflect.TypeOf(false),
	"*regexp.Regexp":          regexpType,
	"interface {}":            anyType,
	"[]int64":                 reflect.TypeOf([]int64{}),
	"[]string":                reflect.TypeOf([]string{}),
	"[]interface {}":          reflect.TypeOf([]any{}),
	"[][]int64":               reflect.TypeOf([][]int64{}),
	"map[string]int64":        reflect.TypeOf(map[string]int64{}),
	"map[int64]string":        reflect.TypeOf(map[int64]string{}),
	"map[string]interface {}": reflect.TypeOf(map[string]any{}),
	"int":                     reflect.TypeOf(int(0)),
	"error":                   errorType,
	"fake.error":              fakeType,
	"fakei.error":             fakeiType,
	"fakee.error":             fakeeType,
	"*main.PtrErr":            ptrErrType,
	"main.CodedError":         codedType,
	"fmt.Stringer":            stringerType,
}

const pkgPrefix = "verif/harness/cmd/functions/"

// typeID is injective on the types this program uses (checked by idOf).
func typeID(t reflect.Type) string {
	if t.Name() != "" {
		pp := t.PkgPath()
		if pp == "" {
			return t.Name()
		}
		return strings.TrimPrefix(pp, pkgPrefix) + "." + t.Name()
	}
	switch t.Kind() {
	case reflect.Ptr:
		return "*" + typeID(t.Elem())
	case reflect.Slice:
		return "[]" + typeID(t.Elem())
	case reflect.Map:
		return "map[" + typeID(t.Key()) + "]" + typeID(t.Elem())
	case reflect.Interface:
		if t.NumMethod() == 0 {
			return "interface {}"
		}
	}
	return t.String()
}

var idSeen = map[string]reflect.Type{}

// idOf returns the id of t and fails when two different types share an id.
func idOf(t reflect.Type) (string, error) {
	id := typeID(t)
	if o, ok := idSeen[id]; ok && o != t {
		return id, fmt.Errorf("type id %q is not injective: %v and %v", id, o, t)
	}
	idSeen[id] = t
	return id, nil
}

func attrOf(t reflect.Type) attrT {
	a := attrT{ID: typeID(t)}
	a.Iface = t.Kind() == reflect.Interface
	switch t.Kind() {
	case reflect.Interface, reflect.Ptr, reflect.Slice, reflect.Map, reflect.Chan, reflect.Func, reflect.UnsafePointer:
		a.Nilable = true
	}
	a.Err = t.AssignableTo(errorType)
	return a
}

// ---------------------------------------------------------------------------- values by token

type vkey struct {
	t   reflect.Type
	tok int
}

var vcache = map[vkey]reflect.Value{}

// implementers tried for interface types, per non-zero token
func candidates(tok int) []any {
	if tok == 1 {
		return []any{int64(7), errors.New("e1"), fakei.New("f1"), &PtrErr{Msg: "c"}, strT("s1")}
	}
	return []any{"bb", errors.New("e2"), fakei.New("f2"), &PtrErr{Msg: "cc"}, strT("s2")}
}

// NilSafeErr is an error implementation whose nil pointer is usable (the typed-nil error token).
type NilSafeErr struct{ Msg string }

func (e *NilSafeErr) Error() string {
	if e == nil {
		return "typed nil error"
	}
	return e.Msg
}

// SliceErr and MapErr are error implementations of slice and map kind: their nil values are the
// "nothing collected" results of a validator-style handler - non-nil errors all the same.
type SliceErr []string

func (e SliceErr) Error() string { return fmt.Sprintf("%d problems", len(e)) }

type MapErr map[string]string

func (e MapErr) Error() string { return fmt.Sprintf("%d field errors", len(e)) }

// errTokClass: the classes of the error tokens 1..8 (must equal ErrTokClass of Funcs.tla).
var errTokClass = []string{"plain", "plain", "wraps_call_shape_error", "call_error_not_reported", "call_error_reported",
	"typed_nil", "typed_nil_slice", "typed_nil_map"}

// tokDom is the number of the highest token of type t.
func tokDom(t reflect.Type) int {
	if t == errorType {
		return len(errTokClass)
	}
	return 2
}

// shapeError produces a *FunctionCallError that is not function-reported the way a handler gets
// one in real life: by calling another function with a wrong argument count.
func shapeError() error {
	inner, err := schema.NewCallableFunction("inner", []schema.Type{}, nil, false, nil, func() {})
	if err == nil {
		if _, cerr := inner.Call([]any{int64(1)}); cerr != nil {
			var fce *schema.FunctionCallError
			if errors.As(cerr, &fce) && !fce.IsFunctionReportedError {
				return cerr
			}
		}
	}
	return schema.NewFunctionCallError(errors.New("inner call: incorrect number of args"), false)
}

// errorToken builds the value of type error for tokens 3..6.
func errorToken(tok int) error {
	switch errTokClass[tok-1] {
	case "wraps_call_shape_error":
		return fmt.Errorf("handler could not call its helper: %w", shapeError())
	case "call_error_not_reported":
		return shapeError()
	case "call_error_reported":
		return schema.NewFunctionCallError(errors.New("helper failed"), true)
	case "typed_nil":
		var p *NilSafeErr
		return p
	case "typed_nil_slice":
		var p SliceErr
		return p
	case "typed_nil_map":
		var p MapErr
		return p
	}
	panic("no error token " + fmt.Sprint(tok))
}

// valueOf returns the value of type t that token tok stands for: 0 = zero value, 1 and 2 =
// two non-zero (for nilable types: non-nil) values.  Values are cached, so pointers are stable.
func valueOf(t reflect.Type, tok int) reflect.Value {
	k := vkey{t, tok}
	if v, ok := vcache[k]; ok {
		return v
	}
	v := buildValue(t, tok)
	vcache[k] = v
	return v
}

func buildValue(t reflect.Type, tok int) reflect.Value {
	if tok == 0 {
		return reflect.Zero(t)
	}
	v := reflect.New(t).Elem()
	if t == errorType && tok > 2 {
		v.Set(reflect.ValueOf(errorToken(tok)))
		return v
	}
	switch t.Kind() {
	case reflect.Int, reflect.Int8, reflect.Int16, reflect.Int32, reflect.Int64:
		v.SetInt(int64(3 + 4*tok))
	case reflect.Uint, reflect.Uint8, reflect.Uint16, reflect.Uint32, reflect.Uint64:
		v.SetUint(uint64(3 + 4*tok))
	case reflect.Float32, reflect.Float64:
		v.SetFloat(float64(tok) + 0.5)
	case reflect.String:
		v.SetString([]string{"", "a", "bb"}[tok])
	case reflect.Bool:
		v.SetBool(true)
	case reflect.Slice:
		s := reflect.MakeSlice(t, tok, tok)
		for i := 0; i < tok; i++ {
			s.Index(i).Set(valueOf(t.Elem(), i%2+1))
		}
		v.Set(s)
	case reflect.Map:
		m := reflect.MakeMap(t)
		for i := 0; i < tok; i++ {
			m.SetMapIndex(valueOf(t.Key(), i%2+1), valueOf(t.Elem(), i%2+1))
		}
		v.Set(m)
	case reflect.Ptr:
		switch t {
		case regexpType:
			v.Set(reflect.ValueOf(regexp.MustCompile([]string{"", "a", "b+"}[tok])))
		case ptrErrType:
			v.Set(reflect.ValueOf(&PtrErr{Msg: strings.Repeat("p", tok)}))
		default:
			p := reflect.New(t.Elem())
			p.Elem().Set(valueOf(t.Elem(), tok))
			v.Set(p)
		}
	case reflect.Interface:
		for _, c := range candidates(tok) {
			cv := reflect.ValueOf(c)
			if cv.Type().AssignableTo(t) {
				v.Set(cv)
				return v
			}
		}
		panic("no implementer for interface type " + t.String())
	case reflect.Struct:
		switch t {
		case fakeType:
			v.Set(reflect.ValueOf(fake.New(tok)))
		case fakeeType:
			v.Set(reflect.ValueOf(fakee.New(strings.Repeat("x", tok))))
		case valErrType:
			v.Set(reflect.ValueOf(ValErr{Msg: strings.Repeat("v", tok)}))
		default:
			for i := 0; i < t.NumField(); i++ {
				if t.Field(i).IsExported() {
					v.Field(i).Set(valueOf(t.Field(i).Type, tok))
				}
			}
		}
	default:
		panic("no values for type " + t.String())
	}
	return v
}

// ---------------------------------------------------------------------------- schemas

// sdesc describes a schema; build makes it with the public constructors, goType computes the
// native type independently (reflect only).
type sdesc struct {
	Kind   string
	Items  *sdesc
	Keys   *sdesc
	Values *sdesc
}

func (d *sdesc) build() schema.Type {
	switch d.Kind {
	case "int":
		return schema.NewIntSchema(nil, nil, nil)
	case "float":
		return schema.NewFloatSchema(nil, nil, nil)
	case "string":
		return schema.NewStringSchema(nil, nil, nil)
	case "bool":
		return schema.NewBoolSchema()
	case "pattern":
		return schema.NewPatternSchema()
	case "any":
		return schema.NewAnySchema()
	case "enum_string":
		return schema.NewStringEnumSchema(map[string]*schema.DisplayValue{"a": nil, "b": nil})
	case "enum_int":
		return schema.NewIntEnumSchema(map[int64]*schema.DisplayValue{1: nil, 2: nil}, nil)
	case "object":
		return schema.NewObjectSchema("o", map[string]*schema.PropertySchema{})
	case "list":
		return schema.NewListSchema(d.Items.build(), nil, nil)
	case "map":
		return schema.NewMapSchema(d.Keys.build(), d.Values.build(), nil, nil)
	}
	panic("unknown schema kind " + d.Kind)
}

func (d *sdesc) goType() reflect.Type {
	switch d.Kind {
	case "int", "enum_int":
		return universe["int64"]
	case "float":
		return universe["float64"]
	case "string", "enum_string":
		return universe["string"]
	case "bool":
		return universe["bool"]
	case "pattern":
		return regexpType
	case "any":
		return anyType
	case "object":
		return universe["map[string]interface {}"]
	case "list":
		return reflect.SliceOf(d.Items.goType())
	case "map":
		return reflect.MapOf(d.Keys.goType(), d.Values.goType())
	}
	panic("unknown schema kind " + d.Kind)
}

func (d *sdesc) String() string {
	switch d.Kind {
	case "list":
		return "list[" + d.Items.String() + "]"
	case "map":
		return "map[" + d.Keys.String() + "," + d.Values.String() + "]"
	}
	return d.Kind
}

func sc(k string) *sdesc { return &sdesc{Kind: k} }

// the schema ids of FuncsMC
var schemaIDs = map[string]*sdesc{
	"int": sc("int"), "float": sc("float"), "string": sc("string"), "bool": sc("bool"),
	"pattern": sc("pattern"), "any": sc("any"),
	"list_int":       {Kind: "list", Items: sc("int")},
	"list_string":    {Kind: "list", Items: sc("string")},
	"list_any":       {Kind: "list", Items: sc("any")},
	"list_list_int":  {Kind: "list", Items: &sdesc{Kind: "list", Items: sc("int")}},
	"map_string_int": {Kind: "map", Keys: sc("string"), Values: sc("int")},
	"map_int_string": {Kind: "map", Keys: sc("int"), Values: sc("string")},
	"map_string_any": {Kind: "map", Keys: sc("string"), Values: sc("any")},
}

// ---------------------------------------------------------------------------- the function under test

type hstate struct {
	beh      behT
	invoked  int
	got      []any
	returned []reflect.Value
}

// makeHandler synthesises a handler of the given signature whose behaviour is driven by st.
func makeHandler(params, results []reflect.Type, variadic bool, st *hstate) any {
	ft := reflect.FuncOf(params, results, variadic)
	return reflect.MakeFunc(ft, func(args []reflect.Value) []reflect.Value {
		st.invoked++
		st.got = st.got[:0]
		for _, a := range args {
			st.got = append(st.got, a.Interface())
		}
		if st.beh.K == "panic" {
			panic("verif: handler panics")
		}
		out := make([]reflect.Value, len(results))
		for j, rt := range results {
			tok := 0
			if j < len(st.beh.R) {
				tok = st.beh.R[j]
			}
			if st.beh.K == "echo" && j == 0 {
				p := tok - 1
				if p >= 0 && p < len(args) && args[p].Type() == rt {
					out[j] = args[p]
				} else {
					out[j] = reflect.Zero(rt)
				}
				continue
			}
			out[j] = valueOf(rt, tok)
		}
		st.returned = out
		return out
	}).Interface()
}

// fnT is a function built from a cell: real schemas, real constructor.
type fnT struct {
	dyn      bool
	params   []reflect.Type
	results  []reflect.Type
	natives  []reflect.Type // native types of the declared inputs (own computation)
	inputs   []schema.Type
	out      schema.Type
	outNat   reflect.Type
	err      bool
	variadic bool
	st       *hstate
	handler  any
}

type ctorObs struct {
	Res   string `json:"res"` // accepted | rejected | panic
	Err   string `json:"err,omitempty"`
	Panic string `json:"panic,omitempty"`
	Frame string `json:"frame,omitempty"`
}

func (f *fnT) construct() (schema.CallableFunction, ctorObs) {
	var fn schema.CallableFunction
	var err error
	pi := sup.Guard(func() {
		if f.dyn {
			fn, err = schema.NewDynamicCallableFunction("f", f.inputs, nil, f.handler,
				func(in []schema.Type) (schema.Type, error) { return schema.NewAnySchema(), nil })
		} else {
			fn, err = schema.NewCallableFunction("f", f.inputs, f.out, f.err, nil, f.handler)
		}
	})
	switch {
	case pi != nil:
		return nil, ctorObs{Res: "panic", Panic: pi.Msg, Frame: pi.Frame}
	case err != nil:
		return nil, ctorObs{Res: "rejected", Err: err.Error()}
	case fn == nil:
		return nil, ctorObs{Res: "panic", Panic: "constructor returned (nil, nil)"}
	}
	return fn, ctorObs{Res: "accepted"}
}

type callObs struct {
	Kind     string `json:"kind"` // ok | error | panic
	IsNil    bool   `json:"isnil"`
	Toks     []int  `json:"toks"`
	Reported bool   `json:"reported"`
	SrcToks  []int  `json:"srctoks"` // tokens of the error slot's type whose value is the reported source
	FCE      bool   `json:"fce"`     // the error is a *FunctionCallError
	Invoked  int    `json:"invoked"` // how often the handler ran
	Msg      string `json:"msg,omitempty"`
	Frame    string `json:"frame,omitempty"`
	// direct evaluation of the statement on the real values ("" = fine or not applicable)
	Direct string `json:"direct,omitempty"`
	ArgsOK bool   `json:"args_ok"`
}

// argsFor makes the argument list of a call: one value of the declared native type per token;
// position bad carries a value of a foreign type.
func (f *fnT) argsFor(c callT) []any {
	args := make([]any, len(c.Args))
	for i, tok := range c.Args {
		var t reflect.Type
		if i < len(f.natives) {
			t = f.natives[i]
		} else {
			t = universe["int64"] // surplus arguments
		}
		args[i] = valueOf(t, tok).Interface()
		if c.Bad == i+1 {
			args[i] = foreignT{Z: 1}
		}
	}
	return args
}

func (f *fnT) call(fn schema.CallableFunction, c callT) callObs {
	f.st.beh = c.Beh
	f.st.invoked = 0
	f.st.got = nil
	f.st.returned = nil
	args := f.argsFor(c)
	var res any
	var err error
	pi := sup.Guard(func() { res, err = fn.Call(args) })
	o := callObs{Toks: []int{}, SrcToks: []int{}, Invoked: f.st.invoked}
	if f.st.invoked > 0 && len(f.st.got) == len(args) {
		o.ArgsOK = true
		for i := range args {
			if !reflect.DeepEqual(f.st.got[i], args[i]) {
				o.ArgsOK = false
			}
		}
	}
	switch {
	case pi != nil:
		o.Kind, o.Msg, o.Frame = "panic", pi.Msg, pi.Frame
		return o
	case err != nil:
		o.Kind, o.Msg = "error", err.Error()
		var fce *schema.FunctionCallError
		if errors.As(err, &fce) && fce != nil {
			o.FCE = true
			o.Reported = fce.IsFunctionReportedError
			// which value of the error slot's type is the reported source?
			if n := len(f.results); n > 0 {
				for tok := 1; tok <= tokDom(f.results[n-1]); tok++ {
					if he, ok := valueOf(f.results[n-1], tok).Interface().(error); ok && isSource(err, fce, he) {
						o.SrcToks = append(o.SrcToks, tok)
					}
				}
			}
			// direct: a function-reported error is the error the handler returned
			if o.Reported {
				n := len(f.st.returned)
				if n == 0 {
					o.Direct = "function-reported error although the handler returned nothing"
				} else if he, ok := f.st.returned[n-1].Interface().(error); !ok || !isSource(err, fce, he) {
					o.Direct = "function-reported error is not the error the handler returned"
				}
			}
		}
		// direct: an error the handler returned is reported as the function's - whatever it is or wraps
		if n := len(f.st.returned); n > 0 && f.st.invoked == 1 && len(f.results) > 0 && f.results[n-1] == errorType && f.exact() {
			if he, ok := f.st.returned[n-1].Interface().(error); ok && he != nil && !o.Reported {
				o.Direct = "the handler returned an error and Call does not report it as function-reported"
			}
		}
		return o
	}
	o.Kind = "ok"
	o.IsNil = res == nil
	if len(f.results) > 0 {
		for tok := 0; tok <= tokDom(f.results[0]); tok++ {
			if reflect.DeepEqual(res, valueOf(f.results[0], tok).Interface()) {
				o.Toks = append(o.Toks, tok)
			}
		}
	}
	// direct: the value is the handler's first result (or nothing, for a function without value)
	if f.st.invoked == 1 {
		hasValue := f.dyn || f.out != nil
		switch {
		case hasValue && len(f.st.returned) > 0:
			if !reflect.DeepEqual(res, f.st.returned[0].Interface()) {
				o.Direct = fmt.Sprintf("Call returned %#v, the handler returned %#v", res, f.st.returned[0].Interface())
			}
		case !hasValue && res != nil:
			o.Direct = fmt.Sprintf("Call returned %#v from a function without output", res)
		}
	}
	return o
}

// isSource: he (the handler's error value) is what the returned error reports - SourceError is he
// or wraps it, or the returned error is he itself.
func isSource(err error, fce *schema.FunctionCallError, he error) bool {
	if he == nil {
		return false
	}
	return (fce.SourceError != nil && inChain(fce.SourceError, he)) || inChain(err, he)
}

func isTypedNil(e error) bool {
	v := reflect.ValueOf(e)
	switch v.Kind() {
	case reflect.Ptr, reflect.Slice, reflect.Map:
		return v.IsNil()
	}
	return false
}

// sameErr: a is the error value b (== where the type is comparable; for slice and map kinds the
// same type and the same underlying storage, nil included).
func sameErr(a, b error) bool {
	if a == nil || b == nil {
		return false
	}
	ta, tb := reflect.TypeOf(a), reflect.TypeOf(b)
	if ta != tb {
		return false
	}
	if ta.Comparable() {
		return a == b
	}
	va, vb := reflect.ValueOf(a), reflect.ValueOf(b)
	switch va.Kind() {
	case reflect.Slice, reflect.Map:
		return va.IsNil() == vb.IsNil() && va.Pointer() == vb.Pointer() && va.Len() == vb.Len()
	}
	return false
}

// inChain: he is e or something e wraps (errors.Is for comparable types, sameErr along the
// Unwrap chain otherwise).
func inChain(e, he error) bool {
	if reflect.TypeOf(he).Comparable() {
		return errors.Is(e, he)
	}
	for e != nil {
		if sameErr(e, he) {
			return true
		}
		e = errors.Unwrap(e)
	}
	return false
}

func hasTok(ts []int, t int) bool {
	for _, x := range ts {
		if x == t {
			return true
		}
	}
	return false
}

// meets mirrors the operator Meets of Funcs.tla.
func meets(e expT, o callObs) bool {
	switch e.Kind {
	case "value":
		if o.Kind != "ok" {
			return false
		}
		for _, t := range o.Toks {
			if t == e.Tok {
				return true
			}
		}
		return false
	case "void":
		return o.Kind == "ok" && o.IsNil
	case "error":
		return o.Kind == "error" && o.Reported == e.Reported && (!e.Reported || hasTok(o.SrcToks, e.Tok))
	case "open_shape":
		return o.Kind == "panic" || (o.Kind == "error" && !o.Reported)
	case "open_panic":
		return o.Kind == "panic" || (o.Kind == "error" && o.Reported)
	case "open_nilerr":
		return o.Kind == "ok" || (o.Kind == "error" && o.Reported)
	}
	return false
}

func obsClass(o callObs) string {
	switch o.Kind {
	case "error":
		if o.Reported {
			return "error/reported"
		}
		return "error/not_reported"
	case "ok":
		return "returns"
	}
	return o.Kind
}

// errClassOf names the class of the handler's error value (part of the signature: which kind of
// handler error is mishandled).
func errClassOf(f *fnT, tok int) string {
	if n := len(f.results); n > 0 && f.results[n-1] == errorType && tok >= 1 && tok <= len(errTokClass) {
		return errTokClass[tok-1]
	}
	return "other_type"
}

func expClass(e expT) string {
	if e.Kind == "error" {
		if e.Reported {
			return "error/reported"
		}
		return "error/not_reported"
	}
	return e.Kind
}

// culprit classifies the type at the position the failing rule points at.
func culprit(c caseT, f *fnT) string {
	var t reflect.Type
	switch c.Exp.Rule {
	case "error_type":
		if n := len(f.results); n > 0 {
			t = f.results[n-1]
		}
	case "output_type":
		if len(f.results) > 0 {
			t = f.results[0]
		}
	}
	if t == nil {
		return ""
	}
	switch {
	case t.Name() == "error" && t != errorType:
		return "type_named_error"
	case t.Kind() == reflect.Interface:
		return "interface"
	}
	return "concrete"
}

// ---------------------------------------------------------------------------- bind

func runBind(c caseT, r *resT) {
	fail := func(format string, a ...any) {
		if r.BindError == "" {
			r.BindError = fmt.Sprintf(format, a...)
		}
	}
	if len(c.Native) == 0 || len(c.Types) == 0 {
		fail("empty binding tables")
		return
	}
	for _, n := range c.Native {
		d, ok := schemaIDs[n.Schema]
		if !ok {
			fail("schema id %q of the specification is unknown to the harness", n.Schema)
			continue
		}
		real := d.build().ReflectedType()
		id, err := idOf(real)
		if err != nil {
			fail("%v", err)
		}
		if id != n.Type {
			fail("schema %s: specification says native type %q, ReflectedType is %q", n.Schema, n.Type, id)
		}
		if real != d.goType() {
			fail("schema %s: harness computes native type %v, ReflectedType is %v", n.Schema, d.goType(), real)
		}
		r.Evals++
	}
	if !reflect.DeepEqual(c.Errtokens, errTokClass) {
		fail("error tokens: specification %v, harness %v", c.Errtokens, errTokClass)
	}
	for tok := 1; tok <= len(errTokClass); tok++ {
		e, _ := valueOf(errorType, tok).Interface().(error)
		var fce *schema.FunctionCallError
		isFCE := errors.As(e, &fce)
		_, direct := e.(*schema.FunctionCallError)
		ok := e != nil
		switch errTokClass[tok-1] {
		case "plain":
			ok = ok && !isFCE && !isTypedNil(e)
		case "typed_nil_slice":
			ok = ok && isTypedNil(e) && reflect.ValueOf(e).Kind() == reflect.Slice
		case "typed_nil_map":
			ok = ok && isTypedNil(e) && reflect.ValueOf(e).Kind() == reflect.Map
		case "wraps_call_shape_error":
			ok = ok && isFCE && !direct && !fce.IsFunctionReportedError
		case "call_error_not_reported":
			ok = ok && direct && !fce.IsFunctionReportedError
		case "call_error_reported":
			ok = ok && direct && fce.IsFunctionReportedError
		case "typed_nil":
			ok = ok && isTypedNil(e) && reflect.ValueOf(e).Kind() == reflect.Ptr
		}
		if !ok {
			fail("error token %d is not of class %s: %#v", tok, errTokClass[tok-1], e)
		}
	}
	seen := map[string]bool{}
	for _, a := range c.Types {
		t, ok := universe[a.ID]
		if !ok {
			fail("type id %q of the specification is unknown to the harness", a.ID)
			continue
		}
		seen[a.ID] = true
		id, err := idOf(t)
		if err != nil {
			fail("%v", err)
		}
		if id != a.ID {
			fail("type %v has id %q, the table says %q", t, id, a.ID)
		}
		if got := attrOf(t); got != a {
			fail("attributes of %s: specification %+v, reflect %+v", a.ID, a, got)
		}
		// the value table must respect the attributes
		for tok := 0; tok <= tokDom(t); tok++ {
			v := valueOf(t, tok)
			if v.Type() != t {
				fail("value %d of %s has type %v", tok, a.ID, v.Type())
			}
			if a.Nilable && v.IsNil() != (tok == 0) {
				fail("value %d of nilable %s: IsNil=%v", tok, a.ID, v.IsNil())
			}
		}
		r.Evals++
	}
	for id := range universe {
		if !seen[id] {
			fail("harness type %q is missing from the specification's table", id)
		}
	}
	for a, ta := range universe {
		for b, tb := range universe {
			if (a == b) != (ta == tb) {
				fail("ids %q and %q: identity differs from id equality", a, b)
			}
		}
	}
}

// ---------------------------------------------------------------------------- matrix cells

func cellOf(c caseT) (*fnT, error) {
	f := &fnT{dyn: c.Dyn, err: c.Err, st: &hstate{}}
	for _, id := range c.Params {
		t, ok := universe[id]
		if !ok {
			return nil, fmt.Errorf("unknown parameter type id %q", id)
		}
		f.params = append(f.params, t)
	}
	for _, id := range c.Results {
		t, ok := universe[id]
		if !ok {
			return nil, fmt.Errorf("unknown result type id %q", id)
		}
		f.results = append(f.results, t)
	}
	f.inputs = []schema.Type{}
	for i, id := range c.Inputs {
		d, ok := schemaIDs[id]
		if !ok {
			return nil, fmt.Errorf("unknown schema id %q", id)
		}
		s := d.build()
		if i >= len(c.Natives) || typeID(s.ReflectedType()) != c.Natives[i] || s.ReflectedType() != d.goType() {
			return nil, fmt.Errorf("native type of schema %s is %v, the specification says %v", id, s.ReflectedType(), c.Natives)
		}
		f.inputs = append(f.inputs, s)
		f.natives = append(f.natives, d.goType())
	}
	if len(c.Out) == 1 {
		d, ok := schemaIDs[c.Out[0]]
		if !ok {
			return nil, fmt.Errorf("unknown schema id %q", c.Out[0])
		}
		f.out = d.build()
		f.outNat = d.goType()
		if f.out.ReflectedType() != f.outNat {
			return nil, fmt.Errorf("native type of schema %s is %v, harness computes %v", c.Out[0], f.out.ReflectedType(), f.outNat)
		}
	}
	f.handler = makeHandler(f.params, f.results, false, f.st)
	return f, nil
}

// probe makes one unremarkable well-formed call (values 1, nil error) for the record.
func (f *fnT) probe(fn schema.CallableFunction) callObs {
	c := callT{Beh: behT{K: "ret"}}
	for range f.natives {
		c.Args = append(c.Args, 1)
	}
	for j := range f.results {
		tok := 1
		if j == len(f.results)-1 && f.err && f.results[j].Kind() == reflect.Interface {
			tok = 0
		}
		c.Beh.R = append(c.Beh.R, tok)
	}
	return f.call(fn, c)
}

func opName(dyn bool) string {
	if dyn {
		return "new_dynamic"
	}
	return "new"
}

func cellDetail(c caseT) map[string]any {
	return map[string]any{"dyn": c.Dyn, "params": c.Params, "results": c.Results, "inputs": c.Inputs,
		"out": c.Out, "err": c.Err, "exp": c.Exp}
}

func runNew(c caseT, r *resT) {
	f, err := cellOf(c)
	if err != nil {
		r.BindError = err.Error()
		return
	}
	fn, co := f.construct()
	r.Evals++
	d := cellDetail(c)
	d["constructor"] = co
	switch {
	case co.Res == "panic":
		r.miss(map[string]any{"op": opName(c.Dyn), "divergence": "panic", "rule": c.Exp.Rule, "culprit": culprit(c, f), "frame": co.Frame}, d, false)
	case co.Res == "accepted" && c.Exp.Verdict == "no":
		d["probe_call"] = f.probe(fn)
		r.miss(map[string]any{"op": opName(c.Dyn), "divergence": "accepts", "rule": c.Exp.Rule, "culprit": culprit(c, f)}, d, false)
	case co.Res == "rejected" && c.Exp.Verdict == "yes":
		r.miss(map[string]any{"op": opName(c.Dyn), "divergence": "rejects", "rule": "none", "culprit": ""}, d, false)
	case c.Exp.Verdict == "maybe":
		r.open("new/" + c.Exp.Rule + "/" + culprit(c, f) + "/" + co.Res)
	}
	if fn != nil && c.Exp.Verdict != "no" {
		// what the accepted function says about itself (not part of the statement: drift)
		ps := fn.Parameters()
		if len(ps) != len(f.inputs) {
			r.miss(map[string]any{"op": opName(c.Dyn), "class": "parameters_differ"}, d, true)
		}
		if !c.Dyn {
			o, flag, oerr := fn.Output(nil)
			if oerr != nil || flag != c.Err || (o == nil) != (f.out == nil) {
				r.miss(map[string]any{"op": opName(c.Dyn), "class": "output_differs"}, d, true)
			}
		}
	}
}

func runCall(c caseT, r *resT) {
	f, err := cellOf(c)
	if err != nil {
		r.BindError = err.Error()
		return
	}
	fn, co := f.construct()
	if fn == nil {
		// the "new" vector of this cell reports the constructor's verdict; nothing to call
		r.Skipped++
		_ = co
		return
	}
	o := f.call(fn, c.Call)
	r.Evals++
	d := cellDetail(c)
	d["call"] = c.Call
	d["observed"] = o
	sig := map[string]any{"op": "call", "cell": c.Exp.Verdict, "expect": expClass(c.Exp), "observed": obsClass(o)}
	if c.Exp.Kind == "error" && c.Exp.Reported && o.Kind == "error" && o.Reported && !hasTok(o.SrcToks, c.Exp.Tok) {
		sig["observed"] = "error/reported/other_source"
	}
	if c.Exp.Kind == "error" && c.Exp.Reported {
		sig["handler_error"] = errClassOf(f, c.Exp.Tok)
	}
	if o.Kind == "panic" {
		sig["frame"] = o.Frame
	}
	if !meets(c.Exp, o) {
		r.miss(sig, d, false)
		return
	}
	if strings.HasPrefix(c.Exp.Kind, "open_") {
		r.open("call/" + c.Exp.Kind + "/" + obsClass(o))
		return
	}
	if o.Direct != "" {
		sig["observed"] = "direct:" + obsClass(o)
		r.miss(sig, d, false)
		return
	}
	// details the statement does not fix: drift
	wantInvoked := 1
	if len(c.Call.Args) != len(c.Params) {
		wantInvoked = 0
	}
	if o.Invoked != wantInvoked {
		r.miss(map[string]any{"op": "call", "class": fmt.Sprintf("handler_invoked_%d_times", o.Invoked)}, d, true)
	} else if wantInvoked == 1 && !o.ArgsOK {
		r.miss(map[string]any{"op": "call", "class": "arguments_altered"}, d, true)
	}
	if o.Kind == "error" && !o.FCE {
		r.miss(map[string]any{"op": "call", "class": "error_is_not_a_FunctionCallError"}, d, true)
	}
}

// ---------------------------------------------------------------------------- random functions beyond the matrix

func genSchema(rng *rand.Rand, depth int) *sdesc {
	scalars := []string{"int", "float", "string", "bool", "pattern", "any", "enum_string", "enum_int", "object"}
	if depth < 3 && rng.Intn(10) < 4 {
		if rng.Intn(2) == 0 {
			return &sdesc{Kind: "list", Items: genSchema(rng, depth+1)}
		}
		keys := []string{"int", "string", "enum_string"}
		return &sdesc{Kind: "map", Keys: sc(keys[rng.Intn(len(keys))]), Values: genSchema(rng, depth+1)}
	}
	return sc(scalars[rng.Intn(len(scalars))])
}

var pool = []reflect.Type{
	reflect.TypeOf(int(0)), reflect.TypeOf(int32(0)), reflect.TypeOf(uint64(0)), reflect.TypeOf((*int64)(nil)),
	reflect.TypeOf(MyString("")), fakeType, fakeiType, fakeeType, ptrErrType, valErrType, codedType, stringerType,
	errorType, anyType, reflect.TypeOf([]int{}), reflect.TypeOf(map[string]string{}), reflect.TypeOf(struct{}{}),
	reflect.TypeOf(false), reflect.TypeOf(""), reflect.TypeOf(int64(0)), reflect.TypeOf(float64(0)),
	reflect.TypeOf([]any{}), reflect.TypeOf(map[string]any{}),
}

var errorish = []reflect.Type{fakeType, fakeiType, fakeeType, ptrErrType, valErrType, codedType, anyType, stringerType, reflect.TypeOf("")}

func pick(rng *rand.Rand, ts []reflect.Type) reflect.Type { return ts[rng.Intn(len(ts))] }

func cloneTypes(a []reflect.Type) []reflect.Type { return append([]reflect.Type{}, a...) }

// genFunction draws a declaration and a handler that agrees with it or deviates by one or two
// edits.
func genFunction(rng *rand.Rand) (*fnT, []string) {
	f := &fnT{st: &hstate{}, inputs: []schema.Type{}}
	var descr []string
	n := rng.Intn(7)
	if rng.Intn(3) == 0 {
		n = rng.Intn(3)
	}
	for i := 0; i < n; i++ {
		d := genSchema(rng, 0)
		f.inputs = append(f.inputs, d.build())
		f.natives = append(f.natives, d.goType())
		descr = append(descr, d.String())
	}
	var wanted []reflect.Type
	if rng.Intn(4) == 0 {
		f.dyn, f.err = true, true
		wanted = []reflect.Type{anyType, errorType}
		descr = append(descr, "-> dynamic")
	} else {
		if rng.Intn(3) != 0 {
			d := genSchema(rng, 0)
			f.out, f.outNat = d.build(), d.goType()
			wanted = append(wanted, f.outNat)
			descr = append(descr, "-> "+d.String())
		} else {
			descr = append(descr, "-> none")
		}
		if rng.Intn(2) == 0 {
			f.err = true
			wanted = append(wanted, errorType)
		}
	}
	f.params = cloneTypes(f.natives)
	f.results = cloneTypes(wanted)
	edits := 0
	switch x := rng.Intn(100); {
	case x < 40:
	case x < 85:
		edits = 1
	default:
		edits = 2
	}
	for e := 0; e < edits; e++ {
		switch rng.Intn(11) {
		case 0: // another type at a parameter position
			if len(f.params) > 0 {
				f.params[rng.Intn(len(f.params))] = pick(rng, pool)
			}
		case 1: // the parameter becomes `any` (assignable, not identical)
			if len(f.params) > 0 {
				f.params[rng.Intn(len(f.params))] = anyType
			}
		case 2: // drop a parameter
			if len(f.params) > 0 {
				i := rng.Intn(len(f.params))
				f.params = append(f.params[:i:i], f.params[i+1:]...)
			}
		case 3: // one more parameter
			f.params = append(f.params, pick(rng, pool))
		case 4: // swap two parameters
			if len(f.params) > 1 {
				i, j := rng.Intn(len(f.params)), rng.Intn(len(f.params))
				f.params[i], f.params[j] = f.params[j], f.params[i]
			}
		case 5: // drop the last result
			if len(f.results) > 0 {
				f.results = f.results[:len(f.results)-1]
			}
		case 6: // one more result
			extra := pick(rng, pool)
			if rng.Intn(2) == 0 {
				extra = errorType
			}
			f.results = append(f.results, extra)
		case 7, 8: // something error-like (or not) in the last position
			if len(f.results) > 0 {
				f.results[len(f.results)-1] = pick(rng, errorish)
			}
		case 9: // another type in the first position
			if len(f.results) > 0 {
				f.results[0] = pick(rng, pool)
			}
		case 10: // swap value and error
			if len(f.results) == 2 {
				f.results[0], f.results[1] = f.results[1], f.results[0]
			}
		}
	}
	if len(f.results) > 4 {
		f.results = f.results[:4]
	}
	f.handler = makeHandler(f.params, f.results, false, f.st)
	return f, descr
}

func (f *fnT) exact() bool {
	var wanted []reflect.Type
	if f.dyn {
		wanted = append(wanted, anyType)
	} else if f.out != nil {
		wanted = append(wanted, f.outNat)
	}
	if f.err {
		wanted = append(wanted, errorType)
	}
	return sameTypes(f.params, f.natives) && sameTypes(f.results, wanted)
}

func sameTypes(a, b []reflect.Type) bool {
	if len(a) != len(b) {
		return false
	}
	for i := range a {
		if a[i] != b[i] {
			return false
		}
	}
	return true
}

// traceFn renders the function for a trace line: type ids and the attribute table of every type
// that occurs.
func (f *fnT) traceFn(r *resT) map[string]any {
	types := map[string]attrT{}
	ids := func(ts []reflect.Type) []string {
		out := []string{}
		for _, t := range ts {
			id, err := idOf(t)
			if err != nil && r.BindError == "" {
				r.BindError = err.Error()
			}
			types[id] = attrOf(t)
			out = append(out, id)
		}
		return out
	}
	m := map[string]any{"dyn": f.dyn, "err": f.err}
	m["params"] = ids(f.params)
	m["results"] = ids(f.results)
	m["inputs"] = ids(f.natives)
	if f.out != nil {
		m["out"] = ids([]reflect.Type{f.outNat})
	} else {
		m["out"] = []string{}
	}
	keys := make([]string, 0, len(types))
	for k := range types {
		keys = append(keys, k)
	}
	sort.Strings(keys)
	tl := []attrT{}
	for _, k := range keys {
		tl = append(tl, types[k])
	}
	m["types"] = tl
	return m
}

func genCall(rng *rand.Rand, f *fnT) callT {
	ar := len(f.params)
	n := ar
	if rng.Intn(10) < 3 {
		n = rng.Intn(ar + 3)
	}
	c := callT{Args: []int{}, Beh: behT{K: "ret", R: []int{}}}
	for i := 0; i < n; i++ {
		tok := rng.Intn(3)
		if rng.Intn(3) != 0 && tok == 0 {
			tok = 1 + rng.Intn(2)
		}
		c.Args = append(c.Args, tok)
	}
	if n == ar && rng.Intn(10) == 0 {
		var cand []int
		for i, t := range f.natives {
			if i < n && t.Kind() != reflect.Interface {
				cand = append(cand, i+1)
			}
		}
		if len(cand) > 0 {
			c.Bad = cand[rng.Intn(len(cand))]
		}
	}
	for j, rt := range f.results {
		tok := rng.Intn(tokDom(rt) + 1)
		if j == len(f.results)-1 && j > 0 && rng.Intn(2) == 0 {
			tok = 0
		}
		c.Beh.R = append(c.Beh.R, tok)
	}
	hasValue := f.dyn || f.out != nil
	switch x := rng.Intn(20); {
	case x == 0:
		c.Beh = behT{K: "panic", R: []int{}}
	case x < 6 && hasValue && len(f.results) > 0 && n == ar:
		var cand []int
		for i, t := range f.params {
			if t == f.results[0] {
				cand = append(cand, i+1)
			}
		}
		if len(cand) > 0 {
			c.Beh.K = "echo"
			c.Beh.R[0] = cand[rng.Intn(len(cand))]
		}
	}
	return c
}

func runRand(c caseT, r *resT) {
	rng := rand.New(rand.NewSource(c.Seed))
	for i := 0; i < c.Count; i++ {
		f, descr := genFunction(rng)
		// the harness's own native types must be the schemas' (else the trace would be about other types)
		for k, s := range f.inputs {
			if s.ReflectedType() != f.natives[k] {
				r.BindError = fmt.Sprintf("schema %s: ReflectedType %v, harness computes %v", descr[k], s.ReflectedType(), f.natives[k])
				return
			}
		}
		if f.out != nil && f.out.ReflectedType() != f.outNat {
			r.BindError = fmt.Sprintf("output schema: ReflectedType %v, harness computes %v", f.out.ReflectedType(), f.outNat)
			return
		}
		fn, co := f.construct()
		r.Evals++
		line := f.traceFn(r)
		line["ev"] = "new"
		line["res"] = co.Res
		line["schemas"] = strings.Join(descr, " ")
		if co.Res != "accepted" {
			line["msg"] = co.Err + co.Panic
		}
		r.Trace = append(r.Trace, line)
		r.stat("new/" + co.Res)
		if fn == nil || len(f.params) != len(f.natives) {
			continue
		}
		exact := f.exact()
		for k := 0; k < 5; k++ {
			cl := genCall(rng, f)
			o := f.call(fn, cl)
			r.Evals++
			cline := f.traceFn(r)
			cline["ev"] = "call"
			cline["call"] = cl
			cline["obs"] = map[string]any{"kind": o.Kind, "isnil": o.IsNil, "toks": o.Toks, "reported": o.Reported, "srctoks": o.SrcToks,
				"invoked": o.Invoked, "msg": o.Msg, "frame": o.Frame}
			cline["schemas"] = strings.Join(descr, " ")
			r.Trace = append(r.Trace, cline)
			r.stat("call/" + obsClass(o))
			if exact && o.Direct != "" {
				r.miss(map[string]any{"op": "call", "cell": "yes", "expect": "handler's own results", "observed": "direct:" + obsClass(o)},
					map[string]any{"line": cline, "direct": o.Direct}, false)
			}
		}
	}
}

// ---------------------------------------------------------------------------- outside the matrix

func runOutside(r *resT) {
	type scen struct {
		name    string
		inputs  []*sdesc
		out     *sdesc
		err     bool
		handler func(st *hstate) any
		args    []any
	}
	i64 := universe["int64"]
	variadic := func(params, results []reflect.Type) func(st *hstate) any {
		return func(st *hstate) any { return makeHandler(params, results, true, st) }
	}
	value := func(v any) func(st *hstate) any { return func(*hstate) any { return v } }
	li := schemaIDs["list_int"]
	la := schemaIDs["list_any"]
	var nilFunc func()
	var nilPtr *int
	scens := []scen{
		{"variadic func(...int64), declared (list[int])", []*sdesc{li}, nil, false,
			variadic([]reflect.Type{reflect.SliceOf(i64)}, nil), []any{[]int64{7, 11}}},
		{"variadic func(...int64), declared ()", nil, nil, false,
			variadic([]reflect.Type{reflect.SliceOf(i64)}, nil), []any{}},
		{"variadic func(string, ...interface {}) error, declared (string, list[any]) error", []*sdesc{sc("string"), la}, nil, true,
			variadic([]reflect.Type{universe["string"], universe["[]interface {}"]}, []reflect.Type{errorType}), []any{"a", []any{int64(7)}}},
		{"variadic func(...int64) int64, declared (int) int", []*sdesc{sc("int")}, sc("int"), false,
			variadic([]reflect.Type{reflect.SliceOf(i64)}, []reflect.Type{i64}), []any{int64(7)}},
		{"handler nil", nil, nil, false, value(nil), []any{}},
		{"handler int 5", nil, nil, false, value(5), []any{}},
		{"handler string", nil, nil, false, value("f"), []any{}},
		{"handler struct{}", nil, nil, false, value(struct{}{}), []any{}},
		{"handler nil *int", nil, nil, false, value(nilPtr), []any{}},
		{"handler chan int", nil, nil, false, value(make(chan int)), []any{}},
		{"handler nil func()", nil, nil, false, value(nilFunc), []any{}},
		{"handler *func()", nil, nil, false, value(&nilFunc), []any{}},
	}
	for _, s := range scens {
		st := &hstate{beh: behT{K: "ret"}} // every result its zero value: a nil error
		f := &fnT{st: st, err: s.err, inputs: []schema.Type{}}
		for _, d := range s.inputs {
			f.inputs = append(f.inputs, d.build())
		}
		if s.out != nil {
			f.out = s.out.build()
		}
		f.handler = s.handler(st)
		fn, co := f.construct()
		r.Evals++
		rec := map[string]any{"scenario": s.name, "constructor": co}
		surprise := ""
		if co.Res == "panic" {
			surprise = "constructor_panics"
		}
		if fn != nil {
			var res any
			var err error
			pi := sup.Guard(func() { res, err = fn.Call(s.args) })
			r.Evals++
			switch {
			case pi != nil:
				rec["call"] = map[string]any{"kind": "panic", "msg": pi.Msg, "frame": pi.Frame}
				surprise = "accepted_then_call_panics"
			case err != nil:
				rec["call"] = map[string]any{"kind": "error", "msg": err.Error()}
				surprise = "accepted_then_call_fails"
			default:
				rec["call"] = map[string]any{"kind": "ok", "value": fmt.Sprintf("%#v", res), "invoked": st.invoked,
					"handler_got": fmt.Sprintf("%#v", st.got), "passed": fmt.Sprintf("%#v", s.args)}
				if st.invoked != 1 {
					surprise = "accepted_then_handler_not_invoked"
				} else if len(st.got) != len(s.args) || (len(s.args) > 0 && !reflect.DeepEqual(st.got, s.args)) {
					surprise = "accepted_then_arguments_altered"
				}
			}
		}
		class := "non_function"
		if strings.HasPrefix(s.name, "variadic") {
			class = "variadic"
		} else if strings.Contains(s.name, "nil func()") && !strings.Contains(s.name, "*func") {
			class = "nil_function"
		}
		rec["class"] = class
		rec["surprise"] = surprise
		r.Outside = append(r.Outside, rec)
		if surprise != "" {
			r.miss(map[string]any{"op": "outside", "class": class + "/" + surprise}, rec, true)
		}
	}
}

// ---------------------------------------------------------------------------- dispatch

func handle(raw json.RawMessage) any {
	var c caseT
	if err := json.Unmarshal(raw, &c); err != nil {
		return map[string]any{"harness_error": "bad case: " + err.Error()}
	}
	r := &resT{}
	switch c.Op {
	case "bind":
		runBind(c, r)
	case "new":
		runNew(c, r)
	case "call":
		runCall(c, r)
	case "rand":
		runRand(c, r)
	case "outside":
		runOutside(r)
	default:
		return map[string]any{"harness_error": "unknown op " + c.Op}
	}
	return r
}

func main() { sup.Main(handle) }
