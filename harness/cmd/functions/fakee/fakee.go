// Package fakee declares a struct type that is named error and HAS an Error method: assignable
// to the predeclared error, not identical to it, and not nilable.
package fakee

type error struct{ Msg string }

func (e error) Error() string { return "fakee:" + e.Msg }

// Type is a value of the type, for reflect.TypeOf.
var Type = error{}

// New returns a value of the type.
func New(s string) any { return error{Msg: s} }
