// Package fake declares a type that is NAMED error and is not an error: a struct without an
// Error method (C18: error detection must go by type identity, not by type name).
package fake

type error struct{ X int }

// Type is a value of the type, for reflect.TypeOf.
var Type = error{}

// New returns a value of the type.
func New(x int) any { return error{X: x} }
