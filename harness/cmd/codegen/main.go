// Command codegen is the conformance driver for C19 (spec/Codegen.tla).
//
// The code under test is the arcaflow-codegen *binary* (built by the orchestrator from
// $VERIF_REPO/cmd/arcaflow-codegen, given with -gen): every observation is one subprocess run in
// a temporary directory - a fresh one, or (the directory of Codegen.tla's Observe machine) one in
// which an earlier run of the same or of another input has left its typedef_output.go.
//
// Cases:
//
//	{"doc":[..],"args":{form,ign},"shape":..,"sat":..,"exp":{"structs":[..]},"runs":N}   vector from CodegenMC
//	        (op "vec"): run N times, compare the parsed output with exp, compare bytes across runs
//	{... as above ...,"prev":{"doc":[..],"args":{..}}}   vector of a USED directory (op "seq"; prev.args.form "fresh" = the
//	        plain vector above): in a new directory the generator is first run on prev, then - the output file left
//	        in place - on the input; that run must give exp, valid Go and the bytes of a run of the input in a fresh directory
//	{"op":"seq","prev":{..},"doc":[..],"args":{..},"style":..}   the same for an explicit pair without exp (structure by CodegenTrace)
//	{"op":"doc","doc":[..],"args":{..},"style":..,"runs":N}    one explicit document: direct checks +
//	        trace lines for CodegenTrace.tla (the structure verdict is the specification's)
//	{"op":"rand","seed":S,"count":K,"maxobjs":..,"maxprops":..,"runs":N}  seeded random documents, as "doc"; then
//	        their argument forms (and the document cut by an object) one after the other in ONE directory
//	{"op":"bind","repo":path}     the type IDs declared in <repo>/schema (binding check of Codegen!TypeIDs)
//
// Every case may carry "deco" (Codegen!Decos: the attributes the rendered schema file carries besides
// names, type IDs and ids - min/max, pattern, units, default, required, display, relations, examples;
// the expectation does not depend on it: AttributeBlind) and "route" (Codegen!Routes: the pre-built
// binary, a copy of it at another path, by a relative path, or "go run gen.go ..." in a copy of the
// source directory given with -gensrc; the observation must not depend on it: InvocationBlind).
//
// Byte-level facts are decided here with the Go toolchain (exit status, panic, go/parser,
// go/format, SHA-256 over the bytes); which structs / fields / tags / types must be there is
// decided by the specification (exp of a vector, CodegenTrace for logged lines).
package main

import (
	"bytes"
	"context"
	"crypto/sha256"
	"encoding/hex"
	"encoding/json"
	"errors"
	"flag"
	"fmt"
	"go/ast"
	"go/format"
	"go/parser"
	"go/token"
	"go/types"
	"math/rand"
	"os"
	"os/exec"
	"path/filepath"
	"reflect"
	"regexp"
	"sort"
	"strconv"
	"strings"
	"sync"
	"time"
	"unicode"

	"go.flow.arcalot.io/pluginsdk/schema"
	"gopkg.in/yaml.v3"
	"verif/harness/sup"
)

var genBin = flag.String("gen", "", "path of the arcaflow-codegen binary under test")
var workDir = flag.String("work", "", "directory for the per-input temporary directories")
var genSrc = flag.String("gensrc", "", "private copy of the generator's source directory (gen.go, go.mod, go.sum): route go_run")

// ------------------------------------------------------------------ shapes shared with the specification

type propT struct {
	Name     string `json:"name"`
	Title    string `json:"title"`
	Key      string `json:"key"`
	Tid      string `json:"tid"`
	Ref      string `json:"ref"`
	Reftitle string `json:"reftitle"`
}

type objT struct {
	Name  string  `json:"name"`
	Title string  `json:"title"`
	Key   string  `json:"key"`
	Props []propT `json:"props"`
}

type argsT struct {
	Form string `json:"form"` // no_ignore | with_ignore
	Ign  string `json:"ign"`
}

type expField struct {
	Name  string   `json:"name"`
	Key   string   `json:"key"`
	Tag   string   `json:"tag"`
	Types []string `json:"types"`
	Free  bool     `json:"free"`
}

type expStruct struct {
	Obj    string     `json:"obj"`
	Name   string     `json:"name"`
	Key    string     `json:"key"`
	Fields []expField `json:"fields"`
}

type expT struct {
	Structs []expStruct `json:"structs"`
}

// prevT: the input whose output the directory holds before the run (args.form "fresh": none)
type prevT struct {
	Doc  []objT `json:"doc"`
	Args argsT  `json:"args"`
}

type caseT struct {
	Op       string `json:"op"`
	Doc      []objT `json:"doc"`
	Args     argsT  `json:"args"`
	Prev     *prevT `json:"prev"`
	Schema   string `json:"schema"` // vector of a used directory: "untouched" | "replaced" ("written": fresh)
	Deco     string `json:"deco"`   // Codegen!Decos: the attributes the schema file carries besides ("" = bare)
	Route    string `json:"route"`  // Codegen!Routes: how the generator is invoked ("" = binary)
	Shape    string `json:"shape"`
	Sat      *bool  `json:"sat"`
	Exp      *expT  `json:"exp"`
	Runs     int    `json:"runs"`
	Style    string `json:"style"`
	Seed     int64  `json:"seed"`
	Count    int    `json:"count"`
	MaxObjs  int    `json:"maxobjs"`
	MaxProps int    `json:"maxprops"`
	Repo     string `json:"repo"`
}

type obsField struct {
	Name string `json:"name"`
	Key  string `json:"key"`
	Tag  string `json:"tag"`
	Type string `json:"type"`
}

type obsStruct struct {
	Name   string     `json:"name"`
	Key    string     `json:"key"`
	Fields []obsField `json:"fields"`
}

type mismatch struct {
	Sig    map[string]any `json:"sig"`
	Detail map[string]any `json:"detail"`
	Drift  bool           `json:"drift,omitempty"`
	Case   map[string]any `json:"case,omitempty"` // explicit single-document case reproducing it
}

type resT struct {
	Evals       int              `json:"evals"`
	Inputs      int              `json:"inputs"`
	Mismatches  []mismatch       `json:"mismatches,omitempty"`
	Trace       []map[string]any `json:"trace,omitempty"`
	BindError   string           `json:"bind_error,omitempty"`
	TypeIDs     []string         `json:"typeids,omitempty"`
	Keys        []string         `json:"keys,omitempty"`    // distinct (shape, form, outcome) keys for the evidence
	Lenient     int              `json:"lenient,omitempty"` // outcomes the statement leaves open (keyword type ID)
	RefRaw      int              `json:"ref_raw,omitempty"`
	RefTitled   int              `json:"ref_titled,omitempty"`
	MaxVariants int              `json:"max_variants,omitempty"` // most distinct outputs seen for one input
	Over        map[string]int   `json:"over,omitempty"`         // runs over an existing output file, by length relation
	OverSkipped int              `json:"over_skipped,omitempty"` // ... not judged: the earlier run left no file / the fresh run fails
	Reruns      int              `json:"reruns,omitempty"`       // runs over the output of the same input
	Attrs       map[string]int   `json:"attrs,omitempty"`        // attributes written into the schema files, by kind
	Routes      map[string]int   `json:"routes,omitempty"`       // runs by route other than the pre-built binary
	Hash        string           `json:"hash,omitempty"`         // vec in a fresh directory: SHA-256 of the first clean output
}

// ------------------------------------------------------------------ name attributes (independent of the generator)

// titleOf upper-cases the first letter of an identifier (leading underscores are not letters).
func titleOf(s string) string {
	r := []rune(s)
	for i, c := range r {
		if c == '_' {
			continue
		}
		r[i] = unicode.ToUpper(c)
		break
	}
	return string(r)
}

func fold(s string) string { return strings.ToLower(s) }

// keyCtx counts, per lower-cased form, the distinct names of one map of the document.
type keyCtx map[string]int

func ctxOf(names []string) keyCtx {
	seen := map[string]bool{}
	c := keyCtx{}
	for _, n := range names {
		if !seen[n] {
			seen[n] = true
			c[fold(n)]++
		}
	}
	return c
}

// keyIn is the key rule of Codegen.tla: the lower-cased identifier, unless the same map holds
// another name with the same lower-cased form - then the title-cased identifier.
func keyIn(s string, c keyCtx) string {
	if c[fold(s)] >= 2 {
		return titleOf(s)
	}
	return fold(s)
}

// docKeys: the context of the object names, and per object key the context of the property names
// (the properties of all objects sharing that key: foo / Foo are one group).
func docKeys(doc []objT) (keyCtx, map[string]keyCtx) {
	var names []string
	for _, o := range doc {
		names = append(names, o.Name)
	}
	oc := ctxOf(names)
	pn := map[string][]string{}
	for _, o := range doc {
		k := keyIn(o.Name, oc)
		for _, p := range o.Props {
			pn[k] = append(pn[k], p.Name)
		}
	}
	pc := map[string]keyCtx{}
	for _, o := range doc {
		k := keyIn(o.Name, oc)
		pc[k] = ctxOf(pn[k])
	}
	return oc, pc
}

// fillKeys computes title / key attributes of a generated document.
func fillKeys(doc []objT) {
	for i := range doc {
		doc[i].Title = titleOf(doc[i].Name)
		for k := range doc[i].Props {
			doc[i].Props[k].Title = titleOf(doc[i].Props[k].Name)
		}
	}
	oc, pc := docKeys(doc)
	for i := range doc {
		doc[i].Key = keyIn(doc[i].Name, oc)
		for k := range doc[i].Props {
			doc[i].Props[k].Key = keyIn(doc[i].Props[k].Name, pc[doc[i].Key])
		}
	}
}

// assignKeys gives the observed structs and fields their keys under the document's key rule.
func assignKeys(structs []obsStruct, doc []objT) {
	oc, pc := docKeys(doc)
	for i := range structs {
		structs[i].Key = keyIn(structs[i].Name, oc)
		c := pc[structs[i].Key] // nil (plain lower-casing) for a struct that belongs to no object
		for m := range structs[i].Fields {
			structs[i].Fields[m].Key = keyIn(structs[i].Fields[m].Name, c)
		}
	}
}

func validIdent(s string) bool { return token.IsIdentifier(s) } // letters/digits/_ , not a keyword

func caseVariants(doc []objT) bool {
	for _, o := range doc {
		if o.Key == o.Title {
			return true
		}
		for _, p := range o.Props {
			if p.Key == p.Title {
				return true
			}
		}
	}
	return false
}

func shapeOf(doc []objT) string {
	if len(doc) == 0 {
		return "empty"
	}
	if len(doc) == 1 && len(doc[0].Props) <= 1 {
		return "single"
	}
	if caseVariants(doc) {
		return "multi_casevariant"
	}
	return "multi"
}

// sdkTypeIDs is bound to the SDK's constants at compile time.
var sdkTypeIDs = []string{
	string(schema.TypeIDStringEnum), string(schema.TypeIDIntEnum), string(schema.TypeIDString),
	string(schema.TypeIDPattern), string(schema.TypeIDInt), string(schema.TypeIDFloat), string(schema.TypeIDBool),
	string(schema.TypeIDList), string(schema.TypeIDMap), string(schema.TypeIDScope), string(schema.TypeIDObject),
	string(schema.TypeIDOneOfString), string(schema.TypeIDOneOfInt), string(schema.TypeIDRef), string(schema.TypeIDAny),
}

// checkDoc verifies the attribute table the specification carries against the standard library.
func checkDoc(doc []objT, args argsT) string {
	known := map[string]bool{}
	for _, t := range sdkTypeIDs {
		known[t] = true
	}
	chk := func(what, name, title, key, wantKey string) string {
		if !validIdent(name) {
			return fmt.Sprintf("%s name %q is not a Go identifier (the property's premise)", what, name)
		}
		if title != titleOf(name) || key != wantKey {
			return fmt.Sprintf("%s %q: specification has title %q key %q, standard library gives %q %q",
				what, name, title, key, titleOf(name), wantKey)
		}
		return ""
	}
	oc, pc := docKeys(doc)
	onames := map[string]bool{}
	for _, o := range doc {
		if onames[o.Name] {
			return fmt.Sprintf("object name %q occurs twice", o.Name)
		}
		onames[o.Name] = true
		ok := keyIn(o.Name, oc)
		if e := chk("object", o.Name, o.Title, o.Key, ok); e != "" {
			return e
		}
		pnames := map[string]bool{}
		for _, p := range o.Props {
			if pnames[p.Name] {
				return fmt.Sprintf("property name %q occurs twice in %q", p.Name, o.Name)
			}
			pnames[p.Name] = true
			if e := chk("property", p.Name, p.Title, p.Key, keyIn(p.Name, pc[ok])); e != "" {
				return e
			}
			if !known[p.Tid] {
				return fmt.Sprintf("type ID %q is not declared by the SDK", p.Tid)
			}
			if p.Tid == "ref" && p.Ref == "" { // any type may carry an id; a reference must
				return fmt.Sprintf("property %q: a reference without a target", p.Name)
			}
			if p.Ref != "" && (!validIdent(p.Ref) || p.Reftitle != titleOf(p.Ref)) {
				return fmt.Sprintf("reference %q: title %q, standard library gives %q", p.Ref, p.Reftitle, titleOf(p.Ref))
			}
		}
	}
	if args.Form != "no_ignore" && args.Form != "with_ignore" {
		return "unknown argument form " + args.Form
	}
	if args.Form == "with_ignore" && !validIdent(args.Ign) {
		return fmt.Sprintf("ignore argument %q is not an identifier", args.Ign)
	}
	return ""
}

// ------------------------------------------------------------------ YAML rendering

func needsQuote(s string) bool {
	var v any
	if err := yaml.Unmarshal([]byte(s), &v); err != nil {
		return true
	}
	got, ok := v.(string)
	return !ok || got != s
}

func q(s string) string {
	if needsQuote(s) {
		return strconv.Quote(s)
	}
	return s
}

// typeExtras: the further fields a real schema carries for the type (ignored by the generator)
func typeExtras(tid string) [][2]string {
	switch tid {
	case "list":
		return [][2]string{{"items", "{type_id: string}"}, {"min", "1"}}
	case "map":
		return [][2]string{{"keys", "{type_id: string}"}, {"values", "{type_id: integer}"}}
	case "enum_string":
		return [][2]string{{"values", "{a: {name: A}, b: {name: B}}"}}
	case "enum_integer":
		return [][2]string{{"values", "{1: {name: One}}"}}
	case "integer", "float":
		return [][2]string{{"min", "0"}, {"max", "10"}}
	case "string":
		return [][2]string{{"min", "1"}, {"pattern", "\"^[a-z]+$\""}}
	case "object":
		return [][2]string{{"properties", "{}"}}
	case "one_of_string", "one_of_int":
		return [][2]string{{"discriminator_field_name", "kind"}, {"types", "{}"}}
	}
	return nil
}

// ------------------------------------------------------------------ attribute decorations (Codegen!Decos)
// What a real schema description carries besides object names, property names, type IDs and ids.
// Values are written in YAML flow syntax, so that the block and the flow renderer can both use
// them.  The generator's contract ignores all of it (Codegen!AttributeBlind).

var decoNames = []string{"bare", "limits", "attributes", "full"}

// attribute keys of the SDK's schema (checked against <repo>/schema by op "bind")
var attrKeys = []string{"min", "max", "pattern", "units", "default", "required", "required_if", "required_if_not",
	"conflicts", "examples", "display", "description", "icon", "items", "keys", "values", "discriminator_field_name"}

const unitsBytes = `{base_unit: {name_short_singular: B, name_short_plural: B, name_long_singular: byte, name_long_plural: bytes}, ` +
	`multipliers: {1024: {name_short_singular: kB, name_short_plural: kB, name_long_singular: kilobyte, name_long_plural: kilobytes}}}`

type kvs = [][2]string

// decorate returns the attributes of property i of o under deco: those of the property, those of
// its type mapping, and the kinds of attribute written (for the coverage report).
func decorate(deco string, o objT, i int) (prop, typ kvs, tags []string) {
	p := o.Props[i]
	limits := deco == "limits" || deco == "full"
	attrs := deco == "attributes" || deco == "full"
	tag := func(t string) { tags = append(tags, t) }
	if limits {
		switch p.Tid {
		case "integer":
			switch i % 3 {
			case 0:
				typ = kvs{{"min", "-10"}, {"max", "10"}}
				tag("integer_min_negative")
			case 1:
				typ = kvs{{"min", "0"}, {"max", "0"}}
				tag("integer_limits_zero")
			default:
				typ = kvs{{"min", "-9223372036854775808"}, {"max", "-1"}}
				tag("integer_max_negative")
			}
			if deco == "full" {
				typ = append(typ, [2]string{"units", unitsBytes})
				tag("units")
			}
		case "float":
			switch i % 3 {
			case 0:
				typ = kvs{{"min", "-0.5"}, {"max", "1.5e+3"}}
				tag("float_min_negative_fraction")
			case 1:
				typ = kvs{{"min", "0.0"}, {"max", "0.25"}}
				tag("float_limits_zero_fraction")
			default:
				typ = kvs{{"min", "-1.0e+300"}, {"max", "-2"}}
				tag("float_max_negative")
			}
			if deco == "full" {
				typ = append(typ, [2]string{"units", unitsBytes})
				tag("units")
			}
		case "string":
			typ = kvs{{"min", strconv.Itoa(i % 2)}, {"max", "256"}, {"pattern", `"^[a-z]+$"`}}
			tag("string_size_pattern")
		case "pattern":
		case "list":
			typ = kvs{{"items", "{type_id: integer, min: -3}"}, {"min", "1"}, {"max", "3"}}
			tag("list_size")
		case "map":
			typ = kvs{{"keys", "{type_id: string, max: 8}"}, {"values", "{type_id: float, min: -0.5}"}, {"min", "0"}, {"max", "10"}}
			tag("map_size")
		case "enum_string":
			typ = kvs{{"values", "{a: {name: A}, b: {name: B}}"}}
		case "enum_integer":
			typ = kvs{{"values", "{-1: {name: Minus}, 1: {name: One}}"}}
			tag("enum_negative_value")
		case "object":
			typ = kvs{{"properties", "{}"}}
		case "one_of_string", "one_of_int":
			typ = kvs{{"discriminator_field_name", "kind"}, {"types", "{}"}}
		case "ref":
			typ = kvs{{"display", "{name: Linked}"}}
		}
	}
	if attrs {
		prop = append(prop, [2]string{"display", "{name: " + strconv.Quote("The "+p.Name) + ", description: " +
			strconv.Quote("first line\nsecond: line # not a comment\n\ttype: not a type\n") + ", icon: \"<svg/>\"}"})
		tag("display_multiline")
		prop = append(prop, [2]string{"required", strconv.FormatBool(i%2 == 0)})
		switch p.Tid {
		case "integer":
			prop = append(prop, [2]string{"default", `"-5"`}, [2]string{"examples", `["-3", "7"]`})
			tag("default_negative")
		case "float":
			prop = append(prop, [2]string{"default", `"-0.5"`}, [2]string{"examples", `["-1.5e-3"]`})
			tag("default_negative")
		case "string", "pattern":
			prop = append(prop, [2]string{"default", strconv.Quote(`"abc"`)}, [2]string{"examples", "[" + strconv.Quote(`"a: b"`) + "]"})
		case "bool":
			prop = append(prop, [2]string{"default", `"true"`})
		}
		if n := len(o.Props); n > 1 {
			a, b := strconv.Quote(o.Props[(i+1)%n].Name), strconv.Quote(o.Props[(i+n-1)%n].Name)
			switch i % 3 {
			case 0:
				prop = append(prop, [2]string{"required_if", "[" + a + "]"}, [2]string{"conflicts", "[]"})
			case 1:
				prop = append(prop, [2]string{"required_if_not", "[" + a + ", " + b + "]"})
			default:
				prop = append(prop, [2]string{"conflicts", "[" + b + "]"}, [2]string{"required_if", "[]"})
			}
			tag("relations")
		}
	}
	return prop, typ, tags
}

// attrKinds: the kinds of attribute a rendering of doc under deco writes
func attrKinds(doc []objT, deco string) []string {
	var all []string
	for _, o := range doc {
		for i := range o.Props {
			_, _, t := decorate(deco, o, i)
			all = append(all, t...)
		}
	}
	return all
}

func renderBlock(doc []objT, noise bool, deco string) string {
	var b strings.Builder
	if noise {
		b.WriteString("# generated schema document\nversion: v0.2.0\n")
	}
	b.WriteString("steps:\n  create:\n    id: create\n")
	if noise {
		b.WriteString("    display:\n      name: Create\n      description: \"creates: things\"\n")
	}
	b.WriteString("    input:\n")
	if noise && len(doc) > 0 {
		b.WriteString("      root: " + q(doc[0].Name) + "\n")
	}
	if len(doc) == 0 {
		b.WriteString("      objects: {}\n")
	} else {
		b.WriteString("      objects:\n")
	}
	for _, o := range doc {
		b.WriteString("        " + q(o.Name) + ":\n          id: " + q(o.Name) + "\n")
		if len(o.Props) == 0 {
			b.WriteString("          properties: {}\n")
			continue
		}
		b.WriteString("          properties:\n")
		for i, p := range o.Props {
			b.WriteString("            " + q(p.Name) + ":\n")
			pa, ta, _ := decorate(deco, o, i)
			legacy := noise && deco == "bare" // (the attributes of the noise style, where no decoration writes them)
			if i%2 == 0 {
				for _, kv := range pa {
					b.WriteString("              " + kv[0] + ": " + kv[1] + "\n")
				}
			}
			if legacy && i%2 == 0 {
				b.WriteString("              display:\n                name: " + strconv.Quote("The "+p.Name) +
					"\n                description: |\n                  type: not a type\n                  objects: none\n")
				b.WriteString("              required: " + strconv.FormatBool(i%4 == 0) + "\n")
			}
			b.WriteString("              type:\n")
			// the id of the type mapping: the target of a reference, or the id an inline type carries itself
			if p.Ref != "" && i%2 == 1 {
				b.WriteString("                id: " + q(p.Ref) + "\n") // id before type_id, as in the repository's test
			}
			b.WriteString("                type_id: " + p.Tid + "\n")
			if p.Ref != "" && i%2 == 0 {
				b.WriteString("                id: " + q(p.Ref) + "\n")
			}
			if legacy {
				for _, kv := range typeExtras(p.Tid) {
					b.WriteString("                " + kv[0] + ": " + kv[1] + "\n")
				}
			}
			for _, kv := range ta {
				b.WriteString("                " + kv[0] + ": " + kv[1] + "\n")
			}
			if i%2 == 1 { // (the attributes of the property after its type as well as before it)
				for _, kv := range pa {
					b.WriteString("              " + kv[0] + ": " + kv[1] + "\n")
				}
			}
		}
	}
	if noise {
		// an output schema: its objects are not input objects and must not become structs
		b.WriteString("    outputs:\n      success:\n        schema:\n          root: OutputOnly\n          objects:\n" +
			"            OutputOnly:\n              id: OutputOnly\n              properties:\n                msg:\n" +
			"                  type:\n                    type_id: string\n")
	}
	return b.String()
}

func renderFlow(doc []objT, deco string) string {
	var b strings.Builder
	b.WriteString("{\"steps\": {\"create\": {\"id\": \"create\", \"input\": {\"objects\": {")
	for i, o := range doc {
		if i > 0 {
			b.WriteString(", ")
		}
		b.WriteString(strconv.Quote(o.Name) + ": {\"id\": " + strconv.Quote(o.Name) + ", \"properties\": {")
		for k, p := range o.Props {
			if k > 0 {
				b.WriteString(", ")
			}
			pa, ta, _ := decorate(deco, o, k)
			b.WriteString(strconv.Quote(p.Name) + ": {\"type\": {\"type_id\": " + strconv.Quote(p.Tid))
			if p.Ref != "" {
				b.WriteString(", \"id\": " + strconv.Quote(p.Ref))
			}
			for _, kv := range ta {
				b.WriteString(", " + strconv.Quote(kv[0]) + ": " + kv[1])
			}
			b.WriteString("}")
			for _, kv := range pa {
				b.WriteString(", " + strconv.Quote(kv[0]) + ": " + kv[1])
			}
			b.WriteString("}")
		}
		b.WriteString("}}")
	}
	b.WriteString("}}}}}\n")
	return b.String()
}

func render(doc []objT, style, deco string) string {
	if deco == "" {
		deco = "bare"
	}
	switch style {
	case "flow":
		return renderFlow(doc, deco)
	case "noise":
		return renderBlock(doc, true, deco)
	}
	return renderBlock(doc, false, deco)
}

// checkRender parses the text back with yaml.v3 (generic maps) and compares with the document.
func checkRender(doc []objT, text string) error {
	var root map[string]any
	if err := yaml.Unmarshal([]byte(text), &root); err != nil {
		return fmt.Errorf("rendered YAML does not parse: %v", err)
	}
	get := func(m map[string]any, k string) (map[string]any, error) {
		v, ok := m[k].(map[string]any)
		if !ok {
			return nil, fmt.Errorf("rendered YAML: %q is not a mapping (%T)", k, m[k])
		}
		return v, nil
	}
	cur := root
	var err error
	for _, k := range []string{"steps", "create", "input", "objects"} {
		if cur, err = get(cur, k); err != nil {
			return err
		}
	}
	if len(cur) != len(doc) {
		return fmt.Errorf("rendered YAML has %d objects, document %d", len(cur), len(doc))
	}
	for _, o := range doc {
		om, err := get(cur, o.Name)
		if err != nil {
			return err
		}
		pm, err := get(om, "properties")
		if err != nil {
			return err
		}
		if len(pm) != len(o.Props) {
			return fmt.Errorf("object %q: %d properties rendered, %d in the document", o.Name, len(pm), len(o.Props))
		}
		for _, p := range o.Props {
			pp, err := get(pm, p.Name)
			if err != nil {
				return err
			}
			tm, err := get(pp, "type")
			if err != nil {
				return err
			}
			if tm["type_id"] != p.Tid {
				return fmt.Errorf("property %q: type_id %v rendered, %q in the document", p.Name, tm["type_id"], p.Tid)
			}
			if id, has := tm["id"]; (p.Ref != "" && id != p.Ref) || (p.Ref == "" && has) {
				return fmt.Errorf("property %q: id %v rendered, %q in the document", p.Name, tm["id"], p.Ref)
			}
		}
	}
	return nil
}

// ------------------------------------------------------------------ running the generator

type runObs struct {
	Exit      int
	Panic     bool
	Hang      bool
	Cause     string
	Frame     string
	Stderr    string
	HasOut    bool
	Bytes     []byte
	Hash      string
	ParseErr  string
	Canonical bool
	Structs   []obsStruct
	Other     []string
}

var reFmtErr = regexp.MustCompile(`panic: (?:[^\n:]*:)?\d+:\d+: `)
var reFrame = regexp.MustCompile(`(?m)^(main\.[A-Za-z_][\w.]*)\(`)

func classifyPanic(stderr string) (cause, frame string) {
	switch {
	case strings.Contains(stderr, "index out of range"):
		cause = "index_out_of_range"
	case strings.Contains(stderr, "nil pointer dereference"):
		cause = "nil_deref"
	case strings.Contains(stderr, "panic: yaml:"):
		cause = "yaml_unmarshal" // the decoder refused the schema file
	case reFmtErr.MatchString(stderr):
		cause = "format_source"
	case strings.Contains(stderr, "fatal error:"):
		cause = "fatal"
	default:
		cause = "other"
	}
	for _, m := range reFrame.FindAllStringSubmatch(stderr, -1) {
		if m[1] == "main.check" {
			continue
		}
		frame = m[1]
		break
	}
	return
}

// runOnce runs the generator in dir.  keep = false: typedef_output.go is removed first (as far as
// the output file goes a fresh directory); keep = true: the run finds what the directory holds.
func runOnce(dir string, args argsT, keep bool) runObs { return runVia("binary", dir, args, keep) }

// ------------------------------------------------------------------ invocation routes (Codegen!Routes)
// "binary": the pre-built binary by its absolute path.  "binary_copy": a copy of it in another
// directory (the same file name: gen).  "binary_relative": that copy by a path relative to the
// working directory.  "go_run": the documented "go run gen.go schema_input.yaml [ARG]" in a copy of
// the generator's source directory (argv[0] is a fresh temporary executable on every run).

var altOnce sync.Once
var altPath string

func altBin() string {
	altOnce.Do(func() {
		dir, err := os.MkdirTemp(*workDir, "alt-bin-")
		if err != nil {
			panic("temp dir: " + err.Error())
		}
		b, err := os.ReadFile(*genBin)
		if err != nil {
			panic("read generator binary: " + err.Error())
		}
		altPath = filepath.Join(dir, filepath.Base(*genBin))
		if err := os.WriteFile(altPath, b, 0o755); err != nil {
			panic("copy generator binary: " + err.Error())
		}
	})
	return altPath
}

func command(ctx context.Context, route, dir string, argv []string) *exec.Cmd {
	switch route {
	case "", "binary":
		return exec.CommandContext(ctx, *genBin, argv...)
	case "binary_copy":
		return exec.CommandContext(ctx, altBin(), argv...)
	case "binary_relative":
		rel, err := filepath.Rel(dir, altBin())
		if err != nil || filepath.IsAbs(rel) {
			panic("no relative path from " + dir + " to " + altBin())
		}
		return exec.CommandContext(ctx, rel, argv...) // evaluated relative to cmd.Dir
	case "go_run":
		return exec.CommandContext(ctx, "go", append([]string{"run", "gen.go"}, argv...)...)
	}
	panic("unknown route " + route)
}

func runVia(route, dir string, args argsT, keep bool) runObs {
	var o runObs
	outPath := filepath.Join(dir, "typedef_output.go")
	if !keep {
		_ = os.Remove(outPath)
	}
	argv := []string{"schema_input.yaml"}
	if args.Form == "with_ignore" {
		argv = append(argv, args.Ign)
	}
	limit := 20 * time.Second
	if route == "go_run" {
		limit = 180 * time.Second // compiles and links
	}
	ctx, cancel := context.WithTimeout(context.Background(), limit)
	defer cancel()
	cmd := command(ctx, route, dir, argv)
	cmd.Dir = dir
	var env []string
	for _, e := range os.Environ() {
		if strings.HasPrefix(e, "GOFILE=") || strings.HasPrefix(e, "GOLINE=") || strings.HasPrefix(e, "GOPACKAGE=") ||
			strings.HasPrefix(e, "GOTRACEBACK=") {
			continue
		}
		env = append(env, e)
	}
	cmd.Env = env
	var stderr bytes.Buffer
	cmd.Stderr = &stderr
	cmd.Stdout = nil
	err := cmd.Run()
	o.Stderr = stderr.String()
	if len(o.Stderr) > 3000 {
		o.Stderr = o.Stderr[:3000]
	}
	if ctx.Err() != nil {
		o.Hang = true
		o.Exit = -1
		return o
	}
	if err != nil {
		var ee *exec.ExitError
		if errors.As(err, &ee) {
			o.Exit = ee.ExitCode()
		} else {
			panic("cannot start the generator: " + err.Error()) // harness trouble -> harness_panic -> Infra
		}
	}
	if strings.Contains(o.Stderr, "panic:") || strings.Contains(o.Stderr, "fatal error:") || strings.Contains(o.Stderr, "goroutine 1 [") {
		o.Panic = true
		o.Cause, o.Frame = classifyPanic(o.Stderr)
	}
	b, rerr := os.ReadFile(outPath)
	if rerr != nil {
		return o
	}
	o.HasOut = true
	o.Bytes = b
	h := sha256.Sum256(b)
	o.Hash = hex.EncodeToString(h[:])
	o.Structs, o.Other, o.ParseErr = extract(b)
	if o.ParseErr == "" {
		f, ferr := format.Source(b)
		o.Canonical = ferr == nil && bytes.Equal(f, b)
	}
	return o
}

// extract parses Go source and returns its struct declarations in file order.
func extract(src []byte) (structs []obsStruct, other []string, perr string) {
	fset := token.NewFileSet()
	f, err := parser.ParseFile(fset, "typedef_output.go", src, parser.ParseComments)
	if err != nil {
		return nil, nil, err.Error()
	}
	structs = []obsStruct{}
	for _, d := range f.Decls {
		gd, ok := d.(*ast.GenDecl)
		if !ok {
			other = append(other, "func")
			continue
		}
		if gd.Tok != token.TYPE {
			if gd.Tok != token.IMPORT {
				other = append(other, gd.Tok.String())
			}
			continue
		}
		for _, s := range gd.Specs {
			ts := s.(*ast.TypeSpec)
			st, ok := ts.Type.(*ast.StructType)
			if !ok {
				other = append(other, "type "+ts.Name.Name)
				continue
			}
			os_ := obsStruct{Name: ts.Name.Name, Fields: []obsField{}}
			for _, fl := range st.Fields.List {
				typ := types.ExprString(fl.Type)
				tag := ""
				if fl.Tag != nil {
					if u, err := strconv.Unquote(fl.Tag.Value); err == nil {
						if j, ok := reflect.StructTag(u).Lookup("json"); ok {
							tag = strings.SplitN(j, ",", 2)[0]
						}
					}
				}
				names := []string{}
				for _, n := range fl.Names {
					names = append(names, n.Name)
				}
				if len(names) == 0 { // embedded field: named by its type
					names = []string{strings.TrimPrefix(typ, "*")}
				}
				for _, n := range names {
					os_.Fields = append(os_.Fields, obsField{Name: n, Tag: tag, Type: typ})
				}
			}
			structs = append(structs, os_)
		}
	}
	return structs, other, ""
}

// ------------------------------------------------------------------ comparison with a vector's expectation
// (mirrors Codegen!Verdict; the expectation itself - which structs, fields, tags, types - is the
// specification's)

// perms calls f with every permutation of 0..n-1 until f returns true.
func perms(n int, f func([]int) bool) bool {
	idx := make([]int, n)
	for i := range idx {
		idx[i] = i
	}
	var rec func(k int) bool
	rec = func(k int) bool {
		if k == n {
			return f(idx)
		}
		for i := k; i < n; i++ {
			idx[k], idx[i] = idx[i], idx[k]
			if rec(k + 1) {
				return true
			}
			idx[k], idx[i] = idx[i], idx[k]
		}
		return false
	}
	return rec(0)
}

func typeOK(ef expField, f obsField) bool {
	if ef.Free {
		return true
	}
	for _, t := range ef.Types {
		if t == f.Type {
			return true
		}
	}
	return false
}

// fieldVerdict mirrors Codegen!FieldVerdict: properties and fields of one key are matched one to one.
func fieldVerdict(o objT, e expStruct, s obsStruct) (string, string) {
	P, F := map[string][]expField{}, map[string][]obsField{}
	var keys []string
	add := func(k string) {
		if _, ok := P[k]; !ok {
			if _, ok2 := F[k]; !ok2 {
				keys = append(keys, k)
			}
		}
	}
	for _, ef := range e.Fields {
		add(ef.Key)
		P[ef.Key] = append(P[ef.Key], ef)
	}
	for _, f := range s.Fields {
		add(f.Key)
		F[f.Key] = append(F[f.Key], f)
	}
	for _, k := range keys {
		if len(F[k]) < len(P[k]) {
			return "missing_field", ""
		}
	}
	for _, k := range keys {
		if len(P[k]) == 0 {
			return "extra_field", ""
		}
	}
	for _, k := range keys {
		if len(F[k]) > len(P[k]) {
			return "duplicate_field", ""
		}
	}
	verdict, detail := "ok", ""
	for _, k := range keys {
		p, f := P[k], F[k]
		if perms(len(p), func(ix []int) bool {
			for i := range p {
				if f[ix[i]].Tag != p[i].Tag || !typeOK(p[i], f[ix[i]]) {
					return false
				}
			}
			return true
		}) {
			continue
		}
		tagsOK := perms(len(p), func(ix []int) bool {
			for i := range p {
				if f[ix[i]].Tag != p[i].Tag {
					return false
				}
			}
			return true
		})
		if !tagsOK {
			return "wrong_tag", ""
		}
		verdict = "wrong_field_type"
	}
	if verdict == "wrong_field_type" {
		// detail: the type ID of the first (document order) mistyped property
		for _, pr := range o.Props {
			for _, ef := range e.Fields {
				if ef.Tag != pr.Name || detail != "" {
					continue
				}
				for _, of := range s.Fields {
					if of.Key == ef.Key && of.Tag == ef.Tag && !typeOK(ef, of) {
						detail = pr.Tid
						if pr.Tid != "ref" && pr.Ref != "" { // Codegen!WrongTypeCarriesId
							detail += "+id"
						}
					}
				}
			}
		}
	}
	return verdict, detail
}

// structVerdict mirrors Codegen!Verdict: objects and structs of one key are matched one to one.
func structVerdict(doc []objT, args argsT, exp []expStruct, obs []obsStruct) (string, string) {
	L, O := map[string][]expStruct{}, map[string][]obsStruct{}
	var keys []string
	seen := map[string]bool{}
	for _, e := range exp {
		if !seen[e.Key] {
			seen[e.Key] = true
			keys = append(keys, e.Key)
		}
		L[e.Key] = append(L[e.Key], e)
	}
	for _, s := range obs {
		if !seen[s.Key] {
			seen[s.Key] = true
			keys = append(keys, s.Key)
		}
		O[s.Key] = append(O[s.Key], s)
	}
	ign := map[string]bool{}
	byName := map[string]objT{}
	for _, o := range doc {
		byName[o.Name] = o
		if args.Form == "with_ignore" && o.Name == args.Ign {
			ign[o.Key] = true
		}
	}
	for _, k := range keys {
		if len(O[k]) < len(L[k]) {
			return "missing_struct", ""
		}
	}
	over := false
	for _, k := range keys {
		if len(O[k]) > len(L[k]) && ign[k] {
			return "ignored_struct_emitted", ""
		}
		over = over || len(O[k]) > len(L[k])
	}
	for _, k := range keys {
		if len(O[k]) > len(L[k]) && len(L[k]) == 0 {
			return "extra_struct", ""
		}
	}
	if over {
		return "duplicate_struct", ""
	}
	// objects for which no struct of their key has the right fields, in document order
	for _, o := range doc {
		for _, e := range exp {
			if e.Obj != o.Name {
				continue
			}
			good := false
			for _, s := range O[e.Key] {
				c, _ := fieldVerdict(o, e, s)
				good = good || c == "ok"
			}
			if !good {
				// diagnosed against the struct that gets most of the properties right (the first of those)
				best, bestScore := 0, -1
				for j, s := range O[e.Key] {
					score := 0
					for _, ef := range e.Fields {
						hit := false
						for _, of := range s.Fields {
							hit = hit || (of.Key == ef.Key && of.Tag == ef.Tag && typeOK(ef, of))
						}
						if hit {
							score++
						}
					}
					if score > bestScore {
						best, bestScore = j, score
					}
				}
				return fieldVerdict(o, e, O[e.Key][best])
			}
		}
	}
	for _, k := range keys {
		l, ob := L[k], O[k]
		if !perms(len(l), func(ix []int) bool {
			for i := range l {
				if c, _ := fieldVerdict(byName[l[i].Obj], l[i], ob[ix[i]]); c != "ok" {
					return false
				}
			}
			return true
		}) {
			return "wrong_field_type", "" // structs of one key with their fields swapped
		}
	}
	return "ok", ""
}

func nameDrift(exp []expStruct, obs []obsStruct) string {
	for _, s := range obs {
		var cands []expStruct
		for _, e := range exp {
			if e.Key == s.Key {
				cands = append(cands, e)
			}
		}
		if len(cands) == 0 {
			continue
		}
		nameOK := false
		for _, e := range cands {
			nameOK = nameOK || e.Name == s.Name
		}
		if !nameOK {
			return fmt.Sprintf("struct %q spelled %q", cands[0].Name, s.Name)
		}
		fieldsOK := false
		what := ""
		for _, e := range cands {
			ok := true
			for _, f := range s.Fields {
				has, hit := false, false
				for _, ef := range e.Fields {
					if ef.Key == f.Key {
						has = true
						hit = hit || ef.Name == f.Name
					}
				}
				if has && !hit {
					ok = false
					what = fmt.Sprintf("field of %q spelled %q", e.Name, f.Name)
				}
			}
			fieldsOK = fieldsOK || ok
		}
		if !fieldsOK {
			return what
		}
	}
	return ""
}

// duplicateNames: two type declarations, or two fields of one struct, with one name (parses,
// is gofmt-valid, does not compile)
func duplicateNames(obs []obsStruct) string {
	seen := map[string]bool{}
	for _, s := range obs {
		if seen[s.Name] {
			return "type " + s.Name + " declared twice"
		}
		seen[s.Name] = true
		fs := map[string]bool{}
		for _, f := range s.Fields {
			if fs[f.Name] {
				return "field " + s.Name + "." + f.Name + " declared twice"
			}
			fs[f.Name] = true
		}
	}
	return ""
}

// ------------------------------------------------------------------ what differs between two outputs
// (structs are told apart by name and (tag, type) of their fields, fields by their tag: names may coincide)

func fieldTags(s obsStruct) []string {
	r := []string{}
	for _, f := range s.Fields {
		r = append(r, f.Tag)
	}
	return r
}

func structID(s obsStruct) string {
	t := []string{}
	for _, f := range s.Fields {
		t = append(t, f.Tag+":"+f.Type)
	}
	sort.Strings(t)
	return s.Name + "{" + strings.Join(t, ",") + "}"
}

func structIDs(a []obsStruct) []string {
	r := []string{}
	for _, s := range a {
		r = append(r, structID(s))
	}
	return r
}

func sameSet(a, b []string) bool {
	x, y := map[string]bool{}, map[string]bool{}
	for _, v := range a {
		x[v] = true
	}
	for _, v := range b {
		y[v] = true
	}
	return reflect.DeepEqual(x, y)
}

func diffDetails(a, b []obsStruct) []string {
	var d []string
	if !reflect.DeepEqual(structIDs(a), structIDs(b)) && sameSet(structIDs(a), structIDs(b)) {
		d = append(d, "struct_order")
	}
	fo := false
	for _, x := range a {
		for _, y := range b {
			if structID(x) == structID(y) && !reflect.DeepEqual(fieldTags(x), fieldTags(y)) {
				fo = true
			}
		}
	}
	if fo {
		d = append(d, "field_order")
	}
	if len(d) == 0 {
		d = []string{"content"}
	}
	return d
}

// ------------------------------------------------------------------ one input

func (r *resT) miss(class, detail string, c inputT, info map[string]any, drift bool) {
	sig := map[string]any{"op": "run", "class": class, "args": c.args.Form, "shape": c.shape, "detail": detail}
	info["doc_objects"] = len(c.doc)
	info["ignore"] = c.args.Ign
	cs := map[string]any{
		"op": c.op, "doc": c.doc, "args": c.args, "style": c.style, "runs": c.runs,
		"shape": c.shape, "sat": c.sat, "exp": c.exp, "deco": c.deco, "route": c.route,
	}
	info["deco"] = c.deco
	if c.blame != "" {
		// the same document and arguments without the attributes run clean: the attributes did it
		sig["deco"] = c.blame
	}
	if c.route != "" && c.route != "binary" {
		sig["route"] = c.route
	}
	if c.prev != nil {
		// a run over the output file an earlier run has left: another defect class than the same
		// outcome in a fresh directory
		sig["op"] = "run_over_existing"
		sig["schema"] = c.schema
		cs["op"] = "seq"
		cs["prev"] = c.prev
		info["earlier_run"] = map[string]any{"doc_objects": len(c.prev.Doc), "args": c.prev.Args}
	}
	r.Mismatches = append(r.Mismatches, mismatch{Sig: sig, Detail: info, Drift: drift, Case: cs})
}

type inputT struct {
	op    string // "vec" | "doc" | "seq"
	doc   []objT
	args  argsT
	style string
	runs  int
	shape string
	sat   bool
	exp   *expT
	inp   string
	prev  *prevT // seq: the input run before in the same directory
	// seq: what became of the schema file between the two runs: "untouched" (the same document,
	// only the arguments differ) or "replaced"; wantSchema is the specification's word for it
	schema     string
	wantSchema string
	deco       string // Codegen!Decos: the attributes the schema file carries ("" = "bare")
	route      string // Codegen!Routes: how the generator is invoked ("" = "binary")
	blame      string // set on a failure: deco, if the bare rendering of the same input runs clean
}

func satisfiable(doc []objT, args argsT) bool {
	for _, o := range doc {
		if args.Form == "with_ignore" && o.Name == args.Ign {
			continue
		}
		for _, p := range o.Props {
			if p.Tid != "ref" && token.IsKeyword(p.Tid) {
				return false
			}
		}
	}
	return true
}

func (o *runObs) clean() bool {
	return !o.Hang && !o.Panic && o.Exit == 0 && o.HasOut && o.ParseErr == ""
}

func traceLine(c inputT, run int, rel string, o *runObs) map[string]any {
	return map[string]any{
		"ev": "run", "inp": c.inp, "run": run, "doc": c.doc, "args": c.args, "style": c.style,
		"runs": c.runs, "structs": o.Structs, "hash": o.Hash, "rel": rel, "deco": decoOf(c), "route": routeOf(c),
	}
}

func decoOf(c inputT) string {
	if c.deco == "" {
		return "bare"
	}
	return c.deco
}

func routeOf(c inputT) string {
	if c.route == "" {
		return "binary"
	}
	return c.route
}

// blameDeco: a failure of a decorated input is the attributes' doing (Codegen!AttributeBlind) if
// the bare rendering of the same document runs clean with the same arguments - and, where the
// specification's expectation is at hand, meets it.
func blameDeco(c inputT, r *resT) string {
	if decoOf(c) == "bare" {
		return ""
	}
	b := c
	b.deco = "bare"
	w := newWorkdir()
	defer w.close()
	w.put(b)
	o := w.run(b.args, false)
	r.Evals++
	if !o.clean() {
		return ""
	}
	if c.exp != nil {
		assignKeys(o.Structs, c.doc)
		if cl, _ := structVerdict(c.doc, c.args, c.exp.Structs, o.Structs); cl != "ok" {
			return ""
		}
	}
	return c.deco
}

// runInput runs one input c.runs times in a private directory and returns the first clean
// observation (nil if there is none).  Before the even runs the output file is removed (a fresh
// directory); the odd runs find the output of the run before (the same input run again in place).
func runInput(c inputT, r *resT) *runObs {
	r.Inputs++
	text := render(c.doc, c.style, c.deco)
	if err := checkRender(c.doc, text); err != nil {
		panic("rendering: " + err.Error())
	}
	w := newWorkdir()
	defer w.close()
	w.put(c)
	if r.Attrs == nil {
		r.Attrs = map[string]int{}
	}
	r.Attrs["deco_"+decoOf(c)]++
	for _, t := range attrKinds(c.doc, decoOf(c)) {
		r.Attrs[t]++
	}
	var first *runObs
	variants := map[string]bool{}
	logged := map[string]bool{}
	reported := map[string]bool{}
	blamed, blame := false, ""
	once := func(class, detail string, info map[string]any, drift bool) {
		k := class + "/" + detail
		if reported[k] {
			return
		}
		reported[k] = true
		info["yaml"] = text
		cc := c
		if !drift && class != "nondeterministic_bytes" && decoOf(c) != "bare" {
			if !blamed {
				blamed, blame = true, blameDeco(c, r)
			}
			cc.blame = blame
		}
		r.miss(class, detail, cc, info, drift)
	}
	failures := 0
	outcome := "ok"
	prevClean := false
	for k := 0; k < c.runs; k++ {
		if failures >= 3 { // a failure repeated three times will not get more interesting
			break
		}
		keep := k%2 == 1 && prevClean && first != nil
		o := w.run(c.args, keep)
		prevClean = o.clean()
		assignKeys(o.Structs, c.doc)
		r.Evals++
		rel := "fresh"
		if keep {
			// the same input run again in place: what diverges from the fresh run here is a finding
			// about the used directory (op run_over_existing), not about the input
			r.Reruns++
			rel = "over_own_output"
			cc := c
			cc.prev = &prevT{Doc: c.doc, Args: c.args}
			cc.schema = "untouched"
			if oc := judgeOver(cc, &o, first, rel, string(first.Bytes), r); oc != "ok" {
				failures++
				outcome = oc
				continue
			}
		}
		switch {
		case o.Hang:
			failures++
			outcome = "hang"
			once("hang", "", map[string]any{"run": k, "stderr": o.Stderr}, false)
			continue
		case o.Panic:
			failures++
			outcome = "panic"
			once("panic", o.Cause, map[string]any{"run": k, "exit": o.Exit, "frame": o.Frame, "stderr": o.Stderr}, false)
			continue
		case o.Exit != 0:
			failures++
			outcome = "nonzero_exit"
			if c.sat {
				once("nonzero_exit", "", map[string]any{"run": k, "exit": o.Exit, "stderr": o.Stderr}, false)
			} else {
				r.Lenient++
			}
			continue
		case !o.HasOut:
			failures++
			outcome = "no_output"
			once("no_output", "", map[string]any{"run": k, "stderr": o.Stderr}, false)
			continue
		case o.ParseErr != "":
			failures++
			outcome = "not_gofmt"
			if c.sat {
				once("not_gofmt", "", map[string]any{"run": k, "parse_error": o.ParseErr, "output": string(o.Bytes)}, false)
			} else {
				r.Lenient++
			}
			continue
		}
		if !o.Canonical {
			once("not_gofmt_canonical", "", map[string]any{"run": k, "output": string(o.Bytes)}, true)
		}
		variants[o.Hash] = true
		// determinism: bytes against the first successful run of this input
		if first == nil {
			oc := o
			first = &oc
		} else if !bytes.Equal(first.Bytes, o.Bytes) {
			outcome = "nondeterministic"
			for _, d := range diffDetails(first.Structs, o.Structs) {
				once("nondeterministic_bytes", d, map[string]any{"run": k, "first": string(first.Bytes), "later": string(o.Bytes)}, false)
			}
		}
		if c.op == "vec" {
			if cl, d := structVerdict(c.doc, c.args, c.exp.Structs, o.Structs); cl != "ok" {
				outcome = cl
				once(cl, d, map[string]any{"run": k, "output": string(o.Bytes), "expected": c.exp.Structs}, false)
			} else if nd := nameDrift(c.exp.Structs, o.Structs); nd != "" {
				once("name_form", "", map[string]any{"run": k, "what": nd}, true)
			}
			countRefForms(c.doc, c.args, o.Structs, r)
		} else if k < 2 || !logged[o.Hash] {
			// logged: the first two runs and every run with bytes not seen before for this input
			// (a run repeating known bytes adds nothing the direct comparison above has not decided)
			logged[o.Hash] = true
			r.Trace = append(r.Trace, traceLine(c, k, rel, &o))
		}
		if len(o.Other) > 0 {
			once("other_declarations", "", map[string]any{"run": k, "decls": o.Other}, true)
		}
		if dn := duplicateNames(o.Structs); dn != "" {
			// names that differ in the first letter's case only are inside the premise; that their
			// structs / fields get one Go name is not excluded by the statement -> drift
			once("duplicate_names", "", map[string]any{"run": k, "what": dn}, true)
		}
	}
	if len(variants) > r.MaxVariants {
		r.MaxVariants = len(variants)
	}
	r.Keys = append(r.Keys, fmt.Sprintf("%s/%s/%s/%s/%s/%s", docKey(c.doc), nameKind(c.doc), c.args.Form, ignKind(c.doc, c.args),
		decoOf(c), outcome))
	if first != nil && c.op == "vec" {
		r.Hash = first.Hash
	}
	return first
}

// runRoute: the input under another invocation route (Codegen!InvocationBlind).  The reference
// is a run by the pre-built binary in a fresh directory; every run under the route - each in a
// fresh directory - must finish, meet the expectation and give the reference's bytes.
func runRoute(c inputT, times int, r *resT) {
	if r.Routes == nil {
		r.Routes = map[string]int{}
	}
	w := newWorkdir()
	defer w.close()
	w.put(c)
	ref := w.run(c.args, false)
	r.Evals++
	if !ref.clean() {
		r.Routes["not_judged"]++ // the plain vector of this input reports it
		return
	}
	assignKeys(ref.Structs, c.doc)
	outcome := "ok"
	for k := 0; k < times && outcome == "ok"; k++ {
		rw := newWorkdir()
		rw.route = c.route
		if c.route == "go_run" {
			rw.copySources()
		}
		rw.put(c)
		o := rw.run(c.args, false)
		rw.close()
		r.Evals++
		r.Routes[c.route]++
		assignKeys(o.Structs, c.doc)
		outcome = judgeOver(c, &o, &ref, "invocation", "", r)
		if c.exp == nil && o.clean() {
			// explicit document: logged for CodegenTrace, whose record of this input knows no route
			r.Trace = append(r.Trace, traceLine(c, 2000+k, "fresh", &o))
		}
	}
	r.Keys = append(r.Keys, fmt.Sprintf("route/%s/%s/%s/%s/%s/%s", docKey(c.doc), nameKind(c.doc), c.args.Form,
		ignKind(c.doc, c.args), c.route, outcome))
}

// ------------------------------------------------------------------ a used directory
// The generator writes typedef_output.go into the directory it runs in.  The statement makes the
// output a function of the input (schema file, arguments): a run that finds the output of an
// earlier run - of other arguments, of another document - must give what the same input gives
// in a fresh directory.

// relOf: the file the run finds against the output the input gives in a fresh directory
// (a run over the output of the same input: "over_own_output")
func relOf(found, fresh int) string {
	switch {
	case found > fresh:
		return "over_longer_output"
	case found < fresh:
		return "over_shorter_output"
	}
	return "over_equal_output"
}

// judgeOver compares the observation o of c, made over an existing output file, with ref, the
// clean observation of the same input in a fresh directory.  The first divergence is reported
// (op run_over_existing, detail = rel); the returned outcome names it.
func judgeOver(c inputT, o, ref *runObs, rel, found string, r *resT) string {
	text := render(c.doc, c.style, c.deco)
	miss := func(class string, info map[string]any) string {
		info["yaml"] = text
		info["found_in_directory"] = found
		info["fresh_directory"] = string(ref.Bytes)
		r.miss(class, rel, c, info, false)
		return class
	}
	switch {
	case o.Hang:
		return miss("hang", map[string]any{"stderr": o.Stderr})
	case o.Panic:
		return miss("panic", map[string]any{"exit": o.Exit, "cause": o.Cause, "frame": o.Frame, "stderr": o.Stderr})
	case o.Exit != 0:
		return miss("nonzero_exit", map[string]any{"exit": o.Exit, "stderr": o.Stderr})
	case !o.HasOut:
		return miss("no_output", map[string]any{"stderr": o.Stderr})
	case o.ParseErr != "":
		return miss("not_gofmt", map[string]any{"parse_error": o.ParseErr, "output": string(o.Bytes)})
	}
	if c.exp != nil {
		cl, _ := structVerdict(c.doc, c.args, c.exp.Structs, o.Structs)
		rcl, _ := structVerdict(c.doc, c.args, c.exp.Structs, ref.Structs)
		if cl != "ok" && rcl == "ok" { // (a structure the fresh run gets wrong too is the plain vector's finding)
			return miss(cl, map[string]any{"output": string(o.Bytes), "expected": c.exp.Structs})
		}
	}
	if !bytes.Equal(o.Bytes, ref.Bytes) {
		return miss("nondeterministic_bytes", map[string]any{"output": string(o.Bytes)})
	}
	return "ok"
}

func tempDir() string {
	dir, err := os.MkdirTemp(*workDir, "cg-")
	if err != nil {
		panic("temp dir: " + err.Error())
	}
	return dir
}

// workdir is one directory the generator runs in.  The schema file is written only when the
// document changes: between two runs that differ in their arguments only it stays UNTOUCHED, as
// it does under "go generate" / "ARG=Spec go generate".  The modification times tell the true
// order of events whatever the granularity of the file system's clock:
//   - a schema file written into a directory without output is old (10 s in the past);
//   - a schema file replaced while an output exists is strictly newer than that output;
//   - an output (re)generated by a run that finished normally after the schema file was last
//     written is strictly newer than the schema file (the schema file is moved into the past).
type workdir struct {
	dir  string
	text string // what schema_input.yaml holds ("": not written yet)
	ran  bool   // a run has finished normally since the schema file was last written
	// how the generator is invoked here ("" = the pre-built binary)
	route string
}

// copySources puts the generator's sources (gen.go, go.mod, go.sum) into the directory: the
// documented invocation is "go run gen.go schema_input.yaml [ARG]" in the source directory.
func (w *workdir) copySources() {
	if *genSrc == "" {
		panic("route go_run needs -gensrc")
	}
	ents, err := os.ReadDir(*genSrc)
	if err != nil {
		panic("read generator sources: " + err.Error())
	}
	for _, e := range ents {
		n := e.Name()
		if e.IsDir() || strings.HasSuffix(n, "_test.go") || !(strings.HasSuffix(n, ".go") || n == "go.mod" || n == "go.sum") {
			continue
		}
		b, err := os.ReadFile(filepath.Join(*genSrc, n))
		if err != nil {
			panic("read generator sources: " + err.Error())
		}
		if err := os.WriteFile(filepath.Join(w.dir, n), b, 0o644); err != nil {
			panic("copy generator sources: " + err.Error())
		}
	}
}

func newWorkdir() *workdir            { return &workdir{dir: tempDir()} }
func (w *workdir) close()             { os.RemoveAll(w.dir) }
func (w *workdir) schemaPath() string { return filepath.Join(w.dir, "schema_input.yaml") }
func (w *workdir) outPath() string    { return filepath.Join(w.dir, "typedef_output.go") }

func setMtime(path string, t time.Time) {
	if err := os.Chtimes(path, t, t); err != nil {
		panic("chtimes: " + err.Error())
	}
}

// put makes schema_input.yaml hold the document of c; it returns "untouched" when the file holds
// it already (and is left alone), "written" / "replaced" otherwise.
func (w *workdir) put(c inputT) string {
	text := render(c.doc, c.style, c.deco)
	if err := checkRender(c.doc, text); err != nil {
		panic("rendering: " + err.Error())
	}
	if w.text == text {
		return "untouched"
	}
	what := "written"
	if w.text != "" {
		what = "replaced"
	}
	if err := os.WriteFile(w.schemaPath(), []byte(text), 0o644); err != nil {
		panic("write input: " + err.Error())
	}
	w.text, w.ran = text, false
	in, err := os.Stat(w.schemaPath())
	if err != nil {
		panic("stat input: " + err.Error())
	}
	if out, err := os.Stat(w.outPath()); err != nil {
		setMtime(w.schemaPath(), time.Now().Add(-10*time.Second))
	} else if !in.ModTime().After(out.ModTime()) {
		setMtime(w.schemaPath(), out.ModTime().Add(10*time.Millisecond))
	}
	return what
}

// run runs the generator (keep: the output file is left where it is, see runOnce).
func (w *workdir) run(args argsT, keep bool) runObs {
	if keep && w.ran {
		in, ierr := os.Stat(w.schemaPath())
		out, oerr := os.Stat(w.outPath())
		if ierr == nil && oerr == nil && !out.ModTime().After(in.ModTime()) {
			setMtime(w.schemaPath(), out.ModTime().Add(-time.Second))
		}
	}
	o := runVia(w.route, w.dir, args, keep)
	if !o.Hang && !o.Panic && o.Exit == 0 && o.HasOut {
		w.ran = true
	}
	return o
}

func prevKind(c inputT) string {
	if len(c.prev.Doc) != len(c.doc) {
		return fmt.Sprintf("doc%+d", len(c.prev.Doc)-len(c.doc))
	}
	return "args:" + c.prev.Args.Form + ":" + ignKind(c.prev.Doc, c.prev.Args)
}

// runSeq: in a new directory the generator runs on c.prev, then - the output file left in place,
// the schema file replaced if the document is another one and UNTOUCHED if only the arguments
// differ - on c; the reference is a run of c in another new directory.
func runSeq(c inputT, r *resT) {
	if r.Over == nil {
		r.Over = map[string]int{}
	}
	key := func(schema, rel, outcome string) {
		r.Keys = append(r.Keys, fmt.Sprintf("over/%s/%s/%s/%s/%s/schema_%s/%s/%s", docKey(c.doc), nameKind(c.doc), c.args.Form,
			ignKind(c.doc, c.args), prevKind(c), schema, rel, outcome))
	}
	used := newWorkdir()
	defer used.close()
	p := inputT{op: "seq", doc: c.prev.Doc, args: c.prev.Args, style: c.style, deco: c.deco}
	used.put(p)
	po := used.run(p.args, false)
	r.Evals++
	if po.Hang || po.Panic || po.Exit != 0 || !po.HasOut {
		// the earlier run's own failure is the finding of its own vector; there is no used directory to test
		r.OverSkipped++
		key("-", "-", "earlier_run_failed")
		return
	}
	c.schema = used.put(c)
	if c.wantSchema != "" && c.wantSchema != c.schema {
		panic(fmt.Sprintf("the specification has the schema file %s, the rendered documents make it %s", c.wantSchema, c.schema))
	}
	o := used.run(c.args, true)
	r.Evals++
	fresh := newWorkdir()
	defer fresh.close()
	fresh.put(c)
	ref := fresh.run(c.args, false)
	r.Evals++
	if !ref.clean() {
		r.OverSkipped++ // the plain vector of this input reports it
		key(c.schema, "-", "fresh_run_failed")
		return
	}
	assignKeys(o.Structs, c.doc)
	assignKeys(ref.Structs, c.doc)
	rel := relOf(len(po.Bytes), len(ref.Bytes))
	r.Over[rel]++
	r.Over["schema_"+c.schema]++
	outcome := judgeOver(c, &o, &ref, rel, string(po.Bytes), r)
	if c.exp == nil && o.clean() {
		// explicit pair: the structure verdict is CodegenTrace's (both observations are of one input)
		ln := traceLine(c, 1, rel, &o)
		ln["prev"] = c.prev
		ln["schema"] = c.schema
		r.Trace = append(r.Trace, traceLine(c, 0, "fresh", &ref), ln)
	}
	key(c.schema, rel, outcome)
}

// runSession runs the steps one after the other in ONE directory (the output file left in place;
// the schema file replaced when the document changes, untouched when only the arguments do) and
// compares each with fresh[step.inp], the clean observation of the same input in a fresh directory.
func runSession(steps []inputT, fresh map[string]*runObs, r *resT) {
	if r.Over == nil {
		r.Over = map[string]int{}
	}
	w := newWorkdir()
	defer w.close()
	for k, c := range steps {
		found, ferr := os.ReadFile(w.outPath())
		c.schema = w.put(c)
		o := w.run(c.args, true)
		r.Evals++
		ref := fresh[c.inp]
		if ferr != nil || ref == nil || k == 0 {
			continue // a fresh directory, or nothing to compare with (the input's own runs report why)
		}
		assignKeys(o.Structs, c.doc)
		rel := relOf(len(found), len(ref.Bytes))
		r.Over[rel]++
		r.Over["schema_"+c.schema]++
		c.prev = &prevT{Doc: steps[k-1].doc, Args: steps[k-1].args}
		outcome := judgeOver(c, &o, ref, rel, string(found), r)
		if o.clean() && o.Hash != ref.Hash {
			// bytes not seen before for this input: logged for CodegenTrace (which knows the fresh run)
			ln := traceLine(c, 1000+k, rel, &o)
			ln["prev"] = c.prev
			ln["schema"] = c.schema
			r.Trace = append(r.Trace, ln)
		}
		r.Keys = append(r.Keys, fmt.Sprintf("over/%s/%s/%s/%s/%s/schema_%s/%s/%s", docKey(c.doc), nameKind(c.doc), c.args.Form,
			ignKind(c.doc, c.args), prevKind(c), c.schema, rel, outcome))
	}
}

// nameKind: which kinds of name pairs the document holds (plain / differing in capitalisation
// after the first letter / differing in the first letter's case, i.e. one Go name)
func nameKind(doc []objT) string {
	cv, tc := false, false
	pair := func(a, b string) {
		if a != b && fold(a) == fold(b) {
			if titleOf(a) == titleOf(b) {
				tc = true
			} else {
				cv = true
			}
		}
	}
	for i, o := range doc {
		for _, x := range doc[i+1:] {
			pair(o.Name, x.Name)
		}
		for k, p := range o.Props {
			for _, y := range o.Props[k+1:] {
				pair(p.Name, y.Name)
			}
		}
	}
	switch {
	case cv && tc:
		return "fold+title"
	case cv:
		return "fold"
	case tc:
		return "title"
	}
	return "plain"
}

func ignKind(doc []objT, a argsT) string {
	if a.Form != "with_ignore" {
		return "-"
	}
	for i, o := range doc {
		if o.Name == a.Ign {
			return "obj" + strconv.Itoa(i+1)
		}
	}
	return "absent"
}

// docKey: the document's shape and type assignment (names abstracted away)
func docKey(doc []objT) string {
	var parts []string
	for _, o := range doc {
		var ts []string
		for _, p := range o.Props {
			t := p.Tid
			if t == "ref" {
				t = "ref>out"
				for i, x := range doc {
					if x.Name == p.Ref {
						t = "ref>" + strconv.Itoa(i+1)
					}
				}
			} else if p.Ref != "" {
				t += "+id" // a type other than a reference that carries an id
			}
			ts = append(ts, t)
		}
		parts = append(parts, "("+strings.Join(ts, ",")+")")
	}
	return strings.Join(parts, "")
}

func countRefForms(doc []objT, args argsT, obs []obsStruct, r *resT) {
	for _, o := range doc {
		for _, s := range obs {
			if s.Key != o.Key {
				continue
			}
			for _, p := range o.Props {
				if p.Tid != "ref" || p.Ref == p.Reftitle {
					continue
				}
				for _, f := range s.Fields {
					if f.Key == p.Key && f.Type == p.Ref {
						r.RefRaw++
					} else if f.Key == p.Key && f.Type == p.Reftitle {
						r.RefTitled++
					}
				}
			}
		}
	}
}

// ------------------------------------------------------------------ random documents

var specialNames = []string{"null", "true", "yes", "on", "y", "n", "no", "off", "int64", "string", "error", "nil",
	"main", "init", "x", "X", "ID", "aB", "éa", "Ünï", "k8s_io", "a1", "A_", "zZ9", "_x", "__a", "ObjectMeta",
	"Connection", "bearerToken", "metadata", "Null", "TRUE", "e3", "o0", "iota", "any", "list", "scope"}

const lower = "abcdefghijklmnopqrstuvwxyz"
const upper = "ABCDEFGHIJKLMNOPQRSTUVWXYZ"
const rest = lower + upper + "0123456789_"

// genName returns a fresh identifier; used holds the lower-cased forms already taken, so that
// names from here differ in more than capitalisation (case variants are made by genVariant).
func genName(rng *rand.Rand, used map[string]bool) string {
	for {
		var s string
		if rng.Intn(4) == 0 {
			s = specialNames[rng.Intn(len(specialNames))]
		} else {
			var b strings.Builder
			if rng.Intn(3) == 0 {
				b.WriteByte(upper[rng.Intn(len(upper))])
			} else {
				b.WriteByte(lower[rng.Intn(len(lower))])
			}
			for n := rng.Intn(8); n > 0; n-- {
				b.WriteByte(rest[rng.Intn(len(rest))])
			}
			s = b.String()
		}
		if !validIdent(s) || used[fold(s)] {
			continue
		}
		used[fold(s)] = true
		return s
	}
}

// genVariant returns an identifier that differs from one of the given names in the case of one
// letter only (podIP / podIp; with the first letter: foo / Foo) and is none of them, or "".
func genVariant(rng *rand.Rand, names []string) string {
	if len(names) == 0 {
		return ""
	}
	taken := map[string]bool{}
	for _, n := range names {
		taken[n] = true
	}
	for try := 0; try < 20; try++ {
		r := []rune(names[rng.Intn(len(names))])
		var pos []int
		for i, c := range r {
			if unicode.ToUpper(c) != unicode.ToLower(c) {
				pos = append(pos, i)
			}
		}
		if len(pos) == 0 {
			continue
		}
		i := pos[rng.Intn(len(pos))]
		if i == pos[0] && len(pos) > 1 && rng.Intn(3) != 0 { // the first letter (title collision) less often
			i = pos[1+rng.Intn(len(pos)-1)]
		}
		if unicode.IsUpper(r[i]) {
			r[i] = unicode.ToLower(r[i])
		} else {
			r[i] = unicode.ToUpper(r[i])
		}
		s := string(r)
		if validIdent(s) && !taken[s] {
			return s
		}
	}
	return ""
}

func genCount(rng *rand.Rand, max int) int {
	switch x := rng.Intn(20); {
	case x == 0:
		return 0
	case x <= 2:
		return 1
	}
	if max < 2 {
		return max
	}
	return 2 + rng.Intn(max-1)
}

func genDoc(rng *rand.Rand, maxObjs, maxProps int) []objT {
	n := genCount(rng, maxObjs)
	used := map[string]bool{}
	doc := make([]objT, 0, n)
	var onames []string
	for i := 0; i < n; i++ {
		nm := ""
		if rng.Intn(4) == 0 {
			nm = genVariant(rng, onames)
		}
		if nm == "" {
			nm = genName(rng, used)
		}
		onames = append(onames, nm)
		doc = append(doc, objT{Name: nm, Props: []propT{}})
	}
	outside := genName(rng, used)
	for i := range doc {
		m := genCount(rng, maxProps)
		pu := map[string]bool{}
		var pnames []string
		for k := 0; k < m; k++ {
			pn := ""
			if rng.Intn(4) == 0 {
				pn = genVariant(rng, pnames)
			}
			if pn == "" {
				pn = genName(rng, pu)
			}
			pnames = append(pnames, pn)
			p := propT{Name: pn, Tid: sdkTypeIDs[rng.Intn(len(sdkTypeIDs))]}
			if p.Tid == "map" && rng.Intn(3) != 0 { // keep the keyword type ID rare: it masks everything else
				p.Tid = "list"
			}
			// a reference names its target; every other type may carry an id of its own (the inline
			// object that carries its ID - often; an id next to another type ID - now and then)
			if p.Tid == "ref" || (p.Tid == "object" && rng.Intn(2) == 0) || rng.Intn(5) == 0 {
				if rng.Intn(5) < 3 {
					p.Ref = doc[rng.Intn(len(doc))].Name
				} else {
					p.Ref = outside
				}
				p.Reftitle = titleOf(p.Ref)
			}
			doc[i].Props = append(doc[i].Props, p)
		}
	}
	fillKeys(doc)
	return doc
}

func cloneDoc(doc []objT) []objT {
	out := make([]objT, len(doc))
	for i, o := range doc {
		out[i] = o
		out[i].Props = append([]propT{}, o.Props...)
	}
	return out
}

func runRand(c caseT, r *resT) {
	rng := rand.New(rand.NewSource(c.Seed))
	styles := []string{"block", "noise", "flow"}
	for d := 0; d < c.Count; d++ {
		doc := genDoc(rng, c.MaxObjs, c.MaxProps)
		style := styles[rng.Intn(len(styles))]
		deco := decoNames[rng.Intn(len(decoNames))]
		used := map[string]bool{}
		for _, o := range doc {
			used[fold(o.Name)] = true
		}
		forms := []argsT{{Form: "no_ignore", Ign: ""}, {Form: "with_ignore", Ign: genName(rng, used)}}
		if len(doc) > 0 {
			forms = append(forms, argsT{Form: "with_ignore", Ign: doc[rng.Intn(len(doc))].Name})
		}
		fresh := map[string]*runObs{}
		mk := func(doc []objT, args argsT, tag string, runs int) inputT {
			if e := checkDoc(doc, args); e != "" {
				panic("generated document violates the premise: " + e)
			}
			return inputT{op: "doc", doc: doc, args: args, style: style, runs: runs, shape: shapeOf(doc),
				sat: satisfiable(doc, args), inp: fmt.Sprintf("%d/%d/%s", c.Seed, d, tag), deco: deco}
		}
		var ins []inputT
		for a, args := range forms {
			in := mk(doc, args, strconv.Itoa(a), c.Runs)
			fresh[in.inp] = runInput(in, r)
			ins = append(ins, in)
		}
		// the same inputs once more, one after the other in ONE directory: all objects -> one ignored
		// (shorter) -> a name that is no object (longer again, and a longer header) -> no argument
		// (shorter by the header); then another document: the last object cut off (shorter) and the
		// whole document again (longer)
		steps := []inputT{ins[0]}
		if len(ins) > 2 {
			steps = append(steps, ins[2])
		}
		steps = append(steps, ins[1], ins[0])
		if len(doc) > 0 {
			sub := cloneDoc(doc[:len(doc)-1])
			fillKeys(sub)
			in := mk(sub, forms[0], "cut", 1)
			fresh[in.inp] = runInput(in, r)
			steps = append(steps, in, ins[0])
		}
		runSession(steps, fresh, r)
		// the first document of the case under the other invocation routes (go run: every sixth case)
		if d == 0 {
			routes := []string{"binary_copy", "binary_relative"}
			if c.Seed%6 == 0 && *genSrc != "" {
				routes = append(routes, "go_run")
			}
			for i, rt := range routes {
				rc := ins[i%len(ins)]
				rc.route = rt
				runRoute(rc, 1, r)
			}
		}
	}
}

// ------------------------------------------------------------------ binding: the SDK's type IDs

func runBind(c caseT, r *resT) {
	files, _ := filepath.Glob(filepath.Join(c.Repo, "schema", "*.go"))
	if len(files) == 0 {
		r.BindError = "no Go files under " + filepath.Join(c.Repo, "schema")
		return
	}
	seen := map[string]bool{}
	fset := token.NewFileSet()
	for _, fn := range files {
		if strings.HasSuffix(fn, "_test.go") {
			continue
		}
		f, err := parser.ParseFile(fset, fn, nil, 0)
		if err != nil {
			r.BindError = "cannot parse " + fn + ": " + err.Error()
			return
		}
		for _, d := range f.Decls {
			gd, ok := d.(*ast.GenDecl)
			if !ok || gd.Tok != token.CONST {
				continue
			}
			for _, s := range gd.Specs {
				vs := s.(*ast.ValueSpec)
				id, ok := vs.Type.(*ast.Ident)
				if !ok || id.Name != "TypeID" {
					continue
				}
				for _, v := range vs.Values {
					if bl, ok := v.(*ast.BasicLit); ok && bl.Kind == token.STRING {
						if u, err := strconv.Unquote(bl.Value); err == nil {
							seen[u] = true
						}
					}
				}
			}
		}
	}
	for t := range seen {
		r.TypeIDs = append(r.TypeIDs, t)
	}
	sort.Strings(r.TypeIDs)
	// the attribute keys the decorations write are keys of the SDK's schema of schemas
	var src strings.Builder
	for _, fn := range files {
		if !strings.HasSuffix(fn, "_test.go") {
			b, _ := os.ReadFile(fn)
			src.Write(b)
		}
	}
	for _, k := range attrKeys {
		if !strings.Contains(src.String(), strconv.Quote(k)) {
			r.BindError = fmt.Sprintf("attribute key %q written by the decorations is no key in %s/schema", k, c.Repo)
			return
		}
	}
	mine := append([]string{}, sdkTypeIDs...)
	sort.Strings(mine)
	if !reflect.DeepEqual(mine, r.TypeIDs) {
		r.BindError = fmt.Sprintf("type IDs declared in %s/schema %v differ from the driver's table %v", c.Repo, r.TypeIDs, mine)
	}
}

// ------------------------------------------------------------------ dispatch

func handle(raw json.RawMessage) any {
	var c caseT
	if err := json.Unmarshal(raw, &c); err != nil {
		return map[string]any{"harness_error": err.Error()}
	}
	r := &resT{}
	if c.Op == "bind" {
		runBind(c, r)
		return r
	}
	if *genBin == "" {
		return map[string]any{"harness_error": "no -gen binary given"}
	}
	if c.Runs < 1 {
		c.Runs = 2
	}
	if c.Op == "" && c.Exp != nil {
		c.Op = "vec"
	}
	if c.Op == "seq" && c.Exp != nil && c.Sat != nil && c.Shape != "" {
		c.Op = "vec" // a replayed vector of a used directory: checked and dispatched as the vector it was
	}
	if c.Style == "" {
		c.Style = "block"
	}
	if c.Deco == "" {
		c.Deco = "bare"
	}
	if c.Route == "" {
		c.Route = "binary"
	}
	known := func(x string, in []string) bool {
		for _, y := range in {
			if x == y {
				return true
			}
		}
		return false
	}
	if !known(c.Deco, decoNames) || !known(c.Route, []string{"binary", "binary_copy", "binary_relative", "go_run"}) {
		r.BindError = fmt.Sprintf("decoration %q / route %q unknown to the driver", c.Deco, c.Route)
		return r
	}
	switch c.Op {
	case "vec":
		if e := checkDoc(c.Doc, c.Args); e != "" {
			r.BindError = e
			return r
		}
		if c.Exp == nil || c.Sat == nil {
			return map[string]any{"harness_error": "vector without exp/sat"}
		}
		if c.Shape != shapeOf(c.Doc) || *c.Sat != satisfiable(c.Doc, c.Args) {
			r.BindError = fmt.Sprintf("specification says shape %q sat %v, driver computes %q %v",
				c.Shape, *c.Sat, shapeOf(c.Doc), satisfiable(c.Doc, c.Args))
			return r
		}
		for _, s := range c.Exp.Structs {
			for _, f := range s.Fields {
				kw := true
				for _, t := range f.Types {
					kw = kw && token.IsKeyword(t)
				}
				if kw != f.Free {
					r.BindError = fmt.Sprintf("field %s.%s: specification says free=%v for types %v, go/token disagrees", s.Name, f.Name, f.Free, f.Types)
					return r
				}
			}
		}
		in := inputT{op: "vec", doc: c.Doc, args: c.Args, style: c.Style, runs: c.Runs, shape: c.Shape,
			sat: *c.Sat, exp: c.Exp, deco: c.Deco, route: c.Route}
		if c.Route != "binary" {
			runRoute(in, 2, r)
			return r
		}
		if c.Prev != nil && c.Prev.Args.Form != "fresh" {
			// a used directory: it holds the output of prev (the attributes of prev's document are not
			// used: only its YAML text is rendered)
			if c.Prev.Args.Form != "no_ignore" && c.Prev.Args.Form != "with_ignore" {
				r.BindError = "unknown argument form of the earlier run: " + c.Prev.Args.Form
				return r
			}
			in.op, in.prev, in.wantSchema = "seq", c.Prev, c.Schema
			runSeq(in, r)
			return r
		}
		runInput(in, r)
	case "seq":
		if e := checkDoc(c.Doc, c.Args); e != "" {
			r.BindError = e
			return r
		}
		if c.Prev == nil {
			return map[string]any{"harness_error": "seq without prev"}
		}
		in := inputT{op: "seq", doc: c.Doc, args: c.Args, style: c.Style, runs: 1, shape: shapeOf(c.Doc),
			sat: satisfiable(c.Doc, c.Args), exp: c.Exp, inp: "seq", prev: c.Prev, deco: c.Deco}
		runSeq(in, r)
	case "doc":
		if e := checkDoc(c.Doc, c.Args); e != "" {
			r.BindError = e
			return r
		}
		in := inputT{op: "doc", doc: c.Doc, args: c.Args, style: c.Style, runs: c.Runs, shape: shapeOf(c.Doc),
			sat: satisfiable(c.Doc, c.Args), inp: "doc", deco: c.Deco}
		runInput(in, r)
		if c.Route != "binary" {
			in.route = c.Route
			runRoute(in, 2, r)
		}
	case "rand":
		runRand(c, r)
	default:
		return map[string]any{"harness_error": "unknown op " + c.Op}
	}
	return r
}

func main() { sup.Main(handle) }
