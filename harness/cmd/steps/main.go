// Command steps is the conformance driver for C11 (spec/Steps.tla).
//
// Cases:
//
//	{"calls":[call..],"hist":[{"ev","p"}..],"ledger":[..],"res":[..],"ic":{..},"racy":b}
//	    one terminal state of StepsMC: a complete gate-level schedule with the outcome the
//	    specification computed.  The schedule is forced on real CallableSchemas: the
//	    harness-supplied initializer and handlers park the calling goroutine until the
//	    schedule releases it.
//	{"op":"random","seed":S,"sessions":K,"np":N,"runs":R}
//	    K random concurrent sessions (no parking, seeded jitter); the event ledger of every
//	    session is returned as trace lines for StepsTrace.tla.
//
// A call is {"kind":"step"|"signal","step","run","sig","input","beh"} as in Steps.tla.
// "variants":[v..] (one per call, set by the orchestrator round-robin per call class so that every
// concrete form of every class is exercised) selects the concrete raw input / handler output.
//
// The steps in mapSteps (StepsMC: MapSteps) have a MAP-BASED input scope and signal data scope
// (schema.NewObjectSchema, handler typed map[string]any).  The abstract "unserialized value" of
// such a call is bound by an INDEPENDENT copy of the scope: the handler's argument is of class
// Native(input) iff it is reflect.DeepEqual to what that copy's Unserialize returns for the same
// raw input.  The OUTPUT scopes of these steps are map-based as well (properties of kinds int, list of
// string, pattern, struct-mapped sub-object): behaviour "okr" returns conforming data whose in-memory
// form differs from its serialized form, and the data CallStep returns must be reflect.DeepEqual to
// what an independent copy of the output scope's Serialize gives for the handler's value.
//
// The steps in shortSteps (StepsMC: ShortSteps) have an input object and a signal data object with
// EXACTLY ONE property, in one of several shapes (struct-mapped / map-based, scalar / nested
// single-property object) chosen per session: a bare value that is not a map ("vs") is shorthand for
// the object.  The unserialized value is again bound by an independent copy of the scope.
//
// "display":{step:shape} gives every step (and its signal) a display of that shape (none / name /
// description / icon / all); no outcome may depend on it.
//
// For every session the property's own invariants are evaluated directly on the real
// observations (judge); under replay the per-goroutine event sequences, ledger, outcomes and
// initializer counts are also compared with the specification's (differences the property
// does not fix are reported as drift).
package main

import (
	"context"
	"encoding/json"
	"errors"
	"fmt"
	"math/rand"
	"os"
	"path/filepath"
	"reflect"
	"regexp"
	"runtime"
	"sort"
	"strconv"
	"strings"
	"sync"
	"time"

	"go.flow.arcalot.io/pluginsdk/schema"
	"verif/harness/sup"
)

// ---------------------------------------------------------------------------- shapes

type callT struct {
	Kind  string `json:"kind"`
	Step  string `json:"step"`
	Run   string `json:"run"`
	Sig   string `json:"sig"`
	Input string `json:"input"`
	Beh   string `json:"beh"`
	// set by the harness from the case's layout: the step exists in the harness's universe but is not
	// registered in this session's schema - a call on it is a call on an unknown step
	Unreg bool `json:"-"`
}

// layoutT: how a session's schema is put together (Steps.tla: layout)
type layoutT struct {
	reg    []string          // registered steps
	sigreg map[string]string // step -> "same" | "differ": the signal's own ID is / is not its registration key
}

const ownSigID = "sigown"

func defaultLayout() layoutT {
	l := layoutT{reg: append([]string{}, stepIDs...), sigreg: map[string]string{}}
	for _, id := range stepIDs {
		l.sigreg[id] = "same"
	}
	return l
}

// markUnreg sets Unreg on the calls that name a step the layout does not register.
func (l layoutT) markUnreg(calls []callT) {
	for i := range calls {
		calls[i].Unreg = contains(stepIDs, calls[i].Step) && !contains(l.reg, calls[i].Step)
	}
}

// the concrete IDs a call on an unknown step (class "nostep") names
var unknownStepIDs = []struct{ name, id string }{{"unknown", "nope"}, {"empty", ""}, {"miscased", "S1"},
	{"trailing-space", "s1 "}, {"step-dot-output", "s1.success"}}

// signalID: the ID the harness gives the signal registered under the key sigID on this step
func (l layoutT) signalID(step string) string {
	if l.sigreg[step] == "differ" {
		return ownSigID
	}
	return sigID
}

type histT struct {
	Ev string `json:"ev"`
	P  int    `json:"p"`
}

type ledgerT struct {
	P    int    `json:"p"`
	Kind string `json:"kind"`
	Step string `json:"step"`
	Run  string `json:"run"`
	Arg  string `json:"arg"`
	Data int    `json:"data"`
}

type resE struct {
	Class string `json:"class"`
	Out   string `json:"out"`
	Ser   string `json:"ser"`
}

type caseT struct {
	Op       string                    `json:"op"`
	Calls    []callT                   `json:"calls"`
	Hist     []histT                   `json:"hist"`
	Ledger   []ledgerT                 `json:"ledger"`
	Res      []resE                    `json:"res"`
	Ic       map[string]map[string]int `json:"ic"`
	Racy     bool                      `json:"racy"`
	NoInit   []string                  `json:"noinit"`
	MapSteps []string                  `json:"mapsteps"`
	Shorts   []string                  `json:"shortsteps"`
	Display  map[string]string         `json:"display"`
	Reg      []string                  `json:"reg"`
	SigReg   map[string]string         `json:"sigreg"`
	Variants []int                     `json:"variants"`
	Seed     int64                     `json:"seed"`
	Sessions int                       `json:"sessions"`
	NP       int                       `json:"np"`
	Runs     int                       `json:"runs"`
}

type mismatch struct {
	Sig    map[string]any `json:"sig"`
	Detail map[string]any `json:"detail"`
	Drift  bool           `json:"drift,omitempty"`
}

type resT struct {
	Evals      int              `json:"evals"`
	Mismatches []mismatch       `json:"mismatches,omitempty"`
	Trace      []map[string]any `json:"trace,omitempty"`
	Sessions   int              `json:"sessions,omitempty"`
	Clean      int              `json:"clean,omitempty"`
	Followed   bool             `json:"followed"`
	Timeouts   int              `json:"timeouts,omitempty"`
	Stuck      string           `json:"stuck,omitempty"`
	BindError  string           `json:"bind_error,omitempty"`
	Keys       []string         `json:"keys,omitempty"`
	Forms      []string         `json:"forms,omitempty"`       // concrete raw-input forms exercised
	FormTables map[string]int   `json:"form_tables,omitempty"` // "<scope>/<class>" -> number of concrete forms
	nviol      int              // violations found, including those beyond the reporting cap
}

const (
	sigID  = "sig"
	noStep = "nostep"
)

// s0 is built without an initializer and with step data type any (as the SDK's own protocol
// tests do): its step data is the nil interface.  Steps.tla: NoInitSteps.
var stepIDs = []string{"s1", "s2", "s0"}
var noInit = map[string]bool{"s0": true}

// s2 has a map-based input scope and a map-based signal data scope.  StepsMC: MapSteps.
var mapSteps = map[string]bool{"s2": true}

// the accepted raw input classes (Steps.tla: ValidInputs); vd and vl exist for map-based scopes only
var validIn = map[string]bool{"va": true, "vb": true, "vd": true, "vl": true, "vs": true}

// s0 has single-property input and signal data objects (shape chosen per session).  StepsMC: ShortSteps.
var shortSteps = map[string]bool{"s0": true}

// behT: a handler behaviour is a pair (output ID class, data class) - Steps.tla: BehTab
type behT struct{ id, data string }

var behTab = map[string]behT{
	"ok": {"declared", "conf"}, "okr": {"declared", "confr"}, "baddata": {"declared", "nonconf"}, "nildata": {"declared", "nil"},
	"ok2": {"declared2", "conf"}, "ok2r": {"declared2", "confr"}, "baddata2": {"declared2", "nonconf"}, "nildata2": {"declared2", "nil"},
	"undeclared": {"undeclared", "conf"}, "undeclaredr": {"undeclared", "confr"},
	"undeclaredbad": {"undeclared", "nonconf"}, "undeclarednil": {"undeclared", "nil"},
}
var allBehs = []string{"ok", "okr", "baddata", "nildata", "ok2", "ok2r", "baddata2", "nildata2",
	"undeclared", "undeclaredr", "undeclaredbad", "undeclarednil"}

// the concrete output IDs of class "undeclared"
var undeclaredIDs = []struct{ name, id string }{{"unknown-id", "nope"}, {"miscased-id", "Success"}, {"empty-id", ""}}

var structClasses = []string{"va", "vb"}
var mapClasses = []string{"va", "vb", "vd", "vl"}

// ---------------------------------------------------------------------------- the plugin under test

type stepIn struct {
	Name string `json:"name"`
	Note string `json:"note"`
}
type sigIn struct {
	Msg  string `json:"msg"`
	Note string `json:"note"`
}
type stepOut struct {
	Message string `json:"message"`
}
type stepErr struct {
	Error string `json:"error"`
}

// sdata is the per-run step data the harness initializer creates.
type sdata struct {
	creator int
	step    string
	run     string
}

func strProp(min int, required bool) *schema.PropertySchema {
	return schema.NewPropertySchema(schema.NewStringSchema(schema.IntPointer(min), nil, nil), nil, required, nil, nil, nil, nil, nil)
}

func inScope() *schema.ScopeSchema {
	return schema.NewScopeSchema(schema.NewStructMappedObjectSchema[stepIn]("input", map[string]*schema.PropertySchema{
		"name": strProp(2, true), "note": strProp(0, false)}))
}
func sigScope() *schema.ScopeSchema {
	return schema.NewScopeSchema(schema.NewStructMappedObjectSchema[sigIn]("sigdata", map[string]*schema.PropertySchema{
		"msg": strProp(2, true), "note": strProp(0, false)}))
}
func outputs() map[string]*schema.StepOutputSchema {
	return map[string]*schema.StepOutputSchema{
		"success": schema.NewStepOutputSchema(schema.NewScopeSchema(schema.NewStructMappedObjectSchema[stepOut]("output",
			map[string]*schema.PropertySchema{"message": strProp(1, true)})), nil, false),
		"error": schema.NewStepOutputSchema(schema.NewScopeSchema(schema.NewStructMappedObjectSchema[stepErr]("erroroutput",
			map[string]*schema.PropertySchema{"error": strProp(1, true)})), nil, true),
	}
}

var names = map[string]string{"va": "alpha", "vb": "bravo", "vd": "delta", "vl": "lima", "vs": "sierra"}
var natives = map[string]string{"va": "nva", "vb": "nvb", "vd": "nvd", "vl": "nvl", "vs": "nvs"}

// rawInput concretises an abstract raw input class; variant selects one of several concrete forms.
func rawInput(field, class string, variant int) any {
	switch class {
	case "va", "vb":
		if variant%2 == 0 {
			return map[string]any{field: names[class]}
		}
		return map[any]any{field: names[class]} // what CBOR hands over
	default:
		switch variant % nStructInv {
		case 7:
			return msa(nil) // a typed nil map: a map without the required field
		case 8:
			if field == "msg" {
				return (*sigIn)(nil)
			}
			return (*stepIn)(nil) // a typed nil pointer: not a map
		case 6:
			// a value that already has the reflected type of the scope: the schema's Unserialize takes
			// maps only ("Must be a map to convert to object")
			if field == "msg" {
				return sigIn{Msg: "alpha"}
			}
			return stepIn{Name: "alpha"}
		case 0:
			return map[string]any{field: "x"} // shorter than the declared minimum
		case 1:
			return map[string]any{"note": "no required field"}
		case 2:
			return map[string]any{field: "alpha", "bogus": "undeclared"}
		case 3:
			return nil
		case 4:
			return 42 // not a map (the object has two properties: no shorthand)
		default:
			return map[any]any{field: nil}
		}
	}
}

const nStructInv = 9

// ---------------------------------------------------------------------------- map-based scopes

func optProp(t schema.Type, def *string) *schema.PropertySchema {
	return schema.NewPropertySchema(t, nil, false, nil, nil, nil, def, nil)
}

// mapScope builds a fresh scope whose root object is NOT struct-mapped: its unserialized form is a
// map[string]any.  "count" has a declared default; count/size/ratio/verbose accept lenient forms;
// timeout (int) and delay (float) are quantities with units.
func mapScope(id, field string) *schema.ScopeSchema {
	return schema.NewScopeSchema(schema.NewObjectSchema(id, map[string]*schema.PropertySchema{
		field:     strProp(2, true),
		"note":    strProp(0, false),
		"count":   optProp(schema.NewIntSchema(schema.IntPointer(0), schema.IntPointer(10), nil), schema.PointerTo("3")),
		"size":    optProp(schema.NewIntSchema(nil, nil, nil), nil),
		"ratio":   optProp(schema.NewFloatSchema(nil, nil, nil), nil),
		"verbose": optProp(schema.NewBoolSchema(), nil),
		// quantities with units: the units parser reports numbers it cannot read with its own error types
		// (BadArgumentError among them), which end up in the cause chain of the schema's rejection
		"timeout": optProp(schema.NewIntSchema(schema.IntPointer(0), nil, schema.UnitDurationNanoseconds), nil),
		"delay":   optProp(schema.NewFloatSchema(nil, nil, schema.UnitDurationSeconds), nil),
	}))
}
func mapInScope() *schema.ScopeSchema  { return mapScope("input", "name") }
func mapSigScope() *schema.ScopeSchema { return mapScope("sigdata", "msg") }

func refScope(field string) *schema.ScopeSchema {
	if field == "msg" {
		return mapSigScope()
	}
	return mapInScope()
}

// summaryT is the struct a sub-object of the map-based outputs is mapped to.
type summaryT struct {
	Lines int64  `json:"lines"`
	Title string `json:"title"`
}

// field names the one required property; "" = every property is optional (an empty map conforms, nil
// does not)
func mapOutObject(id, field string) *schema.ObjectSchema {
	required := field != ""
	if !required {
		field = "message"
	}
	return schema.NewObjectSchema(id, map[string]*schema.PropertySchema{
		field:    strProp(1, required),
		"count":  optProp(schema.NewIntSchema(schema.IntPointer(0), nil, nil), nil),
		"labels": optProp(schema.NewListSchema(schema.NewStringSchema(nil, nil, nil), nil, nil), nil),
		"filter": optProp(schema.NewPatternSchema(), nil),
		"summary": optProp(schema.NewStructMappedObjectSchema[summaryT]("summary", map[string]*schema.PropertySchema{
			"lines": schema.NewPropertySchema(schema.NewIntSchema(nil, nil, nil), nil, true, nil, nil, nil, nil, nil),
			"title": strProp(0, true)}), nil),
	})
}

// mapOutputs builds fresh map-based output scopes under the same two output IDs as outputs().
func mapOutputs() map[string]*schema.StepOutputSchema {
	return map[string]*schema.StepOutputSchema{
		"success": schema.NewStepOutputSchema(schema.NewScopeSchema(mapOutObject("output", "message")), nil, false),
		"error":   schema.NewStepOutputSchema(schema.NewScopeSchema(mapOutObject("erroroutput", "error")), nil, true),
		"info":    schema.NewStepOutputSchema(schema.NewScopeSchema(mapOutObject("infooutput", "")), nil, false),
	}
}

// outForm is one concrete value a handler of the map-based step returns.  ser is the serialized form
// the specification's reading of the schema gives (int64, []any, pattern text, sub-object as a map):
// checked against an independent Serialize in bindCheck; nil = the output schema rejects the value.
type outForm struct {
	name string
	val  func(f, m string) any
	ser  func(f, m string) map[string]any
}

var outForms = map[string][]outForm{
	// in-memory form = serialized form
	"ok": {
		{"plain", func(f, m string) any { return msa{f: m} }, func(f, m string) msa { return msa{f: m} }},
		{"normal-int-list", func(f, m string) any { return msa{f: m, "count": int64(3), "labels": []any{"a", "b"}} },
			func(f, m string) msa { return msa{f: m, "count": int64(3), "labels": []any{"a", "b"}} }},
	},
	// conforming, but the in-memory form differs from the serialized form
	"okr": {
		{"int-as-int", func(f, m string) any { return msa{f: m, "count": 3} },
			func(f, m string) msa { return msa{f: m, "count": int64(3)} }},
		{"int-as-uint8", func(f, m string) any { return msa{f: m, "count": uint8(2)} },
			func(f, m string) msa { return msa{f: m, "count": int64(2)} }},
		{"list-as-strings", func(f, m string) any { return msa{f: m, "labels": []string{"a", "b"}} },
			func(f, m string) msa { return msa{f: m, "labels": []any{"a", "b"}} }},
		{"compiled-pattern", func(f, m string) any { return msa{f: m, "filter": regexp.MustCompile("^a+$")} },
			func(f, m string) msa { return msa{f: m, "filter": "^a+$"} }},
		{"struct-sub-object", func(f, m string) any { return msa{f: m, "summary": summaryT{Lines: 7, Title: "t"}} },
			func(f, m string) msa { return msa{f: m, "summary": msa{"lines": int64(7), "title": "t"}} }},
		{"all", func(f, m string) any {
			return msa{f: m, "count": 9, "labels": []string{}, "filter": regexp.MustCompile("x|y"), "summary": summaryT{Title: "u"}}
		}, func(f, m string) msa {
			return msa{f: m, "count": int64(9), "labels": []any{}, "filter": "x|y", "summary": msa{"lines": int64(0), "title": "u"}}
		}},
	},
	// declared ID, data the output schema rejects
	"baddata": {
		{"too-short", func(f, m string) any { return msa{f: ""} }, nil},
		{"int-below-minimum", func(f, m string) any { return msa{f: m, "count": -1} }, nil},
		{"struct-where-map-declared", func(f, m string) any { return stepOut{Message: m} }, nil},
		{"undeclared-key", func(f, m string) any { return msa{f: m, "bogus": 1} }, nil},
		{"required-missing", func(f, m string) any { return msa{"count": int64(1)} }, nil},
		{"list-of-wrong-items", func(f, m string) any { return msa{f: m, "labels": []any{msa{"a": 1}}} }, nil},
		{"not-a-list", func(f, m string) any { return msa{f: m, "labels": "a,b"} }, nil},
		{"pattern-as-text", func(f, m string) any { return msa{f: m, "filter": "^a+$"} }, nil},
		{"sub-object-incomplete", func(f, m string) any { return msa{f: m, "summary": msa{"lines": int64(1)}} }, nil},
		{"scalar", func(f, m string) any { return 42 }, nil},
	},
	// nil data, untyped and typed
	"nildata": {
		{"nil", func(f, m string) any { return nil }, nil},
		{"nil-struct-pointer", func(f, m string) any { return (*summaryT)(nil) }, nil},
		{"nil-map-pointer", func(f, m string) any { return (*msa)(nil) }, nil},
		{"nil-map", func(f, m string) any { return msa(nil) }, nil},
		// nil data under the declared ID whose object has optional properties only (outFormID): an empty
		// map would conform, nil - of any kind that is not a map - does not
		{"nil-for-all-optional-output", func(f, m string) any { return nil }, nil},
		{"nil-struct-pointer-for-all-optional-output", func(f, m string) any { return (*summaryT)(nil) }, nil},
		{"nil-map-pointer-for-all-optional-output", func(f, m string) any { return (*msa)(nil) }, nil},
	},
}

// outFormID: the declared output ID a form is returned under, where it is not the behaviour's own
var outFormID = map[string]string{
	"nil-for-all-optional-output":                "info",
	"nil-struct-pointer-for-all-optional-output": "info",
	"nil-map-pointer-for-all-optional-output":    "info",
}

// outFormsOf: the data forms of a behaviour's data class; the forms bound to another output ID (outFormID)
// only where the behaviour's own ID is the first declared one
func outFormsOf(beh string) []outForm {
	b := behTab[beh]
	all := outForms[map[string]string{"conf": "ok", "confr": "okr", "nonconf": "baddata", "nil": "nildata"}[b.data]]
	if b.id == "declared" {
		return all
	}
	var fs []outForm
	for _, f := range all {
		if _, other := outFormID[f.name]; !other {
			fs = append(fs, f)
		}
	}
	return fs
}

func nOutForms(beh string) int {
	if behTab[beh].id == "undeclared" {
		return len(undeclaredIDs) * len(outFormsOf(beh))
	}
	return len(outFormsOf(beh))
}

// handlerOutputMap is what the handlers of the map-based step return (a fresh value every time).
func handlerOutputMap(beh, name string, variant int) (id string, data any, form string) {
	variant = abs(variant)
	b := behTab[beh]
	fs := outFormsOf(beh)
	if b.id == "undeclared" {
		u := undeclaredIDs[variant%len(undeclaredIDs)]
		f := fs[(variant/len(undeclaredIDs))%len(fs)]
		return u.id, f.val("message", "hi "+name), "mapout/step/" + beh + "/" + u.name + ":" + f.name
	}
	f := fs[variant%len(fs)]
	form = "mapout/step/" + beh + "/" + f.name
	if id, ok := outFormID[f.name]; ok {
		return id, f.val("message", "hi "+name), form
	}
	if b.id == "declared2" {
		return "error", f.val("error", "no "+name), form
	}
	return "success", f.val("message", "hi "+name), form
}

// serClassMap binds the abstract serialized output of a call on the map-based step: data is of class
// Native(input) iff it equals what an independent copy of the declared output scope serializes the
// handler's value to.
func serClassMap(c callT, variant int, outID string, data any) (cls, wantText string) {
	if !validIn[c.Input] {
		return "other", "(input rejected by the schema)"
	}
	id, val, _ := handlerOutputMap(c.Beh, names[c.Input], variant)
	out, declared := mapOutputs()[id]
	if !declared {
		return "other", "(undeclared output ID)"
	}
	var want any
	var err error
	if pi := sup.Guard(func() { want, err = out.Schema().Serialize(val) }); pi != nil {
		return "other", "reference Serialize panicked: " + pi.Msg
	}
	if err != nil {
		return "other", "reference Serialize: " + err.Error()
	}
	if outID == id && reflect.DeepEqual(data, want) {
		return natives[c.Input], ""
	}
	return "other", describe(want)
}

// describe prints a value with the Go types of its parts (int64(3) and 3 print differently)
func describe(v any) string {
	switch t := v.(type) {
	case map[string]any:
		keys := make([]string, 0, len(t))
		for k := range t {
			keys = append(keys, k)
		}
		sort.Strings(keys)
		parts := []string{}
		for _, k := range keys {
			parts = append(parts, k+": "+describe(t[k]))
		}
		return "map[string]any{" + strings.Join(parts, ", ") + "}"
	case []any:
		parts := []string{}
		for _, x := range t {
			parts = append(parts, describe(x))
		}
		return "[]any{" + strings.Join(parts, ", ") + "}"
	case *regexp.Regexp:
		return "*regexp.Regexp(" + t.String() + ")"
	}
	return fmt.Sprintf("%T(%v)", v, v)
}

// mapForm is one concrete raw input of a map-based scope.  norm is the unserialized value the
// specification's reading of the schema gives (defaults filled in, int64 / float64 / bool): it is
// checked against an independent Unserialize in bindCheck; nil = the schema rejects the input.
type mapForm struct {
	name string
	raw  func(f, n string) any
	norm func(f, n string) map[string]any
}

type msa = map[string]any
type maa = map[any]any

var mapForms = map[string][]mapForm{
	// normal representation, nothing omitted that has a default
	"v": {
		{"normal", func(f, n string) any { return msa{f: n, "count": int64(4)} },
			func(f, n string) msa { return msa{f: n, "count": int64(4)} }},
		{"normal-anymap", func(f, n string) any { return maa{f: n, "count": int64(4), "note": "x"} },
			func(f, n string) msa { return msa{f: n, "count": int64(4), "note": "x"} }},
		{"normal-full", func(f, n string) any {
			return msa{f: n, "count": int64(0), "size": int64(-2), "ratio": 1.5, "verbose": false}
		}, func(f, n string) msa {
			return msa{f: n, "count": int64(0), "size": int64(-2), "ratio": 1.5, "verbose": false}
		}},
	},
	// (a) the property with the declared default is omitted
	"vd": {
		{"default-omitted", func(f, n string) any { return msa{f: n} },
			func(f, n string) msa { return msa{f: n, "count": int64(3)} }},
		{"default-omitted-anymap", func(f, n string) any { return maa{f: n} },
			func(f, n string) msa { return msa{f: n, "count": int64(3)} }},
		{"default-omitted-others-set", func(f, n string) any { return msa{f: n, "ratio": 2.5, "verbose": true, "note": ""} },
			func(f, n string) msa { return msa{f: n, "count": int64(3), "ratio": 2.5, "verbose": true, "note": ""} }},
	},
	// (b) values the schema accepts by lenient conversion
	"vl": {
		{"int-as-int", func(f, n string) any { return msa{f: n, "count": 5} },
			func(f, n string) msa { return msa{f: n, "count": int64(5)} }},
		{"int-as-uint64", func(f, n string) any { return msa{f: n, "count": uint64(7)} },
			func(f, n string) msa { return msa{f: n, "count": int64(7)} }},
		{"int-as-float", func(f, n string) any { return msa{f: n, "count": float64(6)} },
			func(f, n string) msa { return msa{f: n, "count": int64(6)} }},
		{"int-as-string", func(f, n string) any { return msa{f: n, "count": "5"} },
			func(f, n string) msa { return msa{f: n, "count": int64(5)} }},
		{"bool-as-string", func(f, n string) any { return msa{f: n, "count": int64(1), "verbose": "yes"} },
			func(f, n string) msa { return msa{f: n, "count": int64(1), "verbose": true} }},
		{"float-as-int64", func(f, n string) any { return msa{f: n, "count": int64(1), "ratio": int64(2)} },
			func(f, n string) msa { return msa{f: n, "count": int64(1), "ratio": float64(2)} }},
		{"float-as-string", func(f, n string) any { return msa{f: n, "count": int64(1), "ratio": "2.5"} },
			func(f, n string) msa { return msa{f: n, "count": int64(1), "ratio": 2.5} }},
		{"small-ints", func(f, n string) any { return msa{f: n, "count": uint8(9), "size": int32(-4), "verbose": 1} },
			func(f, n string) msa { return msa{f: n, "count": int64(9), "size": int64(-4), "verbose": true} }},
		{"all-lenient-default-omitted", func(f, n string) any { return msa{f: n, "size": "12", "ratio": 3, "verbose": "off"} },
			func(f, n string) msa {
				return msa{f: n, "count": int64(3), "size": int64(12), "ratio": float64(3), "verbose": false}
			}},
		{"all-lenient-anymap", func(f, n string) any {
			return maa{f: n, "count": "10", "size": uint64(8), "ratio": int64(2), "verbose": "yes"}
		},
			func(f, n string) msa {
				return msa{f: n, "count": int64(10), "size": int64(8), "ratio": float64(2), "verbose": true}
			}},
		{"int-quantity-with-units", func(f, n string) any { return msa{f: n, "timeout": "1m 30s"} },
			func(f, n string) msa { return msa{f: n, "count": int64(3), "timeout": int64(90000000000)} }},
		{"float-quantity-with-units", func(f, n string) any { return msa{f: n, "count": int64(2), "delay": "1m 1.5s"} },
			func(f, n string) msa { return msa{f: n, "count": int64(2), "delay": 61.5} }},
	},
	// (c) rejected by the schema
	"inv": {
		{"too-short", func(f, n string) any { return msa{f: "x"} }, nil},
		{"required-missing", func(f, n string) any { return msa{"note": "no required field"} }, nil},
		{"undeclared-key", func(f, n string) any { return msa{f: "alpha", "bogus": "undeclared"} }, nil},
		{"nil", func(f, n string) any { return nil }, nil},
		{"nil-map", func(f, n string) any { return msa(nil) }, nil},
		{"nil-anymap", func(f, n string) any { return maa(nil) }, nil},
		{"nil-map-pointer", func(f, n string) any { return (*msa)(nil) }, nil},
		{"not-a-map", func(f, n string) any { return 42 }, nil},
		{"nil-required", func(f, n string) any { return maa{f: nil} }, nil},
		{"int-out-of-range", func(f, n string) any { return msa{f: "alpha", "count": int64(11)} }, nil},
		{"int-out-of-range-lenient", func(f, n string) any { return msa{f: "alpha", "count": "-1"} }, nil},
		{"int-not-a-number", func(f, n string) any { return msa{f: "alpha", "count": "x"} }, nil},
		{"int-fraction", func(f, n string) any { return msa{f: "alpha", "count": 2.5} }, nil},
		{"bool-unknown-word", func(f, n string) any { return msa{f: "alpha", "verbose": "maybe"} }, nil},
		{"float-not-a-number", func(f, n string) any { return msa{f: "alpha", "ratio": "fast"} }, nil},
		{"empty", func(f, n string) any { return msa{} }, nil},
		{"string", func(f, n string) any { return "alpha" }, nil},
		{"non-string-key", func(f, n string) any { return maa{f: "alpha", 7: "x"} }, nil},
		{"wrong-type-for-string", func(f, n string) any { return msa{f: msa{"a": "b"}} }, nil},
		// rejected quantities: the schema's own error has the units parser's BadArgumentError as its cause -
		// the call must all the same fail as a rejected INPUT, not as an unknown step
		{"units-fraction-for-int", func(f, n string) any { return msa{f: "alpha", "timeout": "1.5ns"} }, nil},
		{"units-plain-fraction-for-int", func(f, n string) any { return msa{f: "alpha", "timeout": "0.5"} }, nil},
		{"units-number-overflow", func(f, n string) any { return msa{f: "alpha", "timeout": "99999999999999999999ns"} }, nil},
		{"units-product-overflow", func(f, n string) any { return msa{f: "alpha", "timeout": "9999999999d"} }, nil},
		{"units-unknown-unit", func(f, n string) any { return msa{f: "alpha", "timeout": "5 parsecs"} }, nil},
		{"float-units-number-overflow", func(f, n string) any { return msa{f: "alpha", "delay": "99999999999999999999s"} }, nil},
		{"float-units-product-overflow", func(f, n string) any { return maa{f: "alpha", "delay": "999999999999999999d"} }, nil},
	},
}

func formsOf(class string) []mapForm {
	if class == "va" || class == "vb" {
		return mapForms["v"]
	}
	if f, ok := mapForms[class]; ok {
		return f
	}
	return mapForms["inv"]
}

func formOf(class string, variant int) mapForm {
	f := formsOf(class)
	if variant < 0 {
		variant = -variant
	}
	return f[variant%len(f)]
}

// rawInputMap concretises an abstract raw input class for a map-based scope (fresh value each time).
func rawInputMap(field, class string, variant int) any {
	return formOf(class, variant).raw(field, names[class])
}

// mapArgClass binds the abstract unserialized value: got is of class Native(class) iff it equals what
// an independent copy of the scope unserializes the same raw input to.
func mapArgClass(field, class string, variant int, got map[string]any) (cls, wantText string) {
	if !validIn[class] {
		return "other", "(input rejected by the schema)"
	}
	var want any
	var err error
	if pi := sup.Guard(func() { want, err = refScope(field).Unserialize(rawInputMap(field, class, variant)) }); pi != nil {
		return "other", "reference Unserialize panicked: " + pi.Msg
	}
	if err != nil {
		return "other", "reference Unserialize: " + err.Error()
	}
	if reflect.DeepEqual(any(got), want) {
		return natives[class], ""
	}
	return "other", fmt.Sprintf("%#v", want)
}

// ---------------------------------------------------------------------------- single-property scopes

type shortStr struct {
	Name string `json:"name"`
}
type innerT struct {
	Count int64 `json:"count"`
}
type outerT struct {
	Inner innerT `json:"inner"`
}

func reqProp(t schema.Type) *schema.PropertySchema {
	return schema.NewPropertySchema(t, nil, true, nil, nil, nil, nil, nil)
}

// the last two have an OPTIONAL single property with a declared default: the empty map (and a typed nil map)
// is accepted and unserializes to the default, nil itself is not a map and not a value of the property either
var shortShapes = []string{"struct-string", "map-int", "struct-nested", "map-nested", "struct-optional", "map-optional"}

type optT struct {
	Count int64 `json:"count"`
}

// shortScope builds a fresh scope whose root object has exactly one property.
func shortScope(shape, id string) *schema.ScopeSchema {
	count := func() map[string]*schema.PropertySchema {
		return map[string]*schema.PropertySchema{"count": reqProp(schema.NewIntSchema(schema.IntPointer(0), nil, nil))}
	}
	switch shape {
	case "struct-string":
		return schema.NewScopeSchema(schema.NewStructMappedObjectSchema[shortStr](id,
			map[string]*schema.PropertySchema{"name": strProp(2, true)}))
	case "map-int":
		return schema.NewScopeSchema(schema.NewObjectSchema(id, count()))
	case "struct-optional":
		return schema.NewScopeSchema(schema.NewStructMappedObjectSchema[optT](id, map[string]*schema.PropertySchema{
			"count": optProp(schema.NewIntSchema(schema.IntPointer(0), nil, nil), schema.PointerTo("3"))}))
	case "map-optional":
		return schema.NewScopeSchema(schema.NewObjectSchema(id, map[string]*schema.PropertySchema{
			"count": optProp(schema.NewIntSchema(schema.IntPointer(0), nil, nil), schema.PointerTo("3"))}))
	case "struct-nested":
		return schema.NewScopeSchema(schema.NewStructMappedObjectSchema[outerT](id, map[string]*schema.PropertySchema{
			"inner": reqProp(schema.NewStructMappedObjectSchema[innerT](id+"inner", count()))}))
	default: // map-nested
		return schema.NewScopeSchema(schema.NewObjectSchema(id, map[string]*schema.PropertySchema{
			"inner": reqProp(schema.NewObjectSchema(id+"inner", count()))}))
	}
}

func shortScopeID(kind string) string {
	if kind == "signal" {
		return "sigdata"
	}
	return "input"
}

// shortForm is one concrete raw input of a single-property scope of the given shape; norm is the
// unserialized value the specification's reading gives (checked against an independent Unserialize in
// bindCheck), nil = the schema rejects the input.  n is the class's name (used by the string shape).
type shortForm struct {
	shape, name string
	raw         func(n string) any
	norm        func(n string) any
}

func nestS(c int64) any { return outerT{Inner: innerT{Count: c}} }
func nestM(c int64) any { return msa{"inner": msa{"count": c}} }

var shortForms = map[string][]shortForm{
	// the map spelling
	"v": {
		{"struct-string", "map", func(n string) any { return msa{"name": n} }, func(n string) any { return shortStr{Name: n} }},
		{"struct-string", "anymap", func(n string) any { return maa{"name": n} }, func(n string) any { return shortStr{Name: n} }},
		{"map-int", "map", func(n string) any { return msa{"count": int64(4)} }, func(n string) any { return msa{"count": int64(4)} }},
		{"map-int", "anymap-lenient", func(n string) any { return maa{"count": "4"} }, func(n string) any { return msa{"count": int64(4)} }},
		{"struct-nested", "map", func(n string) any { return msa{"inner": msa{"count": int64(5)}} }, func(n string) any { return nestS(5) }},
		{"struct-nested", "map-inner-shorthand", func(n string) any { return msa{"inner": 6} }, func(n string) any { return nestS(6) }},
		{"map-nested", "map", func(n string) any { return msa{"inner": msa{"count": int64(5)}} }, func(n string) any { return nestM(5) }},
		{"map-nested", "anymap", func(n string) any { return maa{"inner": maa{"count": uint64(7)}} }, func(n string) any { return nestM(7) }},
		{"struct-optional", "map", func(n string) any { return msa{"count": int64(4)} }, func(n string) any { return optT{Count: 4} }},
		{"struct-optional", "map-empty-default", func(n string) any { return msa{} }, func(n string) any { return optT{Count: 3} }},
		{"struct-optional", "nil-map-default", func(n string) any { return msa(nil) }, func(n string) any { return optT{Count: 3} }},
		{"map-optional", "map", func(n string) any { return msa{"count": int64(4)} }, func(n string) any { return msa{"count": int64(4)} }},
		{"map-optional", "map-empty-default", func(n string) any { return msa{} }, func(n string) any { return msa{"count": int64(3)} }},
		{"map-optional", "nil-anymap-default", func(n string) any { return maa(nil) }, func(n string) any { return msa{"count": int64(3)} }},
	},
	// the shorthand: a bare value that is not a map
	"vs": {
		{"struct-string", "bare-string", func(n string) any { return n }, func(n string) any { return shortStr{Name: n} }},
		{"struct-string", "bare-int", func(n string) any { return 42 }, func(n string) any { return shortStr{Name: "42"} }},
		{"map-int", "bare-int", func(n string) any { return 3 }, func(n string) any { return msa{"count": int64(3)} }},
		{"map-int", "bare-int64", func(n string) any { return int64(0) }, func(n string) any { return msa{"count": int64(0)} }},
		{"map-int", "bare-numeral", func(n string) any { return "7" }, func(n string) any { return msa{"count": int64(7)} }},
		{"struct-nested", "bare-int", func(n string) any { return 5 }, func(n string) any { return nestS(5) }},
		{"struct-nested", "bare-uint64", func(n string) any { return uint64(9) }, func(n string) any { return nestS(9) }},
		{"map-nested", "bare-int", func(n string) any { return 5 }, func(n string) any { return nestM(5) }},
		{"map-nested", "bare-numeral", func(n string) any { return "8" }, func(n string) any { return nestM(8) }},
		{"struct-optional", "bare-int", func(n string) any { return 5 }, func(n string) any { return optT{Count: 5} }},
		{"map-optional", "bare-numeral", func(n string) any { return "6" }, func(n string) any { return msa{"count": int64(6)} }},
	},
	// rejected: maps and bare values alike
	"inv": {
		{"struct-string", "bare-too-short", func(n string) any { return "x" }, nil},
		{"struct-string", "bare-nil", func(n string) any { return nil }, nil},
		{"struct-string", "bare-list", func(n string) any { return []any{"alpha"} }, nil},
		{"struct-string", "map-too-short", func(n string) any { return msa{"name": "x"} }, nil},
		{"struct-string", "map-empty", func(n string) any { return msa{} }, nil},
		{"struct-string", "map-undeclared-key", func(n string) any { return msa{"name": "alpha", "bogus": 1} }, nil},
		{"struct-string", "typed-value", func(n string) any { return shortStr{Name: "alpha"} }, nil},
		{"map-int", "bare-below-minimum", func(n string) any { return -1 }, nil},
		{"map-int", "bare-not-a-number", func(n string) any { return "x" }, nil},
		{"map-int", "bare-fraction", func(n string) any { return 2.5 }, nil},
		{"map-int", "bare-nil", func(n string) any { return nil }, nil},
		{"map-int", "map-below-minimum", func(n string) any { return msa{"count": int64(-1)} }, nil},
		{"map-int", "map-empty", func(n string) any { return msa{} }, nil},
		{"struct-nested", "bare-below-minimum", func(n string) any { return -1 }, nil},
		{"struct-nested", "bare-not-a-number", func(n string) any { return "x" }, nil},
		{"struct-nested", "inner-spelling-at-outer-level", func(n string) any { return msa{"count": int64(6)} }, nil},
		{"struct-nested", "map-inner-below-minimum", func(n string) any { return msa{"inner": -2} }, nil},
		{"map-nested", "bare-below-minimum", func(n string) any { return int64(-1) }, nil},
		{"map-nested", "bare-nil", func(n string) any { return nil }, nil},
		{"map-nested", "inner-spelling-at-outer-level", func(n string) any { return msa{"count": int64(6)} }, nil},
		{"map-nested", "map-inner-not-a-number", func(n string) any { return msa{"inner": msa{"count": "x"}} }, nil},
		// nil and typed nils, for every shape
		{"struct-string", "nil-map", func(n string) any { return msa(nil) }, nil},
		{"struct-string", "nil-struct-pointer", func(n string) any { return (*shortStr)(nil) }, nil},
		{"map-int", "nil-map", func(n string) any { return msa(nil) }, nil},
		{"map-int", "nil-map-pointer", func(n string) any { return (*msa)(nil) }, nil},
		{"struct-nested", "bare-nil", func(n string) any { return nil }, nil},
		{"struct-nested", "nil-anymap", func(n string) any { return maa(nil) }, nil},
		{"map-nested", "nil-map", func(n string) any { return msa(nil) }, nil},
		// the optional shapes: no property is required, the empty map is accepted - nil is not
		{"struct-optional", "bare-nil", func(n string) any { return nil }, nil},
		{"struct-optional", "nil-struct-pointer", func(n string) any { return (*optT)(nil) }, nil},
		{"struct-optional", "bare-below-minimum", func(n string) any { return -1 }, nil},
		{"struct-optional", "map-undeclared-key", func(n string) any { return msa{"bogus": 1} }, nil},
		{"map-optional", "bare-nil", func(n string) any { return nil }, nil},
		{"map-optional", "nil-map-pointer", func(n string) any { return (*msa)(nil) }, nil},
		{"map-optional", "bare-not-a-number", func(n string) any { return "x" }, nil},
		{"map-optional", "map-below-minimum", func(n string) any { return msa{"count": -2} }, nil},
	},
}

func shortClass(class string) string {
	switch {
	case class == "va" || class == "vb":
		return "v"
	case class == "vs":
		return "vs"
	}
	return "inv"
}

func abs(v int) int {
	if v < 0 {
		return -v
	}
	return v
}

// shortPick selects a form of the class: among all shapes (shape == "": the form decides the session's
// shape) or among the forms of the given shape.
func shortPick(class, shape string, variant int) *shortForm {
	all := shortForms[shortClass(class)]
	var cands []*shortForm
	for i := range all {
		if shape == "" || all[i].shape == shape {
			cands = append(cands, &all[i])
		}
	}
	return cands[abs(variant)%len(cands)]
}

// shortArgClass binds the abstract unserialized value for the single-property scopes.
func shortArgClass(p *proc, got any) (cls, wantText string) {
	if !validIn[p.call.Input] || p.short == nil {
		return "other", "(input rejected by the schema)"
	}
	var want any
	var err error
	if pi := sup.Guard(func() {
		want, err = shortScope(p.short.shape, shortScopeID(p.call.Kind)).Unserialize(p.short.raw(names[p.call.Input]))
	}); pi != nil {
		return "other", "reference Unserialize panicked: " + pi.Msg
	}
	if err != nil {
		return "other", "reference Unserialize: " + err.Error()
	}
	if reflect.DeepEqual(got, want) {
		return natives[p.call.Input], ""
	}
	return "other", fmt.Sprintf("%#v", want)
}

func bindCheckShort() {
	for _, id := range []string{"input", "sigdata"} {
		for _, cls := range []string{"va", "vb", "vs", "inv"} {
			for i := range shortForms[shortClass(cls)] {
				f := shortForms[shortClass(cls)][i]
				where := fmt.Sprintf("single-property scope %s (%s), class %s form %s", f.shape, id, cls, f.name)
				if !contains(shortShapes, f.shape) {
					bindErr = where + ": unknown shape"
					continue
				}
				sc := shortScope(f.shape, id)
				if n := len(sc.RootObject().Properties()); n != 1 {
					bindErr = fmt.Sprintf("%s: the root object has %d properties", where, n)
				}
				raw := f.raw(names[cls])
				u, err := sc.Unserialize(raw)
				if cls == "inv" {
					if err == nil || f.norm != nil {
						bindErr = fmt.Sprintf("%s is accepted by the schema (%#v) or has a normal form in the table", where, u)
					}
					continue
				}
				if f.norm == nil {
					bindErr = where + " has no normal form in the table"
					continue
				}
				norm := f.norm(names[cls])
				if err != nil || !reflect.DeepEqual(u, norm) {
					bindErr = fmt.Sprintf("%s: Unserialize gives %#v, %v; the table's normal form is %#v", where, u, err, norm)
					continue
				}
				isMap := reflect.ValueOf(raw).Kind() == reflect.Map
				if (cls == "vs") == isMap {
					bindErr = where + ": the map spelling and the bare-value shorthand are mixed up"
				}
				p := &proc{call: callT{Kind: map[string]string{"input": "step", "sigdata": "signal"}[id], Input: cls}, short: &f}
				if got, _ := shortArgClass(p, norm); got != natives[cls] {
					bindErr = where + ": the reference does not recognise the normal form"
				}
				if got, _ := shortArgClass(p, raw); got != "other" && !reflect.DeepEqual(raw, norm) {
					bindErr = where + ": the reference takes the raw input for the unserialized value"
				}
			}
		}
	}
	for _, cl := range []string{"v", "vs", "inv"} {
		seen := map[string]bool{}
		for _, f := range shortForms[cl] {
			seen[f.shape] = true
		}
		if len(seen) != len(shortShapes) {
			bindErr = "single-property form table " + cl + " does not cover every shape"
		}
	}
}

// formTables gives the number of concrete raw-input forms per "<scope>/<class>" (the same for steps and signals)
func formTables() map[string]int {
	t := map[string]int{"struct/inv": nStructInv}
	for _, c := range structClasses {
		t["struct/"+c] = 2
	}
	for _, c := range append(append([]string{}, mapClasses...), "inv") {
		t["map/"+c] = len(formsOf(c))
	}
	for _, b := range allBehs {
		t["mapout/"+b] = nOutForms(b)
		if behTab[b].data != "confr" {
			t["structout/"+b] = nStructOutForms(b)
		}
	}
	for _, c := range []string{"va", "vb", "vs", "inv"} {
		t["short/"+c] = len(shortForms[shortClass(c)])
	}
	t["stepid/unknown"] = len(unknownStepIDs)
	return t
}

func nativeClass(name, note string) string {
	if note != "" {
		return "other"
	}
	switch name {
	case "alpha":
		return "nva"
	case "bravo":
		return "nvb"
	}
	return "other"
}

// sOutForm is one concrete value a handler of a step with struct-mapped outputs returns; second = the
// value is meant for the second declared output ("error", stepErr) rather than the first (stepOut)
type sOutForm struct {
	name string
	val  func(second bool, name string) any
}

var structOutForms = map[string][]sOutForm{
	"conf": {
		{"struct", func(second bool, n string) any {
			if second {
				return stepErr{Error: "no " + n}
			}
			return stepOut{Message: "hi " + n}
		}},
	},
	"nonconf": {
		{"too-short", func(second bool, n string) any { // violates the minimum length
			if second {
				return stepErr{Error: ""}
			}
			return stepOut{Message: ""}
		}},
		{"other-struct", func(second bool, n string) any {
			if second {
				return stepOut{Message: "wrong type for this output"}
			}
			return stepErr{Error: "wrong type for this output"}
		}},
		{"map-where-struct-declared", func(second bool, n string) any {
			return map[string]any{"message": "a map where the struct is declared", "error": "x"}
		}},
		{"scalar", func(second bool, n string) any { return 42 }},
	},
	"nil": {
		{"nil", func(second bool, n string) any { return nil }},
		{"nil-struct-pointer", func(second bool, n string) any {
			if second {
				return (*stepErr)(nil)
			}
			return (*stepOut)(nil)
		}},
		{"nil-map", func(second bool, n string) any { return msa(nil) }},
	},
}

func nStructOutForms(beh string) int {
	b := behTab[beh]
	n := len(structOutForms[b.data])
	if b.id == "undeclared" {
		n *= len(undeclaredIDs)
	}
	return n
}

// handlerOutput: what the handlers of the steps with struct-mapped outputs return (a fresh value every time)
func handlerOutput(beh, name string, variant int) (id string, data any, form string) {
	variant = abs(variant)
	b := behTab[beh]
	fs := structOutForms[b.data]
	if len(fs) == 0 { // confr is bound for map-based outputs only
		fs = structOutForms["conf"]
	}
	if b.id == "undeclared" {
		u := undeclaredIDs[variant%len(undeclaredIDs)]
		f := fs[(variant/len(undeclaredIDs))%len(fs)]
		return u.id, f.val(false, name), "structout/step/" + beh + "/" + u.name + ":" + f.name
	}
	f := fs[variant%len(fs)]
	form = "structout/step/" + beh + "/" + f.name
	if b.id == "declared2" {
		return "error", f.val(true, name), form
	}
	return "success", f.val(false, name), form
}

func serClass(beh string, data any) string {
	norm := map[string]any{}
	switch m := data.(type) {
	case map[string]any:
		norm = m
	case map[any]any:
		for k, v := range m {
			norm[fmt.Sprint(k)] = v
		}
	default:
		return "other"
	}
	for cls, n := range names {
		var want map[string]any
		if behTab[beh].id == "declared2" {
			want = map[string]any{"error": "no " + n}
		} else {
			want = map[string]any{"message": "hi " + n}
		}
		if reflect.DeepEqual(norm, want) {
			return natives[cls]
		}
	}
	return "other"
}

// ---------------------------------------------------------------------------- sessions

type event struct {
	Ev    string
	P     int
	Kind  string
	Arg   string
	Data  int
	Class string
	Out   string
	Ser   string
	// not part of the trace
	etype    string
	chain    string // types along the Unwrap chain of the returned error
	idOnErr  string // the output ID returned together with an error
	untyped  bool
	errText  string
	panicM   string
	frame    string
	dataPtr  *sdata
	key      string
	hstep    string
	argText  string // what the handler of a map-based step got / should have got, for reports
	wantArg  string
	dataText string // what CallStep on the map-based step returned / should have returned
	wantSer  string
}

func (e *event) line() map[string]any {
	return map[string]any{"ev": e.Ev, "p": e.P, "kind": e.Kind, "arg": e.Arg, "data": e.Data,
		"class": e.Class, "out": e.Out, "ser": e.Ser}
}

type proc struct {
	id      int
	goid    int64
	call    callT
	variant int
	gate    chan struct{}
	done    chan struct{}
	begun   bool
	rng     *rand.Rand
	form    string     // the concrete raw input form used (set by the call's goroutine before it returns)
	idform  string     // the concrete ID used for a call on an unknown step
	oform   string     // the concrete handler output form used (map-based step; set by the call's goroutine)
	short   *shortForm // the concrete raw input form of a call on a single-property step
}

type procKey struct{}

type session struct {
	mu      sync.Mutex
	log     []*event
	procs   []*proc // procs[0] is proc 1
	byGoid  map[int64]*proc
	gated   bool
	free    chan struct{}
	arriv   chan *event // arrivals at gates and returns, replay mode
	schema  *schema.CallableSchema
	anomal  []string
	shape   string            // shape of the single-property scopes of this session
	display map[string]string // step -> display shape
	layout  layoutT
}

func goid() int64 {
	var b [64]byte
	n := runtime.Stack(b[:], false)
	f := strings.Fields(string(b[:n]))
	if len(f) < 2 {
		return -1
	}
	id, _ := strconv.ParseInt(f[1], 10, 64)
	return id
}

func newSession(calls []callT, gated bool, seed int64, variant int, variants []int, display map[string]string, layout layoutT) *session {
	layout.markUnreg(calls)
	s := &session{display: display, layout: layout, byGoid: map[int64]*proc{}, gated: gated, free: make(chan struct{}), arriv: make(chan *event, 16*len(calls)+16)}
	for i, c := range calls {
		v := variant + i
		if len(variants) == len(calls) && variants[i] >= 0 {
			v = variants[i]
		}
		s.procs = append(s.procs, &proc{id: i + 1, call: c, variant: v, gate: make(chan struct{}, 1),
			done: make(chan struct{}), rng: rand.New(rand.NewSource(seed*7919 + int64(i)))})
	}
	// the first call on a single-property step decides the shape of this session's single-property scopes
	for _, p := range s.procs {
		if shortSteps[p.call.Step] {
			p.short = shortPick(p.call.Input, s.shape, p.variant)
			s.shape = p.short.shape
		}
	}
	if s.shape == "" {
		s.shape = shortShapes[abs(variant)%len(shortShapes)]
	}
	var steps []schema.CallableStep
	for _, id := range stepIDs {
		if contains(layout.reg, id) {
			steps = append(steps, s.buildStep(id))
		}
	}
	s.schema = schema.NewCallableSchema(steps...)
	return s
}

// Steps.tla: DisplayShapes.  The display of a step (and of its signal) is documentation only.
var displayShapes = []string{"none", "name", "description", "icon", "all"}

func displayOf(shape, id string) schema.Display {
	name, desc, icon := "Step "+id, "what "+id+" does", "<svg/>"
	switch shape {
	case "name":
		return schema.NewDisplayValue(&name, nil, nil)
	case "description":
		return schema.NewDisplayValue(nil, &desc, nil)
	case "icon":
		return schema.NewDisplayValue(nil, nil, &icon)
	case "all":
		return schema.NewDisplayValue(&name, &desc, &icon)
	}
	return nil // no display at all (a nil interface, not a typed nil pointer)
}

func (s *session) disp(id string) schema.Display { return displayOf(s.display[id], id) }

// buildShort builds a step without initializer (step data type any) whose input and signal data objects have
// exactly one property; T is the type the shape unserializes to.
func buildShort[T any](s *session, id string) schema.CallableStep {
	sig := schema.NewCallableSignal[any, T](s.layout.signalID(id), shortScope(s.shape, "sigdata"), s.disp(id),
		func(ctx context.Context, d any, in T) { s.shortHandler(ctx, "signal", id, d, any(in)) })
	return schema.NewCallableStepWithSignals[any, T](id, shortScope(s.shape, "input"), outputs(),
		map[string]schema.CallableSignal{sigID: sig}, nil, s.disp(id), nil,
		func(ctx context.Context, d any, in T) (string, any) {
			return s.shortHandler(ctx, "step", id, d, any(in))
		})
}

func (s *session) buildStep(id string) schema.CallableStep {
	if shortSteps[id] {
		if !noInit[id] {
			panic("single-property steps are built without initializer")
		}
		switch s.shape {
		case "struct-string":
			return buildShort[shortStr](s, id)
		case "struct-nested":
			return buildShort[outerT](s, id)
		case "struct-optional":
			return buildShort[optT](s, id)
		default:
			return buildShort[map[string]any](s, id)
		}
	}
	if mapSteps[id] {
		sig := schema.NewCallableSignal[*sdata, map[string]any](s.layout.signalID(id), mapSigScope(), s.disp(id),
			func(ctx context.Context, d *sdata, in map[string]any) { s.mapSignalHandler(ctx, id, d, in) })
		return schema.NewCallableStepWithSignals[*sdata, map[string]any](id, mapInScope(), mapOutputs(),
			map[string]schema.CallableSignal{sigID: sig}, nil, s.disp(id),
			func() *sdata { return s.initializer(id) },
			func(ctx context.Context, d *sdata, in map[string]any) (string, any) {
				return s.mapStepHandler(ctx, id, d, in)
			})
	}
	if noInit[id] {
		sig := schema.NewCallableSignal[any, sigIn](s.layout.signalID(id), sigScope(), s.disp(id),
			func(ctx context.Context, d any, in sigIn) { s.signalHandler(ctx, id, d, in) })
		return schema.NewCallableStepWithSignals[any, stepIn](id, inScope(), outputs(),
			map[string]schema.CallableSignal{sigID: sig}, nil, s.disp(id), nil,
			func(ctx context.Context, d any, in stepIn) (string, any) { return s.stepHandler(ctx, id, d, in) })
	}
	sig := schema.NewCallableSignal[*sdata, sigIn](s.layout.signalID(id), sigScope(), s.disp(id),
		func(ctx context.Context, d *sdata, in sigIn) { s.signalHandler(ctx, id, d, in) })
	return schema.NewCallableStepWithSignals[*sdata, stepIn](id, inScope(), outputs(),
		map[string]schema.CallableSignal{sigID: sig}, nil, s.disp(id),
		func() *sdata { return s.initializer(id) },
		func(ctx context.Context, d *sdata, in stepIn) (string, any) { return s.stepHandler(ctx, id, d, in) })
}

func (s *session) record(ev *event) {
	s.mu.Lock()
	s.log = append(s.log, ev)
	s.mu.Unlock()
}

func (s *session) anomaly(a string) {
	s.mu.Lock()
	s.anomal = append(s.anomal, a)
	s.mu.Unlock()
}

// arrive logs an arrival at a gate and parks the goroutine (replay) or dawdles (random).
func (s *session) arrive(p *proc, ev *event) {
	s.record(ev)
	if p == nil {
		return
	}
	if s.gated {
		s.arriv <- ev
		select {
		case <-p.gate:
		case <-s.free:
		}
	} else {
		s.jitter(p)
	}
}

func (s *session) jitter(p *proc) {
	switch p.rng.Intn(4) {
	case 0:
	case 1:
		runtime.Gosched()
	default:
		time.Sleep(time.Duration(p.rng.Intn(300)) * time.Microsecond)
	}
}

func (s *session) procOf(ctx context.Context) *proc {
	if ctx != nil {
		if p, ok := ctx.Value(procKey{}).(*proc); ok {
			return p
		}
	}
	return s.procOfGoroutine()
}

func (s *session) procOfGoroutine() *proc {
	g := goid()
	s.mu.Lock()
	defer s.mu.Unlock()
	return s.byGoid[g]
}

// asData recovers the harness's step data from what a handler was given (nil: no data)
func asData(d any) *sdata {
	if p, ok := d.(*sdata); ok {
		return p
	}
	return nil
}

func creator(d any) int {
	if p := asData(d); p != nil {
		return p.creator
	}
	if d != nil {
		return -1 // something that is not the harness's step data
	}
	return 0
}

func (s *session) initializer(step string) *sdata {
	p := s.procOfGoroutine()
	if p == nil {
		s.anomaly("initializer called on a goroutine the harness cannot attribute to a call")
		return &sdata{creator: 0, step: step}
	}
	d := &sdata{creator: p.id, step: step, run: p.call.Run}
	s.arrive(p, &event{Ev: "init", P: p.id, key: step + "/" + p.call.Run, dataPtr: d, hstep: step})
	s.record(&event{Ev: "initdone", P: p.id})
	return d
}

func (s *session) stepHandler(ctx context.Context, step string, d any, in stepIn) (string, any) {
	p := s.procOf(ctx)
	if p == nil {
		s.anomaly("step handler called without attributable call")
		return "success", stepOut{Message: "?"}
	}
	s.arrive(p, &event{Ev: "invoke", P: p.id, Kind: "step", Arg: nativeClass(in.Name, in.Note), Data: creator(d),
		dataPtr: asData(d), key: step + "/" + p.call.Run, hstep: step})
	s.record(&event{Ev: "hret", P: p.id})
	outID, data, form := handlerOutput(p.call.Beh, in.Name, p.variant)
	p.oform = form
	return outID, data
}

func (s *session) signalHandler(ctx context.Context, step string, d any, in sigIn) {
	p := s.procOf(ctx)
	if p == nil {
		s.anomaly("signal handler called without attributable call")
		return
	}
	s.arrive(p, &event{Ev: "invoke", P: p.id, Kind: "signal", Arg: nativeClass(in.Msg, in.Note), Data: creator(d),
		dataPtr: asData(d), key: step + "/" + p.call.Run, hstep: step})
	s.record(&event{Ev: "hret", P: p.id})
}

// handlers of the map-based step: the argument is classified against the independent reference
func (s *session) mapStepHandler(ctx context.Context, step string, d any, in map[string]any) (string, any) {
	p := s.procOf(ctx)
	if p == nil {
		s.anomaly("step handler called without attributable call")
		return "success", stepOut{Message: "?"}
	}
	cls, want := mapArgClass("name", p.call.Input, p.variant, in)
	s.arrive(p, &event{Ev: "invoke", P: p.id, Kind: "step", Arg: cls, Data: creator(d),
		dataPtr: asData(d), key: step + "/" + p.call.Run, hstep: step, argText: fmt.Sprintf("%#v", in), wantArg: want})
	s.record(&event{Ev: "hret", P: p.id})
	name, _ := in["name"].(string)
	outID, data, form := handlerOutputMap(p.call.Beh, name, p.variant)
	p.oform = form
	return outID, data
}

func (s *session) mapSignalHandler(ctx context.Context, step string, d any, in map[string]any) {
	p := s.procOf(ctx)
	if p == nil {
		s.anomaly("signal handler called without attributable call")
		return
	}
	cls, want := mapArgClass("msg", p.call.Input, p.variant, in)
	s.arrive(p, &event{Ev: "invoke", P: p.id, Kind: "signal", Arg: cls, Data: creator(d),
		dataPtr: asData(d), key: step + "/" + p.call.Run, hstep: step, argText: fmt.Sprintf("%#v", in), wantArg: want})
	s.record(&event{Ev: "hret", P: p.id})
}

// handler (step and signal) of the single-property steps: the argument is classified against the reference
func (s *session) shortHandler(ctx context.Context, kind, step string, d any, in any) (string, any) {
	p := s.procOf(ctx)
	if p == nil {
		s.anomaly(kind + " handler called without attributable call")
		return "success", stepOut{Message: "?"}
	}
	cls, want := shortArgClass(p, in)
	s.arrive(p, &event{Ev: "invoke", P: p.id, Kind: kind, Arg: cls, Data: creator(d),
		dataPtr: asData(d), key: step + "/" + p.call.Run, hstep: step, argText: fmt.Sprintf("%#v", in), wantArg: want})
	s.record(&event{Ev: "hret", P: p.id})
	if kind == "signal" {
		return "", nil
	}
	outID, data, form := handlerOutput(p.call.Beh, names[p.call.Input], p.variant)
	p.oform = form
	return outID, data
}

// rawFor concretises p's raw input (a fresh value on every call) and names the concrete form.
func rawFor(p *proc) (raw any, form string) {
	field := "name"
	if p.call.Kind == "signal" {
		field = "msg"
	}
	if shortSteps[p.call.Step] && p.short != nil {
		cls := p.call.Input
		if !validIn[cls] {
			cls = "inv"
		}
		return p.short.raw(names[p.call.Input]), "short/" + p.call.Kind + "/" + cls + "/" + p.short.shape + ":" + p.short.name
	}
	if mapSteps[p.call.Step] {
		f := formOf(p.call.Input, p.variant)
		cls := p.call.Input
		if !validIn[cls] {
			cls = "inv"
		}
		return f.raw(field, names[p.call.Input]), "map/" + p.call.Kind + "/" + cls + "/" + f.name
	}
	v := p.variant
	if v < 0 {
		v = -v
	}
	if validIn[p.call.Input] {
		return rawInput(field, p.call.Input, v), fmt.Sprintf("struct/%s/%s/%d", p.call.Kind, p.call.Input, v%2)
	}
	return rawInput(field, p.call.Input, v), fmt.Sprintf("struct/%s/inv/%d", p.call.Kind, v%nStructInv)
}

// error types of the SDK that are used for failures of every kind and so cannot identify one
var genericErr = map[string]bool{"ConstraintError": true}

var sdkErrNames = map[string]string{
	"BadArgumentError": "badarg", "NoSuchStepError": "nosuchstep",
	"InvalidInputError": "invalidinput", "InvalidOutputError": "invalidoutput",
}

// errChain lists the types along the Unwrap chain of err.
func errChain(err error) string {
	var parts []string
	for e := err; e != nil && len(parts) < 8; e = errors.Unwrap(e) {
		parts = append(parts, strings.TrimPrefix(fmt.Sprintf("%T", e), "*"))
	}
	return strings.Join(parts, " <- ")
}

// classify maps an error to the specification's outcome class by its type: the type of the returned error
// itself or, failing that, what errors.As finds - InvalidInputError and InvalidOutputError before
// BadArgumentError, as a caller telling "rejected input" from "unknown step" would look.  An error that is
// none of the SDK's types but has a BadArgumentError somewhere among its causes therefore classifies as the
// unknown-step type: exactly what the statement forbids for a rejected input.
func classify(err error) (class, etype string, untyped bool) {
	if err == nil {
		return "ok", "", false
	}
	etype = strings.TrimPrefix(strings.TrimPrefix(fmt.Sprintf("%T", err), "*"), "schema.")
	if c, ok := sdkErrNames[etype]; ok {
		return c, etype, false
	}
	var ii schema.InvalidInputError
	var io schema.InvalidOutputError
	var ba schema.BadArgumentError
	var ns schema.NoSuchStepError
	var pii *schema.InvalidInputError
	var pio *schema.InvalidOutputError
	var pba *schema.BadArgumentError
	var pns *schema.NoSuchStepError
	switch {
	case errors.As(err, &ii) || errors.As(err, &pii):
		return "invalidinput", etype, false
	case errors.As(err, &io) || errors.As(err, &pio):
		return "invalidoutput", etype, false
	case errors.As(err, &ba) || errors.As(err, &pba):
		return "badarg", etype, false
	case errors.As(err, &ns) || errors.As(err, &pns):
		return "nosuchstep", etype, false
	}
	switch etype {
	case "errors.errorString", "fmt.wrapError", "fmt.wrapErrors", "errors.joinError":
		untyped = true
	}
	return "error", etype, untyped
}

// runCall performs p's call on the real schema and logs the outcome.
func (s *session) runCall(p *proc) {
	defer close(p.done)
	s.mu.Lock()
	p.goid = goid()
	s.byGoid[p.goid] = p
	s.mu.Unlock()
	if s.gated {
		select {
		case <-p.gate:
		case <-s.free:
			if !p.begun {
				return
			}
		}
	} else {
		s.jitter(p)
		s.record(&event{Ev: "begin", P: p.id})
	}
	ctx := context.WithValue(context.Background(), procKey{}, p)
	ev := &event{Ev: "ret", P: p.id, Ser: "none"}
	var outID string
	var outData any
	var err error
	raw, form := rawFor(p)
	p.form = form
	stepID := p.call.Step
	if stepID == noStep {
		u := unknownStepIDs[abs(p.variant)%len(unknownStepIDs)]
		stepID, p.idform = u.id, "stepid/"+p.call.Kind+"/unknown/"+u.name
	}
	pi := sup.Guard(func() {
		if p.call.Kind == "step" {
			outID, outData, err = s.schema.CallStep(ctx, p.call.Run, stepID, raw)
		} else {
			err = s.schema.CallSignal(ctx, p.call.Run, stepID, p.call.Sig, raw)
		}
	})
	if pi != nil {
		ev.Class, ev.panicM, ev.frame = "panic", pi.Msg, pi.Frame
	} else {
		ev.Class, ev.etype, ev.untyped = classify(err)
		if err != nil {
			ev.chain = errChain(err)
			ev.idOnErr = outID
			ev.errText = err.Error()
		} else if p.call.Kind == "step" {
			ev.Out = outID
			if mapSteps[p.call.Step] {
				ev.Ser, ev.wantSer = serClassMap(p.call, p.variant, outID, outData)
				ev.dataText = describe(outData)
			} else {
				ev.Ser = serClass(p.call.Beh, outData)
			}
		}
	}
	s.record(ev)
	if s.gated {
		s.arriv <- ev
	}
}

// ---------------------------------------------------------------------------- the property, evaluated on the observations

func situation(c callT) string {
	known := false
	for _, id := range stepIDs {
		if c.Step == id && !c.Unreg {
			known = true
		}
	}
	switch {
	case !known:
		return "unknown_step"
	case c.Kind == "signal" && c.Sig != sigID:
		return "unknown_signal"
	case !validIn[c.Input]:
		return "rejected_input"
	case c.Kind == "signal":
		return "ok"
	case behTab[c.Beh].id == "undeclared":
		return "undeclared_output"
	case behTab[c.Beh].data == "nonconf" || behTab[c.Beh].data == "nil":
		return "bad_data"
	}
	return "ok"
}

// the outcome class the specification attaches to each situation (checked against the exported res)
func specClass(c callT, sit string) string {
	switch sit {
	case "unknown_step":
		return "badarg"
	case "unknown_signal", "bad_data":
		return "error"
	case "rejected_input":
		return "invalidinput"
	case "undeclared_output":
		return "invalidoutput"
	}
	return "ok"
}

func opName(c callT) string {
	if c.Kind == "step" {
		return "CallStep"
	}
	return "CallSignal"
}

func (r *resT) miss(drift bool, c callT, class string, extra map[string]any, detail map[string]any) {
	if !drift {
		r.nviol++
	}
	if len(r.Mismatches) > 40 {
		return
	}
	sig := map[string]any{"op": opName(c), "class": class, "case": situation(c)}
	if mapSteps[c.Step] && inputClasses[class] {
		sig["scope"] = "map" // the step's input scope is map-based
	}
	if shortSteps[c.Step] && inputClasses[class] {
		sig["scope"] = "single-property" // the step's input object has exactly one property
	}
	for k, v := range extra {
		sig[k] = v
	}
	r.Mismatches = append(r.Mismatches, mismatch{Sig: sig, Detail: detail, Drift: drift})
}

// the verdicts that concern the treatment of the raw input / of the handler's output value
var inputClasses = map[string]bool{"handler_skipped": true, "handler_on_invalid": true, "wrong_argument": true,
	"error_on_valid": true, "wrong_output": true, "accepts_bad_output": true}

func logLines(log []*event) []map[string]any {
	out := make([]map[string]any, 0, len(log))
	for _, e := range log {
		out = append(out, e.line())
	}
	return out
}

// judge evaluates C11's statement on one finished session; returns the number of violations.
func judge(s *session, r *resT) int {
	before := r.nviol
	s.mu.Lock()
	log := append([]*event{}, s.log...)
	s.mu.Unlock()
	inits := map[string][]*event{}
	invokes := map[int][]*event{}
	rets := map[int]*event{}
	begun := map[int]bool{}
	for _, e := range log {
		switch e.Ev {
		case "begin":
			begun[e.P] = true
		case "init":
			inits[e.key] = append(inits[e.key], e)
		case "invoke":
			invokes[e.P] = append(invokes[e.P], e)
		case "ret":
			rets[e.P] = e
		}
	}
	det := func(p *proc, more map[string]any) map[string]any {
		d := map[string]any{"p": p.id, "call": p.call, "variant": p.variant, "form": p.form,
			"registered_steps": s.layout.reg, "signal_registration": s.layout.sigreg}
		if p.idform != "" {
			d["step_id_form"] = p.idform
		}
		if len(s.display) > 0 {
			d["display"] = s.display
		}
		if mapSteps[p.call.Step] || shortSteps[p.call.Step] {
			d["raw"] = fmt.Sprintf("%#v", func() any { r, _ := rawFor(p); return r }())
		}
		for k, v := range more {
			d[k] = v
		}
		return d
	}
	// once-per-run initialisation
	for key, l := range inits {
		if len(l) > 1 {
			p := s.procs[l[1].P-1]
			r.miss(false, p.call, "init_twice", map[string]any{"case": "setup"},
				det(p, map[string]any{"key": key, "initializer_runs": len(l), "first_by": l[0].P, "second_by": l[1].P}))
		}
	}
	for _, p := range s.procs {
		if !begun[p.id] {
			continue
		}
		r.Evals++
		if p.form != "" {
			r.Forms = append(r.Forms, p.form)
		}
		if p.oform != "" {
			r.Forms = append(r.Forms, p.oform)
		}
		if p.idform != "" {
			r.Forms = append(r.Forms, p.idform)
		}
		c := p.call
		sit := situation(c)
		ret := rets[p.id]
		inv := invokes[p.id]
		if ret == nil {
			continue // stuck: reported by the caller
		}
		if ret.Class == "panic" {
			r.miss(false, c, "panic", map[string]any{"frame": ret.frame}, det(p, map[string]any{"panic": ret.panicM, "frame": ret.frame}))
		}
		// step data identity: what each handler invocation saw
		for _, e := range inv {
			l := inits[e.key]
			switch {
			case e.hstep != c.Step:
				r.miss(false, c, "wrong_handler", nil, det(p, map[string]any{"handler_of": e.hstep}))
			case noInit[e.hstep]:
				if e.Data != 0 || len(l) > 0 {
					r.miss(false, c, "foreign_data", nil, det(p, map[string]any{"key": e.key, "data": e.Data, "note": "step without initializer"}))
				}
			case e.dataPtr == nil:
				r.miss(false, c, "nil_data", nil, det(p, map[string]any{"key": e.key}))
			case len(l) == 0 || e.dataPtr != l[0].dataPtr:
				if len(l) <= 1 { // with two initializer runs init_twice is the signature
					r.miss(false, c, "foreign_data", nil, det(p, map[string]any{"key": e.key, "saw_data_of": fmt.Sprintf("%s/%s by %d", e.dataPtr.step, e.dataPtr.run, e.dataPtr.creator)}))
				}
			}
		}
		if ret.Class == "panic" {
			continue
		}
		valid := sit == "ok" || sit == "undeclared_output" || sit == "bad_data"
		isStep := c.Kind == "step"
		// handler runs exactly once iff valid (stated for CallStep; model detail for signals)
		switch {
		case len(inv) > 1:
			r.miss(false, c, "handler_twice", nil, det(p, map[string]any{"invocations": len(inv)}))
		case valid && len(inv) == 0:
			r.miss(!isStep, c, "handler_skipped", nil, det(p, map[string]any{"returned": ret.Class, "err": ret.errText}))
		case !valid && len(inv) == 1:
			r.miss(!isStep, c, "handler_on_invalid", nil, det(p, map[string]any{"arg": inv[0].Arg}))
		}
		if valid && len(inv) == 1 && inv[0].Arg != natives[c.Input] {
			r.miss(false, c, "wrong_argument", nil, det(p, map[string]any{"arg": inv[0].Arg, "want": natives[c.Input],
				"handler_got": inv[0].argText, "unserialized_value": inv[0].wantArg}))
		}
		// outcome
		od := map[string]any{"returned": ret.Class, "type": ret.etype, "err": ret.errText, "out": ret.Out, "ser": ret.Ser}
		if ret.chain != "" {
			od["error_chain"] = ret.chain
			od["id_returned_with_the_error"] = ret.idOnErr
		}
		if p.oform != "" {
			od["output_form"] = p.oform
		}
		want := specClass(c, sit)
		switch sit {
		case "ok":
			if ret.Class != "ok" {
				r.miss(!isStep, c, "error_on_valid", nil, det(p, od))
			} else if isStep {
				wantOut := "success"
				if behTab[c.Beh].id == "declared2" {
					wantOut = "error"
				}
				if ret.Out != wantOut || ret.Ser != natives[c.Input] {
					if ret.dataText != "" {
						od["returned_data"], od["serialized_output"], od["output_form"] = ret.dataText, ret.wantSer, p.oform
					}
					r.miss(false, c, "wrong_output", nil, det(p, od))
				}
			}
		case "bad_data":
			if ret.Class == "ok" {
				if p.oform != "" {
					od["output_form"], od["returned_data"] = p.oform, ret.dataText
				}
				r.miss(false, c, "accepts_bad_output", nil, det(p, od))
			} else if ret.Class == "invalidinput" || ret.Class == "badarg" || ret.Class == "nosuchstep" {
				r.miss(true, c, "error_type", nil, det(p, od))
			}
		case "unknown_signal":
			if ret.Class == "ok" {
				r.miss(false, c, "no_error", nil, det(p, od))
			}
		default: // unknown_step, rejected_input, undeclared_output
			fam := func(cl string) string {
				if cl == "nosuchstep" {
					return "badarg"
				}
				return cl
			}
			switch {
			case ret.Class == "ok":
				r.miss(false, c, "no_error", nil, det(p, od))
			case !isStep:
				if fam(ret.Class) != want {
					r.miss(true, c, "error_type", nil, det(p, od))
				}
			case fam(ret.Class) == want:
				if ret.Class != want {
					r.miss(true, c, "error_type", nil, det(p, od))
				}
			case ret.Class == "error" && ret.untyped:
				r.miss(false, c, "untyped_error", nil, det(p, od))
			case ret.Class == "error" && genericErr[ret.etype]:
				// the type the SDK returns for any violated constraint (non-conforming output data included):
				// it does not tell this failure from the others
				r.miss(false, c, "wrong_error_type", map[string]any{"got": ret.etype}, det(p, od))
			case ret.Class == "error":
				r.miss(true, c, "error_type", nil, det(p, od)) // a new dedicated type: model detail
			default:
				r.miss(false, c, "wrong_error_type", map[string]any{"got": ret.Class}, det(p, od))
			}
		}
	}
	return r.nviol - before
}

// ---------------------------------------------------------------------------- replay of a schedule

func isArrival(ev string) bool { return ev == "init" || ev == "invoke" || ev == "ret" }

const arrivalTimeout = 3 * time.Second
const pollEvery = 20 * time.Millisecond

// blockedOnMutex reports whether p's goroutine is waiting in sync.Mutex.Lock (goroutine dump).
func (s *session) blockedOnMutex(p *proc) bool {
	s.mu.Lock()
	g := p.goid
	s.mu.Unlock()
	b := make([]byte, 1<<18)
	n := runtime.Stack(b, true)
	head := fmt.Sprintf("goroutine %d [", g)
	for _, blk := range strings.Split(string(b[:n]), "\n\n") {
		if strings.HasPrefix(blk, head) {
			return strings.Contains(blk, "sync.(*Mutex).Lock") || strings.HasPrefix(blk, head+"sync.Mutex.Lock")
		}
	}
	return false
}

func goroutineDump() string {
	b := make([]byte, 1<<18)
	n := runtime.Stack(b, true)
	var keep []string
	for _, g := range strings.Split(string(b[:n]), "\n\n") {
		if strings.Contains(g, "pluginsdk/schema") {
			l := strings.Split(g, "\n")
			if len(l) > 9 {
				l = l[:9]
			}
			keep = append(keep, strings.Join(l, "\n"))
		}
	}
	return strings.Join(keep, "\n\n")
}

func runReplay(c caseT, r *resT) {
	layout := defaultLayout()
	if len(c.Reg) > 0 {
		layout.reg = c.Reg
	}
	for id, g := range c.SigReg {
		if (g != "same" && g != "differ") || !contains(stepIDs, id) {
			r.BindError = "signal registration " + g + " of step " + id + " is not in the harness's table"
			return
		}
		layout.sigreg[id] = g
	}
	for _, id := range layout.reg {
		if !contains(stepIDs, id) {
			r.BindError = "registered step " + id + " is not in the harness's table"
			return
		}
	}
	layout.markUnreg(c.Calls)
	// binding: the harness's reading of the situations must agree with the specification's outcome
	for i, cl := range c.Calls {
		if i < len(c.Res) && specClass(cl, situation(cl)) != c.Res[i].Class {
			r.BindError = fmt.Sprintf("call %+v: specification says %s, harness table says %s", cl, c.Res[i].Class, specClass(cl, situation(cl)))
			return
		}
	}
	for _, id := range c.NoInit {
		if !noInit[id] {
			r.BindError = "specification's NoInitSteps " + strings.Join(c.NoInit, ",") + " differ from the harness's"
			return
		}
	}
	for _, cl := range c.Calls {
		if noInit[cl.Step] && !contains(c.NoInit, cl.Step) {
			r.BindError = "step " + cl.Step + " has no initializer in the harness but one in the specification"
			return
		}
		if mapSteps[cl.Step] != contains(c.MapSteps, cl.Step) {
			r.BindError = "step " + cl.Step + ": specification's MapSteps " + strings.Join(c.MapSteps, ",") + " differ from the harness's"
			return
		}
		if shortSteps[cl.Step] != contains(c.Shorts, cl.Step) {
			r.BindError = "step " + cl.Step + ": specification's ShortSteps " + strings.Join(c.Shorts, ",") + " differ from the harness's"
			return
		}
		if cl.Input == "vs" && !shortSteps[cl.Step] {
			r.BindError = "input class vs is bound for single-property scopes only; call on step " + cl.Step
			return
		}
		if _, known := behTab[cl.Beh]; cl.Kind == "step" && !known {
			r.BindError = "behaviour " + cl.Beh + " is not in the harness's table"
			return
		}
		if behTab[cl.Beh].data == "confr" && !mapSteps[cl.Step] && cl.Step != noStep {
			r.BindError = "behaviour " + cl.Beh + " is bound for map-based output scopes only; call on step " + cl.Step
			return
		}
		if (cl.Input == "vd" || cl.Input == "vl") && !mapSteps[cl.Step] {
			r.BindError = "input class " + cl.Input + " is bound for map-based scopes only; call on step " + cl.Step
			return
		}
	}
	r.FormTables = formTables()
	variant := 0
	for _, h := range c.Hist {
		variant = variant*3 + h.P
	}
	for id, sh := range c.Display {
		if !contains(displayShapes, sh) || !contains(stepIDs, id) {
			r.BindError = "display shape " + sh + " of step " + id + " is not in the harness's table"
			return
		}
	}
	s := newSession(c.Calls, true, 1, variant%12, c.Variants, c.Display, layout)
	for _, p := range s.procs {
		go s.runCall(p)
	}
	parked := map[int]string{}
	for _, p := range s.procs {
		parked[p.id] = "idle"
	}
	followed := true
	why := ""
	stuck := false
	raced := false
	pending := map[int][]*event{}
loop:
	for i, h := range c.Hist {
		if h.P < 1 || h.P > len(s.procs) {
			r.BindError = "schedule names an unknown goroutine"
			break
		}
		p := s.procs[h.P-1]
		switch h.Ev {
		case "begin", "initdone", "hret":
			need := map[string]string{"begin": "idle", "initdone": "init", "hret": "invoke"}[h.Ev]
			if parked[p.id] != need {
				followed, why = false, fmt.Sprintf("step %d: %s(%d) but the goroutine is at %q", i, h.Ev, h.P, parked[p.id])
				break loop
			}
			if h.Ev == "begin" {
				p.begun = true
				s.record(&event{Ev: "begin", P: p.id})
			}
			parked[p.id] = "moving"
			p.gate <- struct{}{}
			// If the specification's next step is not an arrival, the released goroutine is, in the
			// specification, blocked on the initializer mutex: wait until it really is (goroutine
			// dump: sync.Mutex.Lock) or has turned up at a gate instead, so that the window the
			// schedule describes is really open when the next release happens.
			if i+1 < len(c.Hist) && !isArrival(c.Hist[i+1].Ev) {
				waited := time.Duration(0)
				for {
					drained := false
					for !drained {
						select {
						case e := <-s.arriv:
							pending[e.P] = append(pending[e.P], e)
						default:
							drained = true
						}
					}
					if len(pending[p.id]) > 0 || s.blockedOnMutex(p) {
						break
					}
					time.Sleep(50 * time.Microsecond)
					waited += 50 * time.Microsecond
					if waited > arrivalTimeout {
						followed, why, stuck = false, fmt.Sprintf("step %d: after %s(%d) the goroutine neither blocked on the mutex nor arrived", i, h.Ev, h.P), true
						r.Timeouts++
						break loop
					}
				}
			}
		case "init", "invoke", "ret":
			var ev *event
			waited := time.Duration(0)
			for ev == nil {
				if q := pending[p.id]; len(q) > 0 {
					ev, pending[p.id] = q[0], q[1:]
					break
				}
				select {
				case e := <-s.arriv:
					if e.P == p.id {
						ev = e
					} else {
						pending[e.P] = append(pending[e.P], e)
						if c.Racy && e.Ev == "init" && e.hstep == p.call.Step {
							// several goroutines were blocked on one mutex: the runtime, not the
							// schedule, chooses who gets it; it chose differently
							followed, why, raced = false, fmt.Sprintf("step %d: mutex race went to goroutine %d", i, e.P), true
							break loop
						}
					}
				case <-time.After(pollEvery):
					waited += pollEvery
					othersParked := true
					for _, q := range s.procs {
						if q.id != p.id && parked[q.id] == "moving" && len(pending[q.id]) == 0 {
							othersParked = false
						}
					}
					if !c.Racy && othersParked && s.blockedOnMutex(p) {
						// structural: the goroutine waits for a mutex that only a release can free, where
						// the specification has it arrive - the code does not follow the schedule
						followed, why = false, fmt.Sprintf("step %d: %s(%d) expected, but the goroutine is blocked in sync.Mutex.Lock", i, h.Ev, h.P)
						break loop
					}
					if c.Racy && s.blockedOnMutex(p) {
						// structural, not timing: the goroutine sits in sync.Mutex.Lock behind another
						// one that won a race the schedule cannot decide
						followed, why, raced = false, fmt.Sprintf("step %d: goroutine %d lost a mutex race", i, p.id), true
						break loop
					}
					if waited < arrivalTimeout {
						continue
					}
					followed, why = false, fmt.Sprintf("step %d: %s(%d) did not happen", i, h.Ev, h.P)
					stuck = true
					r.Timeouts++
					break loop
				}
			}
			parked[p.id] = ev.Ev
			if ev.Ev != h.Ev {
				followed, why = false, fmt.Sprintf("step %d: specification has %s(%d), the code did %s", i, h.Ev, h.P, ev.Ev)
				break loop
			}
		}
	}
	_ = raced
	var dump string
	if stuck {
		dump = goroutineDump()
	}
	close(s.free) // drain: nothing parks any more
	for _, p := range s.procs {
		select {
		case <-p.done:
		case <-time.After(10 * time.Second):
			r.Stuck = fmt.Sprintf("goroutine %d (%+v) never returned; %s\n%s", p.id, p.call, why, goroutineDump())
			return
		}
	}
	r.Followed = followed
	if len(s.anomal) > 0 {
		r.BindError = strings.Join(s.anomal, "; ")
		return
	}
	nviol := judge(s, r)
	// comparison with the specification's state at the end of the schedule
	if nviol == 0 {
		d := compareWithSpec(c, s)
		if !followed {
			d = append([]string{"schedule not followed: " + why}, d...)
		}
		if stuck && followed == false && len(d) > 0 && dump != "" {
			d = append(d, "goroutines: "+dump)
		}
		if len(d) > 0 && !c.Racy {
			r.Mismatches = append(r.Mismatches, mismatch{Sig: map[string]any{"op": "replay", "class": "model_mismatch", "case": "schedule"},
				Detail: map[string]any{"diff": d, "calls": c.Calls, "log": logLines(s.log)}, Drift: true})
		}
	}
	if nviol > 0 && len(r.Mismatches) > 0 {
		last := &r.Mismatches[len(r.Mismatches)-1]
		last.Detail["log"] = logLines(s.log)
		if !followed {
			last.Detail["schedule"] = why
		}
	}
}

func contains(l []string, x string) bool {
	for _, y := range l {
		if y == x {
			return true
		}
	}
	return false
}

func compareWithSpec(c caseT, s *session) []string {
	var diff []string
	want := map[int][]string{}
	for _, h := range c.Hist {
		want[h.P] = append(want[h.P], h.Ev)
	}
	got := map[int][]string{}
	ic := map[string]int{}
	for _, e := range s.log {
		got[e.P] = append(got[e.P], e.Ev)
		if e.Ev == "init" {
			ic[e.key]++
		}
	}
	for _, p := range s.procs {
		if strings.Join(want[p.id], ",") != strings.Join(got[p.id], ",") {
			diff = append(diff, fmt.Sprintf("goroutine %d: specification %v, code %v", p.id, want[p.id], got[p.id]))
		}
	}
	for i, p := range s.procs {
		if i >= len(c.Res) {
			break
		}
		for _, e := range s.log {
			if e.Ev != "ret" || e.P != p.id {
				continue
			}
			w := c.Res[i]
			okc := e.Class == w.Class || (w.Class == "error" && e.Class != "ok" && e.Class != "panic")
			if !okc || e.Out != w.Out || e.Ser != w.Ser {
				diff = append(diff, fmt.Sprintf("goroutine %d outcome: specification %+v, code {%s %s %s}", p.id, w, e.Class, e.Out, e.Ser))
			}
		}
	}
	wl := map[int]ledgerT{}
	for _, l := range c.Ledger {
		wl[l.P] = l
	}
	for _, e := range s.log {
		if e.Ev != "invoke" {
			continue
		}
		w, ok := wl[e.P]
		if !ok || w.Kind != e.Kind || w.Arg != e.Arg || w.Data != e.Data {
			diff = append(diff, fmt.Sprintf("ledger of goroutine %d: specification %+v, code {%s %s %d}", e.P, w, e.Kind, e.Arg, e.Data))
		}
	}
	for st, m := range c.Ic {
		for run, n := range m {
			if ic[st+"/"+run] != n {
				diff = append(diff, fmt.Sprintf("initializer runs for %s/%s: specification %d, code %d", st, run, n, ic[st+"/"+run]))
			}
		}
	}
	return diff
}

// ---------------------------------------------------------------------------- random concurrent sessions

func randomCall(rng *rand.Rand, runs int) callT {
	c := callT{Sig: "none", Beh: "none"}
	c.Step = stepIDs[rng.Intn(len(stepIDs))]
	if rng.Intn(12) == 0 {
		c.Step = noStep
	}
	c.Run = fmt.Sprintf("r%d", 1+rng.Intn(runs))
	switch rng.Intn(10) {
	case 0, 1, 2:
		c.Input = "inv"
	case 3, 4, 5:
		c.Input = "vb"
	default:
		c.Input = "va"
	}
	if mapSteps[c.Step] && rng.Intn(2) == 0 {
		c.Input = []string{"vd", "vl", "vl"}[rng.Intn(3)]
	}
	if shortSteps[c.Step] && rng.Intn(3) == 0 {
		c.Input = "vs"
	}
	if rng.Intn(100) < 45 {
		c.Kind = "step"
		c.Beh = []string{"ok", "ok", "ok", "ok", "ok2", "undeclared", "baddata", "nildata", "baddata2", "nildata2",
			"undeclaredbad", "undeclarednil"}[rng.Intn(12)]
	} else {
		c.Kind = "signal"
		c.Sig = sigID
		if rng.Intn(9) == 0 {
			c.Sig = "nosig"
		}
	}
	return c
}

func runRandom(c caseT, r *resT) {
	rng := rand.New(rand.NewSource(c.Seed))
	if c.NP < 1 {
		c.NP = 4
	}
	if c.Runs < 1 {
		c.Runs = 2
	}
	keys := map[string]bool{}
	for k := 0; k < c.Sessions; k++ {
		calls := make([]callT, c.NP)
		for i := range calls {
			calls[i] = randomCall(rng, c.Runs)
		}
		// make collisions likely: often aim several calls at one (step, run)
		if rng.Intn(3) > 0 {
			for i := 1; i < len(calls); i++ {
				if rng.Intn(2) == 0 && calls[i].Step != noStep && calls[0].Step != noStep {
					calls[i].Step, calls[i].Run = calls[0].Step, calls[0].Run
				}
			}
		}
		for i := range calls {
			// the classes vd / vl are bound for map-based scopes only
			if (calls[i].Input == "vd" || calls[i].Input == "vl") && !mapSteps[calls[i].Step] {
				calls[i].Input = "va"
			}
			if calls[i].Input == "vs" && !shortSteps[calls[i].Step] {
				calls[i].Input = "va"
			}
			if b := calls[i].Beh; calls[i].Kind == "step" && mapSteps[calls[i].Step] && behTab[b].data == "conf" && rng.Intn(2) == 0 {
				calls[i].Beh = b + "r" // the same output ID class with data class confr
			}
		}
		display := map[string]any{}
		dmap := map[string]string{}
		for _, id := range stepIDs {
			dmap[id] = displayShapes[rng.Intn(len(displayShapes))]
			display[id] = dmap[id]
		}
		layout := defaultLayout()
		if rng.Intn(4) == 0 { // a schema with exactly one step
			layout.reg = []string{stepIDs[rng.Intn(len(stepIDs))]}
		}
		sigreg := map[string]any{}
		for _, id := range stepIDs {
			if rng.Intn(3) == 0 {
				layout.sigreg[id] = "differ"
			}
			sigreg[id] = layout.sigreg[id]
		}
		for i := range calls {
			if calls[i].Kind == "signal" && calls[i].Sig == "nosig" && rng.Intn(2) == 0 {
				calls[i].Sig = ownSigID // the signal's own ID where it differs from the key: unknown all the same
			}
		}
		s := newSession(calls, false, c.Seed*100003+int64(k), rng.Intn(1<<16), nil, dmap, layout)
		for _, p := range s.procs {
			go s.runCall(p)
		}
		for _, p := range s.procs {
			select {
			case <-p.done:
			case <-time.After(10 * time.Second):
				r.Stuck = fmt.Sprintf("random session %d: goroutine %d (%+v) never returned\n%s", k, p.id, p.call, goroutineDump())
				return
			}
		}
		if len(s.anomal) > 0 {
			r.BindError = strings.Join(s.anomal, "; ")
			return
		}
		r.Sessions++
		n0 := len(r.Mismatches)
		nviol := judge(s, r)
		if nviol > 0 {
			for i := n0; i < len(r.Mismatches); i++ {
				r.Mismatches[i].Detail["calls"] = calls
				r.Mismatches[i].Detail["session_seed"] = []int64{c.Seed, int64(k)}
			}
			if len(r.Mismatches) > n0 {
				r.Mismatches[len(r.Mismatches)-1].Detail["log"] = logLines(s.log)
			}
			continue
		}
		r.Clean++
		r.Trace = append(r.Trace, map[string]any{"ev": "reset", "calls": calls, "display": display,
			"reg": append([]string{}, layout.reg...), "sigreg": sigreg})
		r.Trace = append(r.Trace, logLines(s.log)...)
		for _, cl := range calls {
			k := cl.Kind + "/" + situation(cl) + "/" + cl.Beh
			if mapSteps[cl.Step] {
				k += "/map:" + cl.Input
			}
			if shortSteps[cl.Step] {
				k += "/single:" + cl.Input
			}
			if sit := situation(cl); sit == "unknown_step" || sit == "unknown_signal" {
				for _, id := range stepIDs {
					keys[k+"/display:"+dmap[id]] = true
				}
			}
			keys[k] = true
		}
	}
	for k := range keys {
		r.Keys = append(r.Keys, k)
	}
	sort.Strings(r.Keys)
	r.FormTables = formTables()
	checkRaceLog(r)
}

// checkRaceLog reads what the race detector (GORACE=log_path=...) has written for this process.
var raceOff int64

func checkRaceLog(r *resT) {
	prefix := os.Getenv("VERIF_RACELOG")
	if prefix == "" {
		return
	}
	files, _ := filepath.Glob(fmt.Sprintf("%s.%d", prefix, os.Getpid()))
	for _, f := range files {
		b, err := os.ReadFile(f)
		if err != nil || int64(len(b)) <= raceOff {
			continue
		}
		txt := string(b[raceOff:])
		raceOff = int64(len(b))
		i := strings.Index(txt, "DATA RACE")
		if i < 0 {
			continue
		}
		rep := txt[i:]
		if j := strings.Index(rep, "=================="); j > 0 {
			rep = rep[:j]
		}
		frame := ""
		for _, l := range strings.Split(rep, "\n") {
			l = strings.TrimSpace(l)
			if strings.HasPrefix(l, "go.flow.arcalot.io/pluginsdk/") {
				f := strings.TrimPrefix(l, "go.flow.arcalot.io/pluginsdk/")
				if x := strings.Index(f, "["); x >= 0 { // generic instantiation
					if y := strings.LastIndex(f, "]"); y > x {
						f = f[:x] + f[y+1:]
					}
				}
				f = strings.TrimSuffix(f, "()")
				f = strings.NewReplacer("(*", "", ")", "").Replace(f)
				if frame == "" || strings.HasSuffix(f, ".setupStepData") {
					frame = f
				}
				if strings.HasSuffix(f, ".setupStepData") {
					break
				}
			}
		}
		inSteps := strings.Contains(rep, "schema/step.go") || strings.Contains(rep, "schema/schema.go") || strings.Contains(rep, "schema/signal.go")
		if len(rep) > 3000 {
			rep = rep[:3000]
		}
		r.Mismatches = append(r.Mismatches, mismatch{
			Sig:    map[string]any{"op": "concurrent", "class": "data_race", "case": "setup", "frame": frame},
			Detail: map[string]any{"report": rep},
			Drift:  !inSteps, // a race outside the step machinery belongs to C13
		})
	}
}

// ---------------------------------------------------------------------------- binding self-check

var bindOnce sync.Once
var bindErr string

// the concretisation tables must mean what the specification's classes say, judged by the
// schemas alone (no step machinery involved)
func bindCheck() {
	in, sg, outs := inScope(), sigScope(), outputs()
	for v := 0; v < 12; v++ {
		for _, cls := range structClasses {
			n := names[cls]
			u, err := in.Unserialize(rawInput("name", cls, v))
			if err != nil || u != (stepIn{Name: n}) {
				bindErr = fmt.Sprintf("input class %s variant %d is not accepted as %q: %v %v", cls, v, n, u, err)
			}
			u, err = sg.Unserialize(rawInput("msg", cls, v))
			if err != nil || u != (sigIn{Msg: n}) {
				bindErr = fmt.Sprintf("signal input class %s variant %d is not accepted as %q: %v %v", cls, v, n, u, err)
			}
		}
		if _, err := in.Unserialize(rawInput("name", "inv", v)); err == nil {
			bindErr = fmt.Sprintf("input class inv variant %d is accepted by the input schema", v)
		}
		if _, err := sg.Unserialize(rawInput("msg", "inv", v)); err == nil {
			bindErr = fmt.Sprintf("signal input class inv variant %d is accepted by the data schema", v)
		}
	}
	for _, beh := range allBehs {
		if behTab[beh].data == "confr" {
			continue
		}
		for v := 0; v < nStructOutForms(beh); v++ {
			id, data, form := handlerOutput(beh, "alpha", v)
			checkOutForm(outs, beh, id, data, form, func(ser any) string { return serClass(beh, ser) })
		}
	}
}

// checkOutForm: one concrete handler return value must mean what its behaviour's (ID class, data class)
// says, judged by the declared output schemas alone
func checkOutForm(outs map[string]*schema.StepOutputSchema, beh, id string, data any, form string, class func(ser any) string) {
	b := behTab[beh]
	o, declared := outs[id]
	if declared != (b.id != "undeclared") || (b.id == "declared" && id == "error") || (b.id == "declared2" && id != "error") {
		bindErr = fmt.Sprintf("%s: output ID %q does not belong to ID class %s", form, id, b.id)
		return
	}
	if !declared {
		o = outs["success"] // the data class of an undeclared ID's data is judged by the first declared output
	}
	var verr error
	if pi := sup.Guard(func() { verr = o.Validate(data) }); pi != nil {
		bindErr = fmt.Sprintf("%s: Validate panics: %s at %s", form, pi.Msg, pi.Frame)
		return
	}
	isNil := data == nil
	if !isNil {
		switch rv := reflect.ValueOf(data); rv.Kind() {
		case reflect.Pointer, reflect.Map, reflect.Slice:
			isNil = rv.IsNil()
		}
	}
	switch b.data {
	case "nonconf", "nil":
		if verr == nil {
			bindErr = form + " conforms to the output schema"
		}
		if isNil != (b.data == "nil") {
			bindErr = form + ": nil and non-nil data are mixed up"
		}
	default:
		if verr != nil {
			bindErr = fmt.Sprintf("%s does not conform to the output schema: %v", form, verr)
		} else if ser, err := o.Schema().Serialize(data); err != nil || (declared && class(ser) != "nva") {
			bindErr = fmt.Sprintf("%s: serialized output not recognised: %v %v", form, ser, err)
		}
	}
}

// the form tables of the map-based scopes must mean what the specification's classes say, judged by
// the schema alone: accepted classes unserialize to the hand-written normal form, "vd" omits the
// defaulted property and gets the default, "vl" differs from its normal form, "inv" is rejected
func bindCheckMap() {
	for _, field := range []string{"name", "msg"} {
		for _, cls := range append(append([]string{}, mapClasses...), "inv") {
			for i, f := range formsOf(cls) {
				n := names[cls]
				where := fmt.Sprintf("map-based scope (%s), class %s form %d (%s)", field, cls, i, f.name)
				raw := f.raw(field, n)
				u, err := refScope(field).Unserialize(raw)
				if cls == "inv" {
					if err == nil {
						bindErr = where + " is accepted by the schema"
					}
					if f.norm != nil {
						bindErr = where + " has a normal form in the table"
					}
					continue
				}
				if f.norm == nil {
					bindErr = where + " has no normal form in the table"
					continue
				}
				norm := f.norm(field, n)
				if err != nil || !reflect.DeepEqual(u, any(norm)) {
					bindErr = fmt.Sprintf("%s: Unserialize gives %#v, %v; the table's normal form is %#v", where, u, err, norm)
					continue
				}
				if got, _ := mapArgClass(field, cls, i, norm); got != natives[cls] {
					bindErr = where + ": the reference does not recognise the normal form"
				}
				if got, _ := mapArgClass(field, cls, i, msa{field: n}); cls != "vd" && got != "other" {
					bindErr = where + ": the reference recognises a value that is not the unserialized one"
				}
				rm, isMsa := raw.(msa)
				_, rawHasCount := rm["count"]
				switch cls {
				case "va", "vb":
					if isMsa && !reflect.DeepEqual(raw, any(norm)) {
						bindErr = where + " is not in normal representation"
					}
				case "vd":
					if (isMsa && rawHasCount) || norm["count"] != int64(3) {
						bindErr = where + " does not omit the defaulted property"
					}
					if reflect.DeepEqual(raw, any(norm)) {
						bindErr = where + " equals its unserialized value"
					}
				case "vl":
					if reflect.DeepEqual(raw, any(norm)) {
						bindErr = where + " is already in normal representation"
					}
				}
			}
		}
	}
	for _, beh := range allBehs {
		b := behTab[beh]
		for i := 0; i < nOutForms(beh); i++ {
			id, val, where := handlerOutputMap(beh, "alpha", i)
			c := callT{Kind: "step", Step: "s2", Input: "va", Beh: beh}
			checkOutForm(mapOutputs(), beh, id, val, where, func(ser any) string {
				got, _ := serClassMap(c, i, id, ser)
				return got
			})
			if b.id == "undeclared" || (b.data != "conf" && b.data != "confr") {
				continue
			}
			// conforming data under a declared ID: the table's hand-written serialized form
			f := outFormsOf(beh)[i%len(outFormsOf(beh))]
			field, msg := "message", "hi alpha"
			if b.id == "declared2" {
				field, msg = "error", "no alpha"
			}
			ser, err := mapOutputs()[id].Schema().Serialize(val)
			want := f.ser(field, msg)
			if err != nil || !reflect.DeepEqual(ser, any(want)) {
				bindErr = fmt.Sprintf("%s: Serialize gives %s, %v; the table's serialized form is %s", where, describe(ser), err, describe(want))
				continue
			}
			if got, _ := serClassMap(c, i, id, any(want)); got != "nva" {
				bindErr = where + ": the reference does not recognise the serialized form"
			}
			_, fresh, _ := handlerOutputMap(beh, "alpha", i)
			got, _ := serClassMap(c, i, id, fresh)
			normal := reflect.DeepEqual(fresh, any(want))
			if normal != (got == "nva") {
				bindErr = where + ": the reference's verdict on the handler's own value is inconsistent"
			}
			if b.data == "conf" && !normal {
				bindErr = where + ": the in-memory form is not the serialized form"
			}
			if b.data == "confr" && normal {
				bindErr = where + ": the in-memory form equals the serialized form"
			}
		}
	}
	if err := mapOutputs()["info"].Validate(msa{}); err != nil {
		bindErr = "the all-optional map-based output does not accept the empty map: " + err.Error()
	}
	if reflect.TypeOf(msa{}) != mapOutputs()["success"].Schema().ReflectedType() {
		bindErr = "the map-based output scope does not reflect to map[string]any"
	}
	if reflect.TypeOf(msa{}) != mapInScope().ReflectedType() {
		bindErr = "the map-based input scope does not reflect to map[string]any"
	}
}

func handle(raw json.RawMessage) any {
	var c caseT
	if err := json.Unmarshal(raw, &c); err != nil {
		return map[string]any{"harness_error": err.Error()}
	}
	r := &resT{}
	var bp *sup.PanicInfo
	bindOnce.Do(func() {
		bp = sup.Guard(bindCheck)
		if bp == nil {
			bp = sup.Guard(bindCheckMap)
		}
		if bp == nil {
			bp = sup.Guard(bindCheckShort)
		}
	})
	if bp != nil {
		bindErr = "binding self-check panicked: " + bp.Msg + " at " + bp.Frame
	}
	if bindErr != "" {
		r.BindError = bindErr
		return r
	}
	if c.Op == "random" {
		runRandom(c, r)
	} else {
		runReplay(c, r)
	}
	return r
}

func main() { sup.Main(handle) }
