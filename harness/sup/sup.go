// Package sup is the supervised worker of the verification harness.
//
// A driver binary calls sup.Main(handler). Run normally it is the parent: it reads cases (one
// JSON value per line) from -in, feeds them to child processes (the same binary with -child),
// and writes one result line per case to -out. A case whose handler panics is reported by the
// child itself (recover); a case that kills the child (fatal stack overflow, concurrent map
// write, os.Exit) or does not return within -case-timeout is attributed to exactly that case,
// re-run alone in a fresh child twice, and reported as crash/hang only if reproduced
// (otherwise "unreproduced", which the orchestrator treats as infrastructure trouble).
package sup

import (
	"bufio"
	"encoding/json"
	"flag"
	"fmt"
	"io"
	"os"
	"os/exec"
	"regexp"
	"runtime/debug"
	"strings"
	"sync"
	"sync/atomic"
	"time"
)

// Handler runs one case and returns a JSON-encodable observation.
type Handler func(c json.RawMessage) any

var restartRequested bool

// RequestRestart asks the supervisor for a fresh child process after the current case (used when a case
// leaves goroutines behind that would disturb the next one). Not a crash: nothing is blamed.
func RequestRestart() { restartRequested = true }

// Result is one line of the output file.
type Result struct {
	N   int             `json:"n"`
	Res json.RawMessage `json:"res,omitempty"`
	// Crash is set when the child died or hung on this case.
	Crash      string `json:"crash,omitempty"` // "died" | "hang"
	Detail     string `json:"detail,omitempty"`
	Frame      string `json:"frame,omitempty"`
	Reproduced bool   `json:"reproduced,omitempty"`
	Retried    string `json:"retried,omitempty"` // the first attempt ended this way; both reruns alone completed
}

// PanicInfo is what Guard returns when f panics.
type PanicInfo struct {
	Msg   string `json:"msg"`
	Frame string `json:"frame"`
}

var genericRe = regexp.MustCompile(`\[[^\]]*\]`)

// TopFrame extracts the topmost SDK function (package-qualified, receiver kept, arguments and generic
// instantiation stripped) from a stack dump, e.g. "atp.(*atpServerSession).runStep".
func TopFrame(stack string) string {
	// skip everything up to the panic call itself
	if i := strings.Index(stack, "panic("); i >= 0 {
		stack = stack[i:]
	}
	for _, line := range strings.Split(stack, "\n") {
		if !strings.HasPrefix(line, "go.flow.arcalot.io/pluginsdk/") && !strings.HasPrefix(line, "codegen") && !strings.HasPrefix(line, "main.") {
			continue
		}
		if strings.HasPrefix(line, "main.") && !strings.Contains(stack, "codegen") {
			continue
		}
		// cut the argument list: the parenthesis matching the final one
		end := strings.LastIndexByte(line, ')')
		if end < 0 {
			continue
		}
		depth, start := 0, -1
		for i := end; i >= 0; i-- {
			switch line[i] {
			case ')':
				depth++
			case '(':
				depth--
				if depth == 0 {
					start = i
				}
			}
			if start >= 0 {
				break
			}
		}
		if start <= 0 {
			continue
		}
		fn := strings.TrimPrefix(line[:start], "go.flow.arcalot.io/pluginsdk/")
		return genericRe.ReplaceAllString(fn, "")
	}
	return ""
}

// Guard runs f and converts a panic into a PanicInfo.
func Guard(f func()) (pi *PanicInfo) {
	defer func() {
		if r := recover(); r != nil {
			pi = &PanicInfo{Msg: fmt.Sprint(r), Frame: TopFrame(string(debug.Stack()))}
		}
	}()
	f()
	return nil
}

// Main is the entry point of every driver.
func Main(h Handler) {
	child := flag.Bool("child", false, "run as supervised child")
	in := flag.String("in", "", "cases (ndjson)")
	out := flag.String("out", "", "results (ndjson)")
	jobs := flag.Int("j", 8, "parallel children")
	caseTimeout := flag.Duration("case-timeout", 30*time.Second, "per-case bound")
	flag.Parse()
	if *child {
		runChild(h)
		return
	}
	if *in == "" || *out == "" {
		fmt.Fprintln(os.Stderr, "usage: driver -in cases.ndjson -out results.ndjson [-j N]")
		os.Exit(2)
	}
	cases, err := readLines(*in)
	if err != nil {
		fmt.Fprintln(os.Stderr, "read cases:", err)
		os.Exit(2)
	}
	results := make([]Result, len(cases))
	var wg sync.WaitGroup
	if *jobs < 1 {
		*jobs = 1
	}
	// contiguous shards so that neighbours (often similar) share a child
	per := (len(cases) + *jobs - 1) / *jobs
	for s := 0; s < len(cases); s += per {
		e := s + per
		if e > len(cases) {
			e = len(cases)
		}
		wg.Add(1)
		go func(s, e int) {
			defer wg.Done()
			runShard(cases, results, s, e, *caseTimeout)
		}(s, e)
	}
	wg.Wait()
	f, err := os.Create(*out)
	if err != nil {
		fmt.Fprintln(os.Stderr, "write results:", err)
		os.Exit(2)
	}
	w := bufio.NewWriterSize(f, 1<<20)
	enc := json.NewEncoder(w)
	for i := range results {
		results[i].N = i
		_ = enc.Encode(&results[i])
	}
	_ = w.Flush()
	_ = f.Close()
}

func readLines(path string) ([]json.RawMessage, error) {
	f, err := os.Open(path)
	if err != nil {
		return nil, err
	}
	defer f.Close()
	var out []json.RawMessage
	r := bufio.NewReaderSize(f, 1<<20)
	for {
		line, err := r.ReadBytes('\n')
		t := strings.TrimSpace(string(line))
		if t != "" {
			if t[0] == '"' { // TLC's CSVWrite quotes the JSON text: unquote once
				var inner string
				if json.Unmarshal([]byte(t), &inner) == nil {
					t = inner
				}
			}
			out = append(out, json.RawMessage(t))
		}
		if err == io.EOF {
			break
		}
		if err != nil {
			return nil, err
		}
	}
	return out, nil
}

func runChild(h Handler) {
	r := bufio.NewReaderSize(os.Stdin, 1<<20)
	w := bufio.NewWriterSize(os.Stdout, 1<<16)
	n := 0
	for {
		line, err := r.ReadBytes('\n')
		if len(strings.TrimSpace(string(line))) > 0 {
			fmt.Fprintf(w, "B %d\n", n)
			_ = w.Flush()
			var res any
			pi := Guard(func() { res = h(json.RawMessage(line)) })
			if pi != nil {
				res = map[string]any{"harness_panic": pi}
			}
			b, jerr := json.Marshal(res)
			if jerr != nil {
				b, _ = json.Marshal(map[string]any{"harness_error": jerr.Error()})
			}
			fmt.Fprintf(w, "E %d %s\n", n, b)
			if restartRequested {
				fmt.Fprintf(w, "R\n")
				_ = w.Flush()
				os.Exit(0)
			}
			_ = w.Flush()
			n++
		}
		if err != nil {
			return
		}
	}
}

type childProc struct {
	sawR   atomic.Bool
	cmd    *exec.Cmd
	stdin  io.WriteCloser
	lines  chan string
	stderr *tailBuf
}

type tailBuf struct {
	mu  sync.Mutex
	buf []byte
}

func (t *tailBuf) Write(p []byte) (int, error) {
	t.mu.Lock()
	defer t.mu.Unlock()
	t.buf = append(t.buf, p...)
	if len(t.buf) > 64<<10 {
		// keep head (panic message, first frames) and tail
		head := append([]byte{}, t.buf[:24<<10]...)
		tail := t.buf[len(t.buf)-(8<<10):]
		t.buf = append(append(head, []byte("\n...[cut]...\n")...), tail...)
	}
	return len(p), nil
}

func (t *tailBuf) String() string {
	t.mu.Lock()
	defer t.mu.Unlock()
	return string(t.buf)
}

func startChild() (*childProc, error) {
	args := []string{"-child"}
	// pass through driver-specific flags (everything that is not ours)
	flag.Visit(func(f *flag.Flag) {
		switch f.Name {
		case "in", "out", "j", "case-timeout", "child":
		default:
			args = append(args, "-"+f.Name+"="+f.Value.String())
		}
	})
	cmd := exec.Command(os.Args[0], args...)
	cmd.Env = append(os.Environ(), "GOTRACEBACK=single")
	stdin, err := cmd.StdinPipe()
	if err != nil {
		return nil, err
	}
	stdout, err := cmd.StdoutPipe()
	if err != nil {
		return nil, err
	}
	tb := &tailBuf{}
	cmd.Stderr = tb
	if err := cmd.Start(); err != nil {
		return nil, err
	}
	cp := &childProc{cmd: cmd, stdin: stdin, lines: make(chan string, 16), stderr: tb}
	go func() {
		r := bufio.NewReaderSize(stdout, 1<<20)
		for {
			line, err := r.ReadString('\n')
			if strings.TrimSpace(line) == "R" {
				cp.sawR.Store(true)
			} else if line != "" {
				cp.lines <- strings.TrimRight(line, "\n")
			}
			if err != nil {
				close(cp.lines)
				return
			}
		}
	}()
	return cp, nil
}

func (cp *childProc) kill() {
	_ = cp.stdin.Close()
	_ = cp.cmd.Process.Kill()
	_ = cp.cmd.Wait()
}

// runOne feeds one case to cp; returns (result json, status) with status "", "died", "hang".
func (cp *childProc) runOne(c json.RawMessage, timeout time.Duration) (json.RawMessage, string) {
	if _, err := cp.stdin.Write(append(append([]byte{}, c...), '\n')); err != nil {
		return nil, "died"
	}
	timer := time.NewTimer(timeout)
	defer timer.Stop()
	for {
		select {
		case line, ok := <-cp.lines:
			if !ok {
				return nil, "died"
			}
			if strings.HasPrefix(line, "E ") {
				parts := strings.SplitN(line, " ", 3)
				if len(parts) == 3 {
					return json.RawMessage(parts[2]), ""
				}
			}
			// "B n" and any stray output are ignored
		case <-timer.C:
			return nil, "hang"
		}
	}
}

func runShard(cases []json.RawMessage, results []Result, s, e int, timeout time.Duration) {
	var cp *childProc
	defer func() {
		if cp != nil {
			cp.kill()
		}
	}()
	for i := s; i < e; i++ {
		if cp == nil {
			var err error
			cp, err = startChild()
			if err != nil {
				results[i] = Result{Crash: "spawn", Detail: err.Error()}
				continue
			}
		}
		res, st := cp.runOne(cases[i], timeout)
		if st == "" {
			results[i] = Result{Res: res}
			if cp.sawR.Load() {
				cp.kill()
				cp = nil
			}
			continue
		}
		if st == "died" && cp.sawR.Load() {
			// the child had asked for a restart after the previous case: not a crash, run this case again
			cp.kill()
			cp = nil
			i--
			continue
		}
		time.Sleep(50 * time.Millisecond) // let stderr drain
		detail := cp.stderr.String()
		cp.kill()
		cp = nil
		// reproduce alone, twice, with a generous bound
		repro, clean := 0, 0
		var lastDetail string
		var cleanRes json.RawMessage
		for k := 0; k < 2; k++ {
			c2, err := startChild()
			if err != nil {
				break
			}
			res2, st2 := c2.runOne(cases[i], 2*timeout)
			time.Sleep(50 * time.Millisecond)
			if st2 == st {
				repro++
				lastDetail = c2.stderr.String()
			} else if st2 == "" {
				clean++
				cleanRes = res2
			}
			c2.kill()
		}
		if lastDetail != "" {
			detail = lastDetail
		}
		if clean == 2 {
			// the case ran to its end twice when run alone: what happened the first time (a time limit missed on a
			// loaded machine, a child killed from outside) is not a property of the case; its result is the rerun's
			results[i] = Result{Res: cleanRes, Retried: st}
			continue
		}
		results[i] = Result{Crash: st, Detail: clip(detail, 6000), Frame: crashFrame(detail), Reproduced: repro == 2}
	}
}

func crashFrame(stderr string) string {
	// fatal errors ("stack overflow", "concurrent map writes") and uncaught goroutine panics
	return TopFrame(stderr)
}

func clip(s string, n int) string {
	if len(s) <= n {
		return s
	}
	return s[:n*3/4] + "\n...[cut]...\n" + s[len(s)-n/4:]
}
