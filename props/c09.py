"""C09 - self-description is faithful: describe, rebuild, describe is a fixed point.

spec/Meta.tla (the meta-schema transcribed as operators over description trees: Describe, MetaAccepts,
Norm/Rebuild, the link and first-use steps, transports), spec/MetaMC.tla (the universe of generated scopes
and plugin schemas; Describable, FixedPoint, SameBehaviour, MinimalSame on the model; vector export),
spec/MetaTrace.tla (seeded random schemas beyond the universe); harness/cmd/meta.

Verdicts come from real artefacts only: SelfSerialize succeeds, the real meta-schema accepts its output
directly / after real CBOR / after real YAML, describing the rebuilt schema gives the identical tree, the
rebuilt schema treats generated inputs like the original, the same through the real ATP hello.  Every
comparison with the model's description shape, the JSON transport and the minimal form are drift.
"""
import os
from vlib import common
from props import meta_common as M

SPECS = M.SPECS
PKGS = M.PKGS


def run(ctx):
    thorough = ctx.tier == "thorough"
    stats = {}
    ctx.rule = ("every description state of MetaMC (Mode=c09) is one generated scope or plugin schema: one property "
                "type variant (every kind x bounds/units/pattern/display/typed variants) x property attribute variant "
                "(required, required_if, required_if_not, conflicts, default, examples, disabled, display), struct-mapped "
                "and unenforced-ID roots, nested scopes, recursive and namespaced references, plugin schemas with "
                "outputs / signal handlers / emitters; distinct = distinct (schema AST); non-trivial = all; plus "
                "seeded random schemas, counted by seed shard")
    vec = os.path.join(ctx.tmp, "meta-c09-vectors.ndjson")
    r = ctx.tlc("MetaMC", "meta_c09_thorough.cfg" if thorough else "meta_c09_quick.cfg", workers=8,
                env={"VERIF_OUT": vec}, timeout=3000 if thorough else 300)
    ctx.log("MetaMC:", r)
    cases, vecs = M.read_vectors(ctx, vec, r, "c09")
    results = M.run_driver(ctx, cases, "c09")
    M.consume(ctx, cases, results, stats)
    ctx.traces += len(vecs)
    ctx.exhaustive = True
    for c in vecs[:1] + vecs[-1:]:
        ctx.sample(dict(mode="c09", target=c["target"], ast=c["ast"]))

    # code -> specification: seeded random schemas beyond the universe
    shards = 12 if thorough else 6
    count = 150 if thorough else 25
    rcases = [dict(mode="rand", what="c09", seed=ctx.seed * 1000 + i, count=count) for i in range(shards)]
    rres = M.run_driver(ctx, rcases, "c09-rand", case_timeout="90s")
    trace = M.consume(ctx, rcases, rres, stats)
    ctx.sample(rcases[0])
    M.validate_trace(ctx, trace, stats, "c09")
    ctx.extra["random_schemas"] = shards * count
    ctx.extra["meta"] = stats
    ctx.assumptions += [
        "generated schemas are well-formed: min <= max, size bounds >= 0, IDs within the meta-schema's idType, "
        "display texts non-empty, one-of members carry the discriminator field exactly when inlined, defaults are "
        "JSON texts (or bare strings for string properties), no default on a property referring back to its own object",
        "struct-mapped originals are compared with the (map-based) rebuilt schema on accept/reject only",
        "a reference to a foreign namespace is linked by the embedding side: the harness applies the same external "
        "table to the original and to the rebuilt scope before comparing them",
        "inputs on which the ORIGINAL schema panics are skipped (C04); schemas containing a cycle of single-property "
        "objects or of defaulted object-typed properties are not fed inputs (both exhaust the stack on Go-built schemas too)",
        "JSON is not named by the property: the description is carried with map keys turned into strings; "
        "differences found that way, in the minimal form, and against the model's Describe(s) are drift",
        "the model is the design the property demands (integer bounds of any sign, enum-keyed maps, typed variants "
        "and nil enum displays describable): IntBoundsNonNeg = FALSE, EnumKeys = TRUE",
    ]


def replay(ctx, rp):
    M.replay_case(ctx, rp, {})
