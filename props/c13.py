"""C13 - schemas are safe for concurrent use from their very first use.

spec/Instance.tla with 2..3 goroutine program counters over the lazy paths at memory-access granularity
(NoRace: the textbook definition; Isolated: every result = Pure), InstanceMC.tla (first-use schedules;
named deviations LazyUnsync / AliasDefaults / NoStepMutex exhibited on the model first), InstanceTrace.tla
(results of the concurrent calls); harness/cmd/instance built with -race (mode race).

TLA+ cannot observe Go memory accesses: the model supplies which operations 2..16 goroutines issue first on
which fresh / rebuilt instance and the results they must return; the Go race detector is the observation
instrument for "a data race occurs on the real code".  Violation: a race report (or a fatal concurrent map
access) whose both accesses lie in SDK code, on a schema value used as the statement allows; or a result that
differs from the same call made in isolation.
"""
import os, json, threading, random
from vlib import common
from props import instance_common as ic

SPECS = ["InstanceMC", "InstanceTrace"]
PKGS = ["./cmd/instance"]

DEV_PAR = {"AliasDefaults": {"race"}, "LazyUnsync": {"race", "history"}, "NoStepMutex": {"race", "initonce"},
           "SharedMarks": {"race", "history"}, "SharedInProgress": {"history"},
           "SharedError": {"race", "history"}, "HideRestore": {"race", "history", "input"},
           "MemoRootUnsync": {"race"}, "ReleaseOutsideLock": {"race"},
           "CacheEmptyUnsync": {"race", "history"}}
# kinds whose defects are steady-state (scratch state that must be per call): every goroutine repeats its calls
STEADY = {"chain", "compat2", "disabled", "oneof", "emptydef"}
NS = [2, 4, 8, 16]


def progs_of_witness(w):
    """the call each goroutine has in flight (or has just completed) in a witness state"""
    fl = w["inflight"]
    fl = list(fl.values()) if isinstance(fl, dict) else fl
    progs = []
    for g, f in enumerate(fl, start=1):
        if f["op"] != "none":
            progs.append([dict(op=f["op"], tok=f["arg"]["tok"], m=f["arg"]["m"], exp=[])])
            continue
        done = [ic.call_of(w["calls"][i]) for i, h in enumerate(w["hist"]) if h["g"] == g]
        if done:
            progs.append(done[-1:])
    return progs


def prog_key(progs):
    return tuple(sorted(tuple(ic.call_key(c) for c in p) for p in progs))


def make_cases(ctx, scheds, thorough):
    """schedules -> driver cases.  thorough: targeted schedules on every concrete kind of their (kind, origin) with
    2, 4, 8 and 16 goroutines, the others on two concrete kinds / goroutine counts rotating with the seed.  quick: targeted schedules on every concrete
    kind with 8 goroutines (and 2 on one kind); the others on one concrete kind and one goroutine count, both
    rotating with the seed."""
    cases, seen = [], set()
    idx = ctx.seed
    for kind, origin, progs, targeted, shared, tag in scheds:
        key = (kind, origin, shared, prog_key(progs))
        if key in seen:
            continue
        seen.add(key)
        cks = ic.CONCRETE.get((kind, origin), [])
        if not cks:
            continue
        idx += 1
        plan = []
        if thorough and targeted:
            plan = [(ck, n) for ck in cks for n in NS]
        elif thorough:
            plan = [(cks[idx % len(cks)], NS[idx % 4]), (cks[(idx + 1) % len(cks)], NS[(idx + 2) % 4])]
        elif targeted:
            plan = [(ck, 8) for ck in cks] + [(cks[idx % len(cks)], 2)]
        else:
            plan = [(cks[idx % len(cks)], NS[idx % 4])]
        glob = origin == "global"
        for ck, n in plan:
            steady = kind in STEADY or (kind == "steps" and origin == "plain")   # distinct runs, many per trial
            cases.append(dict(mode="race", kind=kind, ckind=ck, origin=origin, shared=shared, progs=progs, n=n, seed=ctx.seed,
                              iters=((300 if thorough else 150) if steady else 1),
                              trials=(3 if glob else ((4 if thorough else 3) if steady else (40 if thorough else 25))),
                              procs=((6 if thorough else 4) if glob else (2 if thorough and not steady else 1)),
                              targeted=targeted, stratum="%s/%s/%s/%s" % (kind, origin, "shared" if shared else "own", tag)))
    return cases


PER_CALL = {"oneof": 0.0006, "disabled": 0.0005, "chain": 0.0003, "compat2": 0.0004, "steps": 0.0004, "emptydef": 0.0003}   # steady-state kinds, seconds


def case_cost(c):
    """rough CPU seconds of one race case under the race detector, calibrated on measured per-kind times (a
    steady-state call 0.3-0.6 ms incl. snapshots and comparison, a first-use trial ~15 ms, a fresh process ~80 ms);
    only relative sizes matter"""
    calls = c["trials"] * c["n"] * c.get("iters", 1) * max(len(p) for p in c["progs"])
    return c["procs"] * (0.08 + c["trials"] * 0.015 + calls * PER_CALL.get(c["kind"], 0.0001))


def sample_cases(ctx, cases, budget, keep):
    """Deterministic (VERIF_SEED) stratified sample: strata = (kind, origin, shared / own input, model schedule or
    deviation-witness class).  Every stratum keeps its first `keep` cases (in the order of a seeded hash); the rest
    of the budget (estimated CPU seconds) is handed out round-robin over the strata, one case at a time."""
    strata = {}
    for c in cases:
        strata.setdefault(c.get("stratum", c["kind"]), []).append(c)
    for k in strata:
        strata[k].sort(key=lambda c: common.sha([c["ckind"], c["n"], [[x["op"], x["tok"]] for p in c["progs"] for x in p], ctx.seed]))
    chosen, spent = [], 0.0
    for k in sorted(strata):
        for c in strata[k][:keep]:
            chosen.append(c)
            spent += case_cost(c)
    level = keep
    while spent < budget:
        more = False
        for k in sorted(strata):
            if level < len(strata[k]) and spent < budget:
                chosen.append(strata[k][level])
                spent += case_cost(strata[k][level])
                more = True
        if not more:
            break
        level += 1
    return chosen, spent, {k: len(v) for k, v in strata.items()}


def run(ctx):
    thorough = ctx.tier == "thorough"
    ctx.rule = ("every terminal state of InstanceMC (2..3 goroutines, all interleavings of the memory-access steps of the "
                "lazy paths) is one first-use schedule: which calls the goroutines issue on which fresh / rebuilt / "
                "package-level instance; each is run on every concrete instance kind with 2..16 goroutines released from "
                "one barrier, a fresh instance (or fresh process, for package-level values) per trial, under the Go race "
                "detector; distinct = distinct (concrete kind, origin, calls, goroutines); non-trivial = all (every "
                "instance has units / defaults / sub-objects / step data); plus the witness schedules of each named "
                "deviation and the package-level meta-schemas used concurrently")
    build = {}

    def do_build():
        try:
            build["bin"] = ctx.gobuild("./cmd/instance", race=True)
        except Exception as e:      # noqa: BLE001 - re-raised in the main thread
            build["err"] = e
    th = threading.Thread(target=do_build)
    th.start()

    main = {}

    def do_main():
        try:
            if thorough:
                # three goroutines, one call each; and two goroutines, two calls each (second calls meet filled caches)
                r1, recs1 = ic.tlc_export(ctx, "instance_c13_thorough.cfg", "c13a", workers=8, timeout=3000)
                r2, recs2 = ic.tlc_export(ctx, "instance_c13_thorough2.cfg", "c13b", workers=8, timeout=3000)
                ctx.log("InstanceMC (C13, 3x1):", r1, " (2x2):", r2)
                main["r"] = (r2, recs1 + recs2)
            else:
                main["r"] = ic.tlc_export(ctx, "instance_c13_quick.cfg", "c13", workers=4, timeout=3000)
        except Exception as e:      # noqa: BLE001
            main["err"] = e
    tm = threading.Thread(target=do_main)
    tm.start()
    wit = ic.deviations(ctx, "instance_dev_par.cfg", DEV_PAR,
                        must_violate={"SharedMarks": ("instance_devv_par_iso.cfg", "Isolated"),
                                      "SharedInProgress": ("instance_devv_par_iso.cfg", "Isolated"),
                                      "SharedError": ("instance_devv_par_iso.cfg", "Isolated"),
                                      "HideRestore": ("instance_devv_par_iso.cfg", "Isolated"),
                                      "CacheEmptyUnsync": ("instance_devv_par_iso.cfg", "Isolated")})
    tm.join()
    th.join()
    for d in (main, build):
        if "err" in d:
            raise d["err"]
    r, recs = main["r"]
    ctx.log("InstanceMC (C13):", r, "terminal states:", len(recs))
    if not recs:
        raise common.Infra("InstanceMC exported no schedules")
    ctx.exhaustive = True
    drv = build["bin"]

    scheds = []
    cap = 40 if thorough else 6          # targeted schedules per (deviation, kind, origin)
    for dev in sorted(wit):
        taken = {}
        for w in wit[dev]:
            if w["what"] in ("race", "history", "initonce", "input"):
                p = progs_of_witness(w)
                if len(p) >= 2:
                    k = (w["kind"], w["origin"], bool(w.get("shared")))
                    keys = taken.setdefault(k, set())
                    pk = prog_key(p)
                    if pk in keys or len(keys) >= cap:
                        continue
                    keys.add(pk)
                    scheds.append((w["kind"], w["origin"], p, True, bool(w.get("shared")), "%s:%s" % (dev, w["what"])))
    ntarget = len({(k, o, sh, prog_key(p)) for k, o, p, _, sh, _t in scheds})
    for rec in recs:
        sched = rec["sched"]
        sched = list(sched.values()) if isinstance(sched, dict) else sched
        scheds.append((rec["kind"], rec["origin"], [[ic.call_of(e) for e in seq] for seq in sched], False,
                       bool(rec.get("shared")), "model"))
    cases = make_cases(ctx, scheds, thorough)
    # the package-level meta-schemas: describing and rebuilding concurrently (beyond the model: detector only)
    cases += [dict(mode="race", kind="meta", ckind="meta", origin="fresh", progs=[[dict(op="describe_rebuild", tok="-", m=None, exp=[])]],
                   n=n, trials=(40 if thorough else 8), procs=(4 if thorough else 2), seed=ctx.seed, targeted=False) for n in (2, 8, 16)]
    # cap the race workload: a deterministic stratified sample keeps the tier within its budget
    generated = len(cases)
    budget = 7500.0 if thorough else 330.0      # estimated CPU seconds of the race driver
    cases, spent, strata = sample_cases(ctx, cases, budget, keep=(10 if thorough else 4))
    ctx.extra.update(cases_generated=generated, cases_run=len(cases), strata=len(strata),
                     sampling_rule="strata = (kind, origin, shared/own input, model schedule | deviation:witness class); every "
                                   "stratum keeps its first %d cases in the order of a hash seeded by VERIF_SEED, the rest of an "
                                   "estimated budget of %d CPU-seconds is handed out round-robin over the strata" % (
                                       10 if thorough else 4, budget),
                     estimated_cost_s=round(spent))
    ctx.log("race cases: %d generated in %d strata, %d run (estimated %.0f CPU-s)" % (generated, len(strata), len(cases), spent))
    # the driver hands contiguous shards to its worker processes: spread the long (steady-state) cases
    random.Random(ctx.seed).shuffle(cases)
    ctx.log("schedules: %d distinct (%d from deviation witnesses) -> %d cases" % (
        len({(k, o, sh, prog_key(p)) for k, o, p, _, sh, _t in scheds}), ntarget, len(cases)))

    ic.consume(ctx, [dict(mode="bind")], ic.run_driver(ctx, drv, [dict(mode="bind")], "bind", jobs=1, env={"GORACE": "atexit_sleep_ms=0"}), need_race=True)
    results = ic.run_driver_chunked(ctx, drv, cases, "race", case_cost, jobs=min(14, common.NCPU),
                                    env={"GOMAXPROCS": "4", "GORACE": "atexit_sleep_ms=0"})
    trace = ic.consume(ctx, cases, results, need_race=True)
    ctx.traces += len(cases)
    trials = sum(x["res"].get("trials", 0) for x in results)
    procs = sum(x["res"].get("procs", 0) for x in results)
    reports = sum(x["res"].get("reports", 0) for x in results)
    by_kind = {}
    for c, x in zip(cases, results):
        k = "%s/%s" % (c["kind"], c["origin"])
        by_kind[k] = round(by_kind.get(k, 0) + x["res"].get("wall_ms", 0) / 1000.0, 1)
    ctx.extra["case_seconds_by_kind"] = by_kind
    ctx.extra.update(trials=trials, fresh_processes=procs, race_reports=reports, model_variant=ic.DESIGN)
    ctx.log("trials: %d in %d fresh processes; race reports: %d" % (trials, procs, reports))
    for c in cases[:3] + cases[-2:]:
        ctx.sample(dict(ckind=c["ckind"], origin=c["origin"], n=c["n"], progs=[[x["op"] + ":" + x["tok"] for x in p] for p in c["progs"]]))

    acc = ic.validate_trace(ctx, trace, "c13", concurrent=True)
    ctx.traces += acc
    ctx.log("results of concurrent calls: %d lines, %d accepted by InstanceTrace" % (len(trace), acc))

    observed = {v[0].get("location") for v in ctx.violations} | {e[0]["match"].get("location") for e in ctx.known_hits.values()}
    for dev, loc in (("LazyUnsync", "unit_cache"), ("LazyUnsync", "defaults_cache"), ("AliasDefaults", "shared_default_map"),
                     ("NoStepMutex", "step_table")):
        if ic.DESIGN[dev] != (loc in observed):
            ctx.note_drift("props/instance_common.DESIGN[%s]=%s but the race detector %s report '%s'" % (
                dev, ic.DESIGN[dev], "did" if loc in observed else "did not", loc))
    ctx.assumptions += [
        "the Go race detector is the observation instrument for data races (happens-before based, no false positives; "
        "it sees only the interleavings that occur: trials x goroutines x fresh instances make first-use races likely, not certain)",
        "the model has 2..3 goroutines (a race is a pairwise notion); the harness scales each schedule to 2..16 goroutines round-robin",
        "a report counts only if BOTH accesses have an SDK frame above any harness frame; anything else is a harness race (exit 2)",
        "race reports are grouped by the shared state their SDK functions touch (table in harness/cmd/instance/racelog.go); "
        "an unknown function pair is its own signature",
        "package-level values (unit definitions) can be used for the first time once per process: one fresh process per trial group",
        "Format* of a unit definition is treated as use of a package-level unit definition although the statement lists schema operations",
    ]


def replay(ctx, rp):
    drv = ctx.gobuild("./cmd/instance", race=True)
    rpl = rp["replay"]
    case = rpl.get("case")
    if case is None:
        raise common.Infra("replay file has no case")
    if case.get("mode") == "race":
        case = dict(case, trials=max(case.get("trials", 1), 3 if case["origin"] == "global" else 200),
                    procs=max(case.get("procs", 1), 12 if case["origin"] == "global" else 2))
    results = ic.run_driver(ctx, drv, [case], "replay", jobs=1, timeout=1500, env={"GOMAXPROCS": "4", "GORACE": "atexit_sleep_ms=0"})
    trace = ic.consume(ctx, [case], results, need_race=True)
    ic.validate_trace(ctx, trace, "replay", concurrent=True)
    ctx.traces += 1
    ctx.sample(case)
    ctx.rule = "replay of one recorded first-use schedule under the race detector"
