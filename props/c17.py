"""C17 - A rejection names the offending element: the error path leads to the bad field.

spec/ErrPath.tla builds, inside out, every case (leaf kind x fault kind) wrapped in <= 2 (thorough: 3)
containers - list, map, map-based object, one-of member, struct-mapped object - as a schema with a valid input,
the same input with a SINGLE fault (raw form for Unserialize, native form for Validate) and the expected path =
the property names, list indices and map keys from the root to the element.  TLC checks on the model that the
valid input is accepted and the single fault rejected (SingleFaultRejected) and exports the vectors
(SchemaMC mode c17).  The harness runs the real Unserialize / Validate: errors.As(err, *ConstraintError) must
succeed and its Path, after removing segment decoration ([i], {k}, [k]) and one-of annotation segments, must
equal the expected path; for an undeclared key: the object's path, optionally followed by the key, and the
message names the key.

Verdict rule: VIOLATION for a rejection that is no constraint error or whose path is wrong.  A PANIC while
a path vector is evaluated is a violation as well (divergence=panic, with the SDK frame): no error, no path.  Not C17:
the valid input rejected / the faulty input accepted (C02 / C03), error wording.
"""
import os, json
from vlib import common
from props import c02 as base

SPECS = ["SchemaMC"]
PKGS = ["./cmd/schema"]

STATEMENT = ("When Unserialize or Validate rejects a value because of exactly one offending element - a leaf of the wrong type or "
             "out of bounds, an undeclared key, or a property whose presence rule is violated - the returned error identifies that "
             "element: it is a constraint error whose path is the sequence of property names, list indices and map keys leading "
             "from the root to the element, so that a workflow author can find the field from the message alone.")


def sig_c17(sig):
    out = dict(op=sig.get("op"), kind_at_fault=sig.get("kind_at_fault"), arg_class=sig.get("arg_class"),
               divergence=sig.get("divergence"), lost_at=sig.get("lost_at", ""))
    if sig.get("divergence") == "panic":
        out["frame"] = sig.get("frame", "")
    return out


def consume_c17(ctx, lines, results):
    owned = ctx.extra.setdefault("observed_but_owned_by_other_properties", {})
    for line, res in zip(lines, results):
        r = base.check_res(line, res)
        if r is None:
            owned["crash:" + res["crash"]] = owned.get("crash:" + res["crash"], 0) + 1
            continue
        base.account(ctx, r)
        for m in r.get("mismatches", []):
            sig = m["sig"]
            div = sig.get("divergence")
            # a panic while rejecting the single fault is the strongest way of not naming the element: the caller gets no
            # error at all (C04 reports the same crash from its own universe; here it is a violation of C17 too)
            if div in ("not_constraint_error", "path", "panic"):
                payload = base.replay_payload(base.parse_case(line), m)
                payload["statement"] = STATEMENT
                ctx.violation(sig_c17(sig), payload)
            else:
                k = "%s:%s/%s" % (div, sig.get("op"), sig.get("kind_at_fault"))
                owned[k] = owned.get(k, 0) + 1


def run(ctx):
    thorough = ctx.tier == "thorough"
    ctx.rule = ("every state of SchemaMC (mode c17) is one single-fault vector: 37 leaf cases (int / string / float / bool / enums / "
                "pattern / any / list / object x wrong type, below min, above max, pattern miss, not in enum, bad pattern, extra key, "
                "missing required, conflicts, required_if, required_if_not) x every sequence of <= 2 (thorough 3) containers out of "
                "list, map, object, one-of, struct x Unserialize (raw fault) / Validate (native fault); distinct = distinct (schema "
                "shape, op, fault kind, expected path)")
    base.bind_checks(ctx)
    path, lines, r = base.enumerate_vectors(ctx, "schema_c17_thorough.cfg" if thorough else "schema_c17_quick.cfg", "c17", timeout=3000)
    results = base.run_driver(ctx, path, "c17")
    if len(results) != len(lines):
        raise common.Infra("driver returned %d results for %d vectors" % (len(results), len(lines)))
    consume_c17(ctx, lines, results)
    ctx.traces += len(lines)
    ctx.exhaustive = True
    for i in (0, len(lines) // 2, len(lines) - 1):
        ctx.sample(base.parse_case(lines[i]))
    ctx.assumptions += [
        "segment decoration is normalised: '[i]' -> i, '{k}' / '[k]' -> k; one-of annotation segments '{oneof[k]}' are dropped",
        "undeclared key: the path of the containing object, optionally followed by the key; the message must contain the key",
        "a violated presence rule is reported at the property that carries the rule",
        "struct-mapped objects are not placed below a one-of (a one-of validates map-based member data with the compatibility "
        "rules first, which reject struct values - observed, owned by C03/C01)",
        "the single-property inline shorthand and defaults are not part of the path universe",
    ]


def replay(ctx, rp):
    case = rp["replay"].get("case")
    if case is None:
        raise common.Infra("replay file has no case")
    path = os.path.join(ctx.tmp, "replay.ndjson")
    common.write_ndjson(path, [case])
    results = base.run_driver(ctx, path, "replay", jobs=1)
    consume_c17(ctx, [json.dumps(case)], results)
    ctx.traces += 1
    ctx.sample(case)
    ctx.rule = "replay of one recorded vector"
