"""Shared orchestration of C09 and C10 (spec/Meta.tla, MetaMC.tla, MetaTrace.tla; harness/cmd/meta)."""
import os, json, re
from vlib import common

SPECS = ["MetaMC", "MetaTrace"]
PKGS = ["./cmd/meta"]

# number of states that follow a description state in MetaMC (accept -> link -> use), by outcome
FOLLOW = {"accept": 1, "link": 2, "first_use": 3, "usable": 3}


def run_driver(ctx, cases, name, jobs=None, timeout=1500, case_timeout="8s"):
    drv = ctx.gobuild("./cmd/meta")
    inp = os.path.join(ctx.tmp, "%s-in.ndjson" % name)
    out = os.path.join(ctx.tmp, "%s-out.ndjson" % name)
    common.write_ndjson(inp, cases)
    state = os.path.join(ctx.tmp, "%s-state" % name)     # crash-class budget shared by the workers (budget.go)
    os.makedirs(state, exist_ok=True)
    ctx.run([drv, "-in", inp, "-out", out, "-j", str(jobs or min(12, common.NCPU)), "-case-timeout", case_timeout,
             "-state", state], timeout=timeout)
    results = common.read_ndjson(out)
    if len(results) != len(cases):
        raise common.Infra("driver returned %d results for %d cases" % (len(results), len(cases)))
    return results


def cycle_frame(detail, default):
    """For a stack exhaustion the frame on top is wherever the stack happened to run out; the defect is the
    cycle: the first SDK function that occurs twice in the (head of the) goroutine dump."""
    seen = []
    for line in detail.splitlines():
        if not line.startswith("go.flow.arcalot.io/pluginsdk/"):
            continue
        fn = line[len("go.flow.arcalot.io/pluginsdk/"):]
        depth = 0
        cut = len(fn)
        for i in range(len(fn) - 1, -1, -1):        # cut the argument list: the parenthesis matching the last one
            if fn[i] == ")":
                depth += 1
            elif fn[i] == "(":
                depth -= 1
                if depth == 0:
                    cut = i
                    break
        fn = re.sub(r"\[[^\]]*\]", "", fn[:cut])
        if fn in seen:
            return "cycle:" + fn
        seen.append(fn)
    return default


def mutation_class(sig):
    m = sig.get("mutation", "none")
    if "+" in m:
        sig["mutation"] = "multiple"
    return sig


def consume(ctx, cases, results, stats):
    """Turn driver results into verdicts; returns the trace lines the driver recorded."""
    trace = []
    for case, res in zip(cases, results):
        if res.get("crash"):
            if not res.get("reproduced"):
                raise common.Infra("unreproduced worker %s on case %s" % (res["crash"], json.dumps(case)[:400]))
            # the worker died (fatal error, e.g. stack exhaustion) or hung on this case: nothing a
            # description or a generated schema may cause
            # "hang": an operation on the loaded schema did not return within the per-case bound (confirmed by two
            # reruns with twice the bound); "died": fatal error - stack exhaustion of a runaway recursion is named
            # as such, with the topmost SDK frame
            labels = case.get("labels") or []
            mut = "multiple" if len(labels) > 1 else (labels[0] if labels else
                                                       ("grammar_free" if case.get("grammar_free") else "none"))
            detail = res.get("detail", "")
            kind = "hang" if res["crash"] == "hang" else ("stack_overflow" if "stack overflow" in detail else "fatal")
            frame = res.get("frame", "")
            if kind == "stack_overflow":
                frame = cycle_frame(detail, frame)
            ctx.violation(dict(stage="first_use", kind=kind, mutation=mut, via="any", frame=frame),
                          dict(case=case, crash=res["crash"], detail=res.get("detail", "")[:3000]))
            continue
        r = res["res"]
        if r.get("skipped"):
            stats["skipped_crash_class_over_limit"] = stats.get("skipped_crash_class_over_limit", 0) + 1
            continue
        if r.get("harness_error") or r.get("harness_panic"):
            raise common.Infra("harness failure on %s: %s" % (json.dumps(case)[:300], r))
        if r.get("bind_error"):
            raise common.Infra("binding table out of date: " + r["bind_error"])
        ctx.evaluations += r.get("evals", 0)
        stats["unabstracted"] = stats.get("unabstracted", 0) + r.get("unabstracted", 0)
        if r.get("key"):
            ctx.distinct.add("%s/%s" % (r["key"], common.sha(case.get("ast") or case.get("desc") or case.get("seed"))))
        for v in r.get("violations", []):
            sig = mutation_class(dict(v["sig"]))
            rc = v.get("case") or case
            ctx.violation(sig, dict(case=rc, detail=v.get("detail", "")))
        for d in r.get("drift", []):
            stats.setdefault("drift_counts", {})
            stats["drift_counts"][d["what"]] = stats["drift_counts"].get(d["what"], 0) + 1
            if stats["drift_counts"][d["what"]] == 1:
                ctx.note_drift(d["what"], d.get("detail"))
        trace.extend(r.get("trace", []))
    return trace


def read_export(path):
    """Read what MetaMC exported: short records as one JSON line each, vectors in pieces
    <fp1>#<fp2>#<k>#<n>#"<piece>" (see MetaMC!EmitV) that are put together again here.  Anything that does not
    parse is an infrastructure failure, reported with the line and its length (a line of 8192 bytes or more can be
    torn by concurrent appends of TLC's workers)."""
    whole, pieces, order = [], {}, []
    with open(path, encoding="utf-8") as f:
        for no, line in enumerate(f, 1):
            line = line.rstrip("\n")
            if not line.strip():
                continue
            if len(line.encode("utf-8")) >= 8192:
                raise common.Infra("export line %d of %s is %d bytes long: lines of 8192 bytes or more are not written "
                                   "atomically by concurrent TLC workers" % (no, os.path.basename(path), len(line)))
            try:
                if line[0] in "-0123456789" and line.count("#") >= 4:
                    a, b, k, n, rest = line.split("#", 4)
                    key = (a, b)
                    if key not in pieces:
                        pieces[key] = {}
                        order.append(key)
                    k, n = int(k), int(n)
                    piece = json.loads(rest)
                    if k in pieces[key]:
                        # two distinct states may export the same record (the same tree reached from two bases):
                        # the pieces are then identical, and the vector counts as often as it was written
                        if pieces[key][k][:2] != (n, piece):
                            raise ValueError("piece %d of vector %s/%s occurs twice with different content" % (k, a, b))
                        pieces[key][k] = (n, piece, pieces[key][k][2] + 1)
                    else:
                        pieces[key][k] = (n, piece, 1)
                else:
                    v = json.loads(line)
                    if isinstance(v, str):
                        v = json.loads(v)
                    whole.append(v)
            except ValueError as e:
                raise common.Infra("export line %d of %s (%d bytes) cannot be parsed: %s; starts %r"
                                   % (no, os.path.basename(path), len(line), e, line[:120]))
    for key in order:
        p = pieces[key]
        n = next(iter(p.values()))[0]
        if sorted(p) != list(range(1, n + 1)):
            raise common.Infra("vector %s/%s of %s is incomplete: pieces %s of %d" % (key[0], key[1], os.path.basename(path), sorted(p), n))
        times = p[1][2]
        if any(p[k][2] != times for k in p):
            raise common.Infra("vector %s/%s of %s: pieces written %s times" % (key[0], key[1], os.path.basename(path),
                                                                                 [p[k][2] for k in sorted(p)]))
        text = "".join(p[k][1] for k in range(1, n + 1))
        try:
            whole.extend([json.loads(text)] * times)
        except ValueError as e:
            raise common.Infra("vector %s/%s of %s (%d characters) cannot be parsed: %s" % (key[0], key[1], os.path.basename(path), len(text), e))
    return whole


def read_vectors(ctx, path, tlc, mode):
    cases = read_export(path)
    binds = [c for c in cases if c.get("mode") == "bind"]
    vecs = [c for c in cases if c.get("mode") == mode]
    picks = sum(1 for c in cases if c.get("mode") == "pick")   # intermediate "node picked" states
    if len(binds) != 1 or len(binds) + len(vecs) + picks != len(cases):
        raise common.Infra("vector file has %d lines: %d bind, %d %s" % (len(cases), len(binds), len(vecs), mode))
    if mode == "c09":
        expect = 1 + 4 * len(vecs)
    else:
        expect = 1 + picks + sum(1 + FOLLOW[v["stage"]] for v in vecs)
    if expect != tlc.distinct:
        raise common.Infra("TLC found %d distinct states but the %d exported vectors account for %d"
                           % (tlc.distinct, len(vecs), expect))
    return binds + vecs, vecs


def validate_trace(ctx, trace, stats, label):
    """Code -> specification: every recorded line must be accepted by MetaTrace.  A rejected line means the
    model's description shape / acceptance / link / first-use operators disagree with the code about a case
    in which the property itself held: drift (the property does not fix those details)."""
    if not trace:
        return
    tpath = os.path.join(ctx.tmp, "%s-trace.ndjson" % label)
    common.write_ndjson(tpath, trace)
    tr = ctx.tlc("MetaTrace", "meta_trace.cfg", workers=1, env={"VERIF_TRACE": tpath}, timeout=900,
                 allow_violation=True)
    if tr.violated is None:
        if tr.distinct != len(trace) + 1:
            raise common.Infra("MetaTrace consumed %d of %d lines" % (tr.distinct - 1, len(trace)))
        ctx.traces += len(trace)
        ctx.sample(dict(trace_line={k: v for k, v in trace[0].items() if k != "ast"}))
        return
    # judge every line
    dpath = os.path.join(ctx.tmp, "%s-diag.ndjson" % label)
    dg = ctx.tlc("MetaTrace", "meta_trace_diag.cfg", workers=1, env={"VERIF_TRACE": tpath, "VERIF_OUT": dpath},
                 timeout=900)
    if dg.distinct != len(trace) + 1:
        raise common.Infra("MetaTrace (diagnosis) consumed %d of %d lines" % (dg.distinct - 1, len(trace)))
    rows = common.read_ndjson(dpath)
    bad = [r for r in rows if not r["ok"]]
    ctx.traces += len(rows) - len(bad)
    stats["trace_rejected"] = stats.get("trace_rejected", 0) + len(bad)
    seen = set()
    for r in bad:
        line = trace[r["line"] - 1]
        which = ",".join(k for k in ("desc", "acc", "use") if not r["verdict"][k])
        key = "trace:%s:%s:model=%s" % (line["ev"], which, r.get("cause"))
        if key in seen:
            continue
        seen.add(key)
        ctx.note_drift(key, dict(expected=r["exp"], logged={k: line[k] for k in ("acc", "link", "use")},
                                 labels=line.get("labels"), desc=json.dumps(line["desc"])[:1500]))


def replay_case(ctx, rp, stats):
    case = rp["replay"].get("case")
    if case is None:
        raise common.Infra("replay file has no case")
    results = run_driver(ctx, [case], "replay", jobs=1)
    consume(ctx, [case], results, stats)
    ctx.sample({k: v for k, v in case.items() if k in ("mode", "target", "labels", "stage", "cause", "what", "seed")})
    ctx.rule = "replay of one recorded vector"
